#!/usr/bin/env python3
"""Writer of the *statements* of lean/TfelVerif/C06/PropsX{12,3a,3b,3c}.lean (helpers of T2toST2/t2tost2.ixx and
st2tost2::stpd added by the mutation audit). Same role and conventions as mkprops.py: bin/check never runs
this script; the Props files are fixed, hand-maintained sources afterwards.

usage: mkprops2.py <trace.dag> <outdir>
"""
import os
import sys

sys.path.insert(0, os.path.dirname(os.path.abspath(__file__)))
sys.path.insert(0, os.path.join(os.path.dirname(os.path.abspath(__file__)), "..", "symtrace"))
import emit  # noqa: E402
from mkprops import W, SD, TD, hs, lst, HEAD  # noqa: E402


def build(units):
    w = W(units)
    for N in (1, 2, 3):
        d = "N%d_" % N
        key = "X12" if N < 3 else None
        S, T = SD[N], TD[N]
        s = ["s%d" % i for i in range(S)]
        F = ["F%d" % i for i in range(T)]
        G = ["G%d" % i for i in range(T)]
        h = hs(T)
        # ---- Kirchhoff stress derivative from the Cauchy stress derivative
        ds = [["ds%d%d" % (i, j) for j in range(T)] for i in range(S)]
        w.theorem(key or "X3a", d + "dkirch",
                  "`computeKirchhoffStressDerivativeFromCauchyStressDerivative(ds, s, F)` is the derivative with respect to `F` of the "
                  "Kirchhoff stress `det(F) * s(F)` when `ds` is the derivative of the Cauchy stress `s`",
                  sum(ds, []) + s + F + h, "",
                  [(s[i], "dot %s %s" % (lst(ds[i]), lst(h))) for i in range(S)] + [(a, b) for a, b in zip(F, h)],
                  d + "kirch", d + "dkirch", sum(ds, []) + s + F, S, h, real=False)
        # ---- Cauchy stress derivative from the Kirchhoff stress derivative
        dt = [["dt%d%d" % (i, j) for j in range(T)] for i in range(S)]
        tau = ["(Gen.%skirch_r%d c c3 fn %s %s)" % (d, i, " ".join(s), " ".join(F)) for i in range(S)]
        hyp = {1: " (hF0 : F0 ≠ 0) (hF1 : F1 ≠ 0) (hF2 : F2 ≠ 0)",
               2: " (hJ : Gen.N2_dcauchy_den0 c c3 fn %s ≠ 0)" % " ".join(sum(dt, []) + s + F),
               3: " (hJ : Gen.N3_dcauchy_den0 c c3 fn %s ≠ 0)" % " ".join(sum(dt, []) + s + F)}[N]
        w.theorem(key or "X3a", d + "dcauchy",
                  "`computeCauchyStressDerivativeFromKirchhoffStressDerivative(dt, s, F)` is the derivative with respect to `F` of the "
                  "Cauchy stress `tau(F) / det(F)` when `dt` is the derivative of the Kirchhoff stress `tau` and `tau = det(F) * s` at the "
                  "point considered (`hJ`: the traced divisor `det(F)` of the helper is not zero)",
                  sum(dt, []) + s + F + h, hyp,
                  [(tau[i], "dot %s %s" % (lst(dt[i]), lst(h))) for i in range(S)] + [(a, b) for a, b in zip(F, h)],
                  d + "cauchy", d + "dcauchy", sum(dt, []) + s + F, S, h,
                  tactic="dual_eq_den hc with hJ" if N > 1 else "dual_eq_den1 hc", real=False)
        # ---- push-forward
        Sx = ["S%d" % i for i in range(S)]
        K = [["K%d%d" % (i, j) for j in range(T)] for i in range(S)]
        w.theorem(key or "X3b", d + "dpf",
                  "`computePushForwardDerivative(K, S, F)` is the derivative with respect to `F` of the push-forward "
                  "`push_forward(S(F), F) = F S Fᵀ` when `K` is the derivative of `S`",
                  sum(K, []) + Sx + F + h, "",
                  [(Sx[i], "dot %s %s" % (lst(K[i]), lst(h))) for i in range(S)] + [(a, b) for a, b in zip(F, h)],
                  d + "pf", d + "dpf", sum(K, []) + Sx + F, S, h, real=False)
        # ---- rate of deformation
        hyp = {1: " (hF0 : F0 ≠ 0) (hF1 : F1 ≠ 0) (hF2 : F2 ≠ 0)",
               2: " (hJ : Gen.N2_drod_den0 c c3 fn %s ≠ 0) (hF2 : F2 ≠ 0)" % " ".join(F),
               3: " (hJ : Gen.N3_drod_den0 c c3 fn %s ≠ 0)" % " ".join(F)}[N]
        w.theorem(key or "X3c", d + "drod",
                  "`computeRateOfDeformationDerivative(F)` is the derivative with respect to the deformation gradient rate `G` of the rate of "
                  "deformation `syme(G * invert(F))` (linear in `G`; `hJ`: the traced divisor of `invert(F)` is not zero)",
                  G + F + h, hyp,
                  [(a, b) for a, b in zip(G, h)] + [(a, None) for a in F],
                  d + "rod", d + "drod", F, S, h,
                  tactic="dual_eq_den hc with hJ" if N > 1 else "dual_eq_den1 hc", real=False)
        # ---- symmetric product
        a = ["a%d" % i for i in range(S)]
        hS = hs(S)
        w.theorem(key or "X3c", d + "stpd",
                  "`st2tost2::stpd(s)` is the derivative with respect to `a` of `a*s + s*a = 2 * symmetric_product(a, s)`",
                  a + s + hS, "",
                  [(x, e) for x, e in zip(a, hS)] + [(x, None) for x in s],
                  d + "sp2", d + "stpd", s, S, hS, real=False)
    return w


def main():
    units = emit.parse(open(sys.argv[1]).read())
    out = sys.argv[2]
    w = build(units)
    files = {
        "X12": ("PropsX12", "Part 6 (1D, 2D): Kirchhoff/Cauchy stress derivative conversions, push-forward derivative, rate of deformation derivative (T2toST2/t2tost2.ixx), st2tost2::stpd.", ["GenX12"]),
        "X3a": ("PropsX3a", "Part 6 (3D): Kirchhoff/Cauchy stress derivative conversions (T2toST2/t2tost2.ixx).", ["GenX3a"]),
        "X3b": ("PropsX3b", "Part 6 (3D): push-forward derivative (T2toST2/t2tost2.ixx).", ["GenX3b"]),
        "X3c": ("PropsX3c", "Part 6 (3D): rate of deformation derivative (T2toST2/t2tost2.ixx), st2tost2::stpd.", ["GenX3c"]),
    }
    for key, (mod, what, gens) in files.items():
        with open(os.path.join(out, mod + ".lean"), "w") as f:
            f.write(HEAD % {"what": what})
            f.write("import TfelVerif.Common.Mandel\nimport TfelVerif.C06.Lemmas\n")
            for g in gens:
                f.write("import TfelVerif.C06.%s\n" % g)
            f.write("\nnamespace TfelVerif.C06.%s\nopen TfelVerif TfelVerif.Mandel TfelVerif.C06\n" % mod)
            f.write("set_option linter.unusedVariables false\nset_option linter.unusedSectionVars false\nset_option maxRecDepth 100000\n\n")
            f.write("variable {K : Type} [Field K] [CharZero K] (c c3 : K) (fn : Fns K)\n\n")
            f.write("\n".join(w.alg[key]))
            f.write("\nend TfelVerif.C06.%s\n" % mod)


if __name__ == "__main__":
    main()
