// T1 tracer for C06: closed-form derivative helpers and the functions they differentiate.
// Every unit instantiates the REAL TFEL template with the recording scalar verif::Sym.
// Naming: N<d>_<f> is a function, N<d>_<d...> the helper documented as its derivative.
#include "tracehelp.hxx"
// glue.hxx (shared) has no result type for the unary minus of a Sym; `dn1_ds = -dn0_ds` in
// StensorComputeEigenTensorsDerivatives<2u> needs it (same rule as for the built-in reals)
namespace tfel::math {
  template <>
  struct ComputeUnaryOperationResult<ScalarTag, UnaryOperatorTag, verif::Sym, OpNeg> {
    using type = verif::Sym;
  };
}  // namespace tfel::math
#include "TFEL/Math/stensor.hxx"
#include "TFEL/Math/tensor.hxx"
#include "TFEL/Math/st2tost2.hxx"
#include "TFEL/Math/t2tost2.hxx"
#include "TFEL/Math/t2tot2.hxx"
#include "TFEL/Math/tmatrix.hxx"
#include "TFEL/Math/tvector.hxx"
#include "TFEL/Math/T2toT2/ConvertToPK1Derivative.hxx"
#include "TFEL/Math/T2toT2/ConvertFromPK1Derivative.hxx"

using namespace tfel::math;
using verif::Sym;
using verif::Unit;

template <unsigned short N>
void trace_dim() {
  constexpr int S = StensorDimeToSize<N>::value;
  constexpr int T = TensorDimeToSize<N>::value;
  const std::string d = "N" + std::to_string(N) + "_";
  // ---------------------------------------------------------------- stensor determinant
  {
    Unit u(d + "st_det");
    stensor<N, Sym> s;
    verif::fill_inputs(s, "s", S);
    verif::output("r", det(s));
  }
  {
    Unit u(d + "st_ddet");
    stensor<N, Sym> s;
    verif::fill_inputs(s, "s", S);
    const stensor<N, Sym> r = computeDeterminantDerivative(s);
    verif::outputs("r", r, S);
  }
  {
    Unit u(d + "st_d2det");
    stensor<N, Sym> s;
    verif::fill_inputs(s, "s", S);
    const st2tost2<N, Sym> r = computeDeterminantSecondDerivative(s);
    verif::outputs2("r", r, S, S);
  }
  // ---------------------------------------------------------------- determinant of the deviator
  {
    Unit u(d + "st_devdet");
    stensor<N, Sym> s;
    verif::fill_inputs(s, "s", S);
    verif::output("r", det(deviator(s)));
  }
  {
    Unit u(d + "st_ddevdet");
    stensor<N, Sym> s;
    verif::fill_inputs(s, "s", S);
    const stensor<N, Sym> r = computeDeviatorDeterminantDerivative(s);
    verif::outputs("r", r, S);
  }
  {
    Unit u(d + "st_d2devdet");
    stensor<N, Sym> s;
    verif::fill_inputs(s, "s", S);
    const st2tost2<N, Sym> r = computeDeviatorDeterminantSecondDerivative(s);
    verif::outputs2("r", r, S, S);
  }
  // ---------------------------------------------------------------- square of a symmetric tensor
  {
    Unit u(d + "st_square");
    stensor<N, Sym> s;
    verif::fill_inputs(s, "s", S);
    const stensor<N, Sym> r = square(s);
    verif::outputs("r", r, S);
  }
  {
    Unit u(d + "st_dsquare");
    stensor<N, Sym> s;
    verif::fill_inputs(s, "s", S);
    const st2tost2<N, Sym> r = st2tost2<N, Sym>::dsquare(s);
    verif::outputs2("r", r, S, S);
  }
  {
    Unit u(d + "st_dsquareC");
    stensor<N, Sym> s;
    verif::fill_inputs(s, "s", S);
    st2tost2<N, Sym> C;
    verif::fill_inputs2(C, "C", S, S);
    const st2tost2<N, Sym> r = st2tost2<N, Sym>::dsquare(s, C);
    verif::outputs2("r", r, S, S);
  }
  // ---------------------------------------------------------------- Cauchy-Green, Green-Lagrange
  {
    Unit u(d + "t_C");
    tensor<N, Sym> F;
    verif::fill_inputs(F, "F", T);
    const stensor<N, Sym> r = computeRightCauchyGreenTensor(F);
    verif::outputs("r", r, S);
  }
  {
    Unit u(d + "t_dCdF");
    tensor<N, Sym> F;
    verif::fill_inputs(F, "F", T);
    const t2tost2<N, Sym> r = t2tost2<N, Sym>::dCdF(F);
    verif::outputs2("r", r, S, T);
  }
  {
    Unit u(d + "t_B");
    tensor<N, Sym> F;
    verif::fill_inputs(F, "F", T);
    const stensor<N, Sym> r = computeLeftCauchyGreenTensor(F);
    verif::outputs("r", r, S);
  }
  {
    Unit u(d + "t_dBdF");
    tensor<N, Sym> F;
    verif::fill_inputs(F, "F", T);
    const t2tost2<N, Sym> r = t2tost2<N, Sym>::dBdF(F);
    verif::outputs2("r", r, S, T);
  }
  {
    Unit u(d + "t_GL");
    tensor<N, Sym> F;
    verif::fill_inputs(F, "F", T);
    const stensor<N, Sym> r = computeGreenLagrangeTensor(F);
    verif::outputs("r", r, S);
  }
  {
    // the Green-Lagrange derivative as the library itself builds it
    // (ConvertToPK1Derivative.ixx: `eval(t2tost2<N, real>::dCdF(F) / 2)`)
    Unit u(d + "t_dGLdF");
    tensor<N, Sym> F;
    verif::fill_inputs(F, "F", T);
    const t2tost2<N, Sym> r = eval(t2tost2<N, Sym>::dCdF(F) / 2);
    verif::outputs2("r", r, S, T);
  }
  // ---------------------------------------------------------------- tensor product
  {
    Unit u(d + "t_prod");
    tensor<N, Sym> A, B;
    verif::fill_inputs(A, "A", T);
    verif::fill_inputs(B, "B", T);
    const tensor<N, Sym> r = A * B;
    verif::outputs("r", r, T);
  }
  {
    Unit u(d + "t_tpld");
    tensor<N, Sym> B;
    verif::fill_inputs(B, "B", T);
    const t2tot2<N, Sym> r = t2tot2<N, Sym>::tpld(B);
    verif::outputs2("r", r, T, T);
  }
  {
    Unit u(d + "t_tprd");
    tensor<N, Sym> A;
    verif::fill_inputs(A, "A", T);
    const t2tot2<N, Sym> r = t2tot2<N, Sym>::tprd(A);
    verif::outputs2("r", r, T, T);
  }
  {
    Unit u(d + "t_tpldC");
    tensor<N, Sym> B;
    verif::fill_inputs(B, "B", T);
    t2tot2<N, Sym> C;
    verif::fill_inputs2(C, "C", T, T);
    const t2tot2<N, Sym> r = t2tot2<N, Sym>::tpld(B, C);
    verif::outputs2("r", r, T, T);
  }
  {
    Unit u(d + "t_tprdC");
    tensor<N, Sym> A;
    verif::fill_inputs(A, "A", T);
    t2tot2<N, Sym> C;
    verif::fill_inputs2(C, "C", T, T);
    const t2tot2<N, Sym> r = t2tot2<N, Sym>::tprd(A, C);
    verif::outputs2("r", r, T, T);
  }
  // ---------------------------------------------------------------- tensor determinant
  {
    Unit u(d + "t_det");
    tensor<N, Sym> F;
    verif::fill_inputs(F, "F", T);
    verif::output("r", det(F));
  }
  {
    Unit u(d + "t_ddet");
    tensor<N, Sym> F;
    verif::fill_inputs(F, "F", T);
    const tensor<N, Sym> r = computeDeterminantDerivative(F);
    verif::outputs("r", r, T);
  }
  {
    Unit u(d + "t_d2det");
    tensor<N, Sym> F;
    verif::fill_inputs(F, "F", T);
    const t2tot2<N, Sym> r = computeDeterminantSecondDerivative(F);
    verif::outputs2("r", r, T, T);
  }
  // ---------------------------------------------------------------- PK1 conversions
  {
    Unit u(d + "pk1");
    stensor<N, Sym> s;
    verif::fill_inputs(s, "s", S);
    tensor<N, Sym> F;
    verif::fill_inputs(F, "F", T);
    const tensor<N, Sym> r = convertCauchyStressToFirstPiolaKirchhoffStress(s, F);
    verif::outputs("r", r, T);
  }
  {
    Unit u(d + "dpk1");
    t2tost2<N, Sym> ds;
    verif::fill_inputs2(ds, "ds", S, T);
    tensor<N, Sym> F;
    verif::fill_inputs(F, "F", T);
    stensor<N, Sym> s;
    verif::fill_inputs(s, "s", S);
    const t2tot2<N, Sym> r =
        convertCauchyStressDerivativeToFirstPiolaKirchoffStressDerivative(ds, F, s);
    verif::outputs2("r", r, T, T);
  }
  {
    // Kirchhoff stress from the first Piola-Kirchhoff stress, with the library's own functions:
    // tau = J * sigma, sigma = convertFirstPiolaKirchhoffStressToCauchyStress(P, F)
    Unit u(d + "tau");
    tensor<N, Sym> P;
    verif::fill_inputs(P, "P", T);
    tensor<N, Sym> F;
    verif::fill_inputs(F, "F", T);
    const stensor<N, Sym> sig = convertFirstPiolaKirchhoffStressToCauchyStress(P, F);
    const stensor<N, Sym> r = det(F) * sig;
    verif::outputs("r", r, S);
  }
  {
    Unit u(d + "dtau");
    t2tot2<N, Sym> dP;
    verif::fill_inputs2(dP, "dP", T, T);
    tensor<N, Sym> F;
    verif::fill_inputs(F, "F", T);
    stensor<N, Sym> s;
    verif::fill_inputs(s, "s", S);
    const t2tost2<N, Sym> r =
        convertFirstPiolaKirchoffStressDerivativeToKirchhoffStressDerivative(dP, F, s);
    verif::outputs2("r", r, S, T);
  }
  // ---------------------------------------------------------------- PK2 derivative -> PK1 derivative
  {
    Unit u(d + "unsyme");
    stensor<N, Sym> S_;
    verif::fill_inputs(S_, "S", S);
    const tensor<N, Sym> r = unsyme(S_);
    verif::outputs("r", r, T);
  }
  {
    Unit u(d + "pk2");
    stensor<N, Sym> s;
    verif::fill_inputs(s, "s", S);
    tensor<N, Sym> F;
    verif::fill_inputs(F, "F", T);
    const stensor<N, Sym> r = convertCauchyStressToSecondPiolaKirchhoffStress(s, F);
    verif::outputs("r", r, S);
  }
  {
    Unit u(d + "dpk1_pk2");
    st2tost2<N, Sym> dS;
    verif::fill_inputs2(dS, "dS", S, S);
    tensor<N, Sym> F;
    verif::fill_inputs(F, "F", T);
    stensor<N, Sym> s;
    verif::fill_inputs(s, "s", S);
    const t2tot2<N, Sym> r =
        convertSecondPiolaKirchhoffStressDerivativeToFirstPiolaKirchoffStressDerivative(dS, F, s);
    verif::outputs2("r", r, T, T);
  }
  // ---------------------------------------------------------------- eigen tensors and their derivatives
  {
    Unit u(d + "eigtens");
    rotation_matrix<Sym> m;
    verif::fill_inputs2(m, "m", 3, 3);
    stensor<N, Sym> n0, n1, n2;
    stensor<N, Sym>::computeEigenTensors(n0, n1, n2, m);
    verif::outputs("n0_", n0, S);
    verif::outputs("n1_", n1, S);
    verif::outputs("n2_", n2, S);
  }
  // value dependent branches (regularisation of 1/(vp_i - vp_j) below eps): traced in concolic mode with
  // well separated eigenvalues, |vp_i - vp_j| > eps, once for each of the six orderings of the eigenvalues
  // (the path conditions are emitted as `_path`). Unit `deig` (vp0 > vp1 > vp2) is the one the theorems
  // are about; checks/C06.py verifies that the five others produce the same expressions.
  {
    const double lv[6][3] = {{1.75, 0.5, -1.25}, {1.75, -1.25, 0.5}, {0.5, 1.75, -1.25},
                             {0.5, -1.25, 1.75}, {-1.25, 1.75, 0.5}, {-1.25, 0.5, 1.75}};
    for (int k = 0; k != 6; ++k) {
      Unit u(d + (k == 0 ? std::string("deig") : "deig_p" + std::to_string(k)));
      verif::ctx().concolic = true;
      tvector<3u, Sym> vp;
      vp[0] = verif::scalar_input("l0", lv[k][0]);
      vp[1] = verif::scalar_input("l1", lv[k][1]);
      vp[2] = verif::scalar_input("l2", lv[k][2]);
      rotation_matrix<Sym> m;
      verif::fill_inputs2(m, "m", 3, 3);
      const Sym eps = verif::scalar_input("eps", 1.e-3);
      st2tost2<N, Sym> dn0, dn1, dn2;
      stensor<N, Sym>::computeEigenTensorsDerivatives(dn0, dn1, dn2, vp, m, eps);
      verif::ctx().concolic = false;
      verif::outputs2("dn0_", dn0, S, S);
      verif::outputs2("dn1_", dn1, S, S);
      verif::outputs2("dn2_", dn2, S, S);
    }
  }
}

// ------------------------------------------------------------------------------------------------
// helpers of T2toST2/t2tost2.ixx (Kirchhoff/Cauchy stress derivatives, push-forward derivative, rate of
// deformation derivative) and st2tost2::stpd, with the functions they differentiate
template <unsigned short N>
void trace_dim2() {
  constexpr int S = StensorDimeToSize<N>::value;
  constexpr int T = TensorDimeToSize<N>::value;
  const std::string d = "N" + std::to_string(N) + "_";
  // ---------------------------------------------------------------- Kirchhoff <-> Cauchy stress derivatives
  {
    // Kirchhoff stress from the Cauchy stress: tau = det(F) * s
    Unit u(d + "kirch");
    stensor<N, Sym> s;
    verif::fill_inputs(s, "s", S);
    tensor<N, Sym> F;
    verif::fill_inputs(F, "F", T);
    const stensor<N, Sym> r = det(F) * s;
    verif::outputs("r", r, S);
  }
  {
    Unit u(d + "dkirch");
    t2tost2<N, Sym> ds;
    verif::fill_inputs2(ds, "ds", S, T);
    stensor<N, Sym> s;
    verif::fill_inputs(s, "s", S);
    tensor<N, Sym> F;
    verif::fill_inputs(F, "F", T);
    const t2tost2<N, Sym> r = computeKirchhoffStressDerivativeFromCauchyStressDerivative(ds, s, F);
    verif::outputs2("r", r, S, T);
  }
  {
    // Cauchy stress from the Kirchhoff stress: s = tau / det(F)
    Unit u(d + "cauchy");
    stensor<N, Sym> t;
    verif::fill_inputs(t, "t", S);
    tensor<N, Sym> F;
    verif::fill_inputs(F, "F", T);
    const stensor<N, Sym> r = t / det(F);
    verif::outputs("r", r, S);
  }
  {
    Unit u(d + "dcauchy");
    t2tost2<N, Sym> dt;
    verif::fill_inputs2(dt, "dt", S, T);
    stensor<N, Sym> s;
    verif::fill_inputs(s, "s", S);
    tensor<N, Sym> F;
    verif::fill_inputs(F, "F", T);
    const t2tost2<N, Sym> r = computeCauchyStressDerivativeFromKirchhoffStressDerivative(dt, s, F);
    verif::outputs2("r", r, S, T);
  }
  // ---------------------------------------------------------------- push-forward F S F^T
  {
    Unit u(d + "pf");
    stensor<N, Sym> s;
    verif::fill_inputs(s, "S", S);
    tensor<N, Sym> F;
    verif::fill_inputs(F, "F", T);
    const stensor<N, Sym> r = push_forward(s, F);
    verif::outputs("r", r, S);
  }
  {
    Unit u(d + "dpf");
    t2tost2<N, Sym> K;
    verif::fill_inputs2(K, "K", S, T);
    stensor<N, Sym> s;
    verif::fill_inputs(s, "S", S);
    tensor<N, Sym> F;
    verif::fill_inputs(F, "F", T);
    const t2tost2<N, Sym> r = computePushForwardDerivative(K, s, F);
    verif::outputs2("r", r, S, T);
  }
  // ---------------------------------------------------------------- rate of deformation D = sym(dF F^-1)
  {
    Unit u(d + "rod");
    tensor<N, Sym> G;
    verif::fill_inputs(G, "G", T);
    tensor<N, Sym> F;
    verif::fill_inputs(F, "F", T);
    const tensor<N, Sym> iF = invert(F);
    const tensor<N, Sym> L = G * iF;
    const stensor<N, Sym> r = syme(L);
    verif::outputs("r", r, S);
  }
  {
    Unit u(d + "drod");
    tensor<N, Sym> F;
    verif::fill_inputs(F, "F", T);
    const t2tost2<N, Sym> r = computeRateOfDeformationDerivative(F);
    verif::outputs2("r", r, S, T);
  }
  // ---------------------------------------------------------------- symmetric product s1*s + s*s1
  {
    Unit u(d + "sp2");
    stensor<N, Sym> a, s;
    verif::fill_inputs(a, "a", S);
    verif::fill_inputs(s, "s", S);
    const stensor<N, Sym> r = 2 * symmetric_product(a, s);
    verif::outputs("r", r, S);
  }
  {
    Unit u(d + "stpd");
    stensor<N, Sym> s;
    verif::fill_inputs(s, "s", S);
    const st2tost2<N, Sym> r = st2tost2<N, Sym>::stpd(s);
    verif::outputs2("r", r, S, S);
  }
}

int main() {
  trace_dim<1>();
  trace_dim<2>();
  trace_dim<3>();
  trace_dim2<1>();
  trace_dim2<2>();
  trace_dim2<3>();
  return 0;
}
