#!/usr/bin/env python3
"""Writer of the statements of lean/TfelVerif/C06/PropsEig.lean (same role as mkprops.py: run once,
the Lean file is a fixed source afterwards).   usage: mkprops_eig.py <outdir>"""
import os
import sys

M = ["m%d%d" % (i, j) for i in range(3) for j in range(3)]
HEAD = """/-
  C06 — Closed-form derivative helpers are true derivatives.
  Part 6: `stensor::computeEigenTensorsDerivatives` (derivatives of the eigen tensors `nᵢ = vᵢ ⊗ vᵢ`).

  Property theorems only. The eigen tensors are not rational functions of the tensor, so the statement
  is the first order perturbation characterisation of an eigenprojector. Let `V` be orthogonal
  (`Vᵀ V = V Vᵀ = 1`, columns `vᵢ`: the `rotation_matrix m` given to the helper), `λ₀ λ₁ λ₂` the
  eigenvalues, `S = V diag(λ) Vᵀ` the tensor, `H` any symmetric direction, `Nᵢ` the eigen tensor
  returned by `computeEigenTensors(m)`, `Dᵢ = dnᵢ_ds · H` the helper's result applied to `H` and
  `dλᵢ = Nᵢ : H` (the helper documented as the eigenvalue derivative is the eigen tensor). Then
      H Nᵢ + S Dᵢ = dλᵢ Nᵢ + λᵢ Dᵢ          (ε part of  (S + εH)(Nᵢ + εDᵢ) = (λᵢ + ε dλᵢ)(Nᵢ + εDᵢ))
      Dᵢ Nᵢ + Nᵢ Dᵢ = Dᵢ                     (ε part of  (Nᵢ + εDᵢ)² = Nᵢ + εDᵢ)
  i.e. `Nᵢ + ε Dᵢ` is, to first order, the eigenprojector of `S + ε H` for the eigenvalue
  `λᵢ + ε dλᵢ`. When the eigenvalues are pairwise distinct these two linear equations have a unique
  symmetric solution `(dλᵢ, Dᵢ)` (multiply the first by `Nᵢ` to get `dλᵢ`, invert `S − λᵢ` on the
  range of `1 − Nᵢ`, and the second gives `Nᵢ Dᵢ Nᵢ = 0`), which is the derivative of the
  eigenprojector; this uniqueness argument and the differentiability of the eigenprojector (analytic
  perturbation theory) are NOT formalised: hence the suffix `_partial`.
  Full statement intended: `HasFDerivAt (S ↦ eigenprojectorᵢ S) (dnᵢ_ds) S` for pairwise distinct eigenvalues.

  Regime. The helper regularises `1/(λᵢ − λⱼ)` when `|λᵢ − λⱼ| ≤ eps` (its result is then deliberately
  not the derivative). The code is traced in concolic mode on the branch `|λᵢ − λⱼ| > eps` (path
  condition `Gen.N*_deig_path`); checks/C06.py verifies that the six orderings of the eigenvalues give
  the same expressions. 2D: only `λ₀ ≠ λ₁` is required (in-plane), `V` is block diagonal.
  1D: the eigen tensors are constant and the helper returns zero.
-/
import TfelVerif.Common.M3
import TfelVerif.C06.Lemmas
import TfelVerif.C06.LemmasEig
import TfelVerif.C06.GenEig

namespace TfelVerif.C06.%(mod)s
open TfelVerif TfelVerif.Mandel TfelVerif.C06
set_option linter.unusedVariables false
set_option linter.unusedSectionVars false
set_option maxRecDepth 100000

variable {K : Type} [Field K] [CharZero K] (c c3 : K) (fn : Fns K)

"""


def thm(N, i):
    S = {2: 4, 3: 6}[N]
    d = "N%d_" % N
    if N == 3:
        V = "(M3.mk %s)" % " ".join(M)
        margs = " ".join(M)
        Hs = "M3.sym h00 h11 h22 h01 h02 h12"
        hvars = "h00 h11 h22 h01 h02 h12"
        mvars = " ".join(M)
        mand = "M3.mandel3 c"
        hyps = {0: "(hl01 : l0 ≠ l1) (hl02 : l0 ≠ l2)", 1: "(hl01 : l0 ≠ l1) (hl12 : l1 ≠ l2)", 2: "(hl02 : l0 ≠ l2) (hl12 : l1 ≠ l2)"}[i]
        Dp = "dEig%d (V.transpose * H * V) l0 l1 l2" % i
        eb = {0: "eigbasis0 _ l0 l1 l2 hs hl01 hl02", 1: "eigbasis1 _ l0 l1 l2 hs hl01 hl12", 2: "eigbasis2 _ l0 l1 l2 hs hl02 hl12"}[i]
        pb = "projbasis%d _ l0 l1 l2" % i
        dens = {0: "have d1 := sub_ne_zero.mpr hl01; have d2 := sub_ne_zero.mpr hl02",
                1: "have d1 := sub_ne_zero.mpr hl01.symm; have d2 := sub_ne_zero.mpr hl12",
                2: "have d1 := sub_ne_zero.mpr hl02.symm; have d2 := sub_ne_zero.mpr hl12.symm"}[i]
        extra = ""
    else:
        V = "(M3.mk m00 m01 0 m10 m11 0 0 0 1)"
        margs = "m00 m01 0 m10 m11 0 0 0 1"
        Hs = "M3.sym h00 h11 h22 h01 0 0"
        hvars = "h00 h11 h22 h01"
        mvars = "m00 m01 m10 m11"
        mand = "M3.mandel2 c"
        hyps = "(hl01 : l0 ≠ l1)" if i < 2 else ""
        Dp = {0: "dEig2D0 (V.transpose * H * V) l0 l1", 1: "dEig2D1 (V.transpose * H * V) l0 l1", 2: "(0 : M3 K)"}[i]
        eb = {0: "eigbasis2D0 _ l0 l1 l2 hs hg02 hg12 hl01", 1: "eigbasis2D1 _ l0 l1 l2 hs hg02 hg12 hl01",
              2: "eigbasis2D2 _ l0 l1 l2 hs hg02 hg12"}[i]
        pb = {0: "projbasis2D0 _ l0 l1", 1: "projbasis2D1 _ l0 l1", 2: "projbasis2D2"}[i]
        dens = {0: "have d1 := sub_ne_zero.mpr hl01", 1: "have d1 := sub_ne_zero.mpr hl01.symm", 2: "skip"}[i]
        extra = ("  have hg02 : (V.transpose * H * V).a02 = 0 := by simp only [V, H, UNF]; ring1\n"
                 "  have hg12 : (V.transpose * H * V).a12 = 0 := by simp only [V, H, UNF]; ring1\n")
    UNF = "M3.sym, M3.transpose, M3.mul_def, M3.mul"
    nl = "[" + ", ".join("Gen.%seigtens_n%d_%d c c3 fn %s" % (d, i, k, margs) for k in range(S)) + "]"
    dl = "[" + ",\n      ".join("dot [" + ", ".join("Gen.%sdeig_dn%d_%d_%d c c3 fn l0 l1 l2 %s eps" % (d, i, a, b, margs) for b in range(S)) + "] (%s H)" % mand for a in range(S)) + "]"
    t = ("set_option maxHeartbeats 1000000 in\n/-- `dn%d_ds` of `stensor<%d>::computeEigenTensorsDerivatives`: first order eigenprojector equations (see the header) -/\n"
         "theorem %sdeig_dn%d_partial (hc : c * c = 2) (%s l0 l1 l2 eps %s : K)\n"
         "    (hV1 : %s.transpose * %s = 1) (hV2 : %s * %s.transpose = 1) %s :\n"
         "    let V : M3 K := %s\n    let H : M3 K := %s\n"
         "    let S : M3 K := V * M3.diag l0 l1 l2 * V.transpose\n"
         "    let N : M3 K := M3.ofMandel c %s\n"
         "    let D : M3 K := M3.ofMandel c\n     %s\n"
         "    H * N + S * D = N.frob H • N + l%d • D ∧ D * N + N * D = D := by\n"
         "  intro V H S N D\n"
         "  have hc0 : c ≠ 0 := c_ne_zero hc two_ne_zero\n"
         "  %s\n"
         "  have hN : N = V * E%d * V.transpose := by\n"
         "    simp only [N, V, E%d, M3.ofMandel, M3.diag, %s, gen_simp, M3.mk.injEq]\n"
         "    repeat' apply And.intro\n    all_goals (first | trivial | ring1 | (field_simp; first | done | mandel_ring hc))\n"
         "  have hf : N.frob H = (V.transpose * H * V).a%d%d := by\n"
         "    simp only [N, V, H, M3.frob, M3.ofMandel, %s, gen_simp]\n"
         "    first | ring1 | (field_simp; first | done | mandel_ring hc)\n"
         "  have hs : (V.transpose * H * V).transpose = V.transpose * H * V := by\n"
         "    simp only [V, H, %s, M3.mk.injEq]\n"
         "    repeat' apply And.intro\n    all_goals (first | trivial | ring1)\n"
         "%s"
         "  have hD : D = V * %s * V.transpose := by\n"
         "    simp only [D, V, H, dEig0, dEig1, dEig2, dEig2D0, dEig2D1, zero3, M3.ofMandel, M3.mandel3, M3.mandel2, dot,\n"
         "      %s, gen_simp, M3.mk.injEq]\n"
         "    repeat' apply And.intro\n    all_goals (first | trivial | ring1 | (field_simp; first | done | mandel_ring hc))\n"
         "  rw [hf, hN, hD]\n"
         "  exact eig_transport V H E%d (M3.diag l0 l1 l2) _ _ _ hV1 hV2 (%s) (%s)\n" % (
             i, N, d, i, mvars, hvars, V, V, V, V, hyps, V, Hs, nl, dl, i, dens, i, i, UNF, i, i, UNF, UNF,
             extra.replace("UNF", UNF), Dp, UNF, i, eb, pb))
    return t


def main():
    out = sys.argv[1]
    n1 = ("/-- 1D: the eigen tensors are the constant `eᵢ ⊗ eᵢ` and the helper returns zero, their derivative -/\n"
          "theorem N1_deig (%s l0 l1 l2 eps : K) :\n"
          "    Gen.N1_eigtens_all c c3 fn %s = [1, 0, 0, 0, 1, 0, 0, 0, 1]\n"
          "      ∧ Gen.N1_deig_all c c3 fn l0 l1 l2 %s eps = List.replicate 27 0 := by\n"
          "  constructor <;> simp [gen_simp, List.replicate]\n\n" % (" ".join(M), " ".join(M), " ".join(M)))
    files = {"PropsEig": n1 + "\n".join(thm(2, i) for i in range(3)),
             "PropsEig30": thm(3, 0), "PropsEig31": thm(3, 1), "PropsEig32": thm(3, 2)}
    for mod, body in files.items():
        with open(os.path.join(out, mod + ".lean"), "w") as f:
            head = HEAD.replace("%", "%%").replace("%%(mod)s", "%(mod)s") % {"mod": mod}
            if mod != "PropsEig":
                head = head.replace("  Part 6:", "  Part 6 (3D, eigen tensor %s; the conventions are those of PropsEig.lean):" % mod[-1])
            f.write(head)
            f.write(body)
            f.write("\nend TfelVerif.C06.%s\n" % mod)


if __name__ == "__main__":
    main()
