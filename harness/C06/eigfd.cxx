// C06 replay helper (double precision, real code): finite differences of the eigen tensors of a
// symmetric tensor against stensor::computeEigenTensorsDerivatives.
// stdin: N lambda  s[0..S-1]  h[0..S-1]   (Mandel components; lambda: the eigenvalue whose eigen tensor is followed)
// stdout: D = dn_i . h from the helper, then for steps 1e-3..1e-6 the central difference of n_i along h.
#include <cmath>
#include <iostream>
#include <iomanip>
#include "TFEL/Math/stensor.hxx"
#include "TFEL/Math/st2tost2.hxx"
using namespace tfel::math;

template <unsigned short N>
static void eigen_tensor(stensor<N, double>& n, tvector<3u, double>& vp, rotation_matrix<double>& m,
                         const stensor<N, double>& s, const double target, const bool use_target, const int i) {
  s.computeEigenVectors(vp, m);
  stensor<N, double> n0, n1, n2;
  stensor<N, double>::computeEigenTensors(n0, n1, n2, m);
  int k = i;
  if (use_target) {  // follow the eigenvalue closest to the unperturbed one
    k = 0;
    for (int j = 1; j != 3; ++j) {
      if (std::abs(vp[j] - target) < std::abs(vp[k] - target)) k = j;
    }
  }
  n = (k == 0) ? n0 : ((k == 1) ? n1 : n2);
}

template <unsigned short N>
static int run(const double lambda) {
  constexpr auto S = StensorDimeToSize<N>::value;
  stensor<N, double> s, h;
  for (int k = 0; k != S; ++k) std::cin >> s[k];
  for (int k = 0; k != S; ++k) std::cin >> h[k];
  tvector<3u, double> vp;
  rotation_matrix<double> m;
  stensor<N, double> n;
  eigen_tensor<N>(n, vp, m, s, 0., false, 0);
  int i = 0;  // index, in the library's own ordering, of the eigenvalue closest to lambda
  for (int j = 1; j != 3; ++j) {
    if (std::abs(vp[j] - lambda) < std::abs(vp[i] - lambda)) i = j;
  }
  eigen_tensor<N>(n, vp, m, s, 0., false, i);
  st2tost2<N, double> dn0, dn1, dn2;
  stensor<N, double>::computeEigenTensorsDerivatives(dn0, dn1, dn2, vp, m, 1.e-12);
  const st2tost2<N, double>& dn = (i == 0) ? dn0 : ((i == 1) ? dn1 : dn2);
  const stensor<N, double> D = dn * h;
  std::cout << std::setprecision(17) << "index " << i << "\neigenvalues " << vp[0] << " " << vp[1] << " " << vp[2] << "\n";
  std::cout << "eigen_tensor";
  for (int k = 0; k != S; ++k) std::cout << " " << n[k];
  std::cout << "\nhelper";
  for (int k = 0; k != S; ++k) std::cout << " " << D[k];
  std::cout << "\n";
  for (const double e : {1e-3, 1e-4, 1e-5, 1e-6}) {
    tvector<3u, double> vp2;
    rotation_matrix<double> m2;
    stensor<N, double> np, nm;
    const stensor<N, double> sp = s + e * h, sm = s - e * h;
    eigen_tensor<N>(np, vp2, m2, sp, vp[i], true, i);
    eigen_tensor<N>(nm, vp2, m2, sm, vp[i], true, i);
    std::cout << "fd " << e;
    for (int k = 0; k != S; ++k) std::cout << " " << (np[k] - nm[k]) / (2 * e);
    std::cout << "\n";
  }
  return 0;
}

int main() {
  int N;
  double lambda;
  std::cin >> N >> lambda;
  if (N == 2) return run<2>(lambda);
  if (N == 3) return run<3>(lambda);
  return 1;
}
