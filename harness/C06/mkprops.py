#!/usr/bin/env python3
"""Writer of the *statements* of lean/TfelVerif/C06/Props{St,T,PK,Real}.lean.

The property theorems of C06 are mechanical in shape (one per derivative helper and space
dimension, with 3..96 named scalar arguments); this script wrote them once. The Props files are
fixed, hand-maintained sources afterwards: bin/check never runs this script. It is kept only to
document how the statements were produced and to re-create them if a helper is added.

usage: mkprops.py <trace.dag> <outdir>
"""
import sys
import os

sys.path.insert(0, os.path.join(os.path.dirname(os.path.abspath(__file__)), "..", "symtrace"))
import emit  # noqa: E402

SD = {1: 3, 2: 4, 3: 6}
TD = {1: 3, 2: 5, 3: 9}


def hs(n):
    return ["h%d" % i for i in range(n)]


def lst(xs):
    return "[" + ", ".join(xs) + "]"


def dual(x, e):
    return "⟨%s, %s⟩" % (x, e)


def dconst(x):
    return "(Dual.const %s)" % x


class W:
    def __init__(self, units):
        self.u = {u.name: u for u in units}
        self.alg = {}    # file key -> list of theorem texts
        self.real = []
        self.realkeys = []

    def ins(self, name):
        return self.u[name].inputs

    def nout(self, name):
        return len(self.u[name].outs)

    def theorem(self, key, name, doc, binders, hyps, fargs, fname, dname, dargs, rows, h, tactic="dual_eq hc", real=True, real_tail=""):
        """fargs: list of (re, eps or None) for each input of f; dargs: names for D"""
        fa = " ".join(dual(x, e) if e is not None else dconst(x) for x, e in fargs)
        stmt = ("/-- %s -/\ntheorem %s (hc : c * c = 2) (%s : K)%s :\n"
                "    (Gen.%s_all (Dual.const c) (Dual.const c3) (dualFns K) %s).map Dual.eps\n"
                "      = mv %d (Gen.%s_all c c3 fn %s) %s := by\n  %s\n" % (
                    doc, name, " ".join(binders), hyps, fname, fa, rows, dname, " ".join(dargs), lst(h), tactic))
        self.alg.setdefault(key, []).append(stmt)
        if real:
            # analytic version over the reals: every component of t |-> f(x + t h) has, at t = 0, the
            # derivative given by the corresponding component of D(x) . h
            ra = " ".join("(%s + t * (%s))" % (x, e) if e is not None else x for x, e in fargs)
            hyp_r = hyps
            self.real.append(
                "/-- analytic form of `%s`: derivative at `t = 0` of `t ↦ f (x + t h)`, component `i` -/\n"
                "theorem %s_hasDerivAt (hc : c * c = 2) (%s : ℝ)%s (i : ℕ) :\n"
                "    HasDerivAt (fun t : ℝ => (Gen.%s_all c c3 fn %s).getD i 0)\n"
                "      ((mv %d (Gen.%s_all c c3 fn %s) %s).getD i 0) 0 := by\n"
                "  rw [← %s c c3 fn hc %s%s]\n"
                "  refine TracksL.hasDerivAt ?_ i\n"
                "  simp only [gen_simp]\n"
                "  track_list\n%s" % (
                    name, name, " ".join(binders), hyp_r, fname, ra, rows, dname, " ".join(dargs), lst(h),
                    name, " ".join(binders), self.hypnames(hyps), real_tail))
            self.realkeys.append(key)

    @staticmethod
    def hypnames(hyps):
        import re
        return "".join(" " + m for m in re.findall(r"\((\w+) :", hyps))


def build(units):
    w = W(units)
    for N in (1, 2, 3):
        d = "N%d_" % N
        S, T = SD[N], TD[N]
        s = ["s%d" % i for i in range(S)]
        F = ["F%d" % i for i in range(T)]
        # ---- plain directional derivatives: D(x) . h = eps f(x + eps h)
        plain = [
            ("St", "st_det", "st_ddet", s, "`computeDeterminantDerivative(s)` is the derivative of `det(s)` (symmetric tensor, Mandel components)"),
            ("St", "st_ddet", "st_d2det", s, "`computeDeterminantSecondDerivative(s)` is the derivative of `computeDeterminantDerivative(s)`"),
            ("St", "st_devdet", "st_ddevdet", s, "`computeDeviatorDeterminantDerivative(s)` is the derivative of `det(deviator(s))`"),
            ("St", "st_ddevdet", "st_d2devdet", s, "`computeDeviatorDeterminantSecondDerivative(s)` is the derivative of `computeDeviatorDeterminantDerivative(s)`"),
            ("St", "st_square", "st_dsquare", s, "`st2tost2::dsquare(s)` is the derivative of `square(s)`"),
            ("T", "t_C", "t_dCdF", F, "`t2tost2::dCdF(F)` is the derivative of the right Cauchy-Green tensor `computeRightCauchyGreenTensor(F)`"),
            ("T", "t_B", "t_dBdF", F, "`t2tost2::dBdF(F)` is the derivative of the left Cauchy-Green tensor `computeLeftCauchyGreenTensor(F)`"),
            ("T", "t_GL", "t_dGLdF", F, "`t2tost2::dCdF(F) / 2` (as built in ConvertToPK1Derivative.ixx) is the derivative of `computeGreenLagrangeTensor(F)`"),
            ("T", "t_det", "t_ddet", F, "`computeDeterminantDerivative(F)` is the derivative of `det(F)` (non symmetric tensor)"),
            ("T", "t_ddet", "t_d2det", F, "`computeDeterminantSecondDerivative(F)` (t2tot2) is the derivative of `computeDeterminantDerivative(F)`"),
        ]
        for key, f, D, x, doc in plain:
            h = hs(len(x))
            w.theorem(key, d + D, doc, x + h, "", [(a, b) for a, b in zip(x, h)], d + f, d + D, x, w.nout(d + f), h)
        # ---- dsquare(s, C) = dsquare(s) * C : chain rule, s depends on a symmetric tensor with ds = C
        C = [["C%d%d" % (i, j) for j in range(S)] for i in range(S)]
        h = hs(S)
        w.theorem("St", d + "st_dsquareC",
                  "`st2tost2::dsquare(s, C)`: derivative of `square(s)` when `s` moves with derivative `C` (chain rule)",
                  s + sum(C, []) + h, "", [(s[i], "dot %s %s" % (lst(C[i]), lst(h))) for i in range(S)],
                  d + "st_square", d + "st_dsquareC", s + sum(C, []), S, h)
        # ---- tensor product derivatives
        A = ["A%d" % i for i in range(T)]
        B = ["B%d" % i for i in range(T)]
        Ct = [["C%d%d" % (i, j) for j in range(T)] for i in range(T)]
        h = hs(T)
        w.theorem("T", d + "t_tpld", "`t2tot2::tpld(B)` is the derivative of `A * B` with respect to `A`",
                  A + B + h, "", [(a, b) for a, b in zip(A, h)] + [(b, None) for b in B],
                  d + "t_prod", d + "t_tpld", B, T, h)
        w.theorem("T", d + "t_tprd", "`t2tot2::tprd(A)` is the derivative of `A * B` with respect to `B`",
                  A + B + h, "", [(a, None) for a in A] + [(b, e) for b, e in zip(B, h)],
                  d + "t_prod", d + "t_tprd", A, T, h)
        w.theorem("TC", d + "t_tpldC",
                  "`t2tot2::tpld(B, C)`: derivative of `A * B` when `A` moves with derivative `C` and `B` is fixed",
                  A + B + sum(Ct, []) + h, "",
                  [(A[i], "dot %s %s" % (lst(Ct[i]), lst(h))) for i in range(T)] + [(b, None) for b in B],
                  d + "t_prod", d + "t_tpldC", B + sum(Ct, []), T, h)
        w.theorem("TC", d + "t_tprdC",
                  "`t2tot2::tprd(A, C)`: derivative of `A * B` when `B` moves with derivative `C` and `A` is fixed",
                  A + B + sum(Ct, []) + h, "",
                  [(a, None) for a in A] + [(B[i], "dot %s %s" % (lst(Ct[i]), lst(h))) for i in range(T)],
                  d + "t_prod", d + "t_tprdC", A + sum(Ct, []), T, h)
        # ---- Cauchy stress derivative -> PK1 derivative
        ds = [["ds%d%d" % (i, j) for j in range(T)] for i in range(S)]
        w.theorem("PK", d + "dpk1",
                  "`convertCauchyStressDerivativeToFirstPiolaKirchoffStressDerivative(ds, F, s)` is the derivative with respect to `F` "
                  "of `convertCauchyStressToFirstPiolaKirchhoffStress(s(F), F)` when `ds` is the derivative of `s`",
                  sum(ds, []) + F + s + h, "",
                  [(s[i], "dot %s %s" % (lst(ds[i]), lst(h))) for i in range(S)] + [(a, b) for a, b in zip(F, h)],
                  d + "pk1", d + "dpk1", sum(ds, []) + F + s, T, h)
        # ---- PK1 derivative -> Kirchhoff stress derivative
        dP = [["dP%d%d" % (i, j) for j in range(T)] for i in range(T)]
        P = ["(Gen.%spk1_r%d c c3 fn %s %s)" % (d, i, " ".join(s), " ".join(F)) for i in range(T)]
        hyp = {1: " (hF0 : F0 ≠ 0) (hF1 : F1 ≠ 0) (hF2 : F2 ≠ 0)",
               2: " (hJ : Gen.N2_t_det_r c c3 fn F0 F1 F2 F3 F4 ≠ 0)",
               3: " (hJ : Gen.N3_t_det_r c c3 fn F0 F1 F2 F3 F4 F5 F6 F7 F8 ≠ 0)"}[N]
        w.theorem("PK", d + "dtau",
                  "`convertFirstPiolaKirchoffStressDerivativeToKirchhoffStressDerivative(dP, F, s)` is the derivative with respect to `F` of the "
                  "Kirchhoff stress `det(F) * convertFirstPiolaKirchhoffStressToCauchyStress(P(F), F)` when `dP` is the derivative of `P` "
                  "and `P = convertCauchyStressToFirstPiolaKirchhoffStress(s, F)` at the point considered",
                  sum(dP, []) + F + s + h, hyp,
                  [(P[i], "dot %s %s" % (lst(dP[i]), lst(h))) for i in range(T)] + [(a, b) for a, b in zip(F, h)],
                  d + "tau", d + "dtau", sum(dP, []) + F + s, S, h,
                  tactic="dual_eq_den hc with hJ" if N > 1 else "dual_eq_den1 hc",
                  real_tail=("  all_goals (simp only [gen_simp] at hJ; dual_simp; exact hJ)\n" if N > 1 else
                             "  all_goals (dual_simp; first | exact mul_ne_zero hF1 hF2 | exact mul_ne_zero hF0 hF2 | exact mul_ne_zero hF0 hF1)\n"))
        # ---- PK2 derivative -> PK1 derivative (composite function; algebraic form only)
        dS = [["dS%d%d" % (i, j) for j in range(S)] for i in range(S)]
        cD = "(Dual.const c) (Dual.const c3) (dualFns K)"
        Fd = " ".join(dual(a, b) for a, b in zip(F, h))
        lets = []
        for j in range(S):
            lets.append("    let e%d : K := (Gen.%st_GL_r%d %s %s).eps" % (j, d, j, cD, Fd))
        for i in range(S):
            lets.append("    let S%d : Dual K := ⟨Gen.%spk2_r%d c c3 fn %s %s, dot %s %s⟩" % (
                i, d, i, " ".join(s), " ".join(F), lst(dS[i]), lst(["e%d" % j for j in range(S)])))
        for k in range(T):
            lets.append("    let u%d : Dual K := Gen.%sunsyme_r%d %s %s" % (k, d, k, cD, " ".join("S%d" % i for i in range(S))))
        w.alg.setdefault("PK2", []).append(
            "/-- `convertSecondPiolaKirchhoffStressDerivativeToFirstPiolaKirchoffStressDerivative(dS, F, s)` is the derivative with respect to `F` of\n"
            "`P(F) = F * unsyme(S(E(F)))`, `E = computeGreenLagrangeTensor(F)`, for any `S(E)` whose derivative at the point is `dS` and whose value is\n"
            "`convertCauchyStressToSecondPiolaKirchhoffStress(s, F)`: `eᵢ` is the ε part of `E(F + ε h)`, `Sᵢ = S₀ᵢ + ε (dS · e)ᵢ`, `u = unsyme(S)` -/\n"
            "theorem %sdpk1_pk2 (hc : c * c = 2) (%s : K) :\n%s\n"
            "    (Gen.%st_prod_all %s %s %s).map Dual.eps\n"
            "      = mv %d (Gen.%sdpk1_pk2_all c c3 fn %s) %s := by\n"
            "  dsimp only\n%s"
            "  simp only [gen_simp] at %s\n"
            "  dual_simp\n"
            "  simp only [%s]\n"
            "  repeat' apply And.intro\n"
            "  all_goals (first | rfl | mandel_ring hc)\n" % (
                d, " ".join(sum(dS, []) + F + s + h), "\n".join(lets), d, cD, Fd, " ".join("u%d" % k for k in range(T)),
                T, d, " ".join(sum(dS, []) + F + s), lst(h),
                "".join("  generalize hT%d : Gen.%spk2_r%d c c3 fn %s %s = T%d\n" % (i, d, i, " ".join(s), " ".join(F), i) for i in range(S)),
                " ".join("hT%d" % i for i in range(S)), ", ".join("hT%d" % i for i in range(S))))
    return w


HEAD = """/-
  C06 — Closed-form derivative helpers are true derivatives.  %(what)s

  Property theorems only. `Gen.*` are the definitions regenerated on every run by instantiating the
  real TFEL templates with a recording scalar (harness/C06/trace.cxx), emitted over
  `[CommRing K] [Div K]` so that the generated code itself can be evaluated on the dual numbers
  `Dual K = K[ε]/(ε²)` (Lemmas.lean: a commutative ring, every axiom proved; `/` is the quotient rule).

  Shape of every theorem. For a helper `D` documented as the derivative of `f`:
      (f_code (x₀ + ε h₀) (x₁ + ε h₁) …).map eps = D_code(x) · h          for all x and all h,
  i.e. the ε part of the code of `f` run at `x + ε h` (formal directional derivative of the rational
  function computed by the code, along an arbitrary direction `h`) is the matrix returned by `D`
  applied to `h`. `⟨x, h⟩ : Dual K` is `x + ε h`; `mv m M h` is the flat row-major `m × |h|` matrix `M`
  times `h`. Symmetric tensors are differentiated with respect to their stored (Mandel) components,
  non symmetric ones with respect to their stored components, as the library does
  (`D(i,j) = ∂fᵢ/∂xⱼ`). PropsReal.lean turns each statement into `HasDerivAt` over ℝ.

  Standing hypotheses: `c * c = 2` (`c` is √2, `Cste<T>::sqrt2`), characteristic 0.
  Non-vacuity: ℝ with `c = √2` (Common/Model.lean, PropsReal.lean instantiates every theorem there).
-/
"""


def main():
    units = emit.parse(open(sys.argv[1]).read())
    out = sys.argv[2]
    w = build(units)
    files = {
        "St": ("PropsSt", "Part 1: symmetric tensors (determinant, determinant of the deviator, square).",
               ["GenN1", "GenN2", "GenN3a"]),
        "T": ("PropsT", "Part 2: Cauchy-Green / Green-Lagrange tensors, tensor product, determinant of a non symmetric tensor.",
              ["GenN1", "GenN2", "GenN3b"]),
        "TC": ("PropsTC", "Part 3: tensor product derivatives composed with a derivative (`tpld(B,C)`, `tprd(A,C)`).",
               ["GenN1", "GenN2", "GenN3b", "GenN3c", "GenN3d"]),
        "PK": ("PropsPK", "Part 4: first Piola-Kirchhoff stress derivative conversions.",
               ["GenN1", "GenN2", "GenN3b", "GenN3e", "GenN3f"]),
        "PK2": ("PropsPK2", "Part 5: second Piola-Kirchhoff stress derivative to first Piola-Kirchhoff stress derivative.",
                ["GenN1", "GenN2", "GenN3b", "GenN3g"]),
    }
    for key, (mod, what, gens) in files.items():
        with open(os.path.join(out, mod + ".lean"), "w") as f:
            f.write(HEAD % {"what": what})
            f.write("import TfelVerif.Common.Mandel\nimport TfelVerif.C06.Lemmas\n")
            for g in gens:
                f.write("import TfelVerif.C06.%s\n" % g)
            f.write("\nnamespace TfelVerif.C06.%s\nopen TfelVerif TfelVerif.Mandel TfelVerif.C06\n" % mod)
            f.write("set_option linter.unusedVariables false\nset_option linter.unusedSectionVars false\nset_option maxRecDepth 100000\n\n")
            f.write("variable {K : Type} [Field K] [CharZero K] (c c3 : K) (fn : Fns K)\n\n")
            f.write("\n".join(w.alg[key]))
            f.write("\nend TfelVerif.C06.%s\n" % mod)
    for mod, keys, imports in (("PropsReal1", ("St", "T"), ["PropsSt", "PropsT"]),
                               ("PropsReal2", ("TC", "PK"), ["PropsTC", "PropsPK"])):
        with open(os.path.join(out, mod + ".lean"), "w") as f:
            f.write(HEADR)
            f.write("import TfelVerif.Common.Model\n")
            for i in imports:
                f.write("import TfelVerif.C06.%s\n" % i)
            f.write("\nnamespace TfelVerif.C06.%s\nopen TfelVerif TfelVerif.Mandel TfelVerif.C06\n" % mod)
            f.write("open %s\n" % " ".join("TfelVerif.C06." + i for i in imports))
            f.write("set_option linter.unusedVariables false\nset_option linter.unusedSectionVars false\nset_option maxRecDepth 100000\n\n")
            f.write("variable (c c3 : ℝ) (fn : Fns ℝ)\n\n")
            f.write("\n".join(t for t, k in zip(w.real, w.realkeys) if k in keys))
            f.write("\nend TfelVerif.C06.%s\n" % mod)


HEADR = """/-
  C06 — Closed-form derivative helpers are true derivatives: analytic form over ℝ.

  Property theorems only. For every helper `D` of a function `f` (same pairs as PropsSt/T/TC/PK):
      HasDerivAt (fun t => (f_code (x + t h)).getD i 0) ((D_code(x) · h).getD i 0) 0      for all x, h, i,
  i.e. each component of the traced code of `f`, restricted to the line `t ↦ x + t h` through an
  arbitrary point `x` in an arbitrary direction `h`, is differentiable at `t = 0` and its derivative
  — the limit of the finite difference quotient `(f (x + t h) − f x) / t` — is the corresponding
  component of the matrix returned by the helper applied to `h`.

  Proof: `Tracks` (Lemmas.lean) relates, operation by operation, the real code along the line and
  the same code run on dual numbers (`track_list`, structural), which gives `HasDerivAt` with the
  ε part as derivative; the algebraic theorem of Props* identifies that ε part with `D · h`.
  `c` is any real with `c * c = 2` (√2: `TfelVerif.mandel_hypotheses_satisfiable`).
-/
"""


if __name__ == "__main__":
    main()
