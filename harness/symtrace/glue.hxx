/*!
 * \file glue.hxx
 * \brief trait glue making `verif::Sym` a scalar for TFEL (modelled on
 * include/TFEL/Math/cadna.hxx). Must be included before any other TFEL header.
 */
#ifndef VERIF_GLUE_HXX
#define VERIF_GLUE_HXX

#include "sym.hxx"

#include <type_traits>
#include "TFEL/Metaprogramming/InvalidType.hxx"
#include "TFEL/TypeTraits/IsReal.hxx"
#include "TFEL/TypeTraits/IsScalar.hxx"
#include "TFEL/TypeTraits/IsComplex.hxx"
#include "TFEL/TypeTraits/IsAssignableTo.hxx"
#include "TFEL/TypeTraits/IsFundamentalNumericType.hxx"
#include "TFEL/TypeTraits/BaseType.hxx"
#include "TFEL/TypeTraits/Promote.hxx"
#include "TFEL/Math/General/BasicOperations.hxx"
#include "TFEL/Math/General/UnaryResultType.hxx"
#include "TFEL/Math/General/ResultType.hxx"

namespace tfel::math {
  template <int N, unsigned int D>
  struct Power;
  template <typename real>
  struct CsteBase;

  template <typename Op>
  struct ResultType<verif::Sym, verif::Sym, Op> {
    using type = verif::Sym;
  };
  template <typename T2, typename Op>
  requires(std::is_arithmetic_v<T2>) struct ResultType<verif::Sym, T2, Op> {
    using type = verif::Sym;
  };
  template <typename T1, typename Op>
  requires(std::is_arithmetic_v<T1>) struct ResultType<T1, verif::Sym, Op> {
    using type = verif::Sym;
  };
  template <int N, unsigned int D>
  struct UnaryResultType<verif::Sym, Power<N, D>> {
    using type = verif::Sym;
  };

  //! \brief cast the value to the base type (identity for Sym)
  constexpr verif::Sym& base_type_cast(verif::Sym& v) noexcept { return v; }
  constexpr const verif::Sym& base_type_cast(const verif::Sym& v) noexcept {
    return v;
  }

  //! exact constants
  template <>
  struct CsteBase<verif::Sym> {
    static constexpr verif::Sym sqrt2 = verif::Sym::cst(1, 1, 2);
    static constexpr verif::Sym isqrt2 = verif::Sym::cst(1, 2, 2);
    static constexpr verif::Sym sqrt3 = verif::Sym::cst(1, 1, 3);
    static constexpr verif::Sym isqrt3 = verif::Sym::cst(1, 3, 3);
  };

  //! integer powers: recorded as repeated products exactly as power.ixx does
  //! would for a floating point type is irrelevant for exact semantics; we
  //! record `pow` with a constant exponent instead.
  template <int N>
  verif::Sym power(const verif::Sym x) noexcept {
    if constexpr (N == 0) {
      return verif::Sym(1);
    } else if constexpr (N == 1) {
      return x;
    } else {
      return verif::pow(x, verif::Sym(N));
    }
  }
  template <int N, unsigned int D>
  verif::Sym power(const verif::Sym x) noexcept requires(D != 0) {
    if constexpr (D == 1) {
      return power<N>(x);
    } else if constexpr ((N == 1) && (D == 2)) {
      return verif::sqrt(x);
    } else if constexpr ((N == 1) && (D == 3)) {
      return verif::cbrt(x);
    } else {
      return verif::pow(x, verif::Sym::cst(N, D, 1));
    }
  }
}  // namespace tfel::math

namespace tfel::typetraits {
  template <>
  struct Promote<verif::Sym, verif::Sym> {
    using type = verif::Sym;
  };
  template <typename T2>
  requires(std::is_arithmetic_v<T2>) struct Promote<verif::Sym, T2> {
    using type = verif::Sym;
  };
  template <typename T1>
  requires(std::is_arithmetic_v<T1>) struct Promote<T1, verif::Sym> {
    using type = verif::Sym;
  };
  template <>
  struct IsScalar<verif::Sym> {
    static constexpr bool cond = true;
  };
  template <>
  struct IsScalar<const verif::Sym> {
    static constexpr bool cond = true;
  };
  template <>
  struct IsReal<verif::Sym> {
    static constexpr bool cond = true;
  };
  template <>
  struct IsReal<const verif::Sym> {
    static constexpr bool cond = true;
  };
  template <>
  struct IsComplex<verif::Sym> {
    static constexpr bool cond = false;
  };
  template <typename T1>
  requires(std::is_arithmetic_v<T1>) struct IsAssignableTo<T1, verif::Sym> {
    static constexpr bool cond = true;
  };
  template <>
  struct IsAssignableTo<verif::Sym, verif::Sym> {
    static constexpr bool cond = true;
  };
  template <>
  struct IsFundamentalNumericType<verif::Sym> {
    static constexpr bool cond = true;
  };
  template <>
  struct IsFundamentalNumericType<const verif::Sym> {
    static constexpr bool cond = true;
  };
  template <>
  struct BaseType<verif::Sym> {
    using type = verif::Sym;
  };
}  // end of namespace tfel::typetraits

#endif /* VERIF_GLUE_HXX */
