#!/usr/bin/env python3
"""T1 emitter: symtrace DAG dump  ->  Lean 4 definitions.

Input (stdin or files): the line format printed by verif::dump (sym.hxx):
    unit <name>
    n <id> <op> <args...> ; <shadow>
    path <cmp> <a> <b> <0|1>
    out <name> <id>
    end <name>
Several units may follow each other.

Output: a Lean file defining, for each unit U and each output O,
    def <U>_<O> {K : Type} [Field K] (c c3 : K) (fn : Fns K) (inputs... : K) : K
as a `let` chain over the cone of O, in the recorded operation order.
`c` stands for sqrt 2, `c3` for sqrt 3 (they appear only if used; unused binders
are still present so that all definitions of a unit share one signature).
Function symbols (sqrt, exp, ...) go through the structure `Fns K` of
TfelVerif.Common.Sym, i.e. they are uninterpreted.

Also provides `evaluate(unit, env)` used by the failing-input search: exact
evaluation of the DAG over Q(sqrt2) represented as pairs of Fractions.
"""
import sys
import re
from fractions import Fraction

UNARY = {"neg", "sqrt", "cbrt", "abs", "exp", "log", "log10", "cos", "sin", "tan",
         "acos", "asin", "atan", "cosh", "sinh", "tanh"}
BINARY = {"add", "sub", "mul", "div", "pow", "atan2", "min", "max"}


class Unit:
    def __init__(self, name):
        self.name = name
        self.nodes = {}      # id -> (op, payload)
        self.order = []
        self.outs = []       # (name, id)
        self.paths = []      # (cmp, a, b, result)
        self.inputs = []     # names in order of creation

    def cone(self, root):
        seen = set()
        stack = [root]
        while stack:
            i = stack.pop()
            if i in seen:
                continue
            seen.add(i)
            op, p = self.nodes[i]
            if op in UNARY:
                stack.append(p[0])
            elif op in BINARY:
                stack.extend(p)
            elif op == "call":
                stack.extend(p[1])
        return seen


def parse(text):
    units = []
    cur = None
    for line in text.splitlines():
        line = line.split(";")[0].strip()
        if not line:
            continue
        f = line.split()
        if f[0] == "unit":
            cur = Unit(f[1])
        elif f[0] == "end":
            units.append(cur)
            cur = None
        elif f[0] == "n":
            i = int(f[1])
            op = f[2]
            if op == "in":
                if re.fullmatch(r"n\d+", f[3]) or f[3] in ("c", "c3", "fn", "K"):
                    raise SystemExit("emit.py: input name %r of unit %s clashes with generated binders (n<k>, c, c3, fn, K)" % (f[3], cur.name))
                cur.nodes[i] = ("in", f[3])
                cur.inputs.append(f[3])
            elif op == "const":
                cur.nodes[i] = ("const", (int(f[3]), int(f[4]), int(f[5])))
            elif op == "lit":
                cur.nodes[i] = ("lit", Fraction(*float.fromhex(f[3]).as_integer_ratio()))
            elif op == "call":
                cur.nodes[i] = ("call", (f[3], [int(x) for x in f[4:]]))
            elif op in UNARY:
                cur.nodes[i] = (op, [int(f[3])])
            elif op in BINARY:
                cur.nodes[i] = (op, [int(f[3]), int(f[4])])
            else:
                raise SystemExit("emit.py: unknown op %r" % op)
            cur.order.append(i)
        elif f[0] == "out":
            cur.outs.append((f[1], int(f[2])))
        elif f[0] == "path":
            cur.paths.append((f[1], int(f[2]), int(f[3]), f[4] == "1"))
    return units


def lean_ident(s):
    s = re.sub(r"[^A-Za-z0-9_]", "_", s)
    if s[0].isdigit():
        s = "x" + s
    return s


def lean_rat(n, d):
    if d == 1:
        return "(%d : K)" % n if n >= 0 else "(-%d : K)" % (-n)
    if n >= 0:
        return "((%d : K) / %d)" % (n, d)
    return "(-((%d : K) / %d))" % (-n, d)


def lean_const(n, d, r):
    q = lean_rat(n, d)
    if r == 1:
        return q
    rad = {2: "c", 3: "c3", 6: "(c * c3)"}[r]
    if n == 1 and d == 1:
        return rad
    return "(%s * %s)" % (q, rad)


def node_expr(u, i, ref):
    op, p = u.nodes[i]
    if op == "in":
        return lean_ident(p)
    if op == "const":
        return lean_const(*p)
    if op == "lit":
        return lean_rat(p.numerator, p.denominator)
    if op == "neg":
        return "-%s" % ref(p[0])
    if op in UNARY:
        return "fn.%s %s" % (op, ref(p[0]))
    sym = {"add": "+", "sub": "-", "mul": "*", "div": "/"}
    if op in sym:
        return "%s %s %s" % (ref(p[0]), sym[op], ref(p[1]))
    if op == "pow":
        eo, ep = u.nodes[p[1]]
        if eo == "const" and ep[1] == 1 and ep[2] == 1 and ep[0] >= 0:
            return "%s ^ %d" % (ref(p[0]), ep[0])
        return "fn.pow %s %s" % (ref(p[0]), ref(p[1]))
    if op in ("atan2", "min", "max"):
        return "fn.%s %s %s" % (op, ref(p[0]), ref(p[1]))
    if op == "call":
        name, args = p
        return "fn.call \"%s\" [%s]" % (name, ", ".join(ref(a) for a in args))
    raise SystemExit("emit.py: cannot render %r" % op)


def emit_unit(u, out, chunk=None):
    ins = [lean_ident(x) for x in u.inputs]
    binder = "(c c3 : K) (fn : Fns K)" + (" (%s : K)" % " ".join(ins) if ins else "")
    uname = lean_ident(u.name)
    for oname, root in u.outs:
        cone = u.cone(root)

        def ref(j):
            o, p = u.nodes[j]
            if o == "in":
                return lean_ident(p)
            if o == "const":
                return lean_const(*p)
            if o == "lit":
                return lean_rat(p.numerator, p.denominator)
            return "n%d" % j
        out.write("@[gen_simp] def %s_%s {K : Type} [Field K] %s : K :=\n" % (uname, lean_ident(oname), binder))
        body = []
        for j in u.order:
            if j not in cone:
                continue
            o, _ = u.nodes[j]
            if o in ("in", "const", "lit"):
                continue
            body.append("  let n%d := %s" % (j, node_expr(u, j, ref)))
        out.write("\n".join(body) + ("\n" if body else ""))
        out.write("  %s\n\n" % ref(root))
    # divisor nodes (non constant), in order of creation: `<unit>_den<k>`; theorems state their
    # non-vanishing as hypotheses and relate them to the specification separately
    dens = []
    for j in u.order:
        o, p = u.nodes[j]
        if o == "div":
            do, _ = u.nodes[p[1]]
            if do not in ("const", "lit") and p[1] not in dens:
                dens.append(p[1])
    for k, root in enumerate(dens):
        cone = u.cone(root)

        def ref(j):
            o, p = u.nodes[j]
            if o == "in":
                return lean_ident(p)
            if o == "const":
                return lean_const(*p)
            if o == "lit":
                return lean_rat(p.numerator, p.denominator)
            return "n%d" % j
        out.write("@[gen_simp] def %s_den%d {K : Type} [Field K] %s : K :=\n" % (uname, k, binder))
        for j in u.order:
            if j in cone and u.nodes[j][0] not in ("in", "const", "lit"):
                out.write("  let n%d := %s\n" % (j, node_expr(u, j, ref)))
        out.write("  %s\n\n" % ref(root))
    # all outputs of the unit, in the order in which the tracer declared them
    args = "c c3 fn" + ("".join(" " + x for x in ins))
    out.write("@[gen_simp] def %s_all {K : Type} [Field K] %s : List K :=\n  [%s]\n\n" % (
        uname, binder, ",\n   ".join("%s_%s %s" % (uname, lean_ident(o), args) for o, _ in u.outs)))
    # path conditions (concolic mode): a Prop over the same binders
    if u.paths:
        def ref2(j):
            return "n%d" % j
        out.write("/-- path condition under which the trace of `%s` was taken -/\n" % uname)
        out.write("def %s_path {K : Type} [Field K] [LT K] [LE K] %s : Prop :=\n" % (uname, binder))
        need = set()
        for (_, a, b, _) in u.paths:
            need |= u.cone(a) | u.cone(b)
        for j in u.order:
            if j in need:
                o, p = u.nodes[j]
                if o == "in":
                    out.write("  let n%d := %s\n" % (j, lean_ident(p)))
                elif o == "const":
                    out.write("  let n%d : K := %s\n" % (j, lean_const(*p)))
                elif o == "lit":
                    out.write("  let n%d : K := %s\n" % (j, lean_rat(p.numerator, p.denominator)))
                else:
                    out.write("  let n%d := %s\n" % (j, node_expr(u, j, ref2)))
        conj = []
        sym = {"lt": "<", "le": "≤", "gt": ">", "ge": "≥", "eq": "=", "ne": "≠"}
        for (cmp_, a, b, r) in u.paths:
            e = "n%d %s n%d" % (a, sym[cmp_], b)
            conj.append(e if r else "¬ (%s)" % e)
        out.write("  " + " ∧ ".join(conj) + "\n\n")


# ---------------------------------------------------------------- exact evaluation
class Q2:
    """a + b*sqrt2 with Fractions (exact field arithmetic)."""
    __slots__ = ("a", "b")

    def __init__(self, a=0, b=0):
        self.a = Fraction(a)
        self.b = Fraction(b)

    def __add__(s, o): return Q2(s.a + o.a, s.b + o.b)
    def __sub__(s, o): return Q2(s.a - o.a, s.b - o.b)
    def __neg__(s): return Q2(-s.a, -s.b)
    def __mul__(s, o): return Q2(s.a * o.a + 2 * s.b * o.b, s.a * o.b + s.b * o.a)

    def inv(s):
        d = s.a * s.a - 2 * s.b * s.b
        if d == 0:
            raise ZeroDivisionError
        return Q2(s.a / d, -s.b / d)

    def __truediv__(s, o): return s * o.inv()
    def __eq__(s, o): return s.a == o.a and s.b == o.b
    def __hash__(s): return hash((s.a, s.b))
    def __repr__(s): return "%s+%s√2" % (s.a, s.b) if s.b else "%s" % s.a
    def __float__(s): return float(s.a) + float(s.b) * 2 ** 0.5

    def __pow__(s, n):
        r = Q2(1)
        for _ in range(n):
            r = r * s
        return r


class NotExact(Exception):
    pass


def evaluate(u, env, fns=None):
    """exact evaluation of every node of unit `u`; env: input name -> Q2.
    Function symbols are evaluated through `fns[name](args)` if provided
    (e.g. an injective hash into Q), else raise NotExact."""
    val = {}
    for j in u.order:
        op, p = u.nodes[j]
        if op == "in":
            val[j] = env[p]
        elif op == "const":
            n, d, r = p
            if r == 1:
                val[j] = Q2(Fraction(n, d))
            elif r == 2:
                val[j] = Q2(0, Fraction(n, d))
            else:
                raise NotExact("sqrt3 constant")
        elif op == "lit":
            val[j] = Q2(p)
        elif op == "add":
            val[j] = val[p[0]] + val[p[1]]
        elif op == "sub":
            val[j] = val[p[0]] - val[p[1]]
        elif op == "mul":
            val[j] = val[p[0]] * val[p[1]]
        elif op == "div":
            val[j] = val[p[0]] / val[p[1]]
        elif op == "neg":
            val[j] = -val[p[0]]
        elif op == "pow":
            eo, ep = u.nodes[p[1]]
            if eo == "const" and ep[1] == 1 and ep[2] == 1 and ep[0] >= 0:
                val[j] = val[p[0]] ** ep[0]
            elif fns:
                val[j] = fns("pow", [val[p[0]], val[p[1]]])
            else:
                raise NotExact(op)
        else:
            if not fns:
                raise NotExact(op)
            if op == "call":
                val[j] = fns(p[0], [val[a] for a in p[1]])
            else:
                val[j] = fns(op, [val[a] for a in p])
    return val


def main():
    import argparse
    ap = argparse.ArgumentParser()
    ap.add_argument("--namespace", required=True)
    ap.add_argument("--out", required=True)
    ap.add_argument("dumps", nargs="+")
    a = ap.parse_args()
    units = []
    for d in a.dumps:
        units += parse(open(d).read())
    with open(a.out, "w") as out:
        out.write("-- GENERATED by harness/symtrace/emit.py from /repo's current sources. Do not edit.\n")
        out.write("import TfelVerif.Common.Sym\n")
        out.write("set_option maxRecDepth 100000\n")
        out.write("set_option linter.unusedVariables false\n")
        out.write("namespace %s\nopen TfelVerif\n\n" % a.namespace)
        for u in units:
            emit_unit(u, out)
        out.write("end %s\n" % a.namespace)
    print("emit.py: %d units, %d outputs -> %s" % (len(units), sum(len(u.outs) for u in units), a.out))


if __name__ == "__main__":
    main()
