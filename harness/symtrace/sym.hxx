/*!
 * \file sym.hxx
 * \brief T1 "symtrace": a recording scalar type.
 *
 * `verif::Sym` is a literal type. A value is either
 *  - an exact constant  (num/den) * sqrt(rad),  rad in {1,2,3,6}, folded at
 *    compile time or run time (exact arithmetic in the monomial part of
 *    Q(sqrt2,sqrt3)), or
 *  - a handle to a node of a global expression DAG.
 * Every arithmetic operation on a non constant appends a node to the DAG in
 * the order in which the instantiated TFEL code performs it. A shadow `double`
 * is carried by every node (used in concolic mode to decide value dependent
 * branches, and for self checks).
 *
 * Output: `verif::dump(std::ostream&)` prints the DAG in a line format read by
 * emit.py.
 */
#ifndef VERIF_SYM_HXX
#define VERIF_SYM_HXX

#include <cmath>
#include <cstdio>
#include <cstdlib>
#include <iostream>
#include <limits>
#include <map>
#include <string>
#include <tuple>
#include <vector>

namespace verif {

  using i128 = __int128;

  constexpr i128 igcd(i128 a, i128 b) {
    if (a < 0) a = -a;
    if (b < 0) b = -b;
    while (b != 0) {
      const i128 t = a % b;
      a = b;
      b = t;
    }
    return a;
  }

  enum Op : int {
    OP_IN,
    OP_CONST,
    OP_LIT,
    OP_ADD,
    OP_SUB,
    OP_MUL,
    OP_DIV,
    OP_NEG,
    OP_SQRT,
    OP_CBRT,
    OP_ABS,
    OP_POW,
    OP_EXP,
    OP_LOG,
    OP_LOG10,
    OP_COS,
    OP_SIN,
    OP_TAN,
    OP_ACOS,
    OP_ASIN,
    OP_ATAN,
    OP_COSH,
    OP_SINH,
    OP_TANH,
    OP_ATAN2,
    OP_CALL,
    OP_MIN,
    OP_MAX,
    OP_ITE  // if-then-else on a recorded comparison (concolic off): unused
  };

  inline const char* opname(const int o) {
    static const char* n[] = {"in",   "const", "lit",  "add",  "sub",  "mul",
                              "div",  "neg",   "sqrt", "cbrt", "abs",  "pow",
                              "exp",  "log",   "log10", "cos", "sin",  "tan",
                              "acos", "asin",  "atan", "cosh", "sinh", "tanh",
                              "atan2", "call", "min",  "max",  "ite"};
    return n[o];
  }

  struct Node {
    int op;
    int a, b;          // argument node ids (-1 if none)
    long long num, den;  // OP_CONST
    int rad;             // OP_CONST
    double lit;          // OP_LIT
    std::string name;    // OP_IN, OP_CALL
    std::vector<int> args;  // OP_CALL
    double shadow;
  };

  struct PathCond {
    std::string cmp;  // lt le gt ge eq ne
    int a, b;
    bool result;
  };

  struct Context {
    std::vector<Node> nodes;
    std::map<std::tuple<int, int, int>, int> cse;
    std::map<std::tuple<long long, long long, int>, int> ccse;
    std::vector<std::pair<std::string, int>> outputs;
    std::vector<PathCond> path;
    bool concolic = false;
    bool cse_on = true;
    void reset() {
      nodes.clear();
      cse.clear();
      ccse.clear();
      outputs.clear();
      path.clear();
    }
  };

  inline Context& ctx() {
    static Context c;
    return c;
  }

  struct Sym;
  int node_of(const Sym&);

  struct Sym {
    // constant part: (num/den)*sqrt(rad); valid when id < 0
    long long num = 0;
    long long den = 1;
    int rad = 1;
    // id >= 0: DAG node; -1: exact constant; -2: overflowed constant (unusable);
    // -3: pending literal `lv` (a double that is not a small dyadic rational, e.g.
    //     `static constexpr real eps = 1.e-14;`): becomes a LIT leaf on first use
    int id = -1;
    double lv = 0;

    constexpr Sym() = default;
    constexpr Sym(const Sym&) = default;
    constexpr Sym& operator=(const Sym&) = default;
    constexpr Sym(const int v) : num(v) {}
    constexpr Sym(const long v) : num(v) {}
    constexpr Sym(const long long v) : num(v) {}
    constexpr Sym(const unsigned int v) : num(v) {}
    constexpr Sym(const unsigned short v) : num(v) {}
    constexpr Sym(const unsigned long v) : num(static_cast<long long>(v)) {}
    constexpr Sym(const float v) : Sym(static_cast<double>(v)) {}
    constexpr Sym(const long double v) : Sym(static_cast<double>(v)) {}
    constexpr Sym(const double v) {
      // exact dyadic conversion when it fits, else a literal leaf
      if (v == 0) {
        return;
      }
      double m = v < 0 ? -v : v;
      long long d = 1;
      int k = 0;
      bool ok = true;
      while (m != static_cast<double>(static_cast<long long>(m))) {
        if (k >= 61 || m > 4.0e18) {
          ok = false;
          break;
        }
        m *= 2;
        d *= 2;
        ++k;
      }
      if (ok && m < 9.0e18) {
        long long n = static_cast<long long>(m);
        const long long g = static_cast<long long>(igcd(n, d));
        n /= g;
        d /= g;
        num = v < 0 ? -n : n;
        den = d;
      } else {
        id = -3;
        lv = v;
      }
    }
    static Sym lit(const double v);
    constexpr bool is_const() const { return id < 0; }
    static constexpr Sym cst(const i128 n, const i128 d, const int r) {
      Sym s;
      i128 nn = n, dd = d;
      if (dd < 0) {
        nn = -nn;
        dd = -dd;
      }
      const i128 g = igcd(nn, dd);
      if (g > 1) {
        nn /= g;
        dd /= g;
      }
      constexpr i128 lim = (static_cast<i128>(1) << 62);
      if (nn > lim || nn < -lim || dd > lim) {
        // overflow: not representable as an exact small constant
        s.id = -2;
        return s;
      }
      s.num = static_cast<long long>(nn);
      s.den = static_cast<long long>(dd);
      s.rad = (nn == 0) ? 1 : r;
      return s;
    }
    constexpr bool is_zero() const { return id == -1 && num == 0; }
    constexpr bool is_one() const {
      return id == -1 && num == 1 && den == 1 && rad == 1;
    }
    double shadow() const;
    // explicit conversions sometimes requested by TFEL (e.g. base_type casts)
    constexpr Sym& operator+=(const Sym& o);
    constexpr Sym& operator-=(const Sym& o);
    constexpr Sym& operator*=(const Sym& o);
    constexpr Sym& operator/=(const Sym& o);
  };

  // ---- DAG construction (run time only)
  inline int push_node(Node n) {
    auto& c = ctx();
    c.nodes.push_back(std::move(n));
    return static_cast<int>(c.nodes.size()) - 1;
  }

  inline double radval(const int r) {
    return r == 1 ? 1. : std::sqrt(static_cast<double>(r));
  }

  inline int const_node(const Sym& s) {
    auto& c = ctx();
    const auto key = std::make_tuple(s.num, s.den, s.rad);
    const auto p = c.ccse.find(key);
    if (p != c.ccse.end()) return p->second;
    Node n{};
    n.op = OP_CONST;
    n.a = n.b = -1;
    n.num = s.num;
    n.den = s.den;
    n.rad = s.rad;
    n.shadow = static_cast<double>(s.num) / static_cast<double>(s.den) *
               radval(s.rad);
    const int id = push_node(n);
    c.ccse[key] = id;
    return id;
  }

  inline int node_of(const Sym& s) {
    if (s.id >= 0) return s.id;
    if (s.id == -3) return Sym::lit(s.lv).id;
    if (s.id == -2) {
      std::fprintf(stderr, "symtrace: use of an overflowed constant\n");
      std::abort();
    }
    return const_node(s);
  }

  inline Sym from_node(const int id) {
    Sym s;
    s.id = id;
    return s;
  }

  inline Sym Sym::lit(const double v) {
    Node n{};
    n.op = OP_LIT;
    n.a = n.b = -1;
    n.lit = v;
    n.shadow = v;
    return from_node(push_node(n));
  }

  inline double Sym::shadow() const {
    if (id >= 0) return ctx().nodes[id].shadow;
    if (id == -3) return lv;
    return static_cast<double>(num) / static_cast<double>(den) * radval(rad);
  }

  inline Sym make_input(const std::string& name, const double shadow = 0.) {
    Node n{};
    n.op = OP_IN;
    n.a = n.b = -1;
    n.name = name;
    n.shadow = shadow;
    return from_node(push_node(n));
  }

  inline double eval_op(const int op, const double x, const double y) {
    switch (op) {
      case OP_ADD: return x + y;
      case OP_SUB: return x - y;
      case OP_MUL: return x * y;
      case OP_DIV: return x / y;
      case OP_NEG: return -x;
      case OP_SQRT: return std::sqrt(x);
      case OP_CBRT: return std::cbrt(x);
      case OP_ABS: return std::abs(x);
      case OP_POW: return std::pow(x, y);
      case OP_EXP: return std::exp(x);
      case OP_LOG: return std::log(x);
      case OP_LOG10: return std::log10(x);
      case OP_COS: return std::cos(x);
      case OP_SIN: return std::sin(x);
      case OP_TAN: return std::tan(x);
      case OP_ACOS: return std::acos(x);
      case OP_ASIN: return std::asin(x);
      case OP_ATAN: return std::atan(x);
      case OP_COSH: return std::cosh(x);
      case OP_SINH: return std::sinh(x);
      case OP_TANH: return std::tanh(x);
      case OP_ATAN2: return std::atan2(x, y);
      case OP_MIN: return std::min(x, y);
      case OP_MAX: return std::max(x, y);
    }
    return 0.;
  }

  inline Sym make_op(const int op, const Sym& x, const Sym& y) {
    auto& c = ctx();
    const int a = node_of(x);
    const int b = node_of(y);
    const auto key = std::make_tuple(op, a, b);
    if (c.cse_on) {
      const auto p = c.cse.find(key);
      if (p != c.cse.end()) return from_node(p->second);
    }
    Node n{};
    n.op = op;
    n.a = a;
    n.b = b;
    n.shadow = eval_op(op, c.nodes[a].shadow, c.nodes[b].shadow);
    const int id = push_node(n);
    if (c.cse_on) c.cse[key] = id;
    return from_node(id);
  }

  inline Sym make_op1(const int op, const Sym& x) {
    auto& c = ctx();
    const int a = node_of(x);
    const auto key = std::make_tuple(op, a, -1);
    if (c.cse_on) {
      const auto p = c.cse.find(key);
      if (p != c.cse.end()) return from_node(p->second);
    }
    Node n{};
    n.op = op;
    n.a = a;
    n.b = -1;
    n.shadow = eval_op(op, c.nodes[a].shadow, 0.);
    const int id = push_node(n);
    if (c.cse_on) c.cse[key] = id;
    return from_node(id);
  }

  //! an uninterpreted function call `name(args...)`, result shadow given
  inline Sym make_call(const std::string& name,
                       const std::vector<Sym>& args,
                       const double shadow = 0.) {
    Node n{};
    n.op = OP_CALL;
    n.a = n.b = -1;
    n.name = name;
    for (const auto& a : args) n.args.push_back(node_of(a));
    n.shadow = shadow;
    return from_node(push_node(n));
  }

  // radical product table: sqrt(r1)*sqrt(r2) = k*sqrt(r)
  constexpr void radmul(const int r1, const int r2, int& k, int& r) {
    const int p = r1 * r2;  // 1,2,3,4,6,9,12,18,36
    switch (p) {
      case 1: k = 1; r = 1; break;
      case 2: k = 1; r = 2; break;
      case 3: k = 1; r = 3; break;
      case 4: k = 2; r = 1; break;
      case 6: k = 1; r = 6; break;
      case 9: k = 3; r = 1; break;
      case 12: k = 2; r = 3; break;
      case 18: k = 3; r = 2; break;
      case 36: k = 6; r = 1; break;
      default: k = 1; r = 1; break;
    }
  }

  // ---- arithmetic
  constexpr Sym operator-(const Sym& x) {
    if (x.id == -1) return Sym::cst(-static_cast<i128>(x.num), x.den, x.rad);
    return make_op1(OP_NEG, x);
  }
  constexpr Sym operator+(const Sym& x) { return x; }

  constexpr Sym operator+(const Sym& x, const Sym& y) {
    if (x.id == -1 && y.id == -1) {
      if (x.num == 0) return y;
      if (y.num == 0) return x;
      if (x.rad == y.rad) {
        const Sym r = Sym::cst(static_cast<i128>(x.num) * y.den +
                                   static_cast<i128>(y.num) * x.den,
                               static_cast<i128>(x.den) * y.den, x.rad);
        if (r.id == -1) return r;
      }
    }
    return make_op(OP_ADD, x, y);
  }
  constexpr Sym operator-(const Sym& x, const Sym& y) {
    if (x.id == -1 && y.id == -1) {
      if (y.num == 0) return x;
      if (x.num == 0) return -y;
      if (x.rad == y.rad) {
        const Sym r = Sym::cst(static_cast<i128>(x.num) * y.den -
                                   static_cast<i128>(y.num) * x.den,
                               static_cast<i128>(x.den) * y.den, x.rad);
        if (r.id == -1) return r;
      }
    }
    return make_op(OP_SUB, x, y);
  }
  constexpr Sym operator*(const Sym& x, const Sym& y) {
    if (x.id == -1 && y.id == -1) {
      int k = 1, r = 1;
      radmul(x.rad, y.rad, k, r);
      const Sym p = Sym::cst(static_cast<i128>(x.num) * y.num * k,
                             static_cast<i128>(x.den) * y.den, r);
      if (p.id == -1) return p;
    }
    return make_op(OP_MUL, x, y);
  }
  constexpr Sym operator/(const Sym& x, const Sym& y) {
    if (x.id == -1 && y.id == -1 && y.num != 0) {
      // 1/(n/d sqrt r) = d/(n r) sqrt r
      int k = 1, r = 1;
      radmul(x.rad, y.rad, k, r);
      const Sym p = Sym::cst(static_cast<i128>(x.num) * y.den * k,
                             static_cast<i128>(x.den) * y.num * y.rad, r);
      if (p.id == -1) return p;
    }
    return make_op(OP_DIV, x, y);
  }

  constexpr Sym& Sym::operator+=(const Sym& o) { return *this = *this + o; }
  constexpr Sym& Sym::operator-=(const Sym& o) { return *this = *this - o; }
  constexpr Sym& Sym::operator*=(const Sym& o) { return *this = *this * o; }
  constexpr Sym& Sym::operator/=(const Sym& o) { return *this = *this / o; }

#define VERIF_MIXED(T)                                                   \
  constexpr Sym operator+(const Sym& x, const T y) { return x + Sym(y); } \
  constexpr Sym operator+(const T x, const Sym& y) { return Sym(x) + y; } \
  constexpr Sym operator-(const Sym& x, const T y) { return x - Sym(y); } \
  constexpr Sym operator-(const T x, const Sym& y) { return Sym(x) - y; } \
  constexpr Sym operator*(const Sym& x, const T y) { return x * Sym(y); } \
  constexpr Sym operator*(const T x, const Sym& y) { return Sym(x) * y; } \
  constexpr Sym operator/(const Sym& x, const T y) { return x / Sym(y); } \
  constexpr Sym operator/(const T x, const Sym& y) { return Sym(x) / y; }
  VERIF_MIXED(int)
  VERIF_MIXED(long)
  VERIF_MIXED(unsigned int)
  VERIF_MIXED(unsigned short)
  VERIF_MIXED(unsigned long)
  VERIF_MIXED(double)
  VERIF_MIXED(float)
  VERIF_MIXED(long double)
#undef VERIF_MIXED

  // ---- comparisons: exact on constants, concolic (or abort) on nodes
  constexpr double const_value(const Sym& x) {
    if (x.id == -3) return x.lv;
    double r = static_cast<double>(x.num) / static_cast<double>(x.den);
    if (x.rad == 2) r *= 1.4142135623730951;
    if (x.rad == 3) r *= 1.7320508075688772;
    if (x.rad == 6) r *= 2.4494897427831779;
    return r;
  }
  constexpr int const_cmp(const Sym& x, const Sym& y) {
    // pending literals: compare by (double) value
    if (x.id == -3 || y.id == -3) {
      const double a = const_value(x), b = const_value(y);
      return a < b ? -1 : (a > b ? 1 : 0);
    }
    // sign of x - y for constants; radicals compared through squares
    if (x.rad == y.rad) {
      const i128 l = static_cast<i128>(x.num) * y.den;
      const i128 r = static_cast<i128>(y.num) * x.den;
      return l < r ? -1 : (l > r ? 1 : 0);
    }
    const int sx = x.num > 0 ? 1 : (x.num < 0 ? -1 : 0);
    const int sy = y.num > 0 ? 1 : (y.num < 0 ? -1 : 0);
    if (sx != sy) return sx < sy ? -1 : 1;
    if (sx == 0) return 0;
    // same non zero sign: compare squares  x^2 = num^2 rad / den^2
    const i128 l = static_cast<i128>(x.num) * x.num * x.rad *
                   (static_cast<i128>(y.den) * y.den);
    const i128 r = static_cast<i128>(y.num) * y.num * y.rad *
                   (static_cast<i128>(x.den) * x.den);
    const int c = l < r ? -1 : (l > r ? 1 : 0);
    return sx > 0 ? c : -c;
  }

  inline bool node_cmp(const char* what, const Sym& x, const Sym& y) {
    auto& c = ctx();
    if (!c.concolic) {
      std::fprintf(stderr,
                   "symtrace: value dependent branch (%s) on a symbolic value; "
                   "enable concolic mode or model this code by hand\n",
                   what);
      std::abort();
    }
    const double a = x.shadow(), b = y.shadow();
    bool r = false;
    const std::string w = what;
    if (w == "lt") r = a < b;
    if (w == "le") r = a <= b;
    if (w == "gt") r = a > b;
    if (w == "ge") r = a >= b;
    if (w == "eq") r = a == b;
    if (w == "ne") r = a != b;
    c.path.push_back({w, node_of(x), node_of(y), r});
    return r;
  }

#define VERIF_CMP(OPSYM, NAME, CONSTEXPR)                         \
  constexpr bool operator OPSYM(const Sym& x, const Sym& y) {     \
    if ((x.id == -1 || x.id == -3) && (y.id == -1 || y.id == -3)) \
      return const_cmp(x, y) CONSTEXPR;                           \
    return node_cmp(NAME, x, y);                                  \
  }
  VERIF_CMP(<, "lt", < 0)
  VERIF_CMP(<=, "le", <= 0)
  VERIF_CMP(>, "gt", > 0)
  VERIF_CMP(>=, "ge", >= 0)
  VERIF_CMP(==, "eq", == 0)
  VERIF_CMP(!=, "ne", != 0)
#undef VERIF_CMP
#define VERIF_MIXEDCMP(T, OPSYM)                                            \
  constexpr bool operator OPSYM(const Sym& x, const T y) { return x OPSYM Sym(y); } \
  constexpr bool operator OPSYM(const T x, const Sym& y) { return Sym(x) OPSYM y; }
#define VERIF_MIXEDCMPS(T) \
  VERIF_MIXEDCMP(T, <)     \
  VERIF_MIXEDCMP(T, <=)    \
  VERIF_MIXEDCMP(T, >)     \
  VERIF_MIXEDCMP(T, >=)    \
  VERIF_MIXEDCMP(T, ==)    \
  VERIF_MIXEDCMP(T, !=)
  VERIF_MIXEDCMPS(int)
  VERIF_MIXEDCMPS(double)
  VERIF_MIXEDCMPS(unsigned int)
  VERIF_MIXEDCMPS(long)
#undef VERIF_MIXEDCMPS
#undef VERIF_MIXEDCMP

  // ---- math functions
  inline Sym sqrt(const Sym& x) {
    if (x.id == -1 && x.rad == 1 && x.num >= 0) {
      // perfect squares, and 2,3,6 times perfect squares
      auto isq = [](const long long v) -> long long {
        if (v < 0) return -1;
        long long r = static_cast<long long>(std::llround(std::sqrt(
            static_cast<double>(v))));
        for (long long c = (r > 1 ? r - 1 : 0); c <= r + 1; ++c) {
          if (c * c == v) return c;
        }
        return -1;
      };
      for (const int r : {1, 2, 3, 6}) {
        // x = n/d ; want n/d = (p/q)^2 * r  <=> n*r/(d*r^2)... test n*d*r square
        // sqrt(n/d) = sqrt(n d)/d ; n d = r * s^2
        const i128 nd = static_cast<i128>(x.num) * x.den;
        if (nd % r != 0) continue;
        const i128 q = nd / r;
        if (q > (static_cast<i128>(1) << 62)) continue;
        const long long s = isq(static_cast<long long>(q));
        if (s >= 0) return Sym::cst(s, x.den, r);
      }
    }
    return make_op1(OP_SQRT, x);
  }
#define VERIF_FN1(NAME, OPC) \
  inline Sym NAME(const Sym& x) { return make_op1(OPC, x); }
  VERIF_FN1(cbrt, OP_CBRT)
  VERIF_FN1(exp, OP_EXP)
  VERIF_FN1(log, OP_LOG)
  VERIF_FN1(log10, OP_LOG10)
  VERIF_FN1(cos, OP_COS)
  VERIF_FN1(sin, OP_SIN)
  VERIF_FN1(tan, OP_TAN)
  VERIF_FN1(acos, OP_ACOS)
  VERIF_FN1(asin, OP_ASIN)
  VERIF_FN1(atan, OP_ATAN)
  VERIF_FN1(cosh, OP_COSH)
  VERIF_FN1(sinh, OP_SINH)
  VERIF_FN1(tanh, OP_TANH)
#undef VERIF_FN1
  constexpr Sym abs(const Sym& x) {
    if (x.id == -1) return x.num < 0 ? -x : x;
    return make_op1(OP_ABS, x);
  }
  constexpr Sym fabs(const Sym& x) { return abs(x); }
  inline Sym pow(const Sym& x, const Sym& y) {
    if (y.id == -1 && y.den == 1 && y.rad == 1 && y.num >= 0 && y.num <= 8) {
      // small natural exponent: keep it as pow with a constant exponent
    }
    return make_op(OP_POW, x, y);
  }
  inline Sym pow(const Sym& x, const int y) { return pow(x, Sym(y)); }
  inline Sym pow(const Sym& x, const double y) { return pow(x, Sym(y)); }
  inline Sym pow(const double x, const Sym& y) { return pow(Sym(x), y); }
  inline Sym atan2(const Sym& x, const Sym& y) {
    return make_op(OP_ATAN2, x, y);
  }
  inline Sym min(const Sym& x, const Sym& y) {
    if (x.id == -1 && y.id == -1) return const_cmp(y, x) < 0 ? y : x;
    return make_op(OP_MIN, x, y);
  }
  inline Sym max(const Sym& x, const Sym& y) {
    if (x.id == -1 && y.id == -1) return const_cmp(x, y) < 0 ? y : x;
    return make_op(OP_MAX, x, y);
  }
  inline bool isnan(const Sym&) { return false; }
  inline bool isfinite(const Sym&) { return true; }
  inline bool isinf(const Sym&) { return false; }

  inline std::ostream& operator<<(std::ostream& os, const Sym& s) {
    if (s.id >= 0) return os << "%" << s.id;
    return os << s.num << "/" << s.den << "r" << s.rad;
  }

  // ---- outputs and dump
  inline void output(const std::string& name, const Sym& v) {
    ctx().outputs.push_back({name, node_of(v)});
  }

  inline void dump(std::ostream& os, const std::string& unit) {
    auto& c = ctx();
    os << "unit " << unit << "\n";
    char buf[64];
    for (std::size_t i = 0; i != c.nodes.size(); ++i) {
      const auto& n = c.nodes[i];
      os << "n " << i << " " << opname(n.op);
      switch (n.op) {
        case OP_IN:
          os << " " << n.name;
          break;
        case OP_CONST:
          os << " " << n.num << " " << n.den << " " << n.rad;
          break;
        case OP_LIT:
          std::snprintf(buf, sizeof(buf), "%a", n.lit);
          os << " " << buf;
          break;
        case OP_CALL:
          os << " " << n.name;
          for (const int a : n.args) os << " " << a;
          break;
        default:
          os << " " << n.a;
          if (n.b >= 0) os << " " << n.b;
      }
      std::snprintf(buf, sizeof(buf), "%.17g", n.shadow);
      os << " ; " << buf << "\n";
    }
    for (const auto& p : c.path) {
      os << "path " << p.cmp << " " << p.a << " " << p.b << " "
         << (p.result ? 1 : 0) << "\n";
    }
    for (const auto& o : c.outputs) {
      os << "out " << o.first << " " << o.second << "\n";
    }
    os << "end " << unit << "\n";
  }

}  // namespace verif

namespace std {
  using verif::abs;
  using verif::acos;
  using verif::asin;
  using verif::atan;
  using verif::atan2;
  using verif::cbrt;
  using verif::cos;
  using verif::cosh;
  using verif::exp;
  using verif::fabs;
  using verif::isfinite;
  using verif::isinf;
  using verif::isnan;
  using verif::log;
  using verif::log10;
  using verif::pow;
  using verif::sin;
  using verif::sinh;
  using verif::sqrt;
  using verif::tan;
  using verif::tanh;
  template <>
  struct numeric_limits<verif::Sym> {
    static constexpr bool is_specialized = true;
    static constexpr bool is_integer = false;
    static constexpr bool is_signed = true;
    static constexpr bool is_exact = false;
    static constexpr bool has_infinity = false;
    static constexpr bool has_quiet_NaN = false;
    static constexpr int digits = 53;
    static constexpr int digits10 = 15;
    static constexpr int max_digits10 = 17;
    static constexpr verif::Sym epsilon() {
      return verif::Sym::cst(1, static_cast<verif::i128>(1) << 52, 1);
    }
    static verif::Sym min() { return verif::Sym::lit(2.2250738585072014e-308); }
    static verif::Sym max() { return verif::Sym::lit(1.7976931348623157e+308); }
    static verif::Sym lowest() {
      return verif::Sym::lit(-1.7976931348623157e+308);
    }
  };
}  // namespace std

#endif /* VERIF_SYM_HXX */
