/*! helpers shared by T1 tracers */
#ifndef VERIF_TRACEHELP_HXX
#define VERIF_TRACEHELP_HXX
#include "glue.hxx"
#include <fstream>
#include <map>
#include <string>
namespace verif {
  inline std::string& current_unit() {
    static std::string u;
    return u;
  }
  /*! shadow (double) values of inputs can be overridden through the file named by
   * VERIF_SHADOW (lines: <unit> <input> <value>): the shadow of every output is then
   * the result of the real code, in double precision, at that input (replay). */
  inline const std::map<std::string, double>& shadow_overrides() {
    static std::map<std::string, double> m;
    static bool loaded = false;
    if (!loaded) {
      loaded = true;
      if (const char* f = std::getenv("VERIF_SHADOW")) {
        std::ifstream in(f);
        std::string u, n;
        double v;
        while (in >> u >> n >> v) m[u + " " + n] = v;
      }
    }
    return m;
  }
  inline double shadow_value(const std::string& p, const int i) {
    const auto& o = shadow_overrides();
    const auto q = o.find(current_unit() + " " + p + std::to_string(i));
    if (q != o.end()) return q->second;
    // deterministic, generic (non degenerate) shadow values
    unsigned h = 2166136261u;
    for (const char ch : p) h = (h ^ static_cast<unsigned char>(ch)) * 16777619u;
    h = (h ^ static_cast<unsigned>(i)) * 16777619u;
    return 0.25 + static_cast<double>(h % 1000) / 500.;
  }
  //! a scalar input symbol (shadow value overridable like the others)
  inline Sym scalar_input(const std::string& name, const double dflt) {
    const auto& o = shadow_overrides();
    const auto q = o.find(current_unit() + " " + name);
    return make_input(name, q != o.end() ? q->second : dflt);
  }
  //! fill any indexable object of size n with fresh input symbols p0,p1,...
  template <typename T>
  void fill_inputs(T& t, const std::string& p, const int n) {
    for (int i = 0; i != n; ++i) {
      t[i] = make_input(p + std::to_string(i), shadow_value(p, i));
    }
  }
  template <typename T>
  void fill_inputs2(T& t, const std::string& p, const int n, const int m) {
    for (int i = 0; i != n; ++i) {
      for (int j = 0; j != m; ++j) {
        t(i, j) = make_input(p + std::to_string(i) + std::to_string(j),
                             shadow_value(p + std::to_string(i), j));
      }
    }
  }
  template <typename T>
  void outputs(const std::string& p, const T& t, const int n) {
    for (int i = 0; i != n; ++i) output(p + std::to_string(i), Sym(t[i]));
  }
  template <typename T>
  void outputs2(const std::string& p, const T& t, const int n, const int m) {
    for (int i = 0; i != n; ++i) {
      for (int j = 0; j != m; ++j) {
        output(p + std::to_string(i) + "_" + std::to_string(j), Sym(t(i, j)));
      }
    }
  }
  struct Unit {
    std::string name;
    explicit Unit(const std::string& n) : name(n) {
      ctx().reset();
      current_unit() = n;
    }
    ~Unit() { dump(std::cout, name); }
  };
}  // namespace verif
#endif
