"""C23 python reference (support for the failing-input search only — nothing here is part of a proof).

Mirror of lean/TfelVerif/C23/Spec.lean over Q(sqrt2): storage conventions, action of stored
fourth-order objects, and for every tangent-operator flag its meaning (kinematic rate `k`,
canonical rate `lam`).  `pair_residual` evaluates the property's own predicate
    lam_to(conv(D) : k_to)  ==  lam_from(D : k_from)
for a traced converter unit at an exact point."""
from fractions import Fraction

from emit import Q2
from m3 import M3, SQ2, q

HALF = Q2(Fraction(1, 2))
ISQ2 = Q2(0, Fraction(1, 2))  # 1/sqrt2
S = {1: 3, 2: 4, 3: 6}
T = {1: 3, 2: 5, 3: 9}

# flag -> (stored shape rows, cols) with 'S' symmetric (Mandel), 'T' full tensor storage
SHAPE = {
    "DSIG_DF": "ST", "DSIG_DDF": "ST", "DTAU_DF": "ST", "DTAU_DDF": "ST", "DS_DF": "ST",
    "C_TRUESDELL": "SS", "SPATIAL_MODULI": "SS", "C_TAU_JAUMANN": "SS", "ABAQUS": "SS",
    "DS_DC": "SS", "DS_DEGL": "SS", "DPK1_DF": "TT",
}


def of_mandel(n, l):
    l = list(l) + [Q2(0)] * 6
    if n == 1:
        return M3.sym(l[0], l[1], l[2])
    if n == 2:
        return M3.sym(l[0], l[1], l[2], l[3] * ISQ2)
    return M3.sym(l[0], l[1], l[2], l[3] * ISQ2, l[4] * ISQ2, l[5] * ISQ2)


def of_tens(n, t):
    t = list(t) + [Q2(0)] * 9
    if n == 1:
        return M3([[t[0], 0, 0], [0, t[1], 0], [0, 0, t[2]]])
    if n == 2:
        return M3([[t[0], t[3], 0], [t[4], t[1], 0], [0, 0, t[2]]])
    return M3([[t[0], t[3], t[5]], [t[4], t[1], t[7]], [t[6], t[8], t[2]]])


def rnd_tensor(rng, n, rat, near_identity=False):
    a = [[rat(rng) for _ in range(3)] for _ in range(3)]
    if near_identity:
        for i in range(3):
            a[i][i] = a[i][i] + 3
    if n <= 2:
        a[0][2] = a[2][0] = a[1][2] = a[2][1] = 0
    if n == 1:
        a[0][1] = a[1][0] = 0
    return M3(a)


def rnd_sym(rng, n, rat):
    v = [rat(rng) for _ in range(6)]
    if n <= 2:
        v[4] = v[5] = 0
    if n == 1:
        v[3] = 0
    return M3.sym(*v)


def symm(L):
    return (L + L.T()) * HALF


def act(rows, v):
    out = []
    for r in rows:
        acc = Q2(0)
        for a, b in zip(r, v):
            acc = acc + a * b
        out.append(acc)
    return out


def kin(flag, n, F, L, Delta=None):
    """stored kinematic rate of `flag` along dF = L F"""
    if flag in ("DSIG_DF", "DTAU_DF", "DS_DF", "DPK1_DF"):
        return (L * F).tens(n)
    if flag in ("DSIG_DDF", "DTAU_DDF"):
        return (L * Delta).tens(n)
    D = symm(L)
    if flag in ("C_TRUESDELL", "SPATIAL_MODULI", "C_TAU_JAUMANN", "ABAQUS"):
        return D.mandel(n)
    dE = F.T() * D * F
    if flag == "DS_DEGL":
        return dE.mandel(n)
    if flag == "DS_DC":
        return (dE * Q2(2)).mandel(n)
    raise KeyError(flag)


def lam(flag, n, F, sig, L, rl):
    """canonical rate l = dtau - L tau - tau L^T from the stored rate `rl` of the flag's stress"""
    J = F.det()
    tau = sig * J
    if flag == "DPK1_DF":
        r = of_tens(n, rl)
        return r * F.T() - L * tau
    r = of_mandel(n, rl)
    if flag in ("DS_DF", "DS_DC", "DS_DEGL"):
        return F * r * F.T()
    if flag == "SPATIAL_MODULI":
        return r
    if flag == "C_TRUESDELL":
        return r * J
    D = symm(L)
    if flag == "C_TAU_JAUMANN":
        return r - (D * tau + tau * D)
    if flag == "ABAQUS":
        return r * J - (D * tau + tau * D)
    if flag in ("DTAU_DF", "DTAU_DDF"):
        return r - (L * tau + tau * L.T())
    if flag in ("DSIG_DF", "DSIG_DDF"):
        return r * J + tau * L.trace() - (L * tau + tau * L.T())
    raise KeyError(flag)


RATE_FLAGS = ("C_TRUESDELL", "SPATIAL_MODULI", "C_TAU_JAUMANN", "ABAQUS")


def needs_symmetric_L(to, frm):
    """A rate-type modulus (acting on D = sym L only) obtained from d tau / dF: the code probes the
    source with dF = D F, i.e. spin-free variations. For a general L the statement needs the
    objectivity of the source operator (Lemmas.lean), which arbitrary symbols do not have."""
    return frm == "DTAU_DF" and to in RATE_FLAGS


def pair_point(rng, n, to, frm, rat):
    """random exact point for a converter unit: env + the data needed by the predicate"""
    rs, cs = SHAPE[frm]
    nr = S[n] if rs == "S" else T[n]
    nc = S[n] if cs == "S" else T[n]
    D = [[q(rat(rng)) for _ in range(nc)] for _ in range(nr)]
    F0 = rnd_tensor(rng, n, rat, True)
    ddf = "DDF" in to or "DDF" in frm
    if ddf:
        Delta = rnd_tensor(rng, n, rat, True)
        F1 = Delta * F0
    else:
        Delta = None
        F1 = rnd_tensor(rng, n, rat, True)
    sig = rnd_sym(rng, n, rat)
    L = rnd_tensor(rng, n, rat)
    if needs_symmetric_L(to, frm):
        L = symm(L)
    env = {}
    for i in range(nr):
        for j in range(nc):
            env["k%d_%d" % (i, j)] = D[i][j]
    for i, v in enumerate(F0.tens(n)):
        env["f%d" % i] = v
    for i, v in enumerate(F1.tens(n)):
        env["g%d" % i] = v
    for i, v in enumerate(sig.mandel(n)):
        env["s%d" % i] = v
    return env, dict(D=D, F0=F0, F1=F1, Delta=Delta, sig=sig, L=L)


def pair_residual(n, to, frm, data, outs):
    """outs: dict output name -> Q2 (r<i>_<j>). Returns (lhs, rhs) M3 of the predicate; for a PK1
    source only the lower triangle is meaningful (the code reads tau_10, tau_20, tau_21)."""
    rs, cs = SHAPE[to]
    nr = S[n] if rs == "S" else T[n]
    nc = S[n] if cs == "S" else T[n]
    Kr = [[outs["r%d_%d" % (i, j)] for j in range(nc)] for i in range(nr)]
    F, sig, L = data["F1"], data["sig"], data["L"]
    lhs = lam(to, n, F, sig, L, act(Kr, kin(to, n, F, L, data["Delta"])))
    rhs = lam(frm, n, F, sig, L, act(data["D"], kin(frm, n, F, L, data["Delta"])))
    return lhs, rhs


def compare(lhs, rhs, frm):
    """list of (i, j) entries of the predicate that fail"""
    bad = []
    for i in range(3):
        for j in range(3):
            if frm == "DPK1_DF" and i < j:
                continue
            if not (lhs.a[i][j] == rhs.a[i][j]):
                bad.append((i, j))
    return bad
