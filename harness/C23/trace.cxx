// T1 tracer for C23: finite-strain stress conversions and tangent operator converters
// (tfel::material::convert<To,From>, N = 1,2,3).
//
// Every unit instantiates the real TFEL template on fresh input symbols and dumps the DAG of scalar
// operations the shipped code performs.
//   stress / kinematic units      N<d>_<name>            inputs  s*, p*, f* (storage order)
//   converter units               N<d>_<TO>__<FROM>      inputs  k<i>_<j> (source operator, storage
//                                 matrix, row major), f* (F0), g* (F1), s* (Cauchy stress), in this order
// A converter that the code *defines* as a chain of other converters is traced as well (its DAG is
// compared structurally with the composition of the DAGs of its parts by checks/C23.py).
#include "tracehelp.hxx"
// glue missing from harness/symtrace/glue.hxx (shared, not editable from here): unary minus on a
// tensorial object of Sym (`-s * J` in the converters) needs the scalar result type of OpNeg
namespace tfel::math {
  template <>
  struct ComputeUnaryOperationResult<ScalarTag, UnaryOperatorTag, verif::Sym, OpNeg> {
    using type = verif::Sym;
  };
}  // namespace tfel::math
#include "TFEL/Math/stensor.hxx"
#include "TFEL/Math/tensor.hxx"
#include "TFEL/Math/st2tost2.hxx"
#include "TFEL/Math/t2tot2.hxx"
#include "TFEL/Math/t2tost2.hxx"
#include "TFEL/Math/T2toST2/ConvertKirchhoffStressJaumanRateModuliToKirchhoffStressDerivative.hxx"
#include "TFEL/Material/FiniteStrainBehaviourTangentOperator.hxx"

using namespace tfel::math;
using verif::Sym;
using verif::Unit;
using TO = tfel::material::FiniteStrainBehaviourTangentOperatorBase;

//! inputs k<i>_<j> of a fourth order object (row major over the stored matrix)
template <typename T>
void fill_op(T& t, const int n, const int m) {
  for (int i = 0; i != n; ++i) {
    for (int j = 0; j != m; ++j) {
      const auto name = "k" + std::to_string(i) + "_" + std::to_string(j);
      const auto& o = verif::shadow_overrides();
      const auto q = o.find(verif::current_unit() + " " + name);
      t(i, j) = verif::make_input(
          name, q != o.end() ? q->second : verif::shadow_value("k" + std::to_string(i), j));
    }
  }
}

template <typename T>
struct Dims;
template <unsigned short N, typename V>
struct Dims<st2tost2<N, V>> {
  static constexpr int rows = StensorDimeToSize<N>::value;
  static constexpr int cols = StensorDimeToSize<N>::value;
};
template <unsigned short N, typename V>
struct Dims<t2tost2<N, V>> {
  static constexpr int rows = StensorDimeToSize<N>::value;
  static constexpr int cols = TensorDimeToSize<N>::value;
};
template <unsigned short N, typename V>
struct Dims<t2tot2<N, V>> {
  static constexpr int rows = TensorDimeToSize<N>::value;
  static constexpr int cols = TensorDimeToSize<N>::value;
};

template <unsigned short N, TO::Flag To, TO::Flag From>
void trace_pair(const char* const to, const char* const from) {
  using namespace tfel::material;
  constexpr int S = StensorDimeToSize<N>::value;
  constexpr int T = TensorDimeToSize<N>::value;
  using Src = tangent_operator<From, N, Sym>;
  using Res = tangent_operator<To, N, Sym>;
  Unit u("N" + std::to_string(N) + "_" + to + "__" + from);
  Src K;
  fill_op(K, Dims<Src>::rows, Dims<Src>::cols);
  tensor<N, Sym> F0, F1;
  verif::fill_inputs(F0, "f", T);
  verif::fill_inputs(F1, "g", T);
  stensor<N, Sym> s;
  verif::fill_inputs(s, "s", S);
  const Res r = convert<To, From>(K, F0, F1, s);
  verif::outputs2("r", r, Dims<Res>::rows, Dims<Res>::cols);
}

#define PAIR(TO_, FROM_) trace_pair<N, TO::TO_, TO::FROM_>(#TO_, #FROM_)

template <unsigned short N>
void trace_dim() {
  constexpr int S = StensorDimeToSize<N>::value;
  constexpr int T = TensorDimeToSize<N>::value;
  const std::string d = "N" + std::to_string(N) + "_";
  // ---- kinematics and helpers used by the converters
  {
    Unit u(d + "det");
    tensor<N, Sym> F;
    verif::fill_inputs(F, "f", T);
    verif::output("r", det(F));
  }
  {
    Unit u(d + "invert");
    tensor<N, Sym> F;
    verif::fill_inputs(F, "f", T);
    const tensor<N, Sym> r = invert(F);
    verif::outputs("r", r, T);
  }
  {
    Unit u(d + "dJ");
    tensor<N, Sym> F;
    verif::fill_inputs(F, "f", T);
    const tensor<N, Sym> r = computeDeterminantDerivative(F);
    verif::outputs("r", r, T);
  }
  {
    Unit u(d + "rightCauchyGreen");
    tensor<N, Sym> F;
    verif::fill_inputs(F, "f", T);
    const stensor<N, Sym> r = computeRightCauchyGreenTensor(F);
    verif::outputs("r", r, S);
  }
  {
    Unit u(d + "greenLagrange");
    tensor<N, Sym> F;
    verif::fill_inputs(F, "f", T);
    const stensor<N, Sym> r = computeGreenLagrangeTensor(F);
    verif::outputs("r", r, S);
  }
  {
    Unit u(d + "unsyme");
    stensor<N, Sym> s;
    verif::fill_inputs(s, "s", S);
    const tensor<N, Sym> r = unsyme(s);
    verif::outputs("r", r, T);
  }
  // ---- stress conversions
  {
    Unit u(d + "push_forward");
    stensor<N, Sym> s;
    verif::fill_inputs(s, "s", S);
    tensor<N, Sym> F;
    verif::fill_inputs(F, "f", T);
    const stensor<N, Sym> r = push_forward(s, F);
    verif::outputs("r", r, S);
  }
  {
    Unit u(d + "cauchy_to_pk1");
    stensor<N, Sym> s;
    verif::fill_inputs(s, "s", S);
    tensor<N, Sym> F;
    verif::fill_inputs(F, "f", T);
    const tensor<N, Sym> r = convertCauchyStressToFirstPiolaKirchhoffStress(s, F);
    verif::outputs("r", r, T);
  }
  {
    Unit u(d + "pk1_to_cauchy");
    tensor<N, Sym> P;
    verif::fill_inputs(P, "p", T);
    tensor<N, Sym> F;
    verif::fill_inputs(F, "f", T);
    const stensor<N, Sym> r = convertFirstPiolaKirchhoffStressToCauchyStress(P, F);
    verif::outputs("r", r, S);
  }
  {
    Unit u(d + "cauchy_to_pk2");
    stensor<N, Sym> s;
    verif::fill_inputs(s, "s", S);
    tensor<N, Sym> F;
    verif::fill_inputs(F, "f", T);
    const stensor<N, Sym> r = convertCauchyStressToSecondPiolaKirchhoffStress(s, F);
    verif::outputs("r", r, S);
  }
  {
    Unit u(d + "pk2_to_cauchy");
    stensor<N, Sym> p;
    verif::fill_inputs(p, "p", S);
    tensor<N, Sym> F;
    verif::fill_inputs(F, "f", T);
    const stensor<N, Sym> r = convertSecondPiolaKirchhoffStressToCauchyStress(p, F);
    verif::outputs("r", r, S);
  }
  {
    Unit u(d + "corot_to_pk2");
    stensor<N, Sym> s;
    verif::fill_inputs(s, "s", S);
    stensor<N, Sym> U;
    verif::fill_inputs(U, "u", S);
    const stensor<N, Sym> r = convertCorotationnalCauchyStressToSecondPiolaKirchhoffStress(s, U);
    verif::outputs("r", r, S);
  }
  {
    Unit u(d + "pk2_to_corot");
    stensor<N, Sym> p;
    verif::fill_inputs(p, "p", S);
    stensor<N, Sym> U;
    verif::fill_inputs(U, "u", S);
    const stensor<N, Sym> r = convertSecondPiolaKirchhoffStressToCorotationnalCauchyStress(p, U);
    verif::outputs("r", r, S);
  }
  // ---- tangent operator converters (every specialisation of the .ixx except the DT_DELOG ones,
  //      which go through LogarithmicStrainHandler: property C24)
  PAIR(DS_DC, DS_DEGL);
  PAIR(DS_DEGL, DS_DC);
  PAIR(SPATIAL_MODULI, DS_DEGL);
  PAIR(DS_DEGL, SPATIAL_MODULI);
  PAIR(DSIG_DF, DS_DEGL);
  PAIR(DS_DF, DS_DC);
  PAIR(DS_DF, DS_DEGL);
  PAIR(ABAQUS, SPATIAL_MODULI);
  PAIR(ABAQUS, DS_DEGL);
  PAIR(DSIG_DF, C_TRUESDELL);
  PAIR(SPATIAL_MODULI, ABAQUS);
  PAIR(C_TRUESDELL, SPATIAL_MODULI);
  PAIR(C_TRUESDELL, DS_DEGL);
  PAIR(SPATIAL_MODULI, C_TRUESDELL);
  PAIR(DSIG_DDF, DSIG_DF);
  PAIR(DSIG_DF, DSIG_DDF);
  PAIR(DTAU_DDF, DTAU_DF);
  PAIR(DTAU_DF, DTAU_DDF);
  PAIR(DSIG_DF, DTAU_DF);
  PAIR(DTAU_DF, DS_DF);
  PAIR(SPATIAL_MODULI, DTAU_DF);
  PAIR(C_TAU_JAUMANN, DTAU_DF);
  PAIR(C_TRUESDELL, DTAU_DF);
  PAIR(ABAQUS, C_TAU_JAUMANN);
  PAIR(C_TAU_JAUMANN, ABAQUS);
  PAIR(C_TAU_JAUMANN, SPATIAL_MODULI);
  PAIR(SPATIAL_MODULI, C_TAU_JAUMANN);
  PAIR(ABAQUS, DTAU_DF);
  PAIR(DTAU_DF, C_TAU_JAUMANN);
  PAIR(DTAU_DF, ABAQUS);
  PAIR(DTAU_DF, SPATIAL_MODULI);
  PAIR(DSIG_DF, ABAQUS);
  PAIR(DPK1_DF, DSIG_DF);
  PAIR(DTAU_DF, DPK1_DF);
  PAIR(DSIG_DF, DPK1_DF);
  PAIR(DPK1_DF, DS_DEGL);
}

// ---- 3D only: the two converters that first turn the Cauchy stress into the second Piola-Kirchhoff stress
// (a rational function of F) are also traced with that stress as a fresh input ("core" units); checks/C23.py
// verifies that the real converter is structurally core o convertCauchyStressToSecondPiolaKirchhoffStress.
void trace_cores() {
  constexpr unsigned short N = 3u;
  {
    // DTAU_DF <- DS_DF: computePushForwardDerivative(Kr, Ks, sk2, F1) is the real function
    Unit u("N3_DTAU_DF__DS_DF_core");
    t2tost2<N, Sym> K;
    fill_op(K, 6, 9);
    stensor<N, Sym> S;
    verif::fill_inputs(S, "p", 6);
    tensor<N, Sym> F;
    verif::fill_inputs(F, "g", 9);
    t2tost2<N, Sym> r;
    computePushForwardDerivative(r, K, S, F);
    verif::outputs2("r", r, 6, 9);
  }
  {
    // DPK1_DF <- DS_DEGL: body of convertSecondPiolaKirchhoffStressDerivativeToFirstPiolaKirchoffStressDerivative
    // (ConvertToPK1Derivative.ixx) once the second Piola-Kirchhoff stress is known
    Unit u("N3_DPK1_DF__DS_DEGL_core");
    st2tost2<N, Sym> dS;
    fill_op(dS, 6, 6);
    stensor<N, Sym> Sst;
    verif::fill_inputs(Sst, "p", 6);
    tensor<N, Sym> F;
    verif::fill_inputs(F, "g", 9);
    const auto dE_dF = eval(t2tost2<N, Sym>::dCdF(F) / 2);
    const auto dS_dF = t2tot2<N, Sym>{dS * dE_dF};
    const auto S = unsyme(Sst);
    const t2tot2<N, Sym> dP = t2tot2<N, Sym>::tpld(S) + t2tot2<N, Sym>::tprd(F, dS_dF);
    verif::outputs2("r", dP, 9, 9);
  }
}

int main() {
  trace_cores();
  trace_dim<1u>();
  trace_dim<2u>();
  trace_dim<3u>();
  return 0;
}
