"""C23 emitter: symtrace DAG dump -> compact Lean 4 definitions.

Same input format and same meaning as harness/symtrace/emit.py (whose parser and exact evaluator are
reused); only the rendering differs, because the C23 units are large (fourth-order operators, up to
~14 000 scalar operations per unit):

  * inputs are grouped by name prefix into function arguments: `k3_7` -> `k 3 7`, `g4` -> `g 4`
    (a unit's binder is `(c c3 : K) (fn : Fns K) (k : Nat → Nat → K) (f g s : Nat → K)`), so a
    theorem can feed a whole tensor / operator at once;
  * a DAG node used once is inlined into its user, a node used several times becomes its own
    definition `<unit>_n<id>` (shared by all outputs of the unit) instead of being repeated as a
    `let` in every output cone; the operation order inside each expression is the recorded one;
  * outputs `r<i>_<j>` are also collected as `<unit>_r : List (List K)` (rows), `r<i>` as `List K`;
  * non-constant divisors are emitted as `<unit>_den<k>` (as emit.py does).
Every definition carries `@[gen_simp]`.
"""
import re
import sys
import os

sys.path.insert(0, os.path.join(os.path.dirname(os.path.abspath(__file__)), "..", "symtrace"))
import emit  # noqa: E402
from emit import UNARY, BINARY, lean_const, lean_rat, lean_ident  # noqa: E402

IN_RE = re.compile(r"^([a-z]+)(\d+)(?:_(\d+))?$")


def in_groups(u):
    """ordered list of (prefix, arity) of the input groups of a unit"""
    groups = []
    for name in u.inputs:
        m = IN_RE.match(name)
        if not m:
            raise SystemExit("emit23: unexpected input name %r" % name)
        g = (m.group(1), 2 if m.group(3) is not None else 1)
        if g not in groups:
            groups.append(g)
    return groups


def in_expr(name):
    m = IN_RE.match(name)
    if m.group(3) is not None:
        return "%s %s %s" % (m.group(1), m.group(2), m.group(3))
    return "%s %s" % (m.group(1), m.group(2))


def binder(u):
    b = "(c c3 : K) (fn : Fns K)"
    for p, ar in in_groups(u):
        b += " (%s : %s)" % (p, "Nat → Nat → K" if ar == 2 else "Nat → K")
    return b


def argstr(u):
    return "c c3 fn" + "".join(" " + p for p, _ in in_groups(u))


def children(u, j):
    op, p = u.nodes[j]
    if op in UNARY:
        return [p[0]]
    if op in BINARY:
        return list(p)
    if op == "call":
        return list(p[1])
    return []


def live_and_uses(u, roots):
    live = set()
    uses = {}
    stack = list(roots)
    for r in roots:
        uses[r] = uses.get(r, 0) + 1
    while stack:
        j = stack.pop()
        if j in live:
            continue
        live.add(j)
        for ch in children(u, j):
            uses[ch] = uses.get(ch, 0) + 1
            stack.append(ch)
    return live, uses


PREC = {"add": 65, "sub": 65, "mul": 70, "div": 70, "neg": 75}


def emit_unit(u, out):
    uname = lean_ident(u.name)
    bnd = binder(u)
    args = argstr(u)
    # divisors
    dens = []
    for j in u.order:
        o, p = u.nodes[j]
        if o == "div":
            do, _ = u.nodes[p[1]]
            if do not in ("const", "lit") and p[1] not in dens:
                dens.append(p[1])
    roots = [r for _, r in u.outs]
    live, uses = live_and_uses(u, roots + dens)
    for d in dens:
        uses[d] = uses.get(d, 0) + 1  # force a definition
    shared = set(j for j in live if uses.get(j, 0) >= 2 and u.nodes[j][0] not in ("in", "const", "lit"))

    def ref(j, prec):
        """expression for node j in a context of precedence `prec`"""
        o, p = u.nodes[j]
        if o == "in":
            return "(%s)" % in_expr(p)
        if o == "const":
            return lean_const(*p)
        if o == "lit":
            return lean_rat(p.numerator, p.denominator)
        if j in shared:
            return "(%s_n%d %s)" % (uname, j, args)
        return expr(j, prec)

    def expr(j, prec):
        o, p = u.nodes[j]
        if o == "neg":
            s = "-%s" % ref(p[0], 75)
            return "(%s)" % s
        if o in ("add", "sub", "mul", "div"):
            sym = {"add": "+", "sub": "-", "mul": "*", "div": "/"}[o]
            me = PREC[o]
            s = "%s %s %s" % (ref(p[0], me), sym, ref(p[1], me + 1))
            return "(%s)" % s if me < prec else s
        if o == "pow":
            eo, ep = u.nodes[p[1]]
            if eo == "const" and ep[1] == 1 and ep[2] == 1 and ep[0] >= 0:
                return "(%s ^ %d)" % (ref(p[0], 76), ep[0])
            return "(fn.pow %s %s)" % (ref(p[0], 1024), ref(p[1], 1024))
        if o in UNARY:
            return "(fn.%s %s)" % (o, ref(p[0], 1024))
        if o in ("atan2", "min", "max"):
            return "(fn.%s %s %s)" % (o, ref(p[0], 1024), ref(p[1], 1024))
        if o == "call":
            return "(fn.call \"%s\" [%s])" % (p[0], ", ".join(ref(a, 0) for a in p[1]))
        raise SystemExit("emit23: cannot render %r" % o)

    nops = 0
    for j in u.order:
        if j in shared:
            out.write("@[gen_simp] noncomputable def %s_n%d {K : Type} [Field K] %s : K :=\n  %s\n" % (
                uname, j, bnd, expr(j, 0)))
    for k, d in enumerate(dens):
        out.write("@[gen_simp] noncomputable def %s_den%d {K : Type} [Field K] %s : K :=\n  %s\n" % (
            uname, k, bnd, ref(d, 0)))
    for oname, root in u.outs:
        out.write("@[gen_simp] noncomputable def %s_%s {K : Type} [Field K] %s : K :=\n  %s\n" % (
            uname, lean_ident(oname), bnd, ref(root, 0)))
    # collected outputs: rows of a stored fourth-order object / components of a second-order one
    two = [re.match(r"^([a-z]+)(\d+)_(\d+)$", o) for o, _ in u.outs]
    one = [re.match(r"^([a-z]+)(\d+)$", o) for o, _ in u.outs]
    if u.outs and all(two):
        p = two[0].group(1)
        rows = {}
        for m in two:
            rows.setdefault(int(m.group(2)), []).append("%s_%s %s" % (uname, m.group(0), args))
        out.write("@[gen_simp] noncomputable def %s_%s {K : Type} [Field K] %s : List (List K) :=\n  [%s]\n" % (
            uname, p, bnd, ",\n   ".join("[" + ", ".join(rows[i]) + "]" for i in sorted(rows))))
    elif len(u.outs) > 1 and all(one):
        p = one[0].group(1)
        out.write("@[gen_simp] noncomputable def %s_%s {K : Type} [Field K] %s : List K :=\n  [%s]\n" % (
            uname, p, bnd, ", ".join("%s_%s %s" % (uname, m.group(0), args) for m in one)))
        # the same as a function of the storage index (to feed another generated definition)
        out.write("@[gen_simp] noncomputable def %s_%sv {K : Type} [Field K] %s : Nat → K\n" % (uname, p, bnd))
        for m in one:
            out.write("  | %s => %s_%s %s\n" % (m.group(2), uname, m.group(0), args))
        out.write("  | _ => 0\n")
    out.write("\n")
    return len(live)


def emit_file(units, namespace, path):
    import io
    out = io.StringIO()
    out.write("-- GENERATED by harness/C23/emit23.py from /repo's current sources. Do not edit.\n")
    out.write("import TfelVerif.Common.Sym\n")
    out.write("set_option maxRecDepth 100000\n")
    out.write("set_option linter.unusedVariables false\n")
    out.write("set_option linter.all false\n")
    out.write("namespace %s\nopen TfelVerif\n\n" % namespace)
    n = 0
    for u in units:
        n += emit_unit(u, out)
    out.write("end %s\n" % namespace)
    return out.getvalue(), n
