// T2 dump for C23: flag names, the stored type announced by
// getFiniteStrainBehaviourTangentOperatorFlagType and the actual type of tangent_operator<flag>.
#include <iostream>
#include <string>
#include <type_traits>
#include "TFEL/Math/st2tost2.hxx"
#include "TFEL/Math/t2tost2.hxx"
#include "TFEL/Math/t2tot2.hxx"
#include "TFEL/Material/FiniteStrainBehaviourTangentOperator.hxx"

using TO = tfel::material::FiniteStrainBehaviourTangentOperatorBase;

template <TO::Flag f>
std::string type_of() {
  using T = tfel::material::tangent_operator<f, 3u, double>;
  if constexpr (std::is_same_v<T, tfel::math::st2tost2<3u, double>>) {
    return "st2tost2";
  } else if constexpr (std::is_same_v<T, tfel::math::t2tost2<3u, double>>) {
    return "t2tost2";
  } else if constexpr (std::is_same_v<T, tfel::math::t2tot2<3u, double>>) {
    return "t2tot2";
  }
  return "?";
}

std::string type_of(const TO::Flag f) {
  switch (f) {
#define CASE(X) \
  case TO::X:   \
    return type_of<TO::X>();
    CASE(DSIG_DF)
    CASE(DSIG_DDF)
    CASE(C_TRUESDELL)
    CASE(SPATIAL_MODULI)
    CASE(C_TAU_JAUMANN)
    CASE(ABAQUS)
    CASE(DTAU_DF)
    CASE(DTAU_DDF)
    CASE(DS_DF)
    CASE(DS_DDF)
    CASE(DS_DC)
    CASE(DS_DEGL)
    CASE(DT_DELOG)
    CASE(DPK1_DF)
#undef CASE
    default:
      break;
  }
  return "none";  // DSIG_DDE has no tangent_operator<> specialisation
}

int main() {
  for (const auto f : tfel::material::getFiniteStrainBehaviourTangentOperatorFlags()) {
    const auto t = type_of(f);
    std::cout << tfel::material::convertFiniteStrainBehaviourTangentOperatorFlagToString(f) << " "
              << (t == "none" ? "none" : tfel::material::getFiniteStrainBehaviourTangentOperatorFlagType(f)) << " " << t
              << " " << tfel::material::getFiniteStrainBehaviourTangentOperatorDescription(f).size() << "\n";
  }
  return 0;
}
