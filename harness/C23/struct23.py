"""C23: structural comparison of a traced converter with the composition of the traced converters it
is *defined* by in FiniteStrainBehaviourTangentOperator.ixx (e.g. DSIG_DF<-DS_DEGL is written as
DSIG_DF<-DTAU_DF o DTAU_DF<-SPATIAL_MODULI o SPATIAL_MODULI<-DS_DEGL).

Both sides are hash-consed into one table of expressions (inputs by name, constants by value, operations
by (op, canonical children)); constants are folded exactly as harness/symtrace/sym.hxx folds them when an
intermediate result happens to be a constant. The comparison is exact and complete (every output, no
sampling): equal canonical ids <=> the two DAGs denote the same expression tree."""
from fractions import Fraction
import re

from emit import UNARY, BINARY

RADMUL = {1: (1, 1), 2: (1, 2), 3: (1, 3), 4: (2, 1), 6: (1, 6), 9: (3, 1), 12: (2, 3), 18: (3, 2), 36: (6, 1)}


class Table:
    def __init__(self):
        self.ids = {}
        self.keys = []

    def get(self, key):
        i = self.ids.get(key)
        if i is None:
            i = len(self.keys)
            self.ids[key] = i
            self.keys.append(key)
        return i

    def const(self, q, rad):
        if q == 0:
            rad = 1
        return self.get(("const", q, rad))

    def is_const(self, i):
        return self.keys[i][0] == "const"

    def op(self, op, a, b=None):
        ka = self.keys[a]
        kb = self.keys[b] if b is not None else None
        if op == "neg" and ka[0] == "const":
            return self.const(-ka[1], ka[2])
        if kb is not None and ka[0] == "const" and kb[0] == "const":
            (_, qa, ra), (_, qb, rb) = ka, kb
            if op in ("add", "sub"):
                if qa == 0:
                    return b if op == "add" else self.const(-qb, rb)
                if qb == 0:
                    return a
                if ra == rb:
                    return self.const(qa + qb if op == "add" else qa - qb, ra)
            elif op == "mul":
                k, r = RADMUL[ra * rb]
                return self.const(qa * qb * k, r)
            elif op == "div" and qb != 0:
                k, r = RADMUL[ra * rb]
                return self.const(qa * k / (qb * rb), r)
        return self.get((op, a, b))


def canon_unit(tab, u, sub=None):
    """canonical ids of the outputs of unit `u`; `sub` maps input names to canonical ids"""
    sub = sub or {}
    val = {}
    for j in u.order:
        o, p = u.nodes[j]
        if o == "in":
            val[j] = sub[p] if p in sub else tab.get(("in", p))
        elif o == "const":
            val[j] = tab.const(Fraction(p[0], p[1]), p[2])
        elif o == "lit":
            val[j] = tab.const(Fraction(p), 1)
        elif o in UNARY:
            val[j] = tab.op(o, val[p[0]])
        elif o in BINARY:
            val[j] = tab.op(o, val[p[0]], val[p[1]])
        elif o == "call":
            val[j] = tab.get(("call", p[0], tuple(val[a] for a in p[1])))
        else:
            raise ValueError(o)
    return {name: val[r] for name, r in u.outs}


def chain_outputs(tab, units, stages):
    """stages: list of (unit name, {input prefix: 'prev'}) — inputs whose prefix is mapped to 'prev' are
    fed with the outputs r<idx> of the previous stage, all other inputs keep their names"""
    prev = None
    for name, feed in stages:
        u = units[name]
        sub = {}
        for inp in u.inputs:
            m = re.match(r"^([a-z]+)(\d+(?:_\d+)?)$", inp)
            if m and feed.get(m.group(1)) == "prev":
                sub[inp] = prev["r" + m.group(2)]
        prev = canon_unit(tab, u, sub)
    return prev


def compare(units, composite, stages):
    """None if the composite unit is structurally the chain, else a description of the first difference"""
    tab = Table()
    a = canon_unit(tab, units[composite])
    b = chain_outputs(tab, units, stages)
    if set(a) != set(b):
        return "different output sets"
    for k in a:
        if a[k] != b[k]:
            return "output %s differs" % k
    return None
