# dev helper (not part of the check): writes the static PropsCompose<N>.lean (round trips and triangles of converters)
import sys, re, os
sys.argv=[sys.argv[0]]
import importlib.util
spec=importlib.util.spec_from_file_location("mkpairs","/verif/work/C23dev/mkpairs.py"); mp=importlib.util.module_from_spec(spec)
src=open("/verif/work/C23dev/mkpairs.py").read().split('if __name__=="__main__":')[0]
exec(compile(src,"mkpairs","exec"),mp.__dict__)
C23=mp.C23; ref23=mp.ref23; LAM=mp.LAM; S=mp.S; T=mp.T
mp.n2groups()
def ctx(N,ddf,symL):
    mand = "M3.mandel3 c" if N==3 else ("M3.mandel2 c" if N==2 else "M3.mandel1")
    tens = "M3.tens%d"%N
    if N==3:
        if symL: Lv="(l00 l11 l22 l01 l02 l12 : K)"; L="(M3.sym l00 l11 l22 l01 l02 l12)"
        else: Lv="(L : M3 K)"; L="L"
        if ddf: Fv="(F0 Δ : M3 K)"; F="(Δ * F0)"; F0="F0"; Dl="Δ"
        else: Fv="(F0 F : M3 K)"; F="F"; F0="F0"; Dl=None
    elif N==2:
        if symL: Lv="(l0 l1 l2 l3 : K)"; L="(plane l0 l1 l2 l3 l3)"
        else: Lv="(l0 l1 l2 l3 l4 : K)"; L="(plane l0 l1 l2 l3 l4)"
        if ddf: Fv="(g0 g1 g2 g3 g4 d0 d1 d2 d3 d4 : K)"; F0="(plane g0 g1 g2 g3 g4)"; Dl="(plane d0 d1 d2 d3 d4)"; F="(%s * %s)"%(Dl,F0)
        else: Fv="(F0 : M3 K) (f0 f1 f2 f3 f4 : K)"; F="(plane f0 f1 f2 f3 f4)"; F0="F0"; Dl=None
    else:
        Lv="(l0 l1 l2 : K)"; L="(dg l0 l1 l2)"
        if ddf: Fv="(g0 g1 g2 d0 d1 d2 : K)"; F0="(dg g0 g1 g2)"; Dl="(dg d0 d1 d2)"; F="(%s * %s)"%(Dl,F0)
        else: Fv="(F0 : M3 K) (f0 f1 f2 : K)"; F="(dg f0 f1 f2)"; F0="F0"; Dl=None
    sig="(M3.ofMandel c [%s])"%", ".join("s %d"%i for i in range(S[N]))
    def kin(flag):
        if flag in ("DSIG_DF","DTAU_DF","DS_DF","DPK1_DF"): return "(%s (%s * %s))"%(tens,L,F)
        if flag in ("DSIG_DDF","DTAU_DDF"): return "(%s (%s * %s))"%(tens,L,Dl)
        if flag in ref23.RATE_FLAGS: return "(%s (symm %s))"%(mand,L)
        if flag=="DS_DEGL": return "(%s (dE %s %s))"%(mand,F,L)
        if flag=="DS_DC": return "(%s (dC %s %s))"%(mand,F,L)
    def shape(flag):
        rs,cs=ref23.SHAPE[flag]
        return (S[N] if rs=="S" else T[N]), (S[N] if cs=="S" else T[N])
    idx={3:"i3",4:"i4",5:"i5",6:"i6",9:"i9"}
    def gen(a,b,D): return "(Gen.N%d_%s__%s_r c c3 fn %s (tensv %s) (tensv %s) s)"%(N,a,b,D,F0,F)
    def side(flag,rows): return "upper (%s %s %s %s (M3.ofMandel c (act %s %s)))"%(LAM[flag],F,sig,L,rows,kin(flag))
    def rowsD(flag):
        nr,nc=shape(flag); return "(rowsOf D %s %s)"%(idx[nr],idx[nc])
    return dict(Fv=Fv,Lv=Lv,F=F,F0=F0,gen=gen,side=side,rowsD=rowsD)
def units_den(N,steps):
    f1=f0=False
    for a,b in steps:
        for k,pf,op in mp.dens(mp.by["N%d_%s__%s"%(N,a,b)]):
            if 'g' in pf: f1=True
            elif 'f' in pf: f0=True
    return f1,f0
def ref(N,a,b,imps,c=None,ddf=False):
    comp="%s__%s"%(a,b); m=mp.modof(N,comp); imps.add(m)
    hj=" (hJ := hJ)" if mp.dens(mp.by["N%d_%s"%(N,comp)]) else ""
    extra=""
    if not ddf: extra+=" (F0 := F0)"
    if comp=="SPATIAL_MODULI__DS_DEGL" and N>1: extra+=" (g := tensv %s)"%c["F"]
    return "%s.N%d_%s c c3 fn hc h2%s%s .."%(m,N,comp,hj,extra)
def build(N):
    P=C23.PAIRS; PS=set(P)
    thms=[]; imps=set()
    nodpk=lambda *fl: all(x!="DPK1_DF" for x in fl)
    # round trips
    for (a,b) in P:
        if (b,a) not in PS or not nodpk(a,b): continue
        ddf="DDF" in a+b
        symL=ref23.needs_symmetric_L(a,b) or ref23.needs_symmetric_L(b,a)
        f1,f0=units_den(N,[(a,b),(b,a)])
        if f1 and f0: continue
        c=ctx(N,ddf,symL)
        hj="(hJ : %s.det ≠ 0)"%(c["F"] if f1 else c["F0"]) if (f1 or f0) else ""
        lhs=c["side"](a,c["gen"](a,b,"(matOf %s)"%c["gen"](b,a,"D")))
        rhs=c["side"](a,c["rowsD"](a))
        thms.append("/-- round trip `%s → %s → %s`: converting back gives an operator with the same action (hence the same\nmeaning) as the one started from, for every variation. -/\ntheorem N%d_roundtrip_%s__%s (hc : c * c = 2) (h2 : (2:K) ≠ 0)\n    (D : Nat → Nat → K) %s %s (s : Nat → K) %s :\n    %s\n      = %s := by\n  refine (%s).trans ?_\n  exact %s\n"%(
            a,b,a,N,a,b,c["Fv"],c["Lv"],hj,lhs,rhs,ref(N,a,b,imps,c,ddf),ref(N,b,a,imps,c,ddf)))
    # triangles a <- b <- c against the direct a <- c
    for (a,b) in P:
        for (b2,cc) in P:
            if b!=b2 or cc==a or (a,cc) not in PS or not nodpk(a,b,cc): continue
            if "DDF" in a+b+cc: continue
            steps=[(a,b),(b,cc),(a,cc)]
            symL=any(ref23.needs_symmetric_L(x,y) for x,y in steps)
            f1,f0=units_den(N,steps)
            c=ctx(N,False,symL)
            hj="(hJ : %s.det ≠ 0)"%c["F"] if f1 else ""
            lhs=c["side"](a,c["gen"](a,b,"(matOf %s)"%c["gen"](b,cc,"D")))
            rhs=c["side"](a,c["gen"](a,cc,"D"))
            thms.append("/-- conversions compose: `%s ← %s ← %s` acts as the direct `%s ← %s`, for every variation. -/\ntheorem N%d_compose_%s__%s__%s (hc : c * c = 2) (h2 : (2:K) ≠ 0)\n    (D : Nat → Nat → K) %s %s (s : Nat → K) %s :\n    %s\n      = %s := by\n  refine (%s).trans ?_\n  refine (%s).trans ?_\n  exact (%s).symm\n"%(
                a,b,cc,a,cc,N,a,b,cc,c["Fv"],c["Lv"],hj,lhs,rhs,ref(N,a,b,imps,c),ref(N,b,cc,imps,c),ref(N,a,cc,imps,c)))
    mod="PropsCompose%d"%N
    gens=set()
    head='''/-
  C23 — conversions compose and round trips are the identity (property theorems only), N = %d.
  Every theorem is the composition (transitivity) of the converters' own theorems: all of them express the
  same canonical rate `ℓ`, so `A ← B ← C` and `A ← C`, or `A ← B ← A` and the operator started from, have the
  same action on every variation. (`matOf` feeds the stored result of one traced converter to the next.)
  DPK1_DF and mixed DDF combinations are not stated here.
-/
import TfelVerif.Common.M3
import TfelVerif.C23.Spec
import TfelVerif.C23.Lemmas
%s
namespace TfelVerif.C23.%s
open TfelVerif TfelVerif.Mandel TfelVerif.C23
set_option linter.all false
set_option maxHeartbeats 16000000
set_option maxRecDepth 100000
variable {K : Type} [Field K] %s(c c3 : K) (fn : Fns K)

'''%(N,"".join("import TfelVerif.C23.%s\n"%i for i in sorted(imps)),mod,"[CharZero K] " if N==3 else "")
    mp.wr(mp.LEAN+mod+".lean",head+"\n".join(thms)+"\nend TfelVerif.C23.%s\n"%mod)
    print(mod,len(thms))
for N in (1,2,3): build(N)
