# dev helper (not part of the check): writes the static Props files of the converter pairs
import sys, re, os
sys.path.insert(0,'/verif/harness/C23'); sys.path.insert(0,'/verif/harness/symtrace'); sys.path.insert(0,'/verif/lib')
import emit, emit23, ref23
LEAN='/verif/lean/TfelVerif/C23/'
us=emit.parse(open('/verif/work/C23dev/trace.dag').read())
by={u.name:u for u in us}
LAM={"DSIG_DF":"lamSig","DSIG_DDF":"lamSig","DTAU_DF":"lamTau","DTAU_DDF":"lamTau","DS_DF":"lamS","DS_DC":"lamS","DS_DEGL":"lamS",
     "C_TRUESDELL":"lamTr","SPATIAL_MODULI":"lamSM","C_TAU_JAUMANN":"lamJ","ABAQUS":"lamAb","DPK1_DF":"lamP"}
DOC={"lamSig":"Cauchy stress","lamTau":"Kirchhoff stress","lamS":"second Piola–Kirchhoff stress","lamTr":"Truesdell rate of the Cauchy stress",
     "lamSM":"Lie derivative of the Kirchhoff stress","lamJ":"Jaumann rate of the Kirchhoff stress","lamAb":"Jaumann rate of the Kirchhoff stress / J","lamP":"first Piola–Kirchhoff stress"}
S={1:3,2:4,3:6}; T={1:3,2:5,3:9}
def uses(u, prefix):
    roots=[r for _,r in u.outs]
    live,_=emit23.live_and_uses(u,roots)
    return any(u.nodes[j][0]=="in" and u.nodes[j][1].startswith(prefix) and re.match(r"^%s\d+$"%prefix,u.nodes[j][1]) for j in live)
def dens(u):
    """non-constant divisors: list of (k, prefixes of the inputs in the cone, top operation)"""
    ds=[]
    for j in u.order:
        o,p=u.nodes[j]
        if o=="div" and u.nodes[p[1]][0] not in ("const","lit") and p[1] not in ds: ds.append(p[1])
    out=[]
    for k,d in enumerate(ds):
        cone=u.cone(d)
        pf=set(u.nodes[j][1][0] for j in cone if u.nodes[j][0]=="in")
        out.append((k,pf,u.nodes[d][0]))
    return out
def theorem(N,to,frm):
    d="N%d"%N; name="%s_%s__%s"%(d,to,frm); u=by[name]
    ddf = "DDF" in to or "DDF" in frm
    symL = ref23.needs_symmetric_L(to,frm)
    dn=dens(u)
    needF1 = any('g' in x[1] for x in dn); needF0 = any('f' in x[1] for x in dn)
    mand = "M3.mandel3 c" if N==3 else ("M3.mandel2 c" if N==2 else "M3.mandel1")
    tens = "M3.tens%d"%N
    idx={3:"i3",4:"i4",5:"i5",6:"i6",9:"i9"}
    # variables
    if N==3:
        if symL: Lv="(l00 l11 l22 l01 l02 l12 : K)"; L="(M3.sym l00 l11 l22 l01 l02 l12)"; obL=""
        else: Lv="(L : M3 K)"; L="L"; obL="  obtain ⟨l00,l01,l02,l10,l11,l12,l20,l21,l22⟩ := L\n"
        if ddf: Fv="(F0 Δ : M3 K)"; F="(Δ * F0)"; F0="F0"; ob="  obtain ⟨d00,d01,d02,d10,d11,d12,d20,d21,d22⟩ := Δ\n  obtain ⟨g00,g01,g02,g10,g11,g12,g20,g21,g22⟩ := F0\n"; Dl="Δ"
        else: Fv="(F0 F : M3 K)"; F="F"; F0="F0"; ob="  obtain ⟨f00,f01,f02,f10,f11,f12,f20,f21,f22⟩ := F\n"
    elif N==2:
        if symL: Lv="(l0 l1 l2 l3 : K)"; L="(plane l0 l1 l2 l3 l3)"
        else: Lv="(l0 l1 l2 l3 l4 : K)"; L="(plane l0 l1 l2 l3 l4)"
        obL=""; ob=""
        if ddf: Fv="(g0 g1 g2 g3 g4 d0 d1 d2 d3 d4 : K)"; F0="(plane g0 g1 g2 g3 g4)"; Dl="(plane d0 d1 d2 d3 d4)"; F="(%s * %s)"%(Dl,F0)
        else: Fv="(F0 : M3 K) (f0 f1 f2 f3 f4 : K)"; F="(plane f0 f1 f2 f3 f4)"; F0="F0"
    else:
        Lv="(l0 l1 l2 : K)"; L="(dg l0 l1 l2)"; obL=""; ob=""
        if ddf: Fv="(g0 g1 g2 d0 d1 d2 : K)"; F0="(dg g0 g1 g2)"; Dl="(dg d0 d1 d2)"; F="(%s * %s)"%(Dl,F0)
        else: Fv="(F0 : M3 K) (f0 f1 f2 : K)"; F="(dg f0 f1 f2)"; F0="F0"
    if (to,frm)==("SPATIAL_MODULI","DS_DEGL") and N>1:
        Fv="(F0 : M3 K) (g : Nat → K)"; F="(M3.ofTens [%s])"%", ".join("g %d"%i for i in range(T[N])); ob=""; gfun="g"
    else: gfun="(tensv %s)"%F
    sig="(M3.ofMandel c [%s])"%", ".join("s %d"%i for i in range(S[N]))
    def kin(flag):
        if flag in ("DSIG_DF","DTAU_DF","DS_DF","DPK1_DF"): return "(%s (%s * %s))"%(tens,L,F)
        if flag in ("DSIG_DDF","DTAU_DDF"): return "(%s (%s * %s))"%(tens,L,Dl)
        if flag in ref23.RATE_FLAGS: return "(%s (symm %s))"%(mand,L)
        if flag=="DS_DEGL": return "(%s (dE %s %s))"%(mand,F,L)
        if flag=="DS_DC": return "(%s (dC %s %s))"%(mand,F,L)
    def shape(flag):
        rs,cs=ref23.SHAPE[flag]
        return (S[N] if rs=="S" else T[N]), (S[N] if cs=="S" else T[N])
    def rd(flag): return "M3.ofTens" if flag=="DPK1_DF" else "M3.ofMandel c"
    nr,nc=shape(frm)
    lhs="%s %s %s %s (%s (act (Gen.%s_r c c3 fn D (tensv %s) %s s) %s))"%(LAM[to],F,sig,L,rd(to),name,F0,gfun,kin(to))
    rhs="%s %s %s %s (%s (act (rowsOf D %s %s) %s))"%(LAM[frm],F,sig,L,rd(frm),idx[nr],idx[nc],kin(frm))
    if to=="DPK1_DF": proj="M3.tens3"
    elif frm=="DPK1_DF": proj="lower"
    else: proj="upper"
    hyps=["(hc : c * c = 2)","(h2 : (2:K) ≠ 0)"]
    pre="  have hc0 : c ≠ 0 := c_ne_zero hc h2\n"
    tac="c23_rat0 hc" if N==1 else "c23_rat0c hc"
    if dn:
        detof = F if needF1 else F0
        hyps.append("(hJ : %s.det ≠ 0)"%detof)
        args="D (tensv %s) %s s"%(F0,gfun)
        gen=[k for k,pf,op in dn if op not in ("mul","in")]
        if N==3:
            target="%s.det"%detof
            oblk=ob.replace("  obtain","      obtain")
        elif N==2:
            pre+="  obtain ⟨h1, h2'⟩ := plane_det_ne hJ\n"
            target=("g0 * g1 - g3 * g4" if ddf else "f0 * f1 - f3 * f4"); oblk=""
        else:
            pre+="  obtain ⟨h0, h1, h2'⟩ := dg_det_ne hJ\n"; gen=[]
        if N==3 and gen:
            # destructure first; relate every traced divisor to det; rewrite det (specification form) and the
            # other divisors into the first traced divisor, which then becomes one atom `e0`
            for k in gen:
                pre+="  have hden%d : Gen.%s_den%d c c3 fn %s = %s := by\n    c23_unfold <;> (try ring1)\n"%(k,name,k,args,target)
            k0=gen[0]
            pre+="  have hd%d : Gen.%s_den%d c c3 fn %s ≠ 0 := by rw [hden%d]; exact hJ\n"%(k0,name,k0,args,k0)
            tac="c23_unfold at %s hd%d\n  c23_unfold\n"%(" ".join("hden%d"%k for k in gen),k0)
            tac+="".join("  (try rw [hden%d])\n"%k for k in gen[1:])
            tac+="  (try rw [← hden%d])\n"%k0
            tac+="  generalize_ne hd%d => e0 he0\n"%k0
            tac+="  (try (repeat' apply And.intro))\n  all_goals (first | rfl | (field_simp <;> first | (c23_ringc hc) | ((try simp only [← he0]) <;> c23_fieldc hc)))"
            ob=""; obL=""
        else:
            for k in gen:
                pre+="  have hd%d : Gen.%s_den%d c c3 fn %s ≠ 0 := by\n    have : Gen.%s_den%d c c3 fn %s = %s := by\n%s      c23_unfold <;> (try ring1)\n    rw [this]; exact %s\n"%(k,name,k,args,name,k,args,target,oblk,"hJ" if N==3 else "h1")
            if gen:
                tac="(try c23_unfold at %s)\n  c23_unfold\n"%" ".join("hd%d"%k for k in gen)
                tac+="".join("  generalize_ne hd%d => e%d he%d\n"%(k,k,k) for k in gen)
                tac+="  (try (repeat' apply And.intro))\n  all_goals (first | rfl | (field_simp <;> (try simp only [%s]) <;> c23_fieldc hc))"%", ".join("← he%d"%k for k in gen)
    doc="/-- `%s ← %s` (%dD): along every variation `δF = L F`%s the converted operator, applied to the\nrate of its kinematic variable, gives the rate of the %s that reproduces the same Lie derivative of\nthe Kirchhoff stress as the source operator (rate of the %s) does. -/\n"%(to,frm,N," with symmetric `L`" if symL else "",DOC[LAM[to]],DOC[LAM[frm]])
    body="%s%s%s  %s\n"%(pre,ob,obL,tac)
    if LAM[to]==LAM[frm]:
        # same stress measure on both sides: it is enough (and much cheaper) to show that the two rates are equal
        al="(act (Gen.%s_r c c3 fn D (tensv %s) %s s) %s)"%(name,F0,gfun,kin(to))
        ar="(act (rowsOf D %s %s) %s)"%(idx[nr],idx[nc],kin(frm))
        body="  have key : %s\n      = %s := by\n%s  rw [key]\n"%(al,ar,"".join("  "+l+"\n" for l in body.rstrip("\n").split("\n")))
    th=doc+"theorem %s %s\n    (D : Nat → Nat → K) %s %s (s : Nat → K) %s :\n    %s (%s)\n      = %s (%s) := by\n%s"%(
        name," ".join(hyps[:2]),Fv,Lv," ".join(hyps[2:]),proj,lhs,proj,rhs,body)
    return th
HEAD='''/-
  C23 — tangent operator converters `tfel::material::convert<To, From>` (property theorems only).
  %s
  `Gen.N<d>_<TO>__<FROM>_r c c3 fn D f g s` is the stored result (list of rows) of the traced converter
  for the source operator `D` (arbitrary symbols, stored matrix), `F0` (`f`), `F1` (`g`) and the stored
  Cauchy stress `s`. The meaning of every flag (`lam*`, kinematic rates) is in Spec.lean. Each theorem
  holds for every source operator, every deformation gradient, every stress and every variation.
-/
import TfelVerif.Common.M3
import TfelVerif.C23.Spec
import TfelVerif.C23.Lemmas
import TfelVerif.C23.%s

namespace TfelVerif.C23.%s
open TfelVerif TfelVerif.Mandel TfelVerif.C23
set_option linter.all false
set_option maxHeartbeats 16000000
set_option maxRecDepth 100000
variable {K : Type} [Field K] (c c3 : K) (fn : Fns K)

'''
def wr(path, txt):
    if not os.path.exists(path) or open(path).read()!=txt: open(path,"w").write(txt)
def write(mod, gen, what, thms):
    wr(LEAN+mod+".lean", HEAD%(what,gen,mod)+"\n".join(thms)+"\nend TfelVerif.C23.%s\n"%mod)
def pairs(N):
    out=[]
    for u in us:
        m=re.match(r"N%d_([A-Z_0-9]+?)__([A-Z_0-9]+)$"%N,u.name)
        if m: out.append((m.group(1),m.group(2)))
    return out
sys.path.insert(0,'/verif/checks'); sys.path.insert(0,'/verif')
def load_chains():
    import importlib.util
    spec=importlib.util.spec_from_file_location("c23check","/verif/checks/C23.py"); m=importlib.util.module_from_spec(spec); spec.loader.exec_module(m)
    return m
C23=load_chains()
def modof(N,stage):
    """module holding the theorem of a stage"""
    if N==1: return "PropsN1"
    if stage in C23.chains_of(N): return "PropsN%dChains"%N
    if N==3: return "PropsN3_%s"%stage
    if N==2: return "PropsN2%s"%N2GROUP[stage]
    return "PropsN1"
def chain_theorem(N,comp):
    to,frm=comp.split("__")
    th=theorem(N,to,frm)
    head=th[:th.index(":= by\n")+6]
    stages=C23.chains_of(N)[comp]
    name="N%d_%s"%(N,comp)
    if stages[0][0]=="cauchy_to_pk2@g":
        core=stages[1][0]
        c2p2="(Gen.N3_cauchy_to_pk2_r c c3 fn s (tensv F))"
        lst="["+", ".join("vecOf %s %d"%(c2p2,i) for i in range(6))+"]"
        return head+("  have A := PropsStress.N3_cauchy_to_pk2 c c3 fn F s hc h2 hJ\n"
          +"  have T := PropsN3_%s.N3_%s c c3 fn hc h2 D F L (vecOf %s)\n"%(core,core,c2p2)
          +"  have e : M3.ofMandel c %s = M3.ofMandel c %s := rfl\n"%(lst,c2p2)
          +"  rw [e, A] at T\n"
          +"  unfold Gen.%s_r %s %s kirch\n  exact T\n"%(name,LAM[to],LAM[frm]))
    u=by[name]; hasden=bool(dens(u))
    if stages[0][0]=="invert@g":
        # pull back = push forward with the inverse: needs F * invert F = 1 (PropsStress) and a little 3x3 algebra
        if N==3: FA="F"; Fm="F"; Lm="L"
        else: FA="f0 f1 f2 f3 f4"; Fm="(plane f0 f1 f2 f3 f4)"; Lm="(plane l0 l1 l2 l3 l4)"
        inv="(Gen.N%d_invert_r c c3 fn (tensv %s))"%(N,Fm)
        gl="["+", ".join("vecOf %s %d"%(inv,i) for i in range(T[N]))+"]"
        part="PropsN3_SPATIAL_MODULI__DS_DEGL" if N==3 else "PropsN2%s"%N2GROUP["SPATIAL_MODULI__DS_DEGL"]
        return head+("  have hFG := PropsStress.N%d_invert c c3 fn %s hc hJ\n"%(N,FA)
          +("  have T1 := %s.N%d_SPATIAL_MODULI__DS_DEGL c c3 fn hc h2 D F0 (vecOf %s) (dE %s %s) s\n"%(part,N,inv,Fm,Lm) if N==3 else
            "  have T1 := %s.N%d_SPATIAL_MODULI__DS_DEGL c c3 fn hc h2 D F0 (vecOf %s) (dE %s %s).a00 (dE %s %s).a11 (dE %s %s).a22 (dE %s %s).a01 (dE %s %s).a10 s\n"%((part,N,inv)+(Fm,Lm)*5)
            +"  have eL : plane (dE %s %s).a00 (dE %s %s).a11 (dE %s %s).a22 (dE %s %s).a01 (dE %s %s).a10 = dE %s %s := by m3_poly\n  rw [eL] at T1\n"%((Fm,Lm)*6))
          +"  have e : M3.ofTens %s = M3.ofTens %s := rfl\n"%(gl,inv)
          +"  rw [e, symm_of_symmetric h2 (dE_transpose %s %s), dE_inv h2 hFG %s] at T1\n"%(Fm,Lm,Lm)
          +"  unfold lamSM lamS at T1\n  unfold lamSM lamS Gen.N%d_DS_DEGL__SPATIAL_MODULI_r\n"%N
          +"  have hX := eq_of_upper (ofMandel_symm c _) (conj_symm (ofMandel_symm c _)) T1\n"
          +"  rw [pull_back_alg hFG hX]\n")
    if comp=="DSIG_DF__DPK1_DF":
        t1="%s.N%d_DSIG_DF__DTAU_DF c c3 fn hc h2 (hJ := hJ) .."%(modof(N,"DSIG_DF__DTAU_DF"),N)
        t2="%s.N%d_DTAU_DF__DPK1_DF c c3 fn hc h2 .."%(modof(N,"DTAU_DF__DPK1_DF"),N)
        return head+("  unfold Gen.%s_r\n"%name
          +"  rw [lower_eq_upper (lamSig_symm _ _ (ofMandel_symm c _) (ofMandel_symm c _))]\n"
          +"  refine (%s).trans ?_\n"%t1
          +"  rw [← lower_eq_upper (lamTau_symm _ _ (ofMandel_symm c _) (ofMandel_symm c _))]\n"
          +"  exact %s\n"%t2)
    lines=["  have hc0 : c ≠ 0 := c_ne_zero hc h2\n","  unfold Gen.%s_r\n"%name]
    for i,(st,feed) in enumerate(reversed(stages)):
        sn="N%d_%s"%(N,st)
        hj=" (hJ := hJ)" if dens(by[sn]) else ""
        call="%s.%s c c3 fn hc h2%s .."%(modof(N,st),sn,hj)
        if i<len(stages)-1: lines.append("  refine (%s).trans ?_\n"%call)
        else: lines.append("  exact %s\n"%call)
    return head+"".join(lines)

def core_theorem(core):
    S="(M3.ofMandel c [p 0, p 1, p 2, p 3, p 4, p 5])"
    if core=="DTAU_DF__DS_DF_core":
        return ("/-- core of `DTAU_DF ← DS_DF`: `computePushForwardDerivative(dS/dF, S, F)` applied to `δF = L F` is\n`δ(F S Fᵀ) = L τ + τ Lᵀ + F δS Fᵀ` with `τ = F S Fᵀ`, for every stored second Piola–Kirchhoff stress `p`. -/\n"
          "theorem N3_DTAU_DF__DS_DF_core (hc : c * c = 2) (h2 : (2:K) ≠ 0)\n    (D : Nat → Nat → K) (F L : M3 K) (p : Nat → K) :\n"
          "    upper (M3.ofMandel c (act (Gen.N3_DTAU_DF__DS_DF_core_r c c3 fn D p (tensv F)) (M3.tens3 (L * F)))\n        - (L * (F * %s * F.transpose) + (F * %s * F.transpose) * L.transpose))\n"
          "      = upper (F * (M3.ofMandel c (act (rowsOf D i6 i9) (M3.tens3 (L * F)))) * F.transpose) := by\n"
          "  have hc0 : c ≠ 0 := c_ne_zero hc h2\n  c23_rat0c hc\n")%(S,S)
    return ("/-- core of `DPK1_DF ← DS_DEGL`: `δP = δF S + F δS` with `δS = dS : δE`, for every stored second\nPiola–Kirchhoff stress `p`: `δP Fᵀ − L (F S Fᵀ) = F δS Fᵀ`. -/\n"
          "theorem N3_DPK1_DF__DS_DEGL_core (hc : c * c = 2) (h2 : (2:K) ≠ 0)\n    (D : Nat → Nat → K) (F L : M3 K) (p : Nat → K) :\n"
          "    M3.tens3 (M3.ofTens (act (Gen.N3_DPK1_DF__DS_DEGL_core_r c c3 fn D p (tensv F)) (M3.tens3 (L * F))) * F.transpose\n        - L * (F * %s * F.transpose))\n"
          "      = M3.tens3 (F * (M3.ofMandel c (act (rowsOf D i6 i6) (M3.mandel3 c (dE F L)))) * F.transpose) := by\n"
          "  have hc0 : c ≠ 0 := c_ne_zero hc h2\n  c23_rat0c hc\n")%S

def pushforward3():
    """3D `SPATIAL_MODULI <- DS_DEGL` (st2tost2 push forward, 36 x 81-term sums): one module per component of an
    auxiliary statement for a symmetric rate `Dm`, then the theorem"""
    G="(M3.ofTens [g 0, g 1, g 2, g 3, g 4, g 5, g 6, g 7, g 8])"
    Dm="(M3.sym d00 d11 d22 d01 d02 d12)"
    X="(M3.ofMandel c (act (Gen.N3_SPATIAL_MODULI__DS_DEGL_r c c3 fn D (tensv F0) g s) (M3.mandel3 c %s)))"%Dm
    Y="(%s * (M3.ofMandel c (act (rowsOf D i6 i6) (M3.mandel3 c (%s.transpose * %s * %s)))) * %s.transpose)"%(G,G,Dm,G,G)
    comps=["a00","a11","a22","a01","a02","a12"]
    hdr=HEAD.replace("variable {K : Type} [Field K] (c c3 : K)","variable {K : Type} [Field K] [CharZero K] (c c3 : K)")
    for k,fld in enumerate(comps):
        mod="PropsN3_SPATIAL_MODULI__DS_DEGL_aux%d"%k
        th=("/-- component `%s` of: `push_forward(D, F) : Dm = F (D : (Fᵀ Dm F)) Fᵀ` for a symmetric `Dm` -/\n"
            "theorem aux%d (hc : c * c = 2) (h2 : (2:K) ≠ 0)\n    (D : Nat → Nat → K) (F0 : M3 K) (g : Nat → K) (d00 d11 d22 d01 d02 d12 : K) (s : Nat → K) :\n"
            "    %s.%s\n      = %s.%s := by\n  c23_unfold\n  simp only [div_eq_mul_inv, c_inv hc h2]\n  ring_nf\n  (try c_powers hc)\n  (try ring1)\n")%(fld,k,X,fld,Y,fld)
        wr(LEAN+mod+".lean", hdr%("Auxiliary component %d of the 3D push forward (characteristic zero: numerals are handled by `ring`)."%k,"GenN3_SPATIAL_MODULI__DS_DEGL",mod)+th+"\nend TfelVerif.C23.%s\n"%mod)
    mod="PropsN3_SPATIAL_MODULI__DS_DEGL"
    th0=theorem(3,"SPATIAL_MODULI","DS_DEGL")
    head=th0[:th0.index(":= by\n")+6]
    proof=("  have hs : symm L = M3.sym (symm L).a00 (symm L).a11 (symm L).a22 (symm L).a01 (symm L).a02 (symm L).a12 := by\n"
           "    obtain ⟨l00,l01,l02,l10,l11,l12,l20,l21,l22⟩ := L\n    c23_unfold\n    refine ⟨?_, ?_, ?_⟩ <;> ring1\n"
           "  unfold lamSM lamS dE\n  rw [hs]\n  simp only [upper, List.cons.injEq, and_true]\n  exact ⟨"
           +", ".join("PropsN3_SPATIAL_MODULI__DS_DEGL_aux%d.aux%d c c3 fn hc h2 D F0 g _ _ _ _ _ _ s"%(k,k) for k in range(6))+"⟩\n")
    txt=hdr%("`SPATIAL_MODULI ← DS_DEGL`, N = 3 (assembled from the six component modules).","GenN3_SPATIAL_MODULI__DS_DEGL",mod)+head+proof+"\nend TfelVerif.C23.%s\n"%mod
    txt=txt.replace("import TfelVerif.C23.GenN3_SPATIAL_MODULI__DS_DEGL\n","import TfelVerif.C23.GenN3_SPATIAL_MODULI__DS_DEGL\n"+"".join("import TfelVerif.C23.PropsN3_SPATIAL_MODULI__DS_DEGL_aux%d\n"%k for k in range(6)))
    wr(LEAN+mod+".lean",txt)

def dpk1core3():
    """core of the 3D `DPK1_DF <- DS_DEGL`: one module per component (characteristic zero), then the theorem"""
    S="(M3.ofMandel c [p 0, p 1, p 2, p 3, p 4, p 5])"
    X="(M3.ofTens (act (Gen.N3_DPK1_DF__DS_DEGL_core_r c c3 fn D p (tensv F)) (M3.tens3 (L * F))) * F.transpose - L * (F * %s * F.transpose))"%S
    Y="(F * (M3.ofMandel c (act (rowsOf D i6 i6) (M3.mandel3 c (dE F L)))) * F.transpose)"
    comps=["a00","a11","a22","a01","a10","a02","a20","a12","a21"]
    hdr=HEAD.replace("variable {K : Type} [Field K] (c c3 : K)","variable {K : Type} [Field K] [CharZero K] (c c3 : K)")
    for k,fld in enumerate(comps):
        mod="PropsN3_DPK1_DF__DS_DEGL_core_aux%d"%k
        th=("/-- component `%s` of the core of `DPK1_DF ← DS_DEGL` -/\n"
            "theorem aux%d (hc : c * c = 2) (h2 : (2:K) ≠ 0)\n    (D : Nat → Nat → K) (F L : M3 K) (p : Nat → K) :\n"
            "    %s.%s\n      = %s.%s := by\n  c23_unfold\n  simp only [div_eq_mul_inv, c_inv hc h2]\n  ring_nf\n  (try c_powers hc)\n  (try ring1)\n")%(fld,k,X,fld,Y,fld)
        wr(LEAN+mod+".lean", hdr%("Auxiliary component %d of the core of the 3D `DPK1_DF ← DS_DEGL` (characteristic zero: numerals are handled by `ring`)."%k,"GenN3_DPK1_DF__DS_DEGL_core",mod)+th+"\nend TfelVerif.C23.%s\n"%mod)
    mod="PropsN3_DPK1_DF__DS_DEGL_core"
    th0=core_theorem("DPK1_DF__DS_DEGL_core")
    head=th0[:th0.index(":= by\n")+6]
    proof=("  simp only [M3.tens3, List.cons.injEq, and_true]\n  exact ⟨"
           +", ".join("PropsN3_DPK1_DF__DS_DEGL_core_aux%d.aux%d c c3 fn hc h2 D F L p"%(k,k) for k in range(9))+"⟩\n")
    txt=hdr%("core of `DPK1_DF ← DS_DEGL` (3D), assembled from the nine component modules.","GenN3_DPK1_DF__DS_DEGL_core",mod)+head+proof+"\nend TfelVerif.C23.%s\n"%mod
    txt=txt.replace("import TfelVerif.C23.GenN3_DPK1_DF__DS_DEGL_core\n","import TfelVerif.C23.GenN3_DPK1_DF__DS_DEGL_core\n"+"".join("import TfelVerif.C23.PropsN3_DPK1_DF__DS_DEGL_core_aux%d\n"%k for k in range(9)))
    wr(LEAN+mod+".lean",txt)
N2GROUP={}
def n2groups():
    base=[("%s__%s"%p) for p in pairs(2) if "%s__%s"%p not in C23.CHAINS]
    # four groups of similar weight
    g=C23.N2_GROUPS
    assert sorted(sum(g.values(),[]))==sorted(base)
    for k,v in g.items():
        for nm in v: N2GROUP[nm]=k
    return g
if __name__=="__main__":
    only=sys.argv[1:]
    write("PropsN1","GenN1","All pairs, N = 1 (the chained converters are proved on their own traced DAG).",[theorem(1,t,f) for t,f in pairs(1)])
    g=n2groups()
    for k,v in g.items():
        txt,_=emit23.emit_file([by["N2_"+nm] for nm in v],"TfelVerif.C23.Gen",None)
        pth=LEAN+"GenN2%s.lean"%k
        if not os.path.exists(pth) or open(pth).read()!=txt: open(pth,"w").write(txt)
        write("PropsN2%s"%k,"GenN2%s"%k,"Pairs %s, N = 2."%", ".join(v),[theorem(2,*nm.split("__")) for nm in v])
    print({k:v for k,v in g.items()})
    for core in C23.CORES3:
        nm="N3_"+core
        txt,k=emit23.emit_file([by[nm]],"TfelVerif.C23.Gen",None)
        wr(LEAN+"Gen%s.lean"%nm,txt)
        if core=="DPK1_DF__DS_DEGL_core": dpk1core3()
        else: write("Props%s"%nm,"Gen%s"%nm,"core of `%s` (3D): the converter with the second Piola–Kirchhoff stress given as a stored vector `p`."%core[:-5],[core_theorem(core)])
    for t,f in pairs(3):
        if "%s__%s"%(t,f) in C23.chains_of(3): continue
        nm="N3_%s__%s"%(t,f)
        txt,k=emit23.emit_file([by[nm]],"TfelVerif.C23.Gen",None)
        pth=LEAN+"Gen%s.lean"%nm
        if not os.path.exists(pth) or open(pth).read()!=txt: open(pth,"w").write(txt)
        if (t,f)==("SPATIAL_MODULI","DS_DEGL"): pushforward3()
        else: write("Props%s"%nm,"Gen%s"%nm,"`%s ← %s`, N = 3."%(t,f),[theorem(3,t,f)])
    for N in (2,3):
        thms=[]; imps=set()
        for comp,stages in C23.chains_of(N).items():
            th=chain_theorem(N,comp)
            if th is None: continue
            thms.append(th)
            for st,_ in stages:
                if st.endswith("_core"): imps.add("PropsN3_"+st)
                elif st not in C23.CHAINS and "@" not in st: imps.add(modof(N,st))
                if "@" in st: imps.add("PropsStress")
        mod="PropsN%dChains"%N
        txt=(HEAD%("Converters that FiniteStrainBehaviourTangentOperator.ixx defines as a chain of other converters, N = %d: `Gen.N%d_<pair>_r` is the composition of the traced parts (GenN%dChains.lean, generated after the exact structural comparison of the traced DAG of the composite with that composition), and its theorem is the composition of the parts' theorems."%(N,N,N),"GenN%dChains"%N,mod)+"\n".join(thms)+"\nend TfelVerif.C23.%s\n"%mod)
        txt=txt.replace("import TfelVerif.C23.Lemmas\n","import TfelVerif.C23.Lemmas\nimport TfelVerif.C23.Lemmas2\n")
        if N==3: txt=txt.replace("variable {K : Type} [Field K] (c c3 : K)","variable {K : Type} [Field K] [CharZero K] (c c3 : K)")
        txt=txt.replace("import TfelVerif.C23.GenN%dChains\n"%N,"import TfelVerif.C23.GenN%dChains\n"%N+"".join("import TfelVerif.C23.%s\n"%i for i in sorted(imps)))
        wr(LEAN+mod+".lean",txt)

