# dev helper (not part of the check): writes lean/TfelVerif/C23/PropsStress.lean
HEAD = '''/-
  C23 — stress measure conversions and the kinematic helpers used by the tangent-operator
  converters (property theorems only), N = 1, 2, 3.

  `Gen.*` are regenerated on every run by instantiating the shipped TFEL templates with a recording
  scalar (harness/C23/trace.cxx → harness/C23/emit23.py). Conventions: `c` is any element with
  `c * c = 2` of a field of characteristic ≠ 2 (ℝ with √2: Common/Model.lean). A deformation gradient
  `F : M3 K` is fed through its tensor storage `tensv F` (t00 t11 t22 t01 t10 t02 t20 t12 t21); 2D
  tensors are `plane f0 f1 f2 f3 f4`, 1D tensors `dg f0 f1 f2`. A stress is fed as an *arbitrary*
  stored vector `s : Nat → K`; the symmetric matrix it denotes is `M3.ofMandel c [s 0, …]` (Mandel
  storage), a first Piola–Kirchhoff stress `p` denotes `M3.ofTens [p 0, …]`. Results come back as lists
  in the same storages. Definitions are stated division free: `P Fᵀ = J σ`, `F S Fᵀ = J σ`,
  `U S U = det U · σ̃`; `J σ = P Fᵀ`, … for the inverse maps; the round trips follow.
-/
import TfelVerif.Common.M3
import TfelVerif.C23.Spec
import TfelVerif.C23.Lemmas
import TfelVerif.C23.GenStress

namespace TfelVerif.C23.PropsStress
open TfelVerif TfelVerif.Mandel TfelVerif.C23
set_option linter.unusedVariables false
set_option linter.all false
set_option maxRecDepth 100000
set_option maxHeartbeats 4000000
variable {K : Type} [Field K] (c c3 : K) (fn : Fns K)
'''
def dim(N):
    S={1:3,2:4,3:6}[N]; T={1:3,2:5,3:9}[N]
    d="N%d"%N
    if N==3:
        Fv="(F : M3 K)"; F="F"; ob="  obtain ⟨f00,f01,f02,f10,f11,f12,f20,f21,f22⟩ := F\n"
        Lv="(L : M3 K)"; L="L"; obL="  obtain ⟨l00,l01,l02,l10,l11,l12,l20,l21,l22⟩ := L\n"
        Pob="  obtain ⟨p00,p01,p02,p10,p11,p12,p20,p21,p22⟩ := P\n"
    elif N==2:
        Fv="(f0 f1 f2 f3 f4 : K)"; F="(plane f0 f1 f2 f3 f4)"; ob=""
        Lv="(l0 l1 l2 l3 l4 : K)"; L="(plane l0 l1 l2 l3 l4)"; obL=""
    else:
        Fv="(f0 f1 f2 : K)"; F="(dg f0 f1 f2)"; ob=""
        Lv="(l0 l1 l2 : K)"; L="(dg l0 l1 l2)"; obL=""
    FA = "F" if N==3 else ("f0 f1 f2 f3 f4" if N==2 else "f0 f1 f2")
    mand = "M3.mandel3 c" if N==3 else ("M3.mandel2 c" if N==2 else "M3.mandel1")
    tens = "M3.tens%d"%N
    sl = lambda v: "["+", ".join("%s %d"%(v,i) for i in range(S))+"]"
    tl = lambda v: "["+", ".join("%s %d"%(v,i) for i in range(T))+"]"
    sig = lambda v: "M3.ofMandel c %s"%sl(v)
    hJ = "(hJ : %s.det ≠ 0)"%F
    # how the nonvanishing facts are brought in
    def den(unit, args, spec="%s.det"%F, nd=1):
        if N==3:
            return ("  have hd : Gen.%s_%s_den0 c c3 fn %s ≠ 0 := by\n    have : Gen.%s_%s_den0 c c3 fn %s = %s := by\n%s      c23_unfold <;> (try ring1)\n    rw [this]; exact hJ\n" % (d,unit,args,d,unit,args,spec,ob.replace("  obtain","      obtain")), "c23_rat hc with hd")
        if N==2:
            return ("  obtain ⟨h1, h2'⟩ := plane_det_ne hJ\n", "c23_rat hc with h1")
        return ("  obtain ⟨h0, h1, h2'⟩ := dg_det_ne hJ\n", "c23_rat0 hc")
    o=[]
    o.append("\n/-! ## %dD -/\nsection %s\nvariable %s (s p u : Nat → K)\n"%(N,d,Fv))
    o.append("/-- `det` of a tensor is the determinant -/\ntheorem %s_det : Gen.%s_det_r c c3 fn (tensv %s) = %s.det := by\n%s  c23_unfold <;> (try ring1)\n"%(d,d,F,F,ob))
    pre,tac=den("invert","(tensv %s)"%F)
    o.append("/-- `invert`: `F * invert F = 1` when `det F ≠ 0` -/\ntheorem %s_invert (hc : c * c = 2) %s : %s * M3.ofTens (Gen.%s_invert_r c c3 fn (tensv %s)) = 1 := by\n%s%s  %s\n"%(d,hJ,F,d,F,pre,ob,tac))
    o.append("/-- `computeDeterminantDerivative` is the cofactor matrix: `dJ Fᵀ = det F · 1` … -/\ntheorem %s_dJ_cofactor (hc : c * c = 2) : M3.ofTens (Gen.%s_dJ_r c c3 fn (tensv %s)) * %s.transpose = %s.det • (1 : M3 K) := by\n%s  c23_poly hc\n"%(d,d,F,F,F,ob))
    o.append("/-- … hence Jacobi's formula along `δF = L F`: `dJ : δF = det F · tr L` -/\ntheorem %s_dJ_jacobi %s : dot (Gen.%s_dJ_r c c3 fn (tensv %s)) (%s (%s * %s)) = %s.det * %s.trace := by\n%s%s  c23_unfold <;> (try ring1)\n"%(d,Lv,d,F,tens,L,F,F,L,ob,obL))
    o.append("/-- right Cauchy–Green tensor `C = FᵀF` and Green–Lagrange strain `E = (C − 1)/2` -/\ntheorem %s_rightCauchyGreen (hc : c * c = 2) :\n    Gen.%s_rightCauchyGreen_r c c3 fn (tensv %s) = %s (%s.transpose * %s) := by\n%s  c23_poly hc\n"%(d,d,F,mand,F,F,ob))
    o.append("theorem %s_greenLagrange (hc : c * c = 2) (h2 : (2:K) ≠ 0) :\n    Gen.%s_greenLagrange_r c c3 fn (tensv %s) = %s ((1/2 : K) • (%s.transpose * %s - 1)) := by\n  have hc0 : c ≠ 0 := c_ne_zero hc h2\n%s  c23_rat0 hc\n"%(d,d,F,mand,F,F,ob))
    o.append("/-- `unsyme` writes a symmetric tensor in full tensor storage -/\ntheorem %s_unsyme (hc : c * c = 2) (h2 : (2:K) ≠ 0) :\n    M3.ofTens (Gen.%s_unsyme_r c c3 fn s) = %s := by\n  have hc0 : c ≠ 0 := c_ne_zero hc h2\n  c23_rat0 hc\n"%(d,d,sig("s")))
    o.append("/-- `push_forward(S, F) = F S Fᵀ` -/\ntheorem %s_push_forward (hc : c * c = 2) (h2 : (2:K) ≠ 0) :\n    M3.ofMandel c (Gen.%s_push_forward_r c c3 fn s (tensv %s)) = %s * %s * %s.transpose := by\n  have hc0 : c ≠ 0 := c_ne_zero hc h2\n%s  c23_rat0 hc\n"%(d,d,F,F,sig("s"),F,ob))
    # PK1
    o.append("/-! ### first Piola–Kirchhoff stress: `P Fᵀ = J σ` -/\ntheorem %s_cauchy_to_pk1 (hc : c * c = 2) (h2 : (2:K) ≠ 0) :\n    M3.ofTens (Gen.%s_cauchy_to_pk1_r c c3 fn s (tensv %s)) * %s.transpose = %s.det • %s := by\n  have hc0 : c ≠ 0 := c_ne_zero hc h2\n%s  c23_rat0 hc\n"%(d,d,F,F,F,sig("s"),ob))
    pre,tac=den("pk1_to_cauchy","p (tensv %s)"%F)
    o.append("/-- `J σ = P Fᵀ`; the code reads the lower triangle of `P Fᵀ` (symmetric for a physical `P`) -/\ntheorem %s_pk1_to_cauchy (hc : c * c = 2) (h2 : (2:K) ≠ 0) %s :\n    %s.det • M3.ofMandel c (Gen.%s_pk1_to_cauchy_r c c3 fn p (tensv %s)) = symLower (M3.ofTens %s * %s.transpose) := by\n  have hc0 : c ≠ 0 := c_ne_zero hc h2\n%s%s  %s\n"%(d,hJ,F,d,F,tl("p"),F,pre,ob,tac))
    # PK2
    pre,tac=den("cauchy_to_pk2","s (tensv %s)"%F)
    o.append("/-! ### second Piola–Kirchhoff stress: `F S Fᵀ = J σ` -/\ntheorem %s_cauchy_to_pk2 (hc : c * c = 2) (h2 : (2:K) ≠ 0) %s :\n    %s * M3.ofMandel c (Gen.%s_cauchy_to_pk2_r c c3 fn s (tensv %s)) * %s.transpose = %s.det • %s := by\n  have hc0 : c ≠ 0 := c_ne_zero hc h2\n%s%s  %s\n"%(d,hJ,F,d,F,F,F,sig("s"),pre,ob,tac))
    pre,tac=den("pk2_to_cauchy","p (tensv %s)"%F)
    o.append("/-- `J σ = F S Fᵀ` (`p` is the stored second Piola–Kirchhoff stress) -/\ntheorem %s_pk2_to_cauchy (hc : c * c = 2) (h2 : (2:K) ≠ 0) %s :\n    %s.det • M3.ofMandel c (Gen.%s_pk2_to_cauchy_r c c3 fn p (tensv %s)) = %s * %s * %s.transpose := by\n  have hc0 : c ≠ 0 := c_ne_zero hc h2\n%s%s  %s\n"%(d,hJ,F,d,F,F,sig("p"),F,pre,ob,tac))
    # corotational
    U="("+sig("u")+")"
    hU="(hU : %s.det ≠ 0)"%U
    def denU(unit,args):
        if N==3:
            return ("  have hd : Gen.%s_%s_den0 c c3 fn %s ≠ 0 := by\n    have : Gen.%s_%s_den0 c c3 fn %s = %s.det := by\n      c23_unfold; c23_field hc\n    rw [this]; exact hU\n"%(d,unit,args,d,unit,args,U),"c23_rat hc with hd")
        if N==2:
            return ("  have hu2 : u 2 ≠ 0 := by\n    intro h; apply hU; c23_unfold; rw [h]; ring\n  have hd : Gen.%s_%s_den0 c c3 fn %s ≠ 0 := by\n    have : Gen.%s_%s_den0 c c3 fn %s = %s.det := by\n      c23_unfold; c23_field hc\n    rw [this]; exact hU\n"%(d,unit,args,d,unit,args,U),"c23_rat hc with hd")
        return ("  have hu0 : u 0 ≠ 0 := by\n    intro h; apply hU; c23_unfold; rw [h]; ring\n  have hu1 : u 1 ≠ 0 := by\n    intro h; apply hU; c23_unfold; rw [h]; ring\n  have hu2 : u 2 ≠ 0 := by\n    intro h; apply hU; c23_unfold; rw [h]; ring\n","c23_rat0 hc")
    pre,tac=denU("corot_to_pk2","s u")
    o.append("/-! ### corotational Cauchy stress `σ̃ = Rᵀ σ R` and right stretch `U` (stored `u`): `U S U = det U · σ̃` -/\ntheorem %s_corot_to_pk2 (hc : c * c = 2) (h2 : (2:K) ≠ 0) %s :\n    %s * M3.ofMandel c (Gen.%s_corot_to_pk2_r c c3 fn s u) * %s = %s.det • %s := by\n  have hc0 : c ≠ 0 := c_ne_zero hc h2\n%s  %s\n"%(d,hU,U,d,U,U,sig("s"),pre,tac))
    pre,tac=denU("pk2_to_corot","p u")
    o.append("/-- `det U · σ̃ = U S U` -/\ntheorem %s_pk2_to_corot (hc : c * c = 2) (h2 : (2:K) ≠ 0) %s :\n    %s.det • M3.ofMandel c (Gen.%s_pk2_to_corot_r c c3 fn p u) = %s * %s * %s := by\n  have hc0 : c ≠ 0 := c_ne_zero hc h2\n%s  %s\n"%(d,hU,U,d,U,sig("p"),U,pre,tac))
    # round trips
    rvl=lambda unit,a,b,n: "["+", ".join("Gen.%s_%s_rv c c3 fn %s %s %d"%(d,unit,a,b,i) for i in range(n))+"]"
    tF="(tensv %s)"%F
    o.append("/-! ### the conversions are mutually inverse (`det F ≠ 0`, `det U ≠ 0`) -/\n")
    o.append("/-- `σ ↦ P ↦ σ` -/\ntheorem %s_pk1_roundtrip (hc : c * c = 2) (h2 : (2:K) ≠ 0) %s :\n    M3.ofMandel c (Gen.%s_pk1_to_cauchy_r c c3 fn (Gen.%s_cauchy_to_pk1_rv c c3 fn s %s) %s) = %s := by\n  have B := %s_pk1_to_cauchy c c3 fn %s (Gen.%s_cauchy_to_pk1_rv c c3 fn s %s) hc h2 hJ\n  have A := %s_cauchy_to_pk1 c c3 fn %s s hc h2\n  have e : M3.ofTens %s = M3.ofTens (Gen.%s_cauchy_to_pk1_r c c3 fn s %s) := rfl\n  rw [e, A, symLower_smul_ofMandel] at B\n  exact smul_cancel hJ B\n"%(d,hJ,d,d,tF,tF,sig("s"),d,FA,d,tF,d,FA,rvl("cauchy_to_pk1","s",tF,T),d,tF))
    o.append("/-- `σ ↦ S ↦ σ` -/\ntheorem %s_pk2_roundtrip (hc : c * c = 2) (h2 : (2:K) ≠ 0) %s :\n    M3.ofMandel c (Gen.%s_pk2_to_cauchy_r c c3 fn (Gen.%s_cauchy_to_pk2_rv c c3 fn s %s) %s) = %s := by\n  have B := %s_pk2_to_cauchy c c3 fn %s (Gen.%s_cauchy_to_pk2_rv c c3 fn s %s) hc h2 hJ\n  have A := %s_cauchy_to_pk2 c c3 fn %s s hc h2 hJ\n  have e : M3.ofMandel c %s = M3.ofMandel c (Gen.%s_cauchy_to_pk2_r c c3 fn s %s) := rfl\n  rw [e, A] at B\n  exact smul_cancel hJ B\n"%(d,hJ,d,d,tF,tF,sig("s"),d,FA,d,tF,d,FA,rvl("cauchy_to_pk2","s",tF,S),d,tF))
    o.append("/-- `S ↦ σ ↦ S` -/\ntheorem %s_pk2_roundtrip_rev (hc : c * c = 2) (h2 : (2:K) ≠ 0) %s :\n    M3.ofMandel c (Gen.%s_cauchy_to_pk2_r c c3 fn (Gen.%s_pk2_to_cauchy_rv c c3 fn p %s) %s) = %s := by\n  have A := %s_cauchy_to_pk2 c c3 fn %s (Gen.%s_pk2_to_cauchy_rv c c3 fn p %s) hc h2 hJ\n  have B := %s_pk2_to_cauchy c c3 fn %s p hc h2 hJ\n  have e : M3.ofMandel c %s = M3.ofMandel c (Gen.%s_pk2_to_cauchy_r c c3 fn p %s) := rfl\n  rw [e, B] at A\n  have hJt : %s.transpose.det ≠ 0 := by rw [det_transpose]; exact hJ\n  exact mul_left_cancel_det hJ (mul_right_cancel_det hJt A)\n"%(d,hJ,d,d,tF,tF,sig("p"),d,FA,d,tF,d,FA,rvl("pk2_to_cauchy","p",tF,S),d,tF,F))
    o.append("/-- `σ̃ ↦ S ↦ σ̃` -/\ntheorem %s_corot_roundtrip (hc : c * c = 2) (h2 : (2:K) ≠ 0) %s :\n    M3.ofMandel c (Gen.%s_pk2_to_corot_r c c3 fn (Gen.%s_corot_to_pk2_rv c c3 fn s u) u) = %s := by\n  have B := %s_pk2_to_corot c c3 fn (Gen.%s_corot_to_pk2_rv c c3 fn s u) u hc h2 hU\n  have A := %s_corot_to_pk2 c c3 fn s u hc h2 hU\n  have e : M3.ofMandel c %s = M3.ofMandel c (Gen.%s_corot_to_pk2_r c c3 fn s u) := rfl\n  rw [e, A] at B\n  exact smul_cancel hU B\n"%(d,hU,d,d,sig("s"),d,d,d,rvl("corot_to_pk2","s","u",S),d))
    o.append("/-- `S ↦ σ̃ ↦ S` -/\ntheorem %s_corot_roundtrip_rev (hc : c * c = 2) (h2 : (2:K) ≠ 0) %s :\n    M3.ofMandel c (Gen.%s_corot_to_pk2_r c c3 fn (Gen.%s_pk2_to_corot_rv c c3 fn p u) u) = %s := by\n  have A := %s_corot_to_pk2 c c3 fn (Gen.%s_pk2_to_corot_rv c c3 fn p u) u hc h2 hU\n  have B := %s_pk2_to_corot c c3 fn p u hc h2 hU\n  have e : M3.ofMandel c %s = M3.ofMandel c (Gen.%s_pk2_to_corot_r c c3 fn p u) := rfl\n  rw [e, B] at A\n  exact mul_left_cancel_det hU (mul_right_cancel_det hU A)\n"%(d,hU,d,d,sig("p"),d,d,d,rvl("pk2_to_corot","p","u",S),d))
    o.append("end %s\n"%d)
    return "".join(o)
open('/verif/lean/TfelVerif/C23/PropsStress.lean','w').write(HEAD+dim(3)+dim(2)+dim(1)+"\nend TfelVerif.C23.PropsStress\n")
