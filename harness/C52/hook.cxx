/*
 * C52 — schedule perturbation for the real tfel-check built from the tree: definition of the weak
 * verification hook of tfel::system::ThreadPool (include/TFEL/System/ThreadPool.ixx, TFEL_VERIF_HOOKS).
 * At every `yield:*` event (before a worker takes the pool mutex, before/after it runs a task, in wait())
 * the calling thread sleeps for a pseudo-random time derived from C52_YIELD_SEED, so that the order in
 * which the tasks start, finish and take `log_synchronization` varies from run to run.
 * Nothing else is changed: every other source of the binary is the code of the tree.
 */
#include <atomic>
#include <chrono>
#include <cstddef>
#include <cstdint>
#include <cstdlib>
#include <cstring>
#include <thread>

namespace {
  std::atomic<std::uint64_t> counter{0};
  std::uint64_t seed() {
    static const std::uint64_t s = [] {
      const char* e = std::getenv("C52_YIELD_SEED");
      return e == nullptr ? std::uint64_t{0} : static_cast<std::uint64_t>(std::strtoull(e, nullptr, 10));
    }();
    return s;
  }
  std::uint64_t mix(std::uint64_t x) {
    x += 0x9e3779b97f4a7c15ull;
    x = (x ^ (x >> 30)) * 0xbf58476d1ce4e5b9ull;
    x = (x ^ (x >> 27)) * 0x94d049bb133111ebull;
    return x ^ (x >> 31);
  }
}  // namespace

extern "C" void tfel_verif_threadpool_hook(const char* const e, const void* const, const std::size_t i) {
  if (seed() == 0 || std::strncmp(e, "yield:", 6) != 0) {
    return;
  }
  const auto n = counter.fetch_add(1);
  const auto r = mix(seed() ^ mix(n) ^ mix(static_cast<std::uint64_t>(i) << 32));
  // one time out of four: a real sleep (up to 3 ms); otherwise just give the processor away
  if ((r & 3u) == 0u) {
    std::this_thread::sleep_for(std::chrono::microseconds((r >> 8) % 3000));
  } else {
    std::this_thread::yield();
  }
}
