/*
 * C50 — "a rejected MTest step leaves no trace": harness over the REAL mtest state classes
 * (StudyCurrentState / StructureCurrentState / CurrentState: `revert`, `update`, `makeDeepCopy`) and
 * the REAL GenericSolver::execute, driven by the scripted mock study of harness/C48/mock.hxx.
 *
 * `gen50.hxx` is generated on every run from the headers of the tree (checks/c50gen.py): it lists the
 * data members of the state classes with their class (pers / end / recomp / stat); a member that
 * disappears breaks the compilation, a new member is visited (tagged, read and written by the mock
 * physics) like the others.
 *
 *   rv <ns> <ni> <nm> <op>*      ops: s (attempt scribble) r (revert) u (update) f (fork: deep copy)
 *        tags every field, applies the ops, dumps every field:   name=tag ...
 *   run <dyn> <mSub> <iterMax> <ppolicy> <aa> <ni> <minTs> <maxTs> <minF> <maxF> <nt> time*nt <na> (kind factor at)*na
 *        runs GenericSolver::execute with injected failures, then replays the accepted steps only on a
 *        fresh copy of the initial state, dumps both final states
 *   runs <ns> <nm> <dyn> ... (as run)   the same on a study made of <ns> structures, each with <nm> model states;
 *        the fields that every attempt recomputes from the evolutions (mprops1, esv0, desv, e_th0, e_th1) are
 *        written by the REAL computeMaterialProperties / computeExternalStateVariables / computeThermalExpansion
 *        (both overloads) of CurrentState.cxx, as SingleStructureScheme::prepare does, not by the mock physics
 */
#include <cmath>
#include <iostream>
#include <map>
#include <set>
#include <type_traits>

#include "TFEL/Raise.hxx"
#include "MFront/MFrontLogStream.hxx"
#include "MTest/GenericSolver.hxx"
#include "MTest/AccelerationAlgorithm.hxx"
#include "MTest/AccelerationAlgorithmFactory.hxx"
#include "MTest/Evolution.hxx"
#include "MTest/CurrentState.hxx"
#include "C48/mock.hxx"
#include "C48/mockbehaviour.hxx"
#include "gen50.hxx"

using namespace verif48;
using Vector = tfel::math::vector<real>;

// ---------------------------------------------------------------- tagging / dumping by type
static void set_tag(Vector& v, const double tag) {
  v.clear();
  v.resize(2);
  v[0] = tag;
  v[1] = tag + 0.5;
}
static void set_tag(real& v, const double tag) { v = tag; }
static void set_tag(unsigned int& v, const double tag) { v = static_cast<unsigned int>(tag); }
static void set_tag(bool& v, const double tag) { v = (static_cast<long>(tag) % 2) != 0; }
static void set_tag(tfel::math::tmatrix<3u, 3u, real>& m, const double tag) {
  for (unsigned short i = 0; i != 3; ++i)
    for (unsigned short j = 0; j != 3; ++j) m(i, j) = tag;
}
template <typename T>
static void set_tag(T&, const double) {}  // opaque member: nothing that can carry a tag

static std::string show(const double v) {
  std::ostringstream os;
  os.precision(17);
  os << v;
  return os.str();
}
//! in the loop level runs the fields hold arbitrary values: print them all
static bool g_raw = false;
static std::string get_tag(const Vector& v) {
  if (g_raw) {
    std::string r;
    for (const auto x : v) r += (r.empty() ? "" : ",") + show(x);
    return r.empty() ? "-" : r;
  }
  if (v.size() != 2) return "BROKEN-size" + std::to_string(v.size());
  if (v[1] != v[0] + 0.5) return "BROKEN(" + show(v[0]) + "," + show(v[1]) + ")";
  return show(v[0]);
}
static std::string get_tag(const real& v) { return show(v); }
static std::string get_tag(const unsigned int& v) { return std::to_string(v); }
static std::string get_tag(const bool& v) { return v ? "b1" : "b0"; }
static std::string get_tag(const tfel::math::tmatrix<3u, 3u, real>& m) {
  for (unsigned short i = 0; i != 3; ++i)
    for (unsigned short j = 0; j != 3; ++j)
      if (m(i, j) != m(0, 0)) return "BROKEN-tmatrix";
  return show(m(0, 0));
}
template <typename T>
static std::string get_tag(const T&) {
  return "opaque";
}

// ---------------------------------------------------------------- hashing (mock physics)
struct Hasher {
  std::uint64_t h = 1469598103934665603ull;
  void mix(const std::uint64_t u) {
    h ^= u;
    h *= 1099511628211ull;
    h ^= h >> 29;
  }
  void add(const double d) {
    std::uint64_t u;
    std::memcpy(&u, &d, sizeof u);
    mix(u);
  }
  void add(const Vector& v) {
    mix(v.size());
    for (const auto x : v) add(x);
  }
  void add(const unsigned int& v) { mix(v); }
  void add(const bool& v) { mix(v ? 3 : 5); }
  void add(const tfel::math::tmatrix<3u, 3u, real>& m) {
    for (unsigned short i = 0; i != 3; ++i)
      for (unsigned short j = 0; j != 3; ++j) add(m(i, j));
  }
  template <typename T>
  void add(const T&) {}
  //! next pseudo-random value in [0, 1) with a short mantissa (sums of a few of them are exact)
  double unit() {
    h = h * 6364136223846793005ull + 1442695040888963407ull;
    return static_cast<double>(h >> 44) / 1048576.0;
  }
};

static void put(Vector& v, Hasher& h) {
  for (auto& x : v) x = h.unit();
}
static void put(real& v, Hasher& h) { v = h.unit(); }
template <typename T>
static void put(T&, Hasher&) {}

//! `runs`: the recomputed fields of CurrentState come from the real functions of CurrentState.cxx
static bool g_real_prepare = false;
static bool is_really_recomputed(const char* n) {
  const std::string s = n;
  return g_real_prepare && ((s == "mprops1") || (s == "esv0") || (s == "desv") || (s == "e_th0") || (s == "e_th1"));
}

struct World {
  mtest::StudyCurrentState st;
  std::vector<std::string> names;
  std::vector<std::shared_ptr<MockBehaviour>> models;
  unsigned ni = 1;
  unsigned nm = 0;
  //! evolutions of the material properties, external state variables, temperature and thermal expansions
  mtest::EvolutionManager evm;
  //! default values of the material properties the user did not define
  mtest::EvolutionManager dvm;
  std::shared_ptr<MockBehaviour> beh;

  template <typename F>
  void each_cs(mtest::StudyCurrentState& s, F&& f) {
    for (const auto& sn : names) {
      auto& scs = s.getStructureCurrentState(sn);
      for (auto& cs : scs.istates) f(cs);
      for (auto& m : models) f(scs.getModelCurrentState(*m));
    }
  }
  //! what SingleStructureScheme::prepare does at the beginning of every attempt, with the real functions
  void real_prepare(mtest::StudyCurrentState& s, const real t, const real dt) {
    if (evm.empty()) {
      auto lpi = [](std::initializer_list<real> ts, std::initializer_list<real> vs) {
        return std::make_shared<mtest::LPIEvolution>(std::vector<real>(ts), std::vector<real>(vs));
      };
      evm["mp0"] = lpi({0., 2., 8.}, {150., 170., 120.});
      dvm["mp1"] = std::make_shared<mtest::ConstantEvolution>(0.3);
      dvm["mp0"] = std::make_shared<mtest::ConstantEvolution>(-1.);
      evm["esvA"] = lpi({0., 1., 3., 10.}, {293., 400., 350., 900.});
      evm["esvB"] = lpi({0., 5.}, {1., -1.});
      evm["Temperature"] = lpi({0., 1.5, 6., 12.}, {293., 500., 450., 800.});
      evm["ThermalExpansion"] = lpi({0., 12.}, {1.e-5, 2.e-5});
      evm["ThermalExpansion1"] = lpi({0., 12.}, {1.e-5, 3.e-5});
      evm["ThermalExpansion2"] = std::make_shared<mtest::ConstantEvolution>(2.e-5);
      evm["ThermalExpansion3"] = lpi({0., 4., 12.}, {3.e-5, 1.e-5, 2.e-5});
    }
    unsigned k = 0;
    each_cs(s, [&](mtest::CurrentState& cs) {
      mtest::computeMaterialProperties(cs, evm, dvm, {"mp0", "mp1"}, t, dt);
      mtest::computeExternalStateVariables(cs, evm, {"esvA", "esvB"}, t, dt);
      if (k % 4 == 0) {
        mtest::computeThermalExpansion(cs, evm, t, dt);
      } else {
        mtest::computeThermalExpansion(cs, evm, t, dt, static_cast<unsigned short>(k % 4));
      }
      ++k;
    });
  }
  //! sizes and behaviour expected by the real functions (after the fields have been tagged)
  void size_for_real_prepare() {
    if (beh == nullptr) {
      beh = std::make_shared<MockBehaviour>();
      beh->ndv = 2;
      beh->D.assign(4, 0.);
    }
    each_cs(st, [this](mtest::CurrentState& cs) {
      cs.behaviour = beh;
      for (auto* v : {&cs.e_th0, &cs.e_th1}) {
        const auto tag = v->empty() ? real(0) : (*v)[0];
        v->resize(6);
        for (std::size_t i = 2; i < 6; ++i) (*v)[i] = tag + 0.125 * static_cast<real>(i);
      }
      cs.Tref = 293.15;
      for (unsigned short i = 0; i != 3; ++i)
        for (unsigned short j = 0; j != 3; ++j) cs.r(i, j) = (i == j) ? 1. : 0.;
      // a rotation about the third axis (the orthotropic thermal expansions are turned into the global frame)
      cs.r(0, 0) = 0.8;
      cs.r(0, 1) = -0.6;
      cs.r(1, 0) = 0.6;
      cs.r(1, 1) = 0.8;
    });
  }

  void build(const unsigned ns, const unsigned ni_, const unsigned nm_, const std::size_t psz) {
    ni = ni_;
    nm = nm_;
    st.initialize(psz);
    for (unsigned k = 0; k != nm; ++k) {
      auto b = std::make_shared<MockBehaviour>();
      b->ndv = 2;
      b->D.assign(4, 0.);
      models.push_back(b);
    }
    for (unsigned i = 0; i != ns; ++i) {
      names.push_back(ns == 1 ? std::string("") : "s" + std::to_string(i));
      auto& scs = st.getStructureCurrentState(names.back());
      scs.istates.resize(ni);
      for (auto& cs : scs.istates) sized(cs);
      for (unsigned k = 0; k != nm; ++k) sized(scs.getModelCurrentState(*(models[k])));
    }
  }
  static void sized(mtest::CurrentState& cs) {
    gen50::visit_cs(cs, [](const char*, auto& f, const char*) {
      if constexpr (std::is_same_v<std::decay_t<decltype(f)>, Vector>) {
        f.clear();
        f.resize(2, 0.);
      }
    });
  }
  //! visit every field in the layout order of the generated Lean `Study.fields`
  template <typename F>
  void visit(mtest::StudyCurrentState& s, F&& f) {
    std::map<std::string, int> done;
    for (const auto& e : gen50::study_layout) {
      const std::string n = e.name;
      if (std::string(e.kind) == "sub") {
        for (const auto& sn : names) {
          auto& scs = s.getStructureCurrentState(sn);
          for (const auto& e2 : gen50::scs_layout) {
            const std::string n2 = e2.name;
            if (n2 == "istates") {
              for (auto& cs : scs.istates) gen50::visit_cs(cs, f);
            } else if (n2 == "model_states") {
              for (auto& m : models) gen50::visit_cs(scs.getModelCurrentState(*m), f);
            } else {
              int dummy = 0;
              f(e2.name, dummy, e2.cls);  // private member: opaque
            }
          }
        }
      } else if (std::string(e.kind) == "opaque") {
        int dummy = 0;
        f(e.name, dummy, e.cls);
      } else {
        gen50::visit_study_field(s, n, f);
      }
    }
  }
};

static bool writable(const char* cls) {
  const std::string c = cls;
  return (c == "end") || (c == "recomp") || (c == "stat");
}

static std::string dump(World& w, mtest::StudyCurrentState& s) {
  std::string out;
  w.visit(s, [&out](const char* n, auto& f, const char*) {
    if constexpr (std::is_same_v<std::decay_t<decltype(f)>, int>) {
      out += std::string(" ") + n + "=opaque";
    } else {
      out += std::string(" ") + n + "=" + get_tag(f);
    }
  });
  return out;
}

static std::string op_rv(Tokens& tk) {
  const auto ns = static_cast<unsigned>(tk.integer());
  const auto ni = static_cast<unsigned>(tk.integer());
  const auto nm = static_cast<unsigned>(tk.integer());
  auto w = std::make_unique<World>();
  w->build(ns, ni, nm, 2);
  double k = 1;
  w->visit(w->st, [&k](const char*, auto& f, const char*) {
    set_tag(f, k);
    k += 1;
  });
  while (!tk.done()) {
    const auto op = tk.str();
    if (op == "s") {
      w->visit(w->st, [&k](const char*, auto& f, const char* cls) {
        if (writable(cls)) {
          set_tag(f, k);
          k += 1;
        }
      });
    } else if (op == "r") {
      w->st.revert();
    } else if (op == "u") {
      w->st.update(k);
      k += 1;
    } else if (op == "f") {
      // continue on a deep copy; the original is scribbled before being dropped
      auto copy = w->st.makeDeepCopy();
      w->visit(w->st, [&k](const char*, auto& f, const char* cls) {
        if (writable(cls)) {
          set_tag(f, k);
          k += 1;
        }
      });
      w->st = std::move(copy);
    } else {
      throw std::runtime_error("bad-op");
    }
  }
  return "d" + dump(*w, w->st);
}

// ---------------------------------------------------------------- loop level
static bool holds(const Vector& v, const double id) {
  for (const auto x : v)
    if (x == id) return true;
  return false;
}
static bool holds(const real& v, const double id) { return v == id; }
static bool holds(const unsigned int& v, const double id) { return static_cast<double>(v) == id; }
template <typename T>
static bool holds(const T&, const double) {
  return false;
}
static void put_id(Vector& v, const double id) {
  for (auto& x : v) x = id;
}
static void put_id(real& v, const double id) { v = id; }
template <typename T>
static void put_id(T&, const double) {}

struct Physics {
  World* w;
  /*!
   * tag mode: every field an attempt writes receives the identifier of the attempt; at the beginning
   * of the attempt that follows a rejection, the fields an attempt may read (pers / end) that still
   * hold the identifier of the rejected attempt are exactly what `revert` did not restore.
   */
  bool tag_mode = false;
  double id = 1000;
  double last_t = 0;
  bool has_last = false;
  std::set<std::string> leaks;
  //! everything an attempt may read (pers and end fields), as it was at the beginning of the last attempt
  std::vector<std::pair<std::string, std::string>> snapshot;
  std::vector<std::pair<std::string, std::string>> readable(mtest::StudyCurrentState& s) {
    std::vector<std::pair<std::string, std::string>> r;
    const bool raw = g_raw;
    g_raw = true;
    w->visit(s, [&r](const char* n, auto& f, const char* cls) {
      const std::string c = cls;
      if constexpr (!std::is_same_v<std::decay_t<decltype(f)>, int>) {
        if ((c == "pers") || (c == "end")) r.push_back({n, get_tag(f)});
      }
    });
    g_raw = raw;
    return r;
  }
  void attempt_start(mtest::StudyCurrentState& s, const real t) {
    if (tag_mode) {
      auto now = readable(s);
      if (has_last && (t == last_t)) {
        // the previous attempt was rejected: after `revert` everything readable must be as it was when
        // that attempt started (the state was clean then)
        const double prev = id;
        w->visit(s, [this, prev](const char* n, auto& f, const char* cls) {
          const std::string c = cls;
          if (((c == "pers") || (c == "end")) && holds(f, prev)) leaks.insert(n);
        });
        for (std::size_t i = 0; (i < now.size()) && (i < snapshot.size()); ++i) {
          if (now[i].second != snapshot[i].second) leaks.insert(now[i].first);
        }
      }
      snapshot = std::move(now);
    }
    id += 1;
    last_t = t;
    has_last = true;
  }
  //! MTest::makeLinearPrediction on the unknowns
  void prediction(mtest::StudyCurrentState& s, const real dt) {
    if (tag_mode) return;
    if (s.period > 1) {
      const auto r = dt / s.dt_1;
      for (std::size_t i = 0; i != s.u1.size(); ++i) s.u1[i] = s.u0[i] + (s.u0[i] - s.u_1[i]) * r;
    }
  }
  static bool finite(mtest::StudyCurrentState& s) {
    for (const auto x : s.u1)
      if (!std::isfinite(x)) return false;
    return true;
  }
  //! hash of everything an attempt may read: pers and end fields (recomp fields once prepare wrote them)
  Hasher view(mtest::StudyCurrentState& s, const bool with_recomp) {
    Hasher h;
    w->visit(s, [&h, with_recomp](const char*, auto& f, const char* cls) {
      const std::string c = cls;
      if ((c == "pers") || (c == "end") || (with_recomp && (c == "recomp"))) h.add(f);
    });
    return h;
  }
  void prepare(mtest::StudyCurrentState& s, const real t, const real dt) {
    if (tag_mode) {
      w->visit(s, [this](const char*, auto& f, const char* cls) {
        if (std::string(cls) == "recomp") put_id(f, id);
      });
      return;
    }
    auto h = view(s, false);
    h.add(t);
    h.add(dt);
    w->visit(s, [&h](const char* n, auto& f, const char* cls) {
      if ((std::string(cls) == "recomp") && !is_really_recomputed(n)) put(f, h);
    });
    if (g_real_prepare) w->real_prepare(s, t, dt);
  }
  void compute(mtest::StudyCurrentState& s, Vector& r, const real t, const real dt, const int call) {
    if (tag_mode) {
      w->visit(s, [this](const char*, auto& f, const char* cls) {
        if (std::string(cls) == "end") put_id(f, id);
      });
      // u1 was overwritten with the identifier: the Newton update u1 -= r keeps it
      for (std::size_t i = 0; i != r.size(); ++i) r[i] = 0;
      return;
    }
    auto h = view(s, true);
    h.add(t);
    h.add(dt);
    h.mix(static_cast<std::uint64_t>(call));
    // every end-of-step field (study level and structure level) but the unknowns, which are
    // corrected (not overwritten) by the Newton update below: a non finite prediction stays non finite
    w->visit(s, [&h](const char* n, auto& f, const char* cls) {
      if ((std::string(cls) == "end") && (std::string(n) != "u1")) put(f, h);
    });
    // study level: the new iterate is u1 - r (K = identity)
    for (std::size_t i = 0; i != r.size(); ++i) {
      r[i] = s.u1[i] - h.unit();
    }
  }
};

static std::string run_once(World& w,
                            const mtest::SolverOptions& o,
                            const std::vector<Attempt>& script,
                            const real ti,
                            const real te,
                            std::vector<std::pair<double, double>>& attempts,
                            std::vector<std::size_t>& accepted,
                            unsigned& period_before,
                            Physics& ph,
                            const bool finite_check = false) {
  MockStudy s;
  s.n = w.st.u0.size();
  s.script = script;
  s.late_convergence = true;
  s.on_attempt_start = [&ph](mtest::StudyCurrentState& st, real t, real) { ph.attempt_start(st, t); };
  s.on_prepare = [&ph](mtest::StudyCurrentState& st, real t, real dt) { ph.prepare(st, t, dt); };
  s.on_compute = [&ph](mtest::StudyCurrentState& st, Vector& r, real t, real dt, int call) {
    ph.compute(st, r, t, dt, call);
  };
  s.on_prediction = [&ph](mtest::StudyCurrentState& st, real, real dt) { ph.prediction(st, dt); };
  if (finite_check) {
    // as MTest::checkConvergence: non finite unknowns never pass the convergence test
    s.extra_convergence = [](mtest::StudyCurrentState& st) { return Physics::finite(st); };
  }
  mtest::SolverWorkSpace wk;
  s.initializeWorkSpace(wk);
  period_before = w.st.period;
  std::string verdict;
  // accepted attempts = those after which the period increased: tracked through printOutput / the end
  std::vector<unsigned> period_at;
  try {
    mtest::GenericSolver().execute(w.st, wk, s, o, ti, te);
    verdict = "end";
  } catch (std::exception& e) {
    verdict = "exc:" + classify(e);
  }
  attempts = s.attempts;
  // an attempt was accepted iff an intermediate output followed it, or it is the last one of a run
  // that returned normally (the period counter is part of the compared state: it is not used here)
  for (std::size_t k = 0; k != attempts.size(); ++k) {
    const bool last = (k + 1 == attempts.size());
    if (s.output_after[k] || (last && (verdict == "end"))) accepted.push_back(k);
  }
  for (std::size_t k = 0; k + 1 < attempts.size(); ++k) {
    const bool advanced = attempts[k + 1].first != attempts[k].first;
    if ((attempts[k].second > 0) && (advanced != static_cast<bool>(s.output_after[k]))) verdict += "!accepted-detection";
  }
  return verdict;
}

static std::shared_ptr<mtest::AccelerationAlgorithm> make_aa(const std::string& n, const unsigned short psz) {
  if (n == "none") return {};
  auto& f = mtest::AccelerationAlgorithmFactory::getAccelerationAlgorithmFactory();
  auto a = f.getAlgorithm(n);
  a->initialize(psz);
  return a;
}

static std::string op_run(Tokens& tk, const unsigned ns = 1, const unsigned nm = 1) {
  struct Raw {
    Raw() { g_raw = true; }
    ~Raw() { g_raw = false; }
  } raw;
  mtest::SolverOptions o;
  o.dynamic_time_step_scaling = tk.integer() != 0;
  o.mSubSteps = static_cast<int>(tk.integer());
  o.iterMax = static_cast<int>(tk.integer());
  const auto pp = tk.integer();
  o.ppolicy = (pp == 0) ? mtest::PredictionPolicy::NOPREDICTION
                        : ((pp == 1) ? mtest::PredictionPolicy::LINEARPREDICTION
                                     : mtest::PredictionPolicy::ELASTICPREDICTION);
  o.ktype = mtest::StiffnessMatrixType::CONSISTENTTANGENTOPERATOR;
  o.eeps = 1e-12;
  o.seps = 1e-3;
  const auto aan = tk.str();
  const auto ni = static_cast<unsigned>(tk.integer());
  o.minimal_time_step = tk.dbl();
  o.maximal_time_step = tk.dbl();
  o.minimal_time_step_scaling_factor = tk.dbl();
  o.maximal_time_step_scaling_factor = tk.dbl();
  const auto nt = static_cast<std::size_t>(tk.integer());
  const auto times = tk.dbls(nt);
  const auto na = static_cast<std::size_t>(tk.integer());
  std::vector<Attempt> script;
  for (std::size_t i = 0; i != na; ++i) {
    Attempt a;
    a.kind = static_cast<int>(tk.integer());
    a.factor = tk.dbl();
    a.at = static_cast<int>(tk.integer());
    script.push_back(a);
  }
  // two identical initial worlds (clean state: every field tagged, then `revert`)
  auto mk = [ni, ns, nm]() {
    auto w = std::make_unique<World>();
    w->build(ns, ni, nm, 3);
    double k = 1;
    w->visit(w->st, [&k](const char*, auto& f, const char*) {
      set_tag(f, k);
      k += 1;
    });
    // unknowns have the problem size
    for (auto* v : {&w->st.u_1, &w->st.u0, &w->st.u1, &w->st.u10}) {
      v->resize(3);
      (*v)[2] = (*v)[0] + 0.25;
    }
    w->st.period = 1;
    w->st.dt_1 = 0;  // as in a fresh StudyCurrentState: no previous time step yet
    if (g_real_prepare) w->size_for_real_prepare();
    w->st.revert();
    return w;
  };
  auto w1 = mk();
  auto w2 = mk();
  // run with the injected failures, over all the requested times
  o.aa = make_aa(aan, 3);
  std::ostringstream out;
  std::vector<std::tuple<double, double, Attempt>> acc;  // accepted (t, dt, script entry)
  std::string verdict = "end";
  std::size_t consumed = 0;
  std::size_t rejected = 0;
  Physics ph1{w1.get()};
  for (std::size_t i = 0; (i + 1 < nt) && (verdict == "end"); ++i) {
    std::vector<std::pair<double, double>> attempts;
    std::vector<std::size_t> accepted;
    unsigned p0 = 0;
    const std::vector<Attempt> rest(script.begin() + static_cast<std::ptrdiff_t>(std::min(consumed, script.size())),
                                    script.end());
    verdict = run_once(*w1, o, rest, times[i], times[i + 1], attempts, accepted, p0, ph1, aan == "none");
    for (const auto k : accepted) acc.push_back({attempts[k].first, attempts[k].second, rest[k]});
    rejected += attempts.size() - accepted.size();
    consumed += attempts.size();
  }
  out << verdict << " attempts=" << consumed << " rejected=" << rejected << " accepted=" << acc.size();
  // replay of the accepted steps only, on the second world, each as a time step of its own
  bool exact = true;
  auto o2 = o;
  o2.dynamic_time_step_scaling = false;
  o2.aa = make_aa(aan, 3);
  std::string verdict2 = "end";
  Physics ph2{w2.get()};
  for (const auto& [t, dt, a] : acc) {
    const double te = t + dt;
    if (te - t != dt) exact = false;
    std::vector<std::pair<double, double>> attempts;
    std::vector<std::size_t> accepted;
    unsigned p0 = 0;
    const auto v = run_once(*w2, o2, {a}, t, te, attempts, accepted, p0, ph2, aan == "none");
    if (v != "end") verdict2 = v;
  }
  out << " direct=" << verdict2 << " exact=" << (exact ? 1 : 0);
  // third world, tag mode: which readable fields still hold a value written by a rejected attempt
  {
    auto w3 = mk();
    Physics ph3{w3.get()};
    ph3.tag_mode = true;
    auto o3 = o;
    o3.aa.reset();
    std::string v3 = "end";
    std::size_t c3 = 0;
    for (std::size_t i = 0; (i + 1 < nt) && (v3 == "end"); ++i) {
      std::vector<std::pair<double, double>> attempts;
      std::vector<std::size_t> accepted;
      unsigned p0 = 0;
      const std::vector<Attempt> rest(script.begin() + static_cast<std::ptrdiff_t>(std::min(c3, script.size())),
                                      script.end());
      v3 = run_once(*w3, o3, rest, times[i], times[i + 1], attempts, accepted, p0, ph3);
      c3 += attempts.size();
    }
    out << " ctl=" << v3 << "/" << c3;
    out << " leak=";
    if (ph3.leaks.empty()) out << "-";
    bool first = true;
    for (const auto& n : ph3.leaks) {
      out << (first ? "" : ",") << n;
      first = false;
    }
  }
  out << " A" << dump(*w1, w1->st) << " B" << dump(*w2, w2->st);
  return out.str();
}

int main() {
  mfront::getVerboseMode() = mfront::VERBOSE_QUIET;
  std::string line;
  while (std::getline(std::cin, line)) {
    std::string ans;
    try {
      Tokens tk(line);
      const auto op = tk.str();
      if (op == "rv") {
        ans = op_rv(tk);
      } else if (op == "run") {
        ans = op_run(tk);
      } else if (op == "runs") {
        const auto ns = static_cast<unsigned>(tk.integer());
        const auto nm = static_cast<unsigned>(tk.integer());
        struct Real {
          Real() { g_real_prepare = true; }
          ~Real() { g_real_prepare = false; }
        } real_prepare;
        ans = op_run(tk, ns, nm);
      } else {
        ans = "bad-op";
      }
    } catch (std::exception& e) {
      const std::string m = e.what();
      ans = (m == "bad-op") ? "bad-op" : ("err " + m.substr(0, 80));
      for (auto& c : ans) {
        if (c == '\n') c = ' ';
      }
    }
    std::cout << ans << '\n';
  }
  return 0;
}
