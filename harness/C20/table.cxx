// T2 dump for C20: the named units of include/TFEL/Math/Forward/Unit.hxx, their exponents as the
// real headers define them, whether UnitRebind maps these exponents back to the named struct, and the
// aliases.  Output (one line per unit):  unit <name> <canonical 0|1> n1/d1 ... n7/d7
//                                        alias <name> <target>
#include <iostream>
#include <type_traits>
#include "TFEL/Math/qt.hxx"

using namespace tfel::math::unit;

template <typename U>
static void unit(const char* name) {
  constexpr auto e = exponents<U>;
  constexpr bool canonical = std::is_same_v<typename UnitRebind<e>::type, U>;
  std::cout << "unit " << name << " " << (canonical ? 1 : 0);
  for (const auto& x : e.exponents) std::cout << " " << x.numerator << "/" << x.denominator;
  std::cout << "\n";
}

template <typename A, typename T>
static void alias(const char* name, const char* target) {
  static_assert(std::is_same_v<A, T>, "alias no longer names this unit");
  std::cout << "alias " << name << " " << target << "\n";
}

#define UNIT(X) unit<X>(#X)
#define ALIAS(X, Y) alias<X, Y>(#X, #Y)

int main() {
  UNIT(NoUnit);
  UNIT(Mass);
  UNIT(Length);
  UNIT(Time);
  UNIT(Ampere);
  UNIT(Temperature);
  UNIT(Candela);
  UNIT(Mole);
  UNIT(InvLength);
  UNIT(InvTemperature);
  UNIT(Frequency);
  UNIT(Speed);
  UNIT(Acceleration);
  UNIT(Momentum);
  UNIT(Force);
  UNIT(Stress);
  UNIT(StressRate);
  UNIT(Energy);
  UNIT(Density);
  UNIT(TemperatureGradient);
  UNIT(ThermalConductivity);
  UNIT(HeatFluxDensity);
  ALIAS(Kelvin, Temperature);
  ALIAS(Newton, Force);
  ALIAS(Pressure, Stress);
  ALIAS(EnergyDensity, Stress);
  return 0;
}
