// T2 dump for C20: the named units of include/TFEL/Math/Forward/Unit.hxx, their exponents as the
// real headers define them, whether UnitRebind maps these exponents back to the named struct, and the
// aliases.  Output (one line per unit):  unit <name> <canonical 0|1> n1/d1 ... n7/d7
//                                        alias <name> <target>
// and the class traits that Quantity/qtSpecific.hxx specialises for quantities:
//   assign <i> <j> <0|1>         IsAssignableTo<qt<U_i>, qt<U_j>> for every pair of named units
//   assignvt <from> <to> <0|1>   IsAssignableTo<qt<Mass,from>, qt<Mass,to>>            (d double, f float)
//   assignsc <what> <0|1>        IsAssignableTo between a dimensionless quantity and double
//   abstype <i> <tag> n1/d1 .. n7/d7        unit of AbsType<qt<U_i>>::type
//   realpart <tag> n1/d1 .. n7/d7           unit of RealPartType<qt<NoUnit>>::type
//   trait <IsScalar|IsReal|IsComplex> <i> <qt> <const qt> <qt float>
// and tfel::math::ieee754::fpclassify / isnan / isfinite on a quantity next to the same call on its value:
//   ieee <k> <fpclassify q> <fpclassify x> <isnan q> <isnan x> <isfinite q> <isfinite x>
#include <iostream>
#include <limits>
#include <type_traits>
#include "C20/emit.hxx"

using namespace tfel::math::unit;
namespace tt = tfel::typetraits;
using tfel::math::qt;

template <typename U>
static void unit(const char* name) {
  constexpr auto e = exponents<U>;
  constexpr bool canonical = std::is_same_v<typename UnitRebind<e>::type, U>;
  std::cout << "unit " << name << " " << (canonical ? 1 : 0);
  for (const auto& x : e.exponents) std::cout << " " << x.numerator << "/" << x.denominator;
  std::cout << "\n";
}

template <typename A, typename T>
static void alias(const char* name, const char* target) {
  static_assert(std::is_same_v<A, T>, "alias no longer names this unit");
  std::cout << "alias " << name << " " << target << "\n";
}

template <typename U>
static void unit_of(const char* what) {
  constexpr auto e = exponents<U>;
  std::cout << what << " " << c20::tag<U>();
  for (const auto& x : e.exponents) std::cout << " " << x.numerator << "/" << x.denominator;
  std::cout << "\n";
}

template <typename Ui, typename... Us>
static void assign_row(const int i, c20::List<Us...>) {
  int j = 0;
  ((std::cout << "assign " << i << " " << j++ << " " << (tt::isAssignableTo<qt<Ui>, qt<Us>>() ? 1 : 0) << "\n"), ...);
}

template <typename... Us>
static void traits(c20::List<Us...> l) {
  int i = 0;
  (assign_row<Us>(i++, l), ...);
  i = 0;
  ((std::cout << "abstype " << i++ << " ", unit_of<tfel::math::quantity_unit<typename tt::AbsType<qt<Us>>::type>>("")), ...);
  i = 0;
  ((std::cout << "trait IsScalar " << i++ << " " << tt::IsScalar<qt<Us>>::cond << " " << tt::IsScalar<const qt<Us>>::cond << " "
              << tt::IsScalar<qt<Us, float>>::cond << "\n"), ...);
  i = 0;
  ((std::cout << "trait IsReal " << i++ << " " << tt::IsReal<qt<Us>>::cond << " " << tt::IsReal<const qt<Us>>::cond << " "
              << tt::IsReal<qt<Us, float>>::cond << "\n"), ...);
  i = 0;
  ((std::cout << "trait IsComplex " << i++ << " " << tt::IsComplex<qt<Us>>::cond << " " << tt::IsComplex<const qt<Us>>::cond
              << " " << tt::IsComplex<qt<Us, float>>::cond << "\n"), ...);
}

#define UNIT(X) unit<X>(#X)
#define ALIAS(X, Y) alias<X, Y>(#X, #Y)

int main() {
  UNIT(NoUnit);
  UNIT(Mass);
  UNIT(Length);
  UNIT(Time);
  UNIT(Ampere);
  UNIT(Temperature);
  UNIT(Candela);
  UNIT(Mole);
  UNIT(InvLength);
  UNIT(InvTemperature);
  UNIT(Frequency);
  UNIT(Speed);
  UNIT(Acceleration);
  UNIT(Momentum);
  UNIT(Force);
  UNIT(Stress);
  UNIT(StressRate);
  UNIT(Energy);
  UNIT(Density);
  UNIT(TemperatureGradient);
  UNIT(ThermalConductivity);
  UNIT(HeatFluxDensity);
  ALIAS(Kelvin, Temperature);
  ALIAS(Newton, Force);
  ALIAS(Pressure, Stress);
  ALIAS(EnergyDensity, Stress);
  traits(c20::Named{});
  std::cout << "assignvt f d " << tt::isAssignableTo<qt<Mass, float>, qt<Mass, double>>() << "\n";
  std::cout << "assignvt d f " << tt::isAssignableTo<qt<Mass, double>, qt<Mass, float>>() << "\n";
  std::cout << "assignvt d d " << tt::isAssignableTo<qt<Mass, double>, qt<Mass, double>>() << "\n";
  std::cout << "assignsc nounit-to-double " << tt::isAssignableTo<qt<NoUnit>, double>() << "\n";
  std::cout << "assignsc double-to-nounit " << tt::isAssignableTo<double, qt<NoUnit>>() << "\n";
  unit_of<tfel::math::quantity_unit<typename tt::RealPartType<qt<NoUnit>>::type>>("realpart");
  {
    namespace ie = tfel::math::ieee754;
    const double xs[] = {1.5, 0., -0., std::numeric_limits<double>::quiet_NaN(), std::numeric_limits<double>::infinity(),
                         -std::numeric_limits<double>::infinity(), std::numeric_limits<double>::denorm_min(), -2.5e-320};
    int k = 0;
    for (const double x : xs) {
      const qt<Stress> q(x);
      std::cout << "ieee " << k++ << " " << ie::fpclassify(q) << " " << ie::fpclassify(x) << " " << ie::isnan(q) << " "
                << ie::isnan(x) << " " << ie::isfinite(q) << " " << ie::isfinite(x) << "\n";
    }
  }
  return 0;
}
