// C20: printing helpers shared by the generated programs (included through the precompiled prelude).
// A quantity is printed as   q <tag> n1/d1 .. n7/d7 <16 hex digits of the value>
// where the exponents are read from the *static type* of the expression (so the line shows what the
// real templates computed at compile time) and <tag> tells which C++ unit type carries them:
//   N<k>  the k-th named unit of harness/C20/table.cxx (same order),  S  a unit::StandardUnit<...>,
//   U  a unit::Unit<...>,  ?  anything else.
// The tag is followed by  :f / :l / :i / :?  when the value type of the quantity is float / long double / int /
// anything else but double (the programs are built so that every printed quantity is double-valued when the
// operators promote as the built-in ones do); the value is then converted to double for printing.
// A double is printed as  s <hex>, a bool as  b 0|1.
#ifndef VERIF_C20_EMIT_HXX
#define VERIF_C20_EMIT_HXX
#include <cmath>
#include <cstdint>
#include <cstring>
#include <iostream>
#include <string>
#include <type_traits>
#include "TFEL/Math/qt.hxx"

namespace c20 {
  namespace u = tfel::math::unit;

  inline std::string hex(const double x) {
    if (std::isnan(x)) return "nan";
    std::uint64_t v;
    std::memcpy(&v, &x, sizeof(double));
    static const char* digits = "0123456789abcdef";
    std::string r(16, '0');
    for (int i = 0; i != 16; ++i) r[i] = digits[(v >> (4 * (15 - i))) & 15u];
    return r;
  }

  template <typename... Us>
  struct List {};
  // the named units, in the order of harness/C20/table.cxx
  using Named = List<u::NoUnit, u::Mass, u::Length, u::Time, u::Ampere, u::Temperature, u::Candela,
                     u::Mole, u::InvLength, u::InvTemperature, u::Frequency, u::Speed,
                     u::Acceleration, u::Momentum, u::Force, u::Stress, u::StressRate, u::Energy,
                     u::Density, u::TemperatureGradient, u::ThermalConductivity, u::HeatFluxDensity>;

  template <typename U, typename... Us>
  constexpr int index_of(List<Us...>) {
    int k = 0;
    int r = -1;
    ((std::is_same_v<U, Us> ? (r = k, ++k) : ++k), ...);
    return r;
  }

  template <typename U>
  struct IsStandardUnit : std::false_type {};
  template <int... N>
  struct IsStandardUnit<u::StandardUnit<N...>> : std::true_type {};
  template <typename U>
  struct IsRawUnit : std::false_type {};
  template <int N1, int N2, int N3, int N4, int N5, int N6, int N7, unsigned int D1,
            unsigned int D2, unsigned int D3, unsigned int D4, unsigned int D5, unsigned int D6,
            unsigned int D7>
  struct IsRawUnit<u::Unit<N1, N2, N3, N4, N5, N6, N7, D1, D2, D3, D4, D5, D6, D7>> : std::true_type {};

  template <typename U>
  std::string tag() {
    constexpr int k = index_of<U>(Named{});
    if constexpr (k >= 0) {
      return "N" + std::to_string(k);
    } else if constexpr (IsStandardUnit<U>::value) {
      return "S";
    } else if constexpr (IsRawUnit<U>::value) {
      return "U";
    } else {
      return "?";
    }
  }

  template <typename T>
  const char* value_type_tag() {
    if constexpr (std::is_same_v<T, double>) {
      return "";
    } else if constexpr (std::is_same_v<T, float>) {
      return ":f";
    } else if constexpr (std::is_same_v<T, long double>) {
      return ":l";
    } else if constexpr (std::is_same_v<T, int>) {
      return ":i";
    } else {
      return ":?";
    }
  }

  template <tfel::math::ImmutableQuantityConcept Q>
  void emit(std::ostream& os, const Q& q) {
    using U = tfel::math::quantity_unit<Q>;
    constexpr auto e = u::exponents<U>;
    os << " q " << tag<U>() << value_type_tag<tfel::math::base_type<Q>>();
    for (const auto& x : e.exponents) os << " " << x.numerator << "/" << x.denominator;
    os << " " << hex(static_cast<double>(tfel::math::base_type_cast(q)));
  }
  inline void emit(std::ostream& os, const double x) { os << " s " << hex(x); }
  // other arithmetic results (float, int, long double): the value type is shown, they never compare equal to a double item
  template <typename T>
  requires(std::is_arithmetic_v<T> && !std::is_same_v<T, double> && !std::is_same_v<T, bool>)  //
      void emit(std::ostream& os, const T x) {
    os << " s" << value_type_tag<T>() << " " << hex(static_cast<double>(x));
  }
  inline void emitb(std::ostream& os, const bool b) { os << " b " << (b ? 1 : 0); }
}  // namespace c20
#endif
