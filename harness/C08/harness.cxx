// C08 correspondence harness: a *scripted child* derived (CRTP) from each of the six real fixed-size
// solver classes. Every method the base class / the solver calls on the child is overridden to log an
// event and forward to the real implementation; `computeResidual` answers from the script.
//
// stdin : one request per line (format: see lean/TfelVerif/C08/Driver.lean)
// stdout: one trace per line, same format as the Lean driver (doubles as 16 hex digits, NaN as "nan")
//
// Compile-time selection: -DC08_SOLVER=<0..5> (nr, broyden, broyden2, pdlnr, pdlbroyden, lm), -DC08_MAXN=<n>.
#include <bit>
#include <cstdint>
#include <cstdio>
#include <iostream>
#include <sstream>
#include <string>
#include <vector>

#ifndef C08_SOLVER
#error "C08_SOLVER must be defined"
#endif
#ifndef C08_MAXN
#define C08_MAXN 8
#endif

#if C08_SOLVER == 0
#include "TFEL/Math/TinyNewtonRaphsonSolver.hxx"
#define C08_TEMPLATE tfel::math::TinyNewtonRaphsonSolver
#define C08_WS tfel::math::StackAllocatedTinyNewtonRaphsonSolverWorkspace
#define C08_NAME "nr"
#elif C08_SOLVER == 1
#include "TFEL/Math/TinyBroydenSolver.hxx"
#define C08_TEMPLATE tfel::math::TinyBroydenSolver
#define C08_WS tfel::math::StackAllocatedTinyBroydenSolverWorkspace
#define C08_NAME "broyden"
#elif C08_SOLVER == 2
#include "TFEL/Math/TinyBroyden2Solver.hxx"
#define C08_TEMPLATE tfel::math::TinyBroyden2Solver
#define C08_WS tfel::math::StackAllocatedTinyBroyden2SolverWorkspace
#define C08_NAME "broyden2"
#elif C08_SOLVER == 3
#include "TFEL/Math/TinyPowellDogLegNewtonRaphsonSolver.hxx"
#define C08_TEMPLATE tfel::math::TinyPowellDogLegNewtonRaphsonSolver
#define C08_WS tfel::math::StackAllocatedTinyPowellDogLegNewtonRaphsonSolverWorkspace
#define C08_NAME "pdlnr"
#elif C08_SOLVER == 4
#include "TFEL/Math/TinyPowellDogLegBroydenSolver.hxx"
#define C08_TEMPLATE tfel::math::TinyPowellDogLegBroydenSolver
#define C08_WS tfel::math::StackAllocatedTinyPowellDogLegBroydenSolverWorkspace
#define C08_NAME "pdlbroyden"
#elif C08_SOLVER == 5
#include "TFEL/Math/TinyLevenbergMarquardtSolver.hxx"
#define C08_TEMPLATE tfel::math::TinyLevenbergMarquardtSolver
#define C08_WS tfel::math::StackAllocatedTinyLevenbergMarquardtSolverWorkspace
#define C08_NAME "lm"
#else
#error "unknown C08_SOLVER"
#endif

namespace {

  std::string hx(const double x) {
    if (x != x) return "nan";
    char b[17];
    std::snprintf(b, sizeof(b), "%016llx",
                  static_cast<unsigned long long>(std::bit_cast<std::uint64_t>(x)));
    return b;
  }

  struct Entry {
    bool ok = false;
    int kind = 0;
    std::vector<double> f, J;
  };

  struct Reader {
    std::vector<std::string> toks;
    std::size_t pos = 0;
    bool bad = false;
    std::string tok() {
      if (pos >= toks.size()) {
        bad = true;
        return "";
      }
      return toks[pos++];
    }
    unsigned long nat() {
      const auto t = tok();
      if (t.empty() || t.size() > 9) {
        bad = true;
        return 0;
      }
      unsigned long r = 0;
      for (const char c : t) {
        if (c < '0' || c > '9') {
          bad = true;
          return 0;
        }
        r = 10 * r + static_cast<unsigned long>(c - '0');
      }
      return r;
    }
    double real() {
      const auto t = tok();
      if (t.size() != 16) {
        bad = true;
        return 0;
      }
      std::uint64_t r = 0;
      for (const char c : t) {
        int v;
        if (c >= '0' && c <= '9')
          v = c - '0';
        else if (c >= 'a' && c <= 'f')
          v = c - 'a' + 10;
        else if (c >= 'A' && c <= 'F')
          v = c - 'A' + 10;
        else {
          bad = true;
          return 0;
        }
        r = (r << 4) | static_cast<std::uint64_t>(v);
      }
      return std::bit_cast<double>(r);
    }
    std::vector<double> vec(const std::size_t k) {
      std::vector<double> v(k);
      for (auto& x : v) x = real();
      return v;
    }
    Entry entry(const std::size_t n) {
      Entry e;
      e.ok = nat() == 1;
      e.kind = static_cast<int>(nat());
      if (e.kind == 1 || e.kind == 2) e.f = vec(n);
      if (e.kind == 2) e.J = vec(n * n);
      return e;
    }
  };

  template <unsigned short N>
  struct Scripted : C08_TEMPLATE<N, double, Scripted<N>, C08_WS> {
    using Base = C08_TEMPLATE<N, double, Scripted<N>, C08_WS>;
    static constexpr bool analytic_jacobian =
        (C08_SOLVER == 0) || (C08_SOLVER == 3) || (C08_SOLVER == 5);

    // script
    std::vector<Entry> script;
    Entry dflt;
    std::vector<double> A, cq, b;
    double dmax = 0, lo = 0, hi = 0;
    std::size_t calls = 0;
    mutable std::string log;

    auto& matrix() {
#if C08_SOLVER == 2
      return this->inv_jacobian;
#else
      return this->jacobian;
#endif
    }

    template <typename V>
    std::string vec(const V& v) const {
      std::string s;
      for (unsigned short i = 0; i != N; ++i) {
        if (i) s += " ";
        s += hx(v[i]);
      }
      return s;
    }
    // more events than any terminating run with this iterMax can produce: stop the solver (the hooks are
    // the only place where a child can do so) and report the run as not terminating
    struct Runaway {};
    mutable std::size_t nevents = 0;
    std::size_t max_events = 0;
    void ev(const std::string& s) const {
      if (!log.empty()) log += ";";
      log += s;
      if (++nevents > max_events) throw Runaway{};
    }

    // ---- the residual oracle
    bool computeResidual() {
      const std::string z = vec(this->zeros);
      const Entry& e = (calls < script.size()) ? script[calls] : dflt;
      ++calls;
      if (e.kind == 1 || e.kind == 2) {
        for (unsigned short i = 0; i != N; ++i) this->fzeros[i] = e.f[i];
      }
      if (e.kind == 2) {
        for (unsigned short i = 0; i != N; ++i)
          for (unsigned short j = 0; j != N; ++j) matrix()(i, j) = e.J[i * N + j];
      }
      if (e.kind == 3) {
        for (unsigned short i = 0; i != N; ++i) {
          double r = 0;
          for (unsigned short j = 0; j != N; ++j) r = r + A[i * N + j] * this->zeros[j];
          r = r + cq[i] * this->zeros[i] * this->zeros[i];
          r = r - b[i];
          this->fzeros[i] = r;
        }
        if constexpr (analytic_jacobian) {
          for (unsigned short i = 0; i != N; ++i) {
            for (unsigned short j = 0; j != N; ++j) matrix()(i, j) = A[i * N + j];
            matrix()(i, i) = A[i * N + i] + 2.0 * cq[i] * this->zeros[i];
          }
        }
      }
      ev("R " + std::to_string(this->iter) + (e.ok ? " 1" : " 0") + " z " + z + " f " +
         vec(this->fzeros));
      return e.ok;
    }
    // ---- hooks called by TinyNonLinearSolverBase
    void reportBeginningOfResolution() const { ev("B"); }
    void processNewEstimate() {
      for (unsigned short i = 0; i != N; ++i) {
        if (this->zeros[i] > hi) this->zeros[i] = hi;
        if (this->zeros[i] < lo) this->zeros[i] = lo;
      }
      Base::processNewEstimate();
      ev("E " + std::to_string(this->iter) + " " + vec(this->zeros));
    }
    double computeResidualNorm() const {
      const double e = Base::computeResidualNorm();
      ev("N " + hx(e));
      return e;
    }
    void rejectCurrentCorrection() {
      Base::rejectCurrentCorrection();
      ev("J");
    }
    void reportInvalidResidualEvaluation() const { ev("I"); }
    void reportStandardIteration(const double e) const { ev("S " + hx(e)); }
    bool checkConvergence(const double e) const {
      const bool r = Base::checkConvergence(e);
      ev(r ? "C 1" : "C 0");
      return r;
    }
    bool computeNewCorrection() {
      const auto it = this->iter;
      const bool r = Base::computeNewCorrection();
      ev("K " + std::to_string(it) + (r ? " 1" : " 0"));
      return r;
    }
    void reportNewCorrectionComputationFailure() const { ev("X"); }
    void processNewCorrection() {
      for (unsigned short i = 0; i != N; ++i) {
        if (this->delta_zeros[i] > dmax) this->delta_zeros[i] = dmax;
        if (this->delta_zeros[i] < -dmax) this->delta_zeros[i] = -dmax;
      }
      Base::processNewCorrection();
      ev("D " + vec(this->delta_zeros));
    }
    void reportSuccess() const { ev("OK"); }
    void reportFailure() const { ev("KO"); }
    // ---- hooks called by the solvers
    void updateOrCheckJacobian() {
      ev("U " + std::to_string(this->iter));
      Base::updateOrCheckJacobian();
    }
    template <typename M, typename V>
    bool solveLinearSystem(M& m, V& v) const {
      const bool r = Base::solveLinearSystem(m, v);
      ev(r ? "L 1" : "L 0");
      return r;
    }
#if C08_SOLVER == 5
    bool computeLevenbergMarquardtCorrection() {
      ev("M");
      return Base::computeLevenbergMarquardtCorrection();
    }
#endif

    std::string run(Reader& rd, const unsigned long iterMax_) {
      this->iterMax = static_cast<unsigned short>(iterMax_);
      this->epsilon = rd.real();
      dmax = rd.real();
      lo = rd.real();
      hi = rd.real();
      const double radius = rd.real();
      const double mu0 = rd.real(), p0 = rd.real(), p1 = rd.real(), p2 = rd.real(), m = rd.real();
#if C08_SOLVER == 3 || C08_SOLVER == 4
      this->powell_dogleg_trust_region_size = radius;
#else
      static_cast<void>(radius);
#endif
#if C08_SOLVER == 5
      this->levmar_mu0 = mu0;
      this->levmar_p0 = p0;
      this->levmar_p1 = p1;
      this->levmar_p2 = p2;
      this->levmar_m = m;
#else
      static_cast<void>(mu0), static_cast<void>(p0), static_cast<void>(p1), static_cast<void>(p2),
          static_cast<void>(m);
#endif
      const auto x0 = rd.vec(N), dz0 = rd.vec(N), fz1 = rd.vec(N), J0 = rd.vec(N * N);
      A = rd.vec(N * N);
      cq = rd.vec(N);
      b = rd.vec(N);
      dflt = rd.entry(N);
      const auto ne = rd.nat();
      if (rd.bad || ne > 100000) return "bad-op";
      for (unsigned long k = 0; k != ne; ++k) script.push_back(rd.entry(N));
      if (rd.bad || rd.pos != rd.toks.size()) return "bad-op";
      // initial content of the workspace (the arrays are zero after construction; the script may model a
      // solver object reused after a previous resolution)
      for (unsigned short i = 0; i != N; ++i) {
        this->zeros[i] = x0[i];
        this->fzeros[i] = 0;
        this->delta_zeros[i] = dz0[i];
#if C08_SOLVER == 1 || C08_SOLVER == 2 || C08_SOLVER == 4
        this->fzeros_1[i] = fz1[i];
#endif
#if C08_SOLVER == 5
        this->levmar_fzeros_1[i] = fz1[i];
#endif
        for (unsigned short j = 0; j != N; ++j) {
          matrix()(i, j) = J0[i * N + j];
#if C08_SOLVER == 5
          this->levmar_jacobian_1(i, j) = 0;
#endif
        }
      }
      max_events = 24 * (static_cast<std::size_t>(this->iterMax) + 2) + 24;
      // a solver object is reused from one resolution to the next (and `iter` / `is_delta_zeros_defined` have no
      // initialiser): they hold whatever the previous resolution left. solveNonLinearSystem must reset them.
      this->iter = static_cast<unsigned short>(this->iterMax + 3u);
      this->is_delta_zeros_defined = true;
      bool r = false;
      try {
        r = this->solveNonLinearSystem();
      } catch (const Runaway&) {
        return log + ";RUNAWAY;ret=0 iter=" + std::to_string(this->iter) + " dd=" +
               (this->is_delta_zeros_defined ? "1" : "0") + " calls=" + std::to_string(calls) + " z " +
               vec(this->zeros) + " f " + vec(this->fzeros) + " dz " + vec(this->delta_zeros) + " J";
      }
      std::string mat;
      for (unsigned short i = 0; i != N; ++i)
        for (unsigned short j = 0; j != N; ++j) mat += (i + j ? " " : "") + hx(matrix()(i, j));
      return log + ";ret=" + (r ? "1" : "0") + " iter=" + std::to_string(this->iter) +
             " dd=" + (this->is_delta_zeros_defined ? "1" : "0") + " calls=" + std::to_string(calls) +
             " z " + vec(this->zeros) + " f " + vec(this->fzeros) + " dz " + vec(this->delta_zeros) +
             " J " + mat;
    }
  };

  template <unsigned short N>
  std::string dispatch(Reader& rd, const unsigned long n, const unsigned long iterMax) {
    if (n == N) {
      Scripted<N> s;
      return s.run(rd, iterMax);
    }
    if constexpr (N < C08_MAXN) {
      return dispatch<N + 1>(rd, n, iterMax);
    } else {
      return "unsupported-size";
    }
  }

}  // namespace

int main() {
  std::ios::sync_with_stdio(false);
  std::string line;
  while (std::getline(std::cin, line)) {
    Reader rd;
    std::istringstream is(line);
    std::string t;
    while (is >> t) rd.toks.push_back(t);
    const auto name = rd.tok();
    const auto n = rd.nat();
    const auto iterMax = rd.nat();
    if (rd.bad || name != C08_NAME || n == 0 || iterMax > 65535) {
      std::cout << "bad-op\n";
      continue;
    }
    std::cout << dispatch<1>(rd, n, iterMax) << "\n";
  }
  return 0;
}
