// C12 correspondence / property harness: calls the real Gauss-Kronrod quadrature and Runge-Kutta
// integrators in-process (doubles as decimal u64 bit patterns, '|' separated fields).
//   gk1|<integrand>|<a> <b>                 operator()(f, a, b)          -> none | <value> <estimate>
//   gkp|<integrand>|<a> <b> <tol> <n>       operator()(f, a, b, params)  -> none | <value>
//   rk2exe|poly c0..cn|<h> <begin> <end> <y0>   RungeKutta2::exe        -> <t> <y> <steps>
//   rk4exe|poly c0..cn|<h> <begin> <end> <y0>   RungeKutta4::exe        -> <t> <y> <steps>
//   rk42|poly c0..cn|<ti> <tf> <dt0> <eps> <y0>             RungeKutta42<1>::iterate
//        -> <y> <final dt> trace <t dt at every loop head>   | error:<what>
//   rk54|poly c0..cn;poly d0..dm|<ti> <tf> <dt0> <eps> <y0> <z0>   RungeKutta54<2>::iterate
//        -> <y> <z> <final dt> trace <t dt …>
// integrands: see lean/TfelVerif/C12/Driver.lean (same definitions, same operation order).
#include <cmath>
#include <cstdint>
#include <cstring>
#include <functional>
#include <iostream>
#include <sstream>
#include <stdexcept>
#include <string>
#include <vector>
#include "TFEL/Math/tvector.hxx"
#include "TFEL/Math/MathException.hxx"
#include "TFEL/FSAlgorithm/FSAlgorithm.hxx"
#include "TFEL/Math/qt.hxx"
#include "TFEL/Math/NumericalIntegration/GaussKronrodQuadrature.hxx"
#include "TFEL/Math/RungeKutta2.hxx"
#include "TFEL/Math/RungeKutta4.hxx"
#include "TFEL/Math/RungeKutta42.hxx"
#include "TFEL/Math/RungeKutta54.hxx"

static double fromBits(const std::uint64_t b) {
  double d;
  std::memcpy(&d, &b, sizeof d);
  return d;
}
static std::string bits(const double d) {
  std::uint64_t b;
  std::memcpy(&b, &d, sizeof b);
  return std::to_string(b);
}
static std::vector<std::string> split(const std::string& s, const char c) {
  std::vector<std::string> r;
  std::string cur;
  for (const char ch : s) {
    if (ch == c) {
      r.push_back(cur);
      cur.clear();
    } else {
      cur += ch;
    }
  }
  r.push_back(cur);
  return r;
}
static std::vector<double> doubles(const std::string& s) {
  std::vector<double> r;
  std::istringstream is(s);
  for (std::uint64_t b; is >> b;) r.push_back(fromBits(b));
  return r;
}

using Fn = std::function<double(double)>;
static Fn integrand(const std::string& spec) {
  std::istringstream is(spec);
  std::string k;
  is >> k;
  if (k == "poly") {
    std::vector<double> c;
    for (std::uint64_t b; is >> b;) c.push_back(fromBits(b));
    if (c.empty()) throw std::runtime_error("bad poly");
    return [c](const double x) {
      double r = c.back();
      for (std::size_t i = c.size() - 1; i-- > 0;) r = r * x + c[i];
      return r;
    };
  }
  if (k == "expm2") return [](const double x) { return std::exp(-(x * x)); };
  if (k == "lorentz") return [](const double x) { return 1.0 / (1.0 + x * x); };
  if (k == "sin") return [](const double x) { return std::sin(x); };
  if (k == "expm") return [](const double x) { return std::exp(-x); };
  if (k == "gaussd") return [](const double x) { return x * x * std::exp(-(x * x)); };
  if (k == "runge") return [](const double x) { return 1.0 / (1.0 + 25.0 * (x * x)); };
  throw std::runtime_error("bad integrand");
}

struct TooManySteps {};
static long ncalls = 0;
static void count_call() {
  if (++ncalls > 4000000) throw TooManySteps{};
}

struct R2 : tfel::math::RungeKutta2<1u, double, R2> {
  Fn p;
  void computeF(const double t, const tfel::math::tvector<1u, double>&) {
    count_call();
    this->f[0] = p(t);
  }
};
struct R4 : tfel::math::RungeKutta4<1u, double, R4> {
  Fn p;
  void computeF(const double t, const tfel::math::tvector<1u, double>&) {
    count_call();
    this->f[0] = p(t);
  }
};
static std::vector<double>* trace = nullptr;
struct R42 : tfel::math::RungeKutta42<1u, R42, double> {
  Fn p;
  double final_time() const { return this->tf; }
  double computeF(const double t, const double) const {
    count_call();
    if ((ncalls - 1) % 4 == 0) {  // first stage of a pass through the loop: loop-head state
      trace->push_back(t);
      trace->push_back(this->dt);
    }
    return p(t);
  }
};
struct R54 : tfel::math::RungeKutta54<2u, R54, double> {
  Fn p, q;
  tfel::math::tvector<2u, double> computeF(const double t, const tfel::math::tvector<2u, double>&) const {
    count_call();
    if ((ncalls - 1) % 6 == 0) {
      trace->push_back(t);
      trace->push_back(this->dt);
    }
    return {p(t), q(t)};
  }
};

int main() {
  std::string line;
  while (std::getline(std::cin, line)) {
    const auto f = split(line, '|');
    try {
      if (f.size() != 3) throw std::runtime_error("fields");
      const auto a = doubles(f[2]);
      ncalls = 0;
      if (f[0] == "gk1" && a.size() == 2) {
        const auto fn = integrand(f[1]);
        const auto r = tfel::math::gauss_kronrod_integrate(fn, a[0], a[1]);
        if (!r.has_value()) {
          std::cout << "none\n";
        } else {
          std::cout << bits(std::get<0>(*r)) << " " << bits(std::get<1>(*r)) << "\n";
        }
      } else if (f[0] == "gk1q" && a.size() == 2) {
        // the same one-shot call with quantity-typed bounds (the `ImmutableQuantityConcept` branches of
        // operator()); same answer format as gk1. (The overload taking NumericalParameters does not compile
        // for quantities: it compares a quantity with a plain number.)
        using time_q = tfel::math::qt<tfel::math::unit::Time, double>;
        const auto fn = integrand(f[1]);
        const auto fq = [&fn](const time_q x) { return fn(x.getValue()); };
        const auto r = tfel::math::gauss_kronrod_integrate(fq, time_q(a[0]), time_q(a[1]));
        if (!r.has_value()) {
          std::cout << "none\n";
        } else {
          std::cout << bits(std::get<0>(*r).getValue()) << " " << bits(std::get<1>(*r).getValue()) << "\n";
        }
      } else if (f[0] == "gkp") {
        std::istringstream is(f[2]);
        std::uint64_t ba, bb, bt;
        std::size_t n;
        if (!(is >> ba >> bb >> bt >> n)) throw std::runtime_error("args");
        const auto fn = integrand(f[1]);
        const auto r = tfel::math::gauss_kronrod_integrate(
            fn, fromBits(ba), fromBits(bb),
            tfel::math::GaussKronrodQuadrature::NumericalParameters<double>{.absolute_tolerance = fromBits(bt),
                                                                          .maximum_number_of_refinements = n});
        std::cout << (r.has_value() ? bits(*r) : std::string("none")) << "\n";
      } else if ((f[0] == "rk2exe" || f[0] == "rk4exe") && a.size() == 4) {
        const auto fn = integrand(f[1]);
        tfel::math::tvector<1u, double> y0;
        y0[0] = a[3];
        if (f[0] == "rk2exe") {
          R2 s;
          s.p = fn;
          s.set_y(y0);
          s.set_h(a[0]);
          s.exe(a[1], a[2]);
          std::cout << bits(s.get_t()) << " " << bits(s.get_y()[0]) << " " << ncalls / 2 << " " << bits(s.get_h()) << "\n";
        } else {
          R4 s;
          s.p = fn;
          s.set_y(y0);
          s.set_h(a[0]);
          s.exe(a[1], a[2]);
          std::cout << bits(s.get_t()) << " " << bits(s.get_y()[0]) << " " << ncalls / 4 << " " << bits(s.get_h()) << "\n";
        }
      } else if (f[0] == "rk42" && a.size() == 5) {
        std::vector<double> tr;
        trace = &tr;
        R42 s;
        s.p = integrand(f[1]);
        s.setInitialTime(a[0]);
        s.setFinalTime(a[1]);
        s.setInitialTimeIncrement(a[2]);
        s.setCriterionValue(a[3]);
        s.setInitialValue(a[4]);
        s.iterate();
        std::cout << bits(s.getValue()) << " " << bits(s.getTimeIncrement()) << " trace";
        for (const double x : tr) std::cout << " " << bits(x);
        std::cout << "\n";
      } else if (f[0] == "rk54" && a.size() == 6) {
        std::vector<double> tr;
        trace = &tr;
        const auto ps = split(f[1], ';');
        if (ps.size() != 2) throw std::runtime_error("two polynomials expected");
        R54 s;
        s.p = integrand(ps[0]);
        s.q = integrand(ps[1]);
        s.setInitialTime(a[0]);
        s.setFinalTime(a[1]);
        s.setInitialTimeIncrement(a[2]);
        s.setCriterionValue(a[3]);
        s.setInitialValue(tfel::math::tvector<2u, double>{a[4], a[5]});
        s.iterate();
        std::cout << bits(s.getValue()[0]) << " " << bits(s.getValue()[1]) << " " << bits(s.getTimeIncrement()) << " trace";
        for (const double x : tr) std::cout << " " << bits(x);
        std::cout << "\n";
      } else {
        std::cout << "bad-op\n";
      }
    } catch (TooManySteps&) {
      std::cout << "error:too-many-steps\n";
    } catch (tfel::math::InvalidTimeStepException&) {
      std::cout << "error:invalid-time-step\n";
    } catch (std::exception& e) {
      std::cout << "bad-op\n";
    }
  }
  return 0;
}
