/*! C12 tracer scalar: `SymQ` wraps verif::Sym and declares `double` as its base type, exactly like a
 * quantity `qt<Unit, double>`: GaussKronrodQuadrature::integrate then keeps its node/weight constants
 * in `double` (what the shipped instantiations do; with `base_type = Sym` the constexpr constants
 * would be odr-used inside a lambda and the header does not compile) while the bounds and the
 * integrand values are symbols. Include after tracehelp.hxx and before TFEL headers. */
#ifndef VERIF_C12_SYMQ_HXX
#define VERIF_C12_SYMQ_HXX
#include "tracehelp.hxx"
namespace verif {
  struct SymQ {
    Sym v;
    constexpr SymQ() = default;
    constexpr SymQ(const Sym& s) : v(s) {}
    constexpr SymQ(const double d) : v(d) {}
    constexpr SymQ(const int d) : v(d) {}
  };
  inline SymQ operator-(const SymQ& x) { return SymQ(-x.v); }
#define VERIF_SYMQ_OP(OP)                                                        \
  inline SymQ operator OP(const SymQ& x, const SymQ& y) { return SymQ(x.v OP y.v); } \
  inline SymQ operator OP(const SymQ& x, const double y) { return SymQ(x.v OP Sym(y)); } \
  inline SymQ operator OP(const double x, const SymQ& y) { return SymQ(Sym(x) OP y.v); } \
  inline SymQ operator OP(const SymQ& x, const int y) { return SymQ(x.v OP Sym(y)); }  \
  inline SymQ operator OP(const int x, const SymQ& y) { return SymQ(Sym(x) OP y.v); }
  VERIF_SYMQ_OP(+)
  VERIF_SYMQ_OP(-)
  VERIF_SYMQ_OP(*)
  VERIF_SYMQ_OP(/)
#undef VERIF_SYMQ_OP
}  // namespace verif
#include "TFEL/Math/General/ResultType.hxx"
namespace tfel::math {
  template <typename Op>
  struct ResultType<verif::SymQ, verif::SymQ, Op> {
    using type = verif::SymQ;
  };
  template <typename T2, typename Op>
  requires(std::is_arithmetic_v<T2>) struct ResultType<verif::SymQ, T2, Op> {
    using type = verif::SymQ;
  };
  template <typename T1, typename Op>
  requires(std::is_arithmetic_v<T1>) struct ResultType<T1, verif::SymQ, Op> {
    using type = verif::SymQ;
  };
  //! |x| of a symbol is recorded as the uninterpreted `fn.abs` (tfel::math::abs is `(s < 0) ? -s : s`,
  //! a value dependent branch); the theorems take `fn.abs x = |x|` as a hypothesis
  inline verif::SymQ abs(const verif::SymQ& s) { return verif::SymQ(verif::abs(s.v)); }
  inline verif::Sym abs(const verif::Sym& s) { return verif::abs(s); }
}  // namespace tfel::math
namespace tfel::typetraits {
  template <>
  struct IsScalar<verif::SymQ> {
    static constexpr bool cond = true;
  };
  template <>
  struct IsReal<verif::SymQ> {
    static constexpr bool cond = true;
  };
  template <>
  struct IsComplex<verif::SymQ> {
    static constexpr bool cond = false;
  };
  template <>
  struct BaseType<verif::SymQ> {
    using type = double;
  };
}  // namespace tfel::typetraits
#endif
