// T1 tracer for C12: Gauss-Kronrod rule and one step of each Runge-Kutta integrator, instantiated
// with the recording scalar verif::Sym; integrand / right-hand side are uninterpreted calls.
#include "symq.hxx"
#include <algorithm>
#include <array>
#include <cmath>
#include <numeric>
#include <optional>
#include <tuple>
#include <vector>
#include "TFEL/Math/tvector.hxx"
#include "TFEL/Math/MathException.hxx"
#include "TFEL/FSAlgorithm/FSAlgorithm.hxx"
// the one-shot rule `integrate(f, a, b)` is a private member: the tracer needs it without the
// value dependent dispatch of operator()
#define private public
#include "TFEL/Math/NumericalIntegration/GaussKronrodQuadrature.hxx"
#undef private
#include "TFEL/Math/RungeKutta2.hxx"
#include "TFEL/Math/RungeKutta4.hxx"
#include "TFEL/Math/RungeKutta42.hxx"
#include "TFEL/Math/RungeKutta54.hxx"

using namespace tfel::math;
using verif::Sym;
using verif::Unit;

struct F2 : RungeKutta2<1u, Sym, F2> {
  void computeF(const Sym& t, const tvector<1u, Sym>& y) { this->f[0] = verif::make_call("F", {t, y[0]}, 1.); }
};
struct F4 : RungeKutta4<1u, Sym, F4> {
  void computeF(const Sym& t, const tvector<1u, Sym>& y) { this->f[0] = verif::make_call("F", {t, y[0]}, 1.); }
};
struct F42 : RungeKutta42<1u, F42, Sym> {
  Sym computeF(const Sym& t, const Sym& y) const { return verif::make_call("F", {t, y}, 1.); }
};
struct F54 : RungeKutta54<2u, F54, Sym> {
  tvector<2u, Sym> computeF(const Sym& t, const tvector<2u, Sym>& y) const {
    tvector<2u, Sym> r;
    r[0] = verif::make_call("F", {t, y[0], y[1]}, 1.);
    r[1] = verif::make_call("G", {t, y[0], y[1]}, 1.);
    return r;
  }
};

int main() {
  {
    Unit u("gk");
    const verif::SymQ a(verif::scalar_input("a", -0.3));
    const verif::SymQ b(verif::scalar_input("b", 1.7));
    const auto f = [](const verif::SymQ x) { return verif::SymQ(verif::make_call("f", {x.v}, 1.)); };
    const auto [i, e] = gauss_kronrod_integrate.integrate(f, a, b);
    verif::output("k15", i.v);
    verif::output("err", e.v);
  }
  {
    Unit u("rk2");
    F2 s;
    tvector<1u, Sym> y0;
    y0[0] = verif::scalar_input("y", 0.4);
    s.set_y(y0);
    s.set_t(verif::scalar_input("t", 0.1));
    s.set_h(verif::scalar_input("h", 0.25));
    s.increm();
    verif::output("y1", s.get_y()[0]);
    verif::output("t1", s.get_t());
  }
  {
    Unit u("rk4");
    F4 s;
    tvector<1u, Sym> y0;
    y0[0] = verif::scalar_input("y", 0.4);
    s.set_y(y0);
    s.set_t(verif::scalar_input("t", 0.1));
    s.set_h(verif::scalar_input("h", 0.25));
    s.increm();
    verif::output("y1", s.get_y()[0]);
    verif::output("t1", s.get_t());
  }
  verif::ctx().concolic = true;
  {
    // one accepted step of the adaptive schemes: dt = tf - ti and a large criterion, so that the
    // shadow values take the path "clamp, one step, accept, exit" (emitted as rk42_path)
    Unit u("rk42");
    F42 s;
    s.setInitialValue(verif::scalar_input("y", 0.4));
    s.setInitialTime(verif::scalar_input("t", 0.1));
    s.setFinalTime(verif::scalar_input("tf", 0.35));
    s.setInitialTimeIncrement(verif::scalar_input("h", 1.0));
    s.setCriterionValue(verif::scalar_input("eps", 1.));
    s.iterate();
    verif::output("y1", s.getValue());
    verif::output("dt", s.getTimeIncrement());
  }
  {
    Unit u("rk54");
    F54 s;
    tvector<2u, Sym> y0;
    y0[0] = verif::scalar_input("y", 0.4);
    y0[1] = verif::scalar_input("z", -0.2);
    s.setInitialValue(y0);
    s.setInitialTime(verif::scalar_input("t", 0.1));
    s.setFinalTime(verif::scalar_input("tf", 0.35));
    s.setInitialTimeIncrement(verif::scalar_input("h", 1.0));
    s.setCriterionValue(verif::scalar_input("eps", 1.));
    s.iterate();
    verif::output("y1", s.getValue()[0]);
    verif::output("z1", s.getValue()[1]);
    verif::output("dt", s.getTimeIncrement());
  }
  return 0;
}
