// C10 correspondence harness: calls the real CubicRoots::{find_roots,exe,improve} in-process.
// stdin  : "consts"                                   -> "consts <sqrt3> <eps> <min>"
//          "find  a3 a2 a1 a0"                        -> "<n> x1 x2 x3"   (CubicRoots::find_roots)
//          "exe   b a3 a2 a1 a0"  (b = 0|1)           -> "<n> x1 x2 x3"   (CubicRoots::exe)
//          "improve vp a3 a2 a1 a0"                   -> "v <vp'>"        (CubicRoots::improve, protected)
// every number is the 16-hex-digit bit pattern of an IEEE-754 double; answers likewise, so that the
// comparison with the Lean `Float` model is bit-exact. x1..x3 are initialised to the bit pattern
// 7ff8000000000c10 (a quiet NaN payload) so that "untouched" outputs are visible.
#include <cstdint>
#include <cstdio>
#include <cstring>
#include <iostream>
#include <limits>
#include <sstream>
#include <string>
#include "TFEL/Math/General/CubicRoots.hxx"

using tfel::math::CubicRoots;

struct Access : public CubicRoots {
  static void call_improve(double& vp, const double a3, const double a2,
                           const double a1, const double a0) {
    CubicRoots::improve(vp, a3, a2, a1, a0);
  }
};

static double from_bits(const std::string& s) {
  const std::uint64_t u = std::stoull(s, nullptr, 16);
  double d;
  std::memcpy(&d, &u, sizeof d);
  return d;
}
static std::string bits(const double d) {
  std::uint64_t u;
  std::memcpy(&u, &d, sizeof d);
  char b[32];
  std::snprintf(b, sizeof b, "%016llx", static_cast<unsigned long long>(u));
  return b;
}

int main() {
  std::string line;
  const double untouched = from_bits("7ff8000000000c10");
  while (std::getline(std::cin, line)) {
    std::istringstream is(line);
    std::string f;
    is >> f;
    try {
      if (f == "consts") {
        std::cout << "consts " << bits(tfel::math::Cste<double>::sqrt3) << " "
                  << bits(std::numeric_limits<double>::epsilon()) << " "
                  << bits(std::numeric_limits<double>::min()) << "\n";
      } else if (f == "find" || f == "exe") {
        std::string sb = "0", s3, s2, s1, s0;
        if (f == "exe") is >> sb;
        if (!(is >> s3 >> s2 >> s1 >> s0)) {
          std::cout << "bad-op\n";
          continue;
        }
        double x1 = untouched, x2 = untouched, x3 = untouched;
        const double a3 = from_bits(s3), a2 = from_bits(s2), a1 = from_bits(s1),
                     a0 = from_bits(s0);
        const unsigned short n =
            (f == "find") ? CubicRoots::find_roots(x1, x2, x3, a3, a2, a1, a0)
                          : CubicRoots::exe(x1, x2, x3, a3, a2, a1, a0, sb == "1");
        std::cout << n << " " << bits(x1) << " " << bits(x2) << " " << bits(x3) << "\n";
      } else if (f == "cbrt") {
        // the cube-root helpers of the anchored header: the overload used for double, the generic (pow based)
        // template selected explicitly, and the float / long double overloads (results widened to double)
        std::string sx;
        if (!(is >> sx)) {
          std::cout << "bad-op\n";
          continue;
        }
        const double x = from_bits(sx);
        std::cout << "c " << bits(CubicRoots::cbrt(x)) << " " << bits(CubicRoots::cbrt<double>(x)) << " "
                  << bits(static_cast<double>(CubicRoots::cbrt(static_cast<float>(x)))) << " "
                  << bits(static_cast<double>(CubicRoots::cbrt(static_cast<long double>(x)))) << "\n";
      } else if (f == "improve") {
        std::string sv, s3, s2, s1, s0;
        if (!(is >> sv >> s3 >> s2 >> s1 >> s0)) {
          std::cout << "bad-op\n";
          continue;
        }
        double vp = from_bits(sv);
        Access::call_improve(vp, from_bits(s3), from_bits(s2), from_bits(s1), from_bits(s0));
        std::cout << "v " << bits(vp) << "\n";
      } else {
        std::cout << "bad-op\n";
      }
    } catch (...) {
      std::cout << "bad-op\n";
    }
  }
  return 0;
}
