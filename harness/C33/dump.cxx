// C33 — T2 table dump: prints getSupportedUnicodeCharactersDescriptions() of the current tree
// (src/UnicodeSupport/UnicodeSupport.cxx is compiled into this program) as a Lean definition.
#include <cstdio>
#include <cstring>
#include "TFEL/UnicodeSupport/UnicodeSupport.hxx"

static void bytes(const char* s) {
  std::printf("[");
  const auto n = std::strlen(s);
  for (std::size_t i = 0; i != n; ++i) {
    std::printf("%s%u", i == 0 ? "" : ", ", static_cast<unsigned>(static_cast<unsigned char>(s[i])));
  }
  std::printf("]");
}

int main() {
  const auto& t = tfel::unicode::getSupportedUnicodeCharactersDescriptions();
  std::printf("/- GENERATED on every run by harness/C33/dump.cxx from\n");
  std::printf("   tfel::unicode::getSupportedUnicodeCharactersDescriptions() — do not edit.\n");
  std::printf("   One pair per entry, in table order: (bytes of `uc`, bytes of the mangled name `m`). -/\n");
  std::printf("namespace TfelVerif.C33.Gen\n\n");
  std::printf("def table : List (List Nat × List Nat) := [\n");
  bool first = true;
  for (const auto& d : t) {
    std::printf("%s  (", first ? "" : ",\n");
    first = false;
    bytes(d.uc);
    std::printf(", ");
    bytes(d.m);
    std::printf(")");
  }
  std::printf("\n]\n\n/-- number of entries printed -/\ndef size : Nat := %zu\n\n", t.size());
  std::printf("end TfelVerif.C33.Gen\n");
  return 0;
}
