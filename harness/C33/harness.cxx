// C33 correspondence harness: calls the real tfel::unicode::getMangledString and the real
// `process` of tfel-unicode-filt in-process.  src/UnicodeSupport/UnicodeSupport.cxx,
// src/Utilities/StringAlgorithms.cxx and tfel-unicode-filt/src/tfel-unicode-filt.cxx of the
// current tree are compiled into this binary (the filter's `main` is renamed).
//
//   stdin : `mangle <hex>` | `demangle <hex>`      (hex-encoded bytes, `-` = empty)
//   stdout: `s <hex>`  (for demangle: what `process` wrote to std::cout, minus its final newline)
#include <iostream>
#include <sstream>
#include <string>
#include "TFEL/UnicodeSupport/UnicodeSupport.hxx"

#define main tfel_unicode_filt_main
#include "tfel-unicode-filt.cxx"
#undef main

namespace {
  int hv(const char c) {
    if (c >= '0' && c <= '9') return c - '0';
    if (c >= 'a' && c <= 'f') return c - 'a' + 10;
    return -1;
  }
  bool unhex(const std::string& h, std::string& r) {
    r.clear();
    if (h == "-") return true;
    if (h.size() % 2 != 0) return false;
    for (size_t i = 0; i != h.size(); i += 2) {
      const int a = hv(h[i]), b = hv(h[i + 1]);
      if (a < 0 || b < 0) return false;
      r.push_back(static_cast<char>(16 * a + b));
    }
    return true;
  }
  std::string hex(const std::string& s) {
    if (s.empty()) return "-";
    static const char* d = "0123456789abcdef";
    std::string r;
    for (const unsigned char c : s) {
      r.push_back(d[c / 16]);
      r.push_back(d[c % 16]);
    }
    return r;
  }
}  // namespace

int main() {
  std::string line;
  std::ostringstream out;
  while (std::getline(std::cin, line)) {
    std::istringstream is(line);
    std::string op, h, s;
    is >> op >> h;
    if (!unhex(h, s)) {
      out << "bad-op\n";
      continue;
    }
    try {
      if (op == "mangle") {
        out << "s " << hex(tfel::unicode::getMangledString(s)) << '\n';
      } else if (op == "demangle") {
        std::ostringstream cap;
        auto* old = std::cout.rdbuf(cap.rdbuf());
        try {
          process(s);
        } catch (...) {
          std::cout.rdbuf(old);
          throw;
        }
        std::cout.rdbuf(old);
        auto r = cap.str();
        if (r.empty() || r.back() != '\n') {
          out << "no-newline " << hex(r) << '\n';
        } else {
          r.pop_back();
          out << "s " << hex(r) << '\n';
        }
      } else {
        out << "bad-op\n";
      }
    } catch (std::exception& e) {
      out << "exc " << e.what() << '\n';
    }
  }
  std::cout << out.str();
  return 0;
}
