// C33 correspondence harness: calls the real tfel::unicode::getMangledString and the real
// `process` of tfel-unicode-filt in-process.  src/UnicodeSupport/UnicodeSupport.cxx,
// src/Utilities/StringAlgorithms.cxx and tfel-unicode-filt/src/tfel-unicode-filt.cxx of the
// current tree are compiled into this binary (the filter's `main` is renamed).
//
//   stdin : `mangle <hex>` | `demangle <hex>`      (hex-encoded bytes, `-` = empty)
//           `filtargs <hex>*` | `filtstdin <hex>`   (the tool's main(): arguments / standard input) -> `o <rc> <hex of stdout>`
//   stdout: `s <hex>`  (for demangle: what `process` wrote to std::cout, minus its final newline)
#include <iostream>
#include <sstream>
#include <string>
#include <vector>
#include "TFEL/UnicodeSupport/UnicodeSupport.hxx"

#define main tfel_unicode_filt_main
#include "tfel-unicode-filt.cxx"
#undef main

namespace {
  int hv(const char c) {
    if (c >= '0' && c <= '9') return c - '0';
    if (c >= 'a' && c <= 'f') return c - 'a' + 10;
    return -1;
  }
  bool unhex(const std::string& h, std::string& r) {
    r.clear();
    if (h == "-") return true;
    if (h.size() % 2 != 0) return false;
    for (size_t i = 0; i != h.size(); i += 2) {
      const int a = hv(h[i]), b = hv(h[i + 1]);
      if (a < 0 || b < 0) return false;
      r.push_back(static_cast<char>(16 * a + b));
    }
    return true;
  }
  std::string hex(const std::string& s) {
    if (s.empty()) return "-";
    static const char* d = "0123456789abcdef";
    std::string r;
    for (const unsigned char c : s) {
      r.push_back(d[c / 16]);
      r.push_back(d[c % 16]);
    }
    return r;
  }
}  // namespace

int main() {
  std::string line;
  std::ostringstream out;
  while (std::getline(std::cin, line)) {
    std::istringstream is(line);
    std::string op, h, s;
    is >> op;
    if (op == "filtargs" || op == "filtstdin") {
      // the tool's own main(): `filtargs <hex>*` = one command-line argument per token,
      // `filtstdin <hex>` = the bytes of standard input (no argument).  Answer: everything written to std::cout.
      std::vector<std::string> args;
      bool ok = true;
      while (is >> h) {
        if (!unhex(h, s)) ok = false;
        args.push_back(s);
      }
      if (!ok || (op == "filtstdin" && args.size() != 1u) || args.empty()) {  // no argument = read stdin: use filtstdin
        out << "bad-op\n";
        continue;
      }
      try {
        std::ostringstream cap;
        auto* old = std::cout.rdbuf(cap.rdbuf());
        int rc = -1;
        try {
          if (op == "filtargs") {
            std::vector<const char*> av;
            av.push_back("tfel-unicode-filt");
            for (const auto& a : args) av.push_back(a.c_str());
            av.push_back(nullptr);
            rc = tfel_unicode_filt_main(static_cast<int>(av.size()) - 1, av.data());
          } else {
            std::istringstream in(args[0]);
            auto* oldin = std::cin.rdbuf(in.rdbuf());
            std::cin.clear();
            const char* av[] = {"tfel-unicode-filt", nullptr};
            try {
              rc = tfel_unicode_filt_main(1, av);
            } catch (...) {
              std::cin.rdbuf(oldin);
              std::cin.clear();
              throw;
            }
            std::cin.rdbuf(oldin);
            std::cin.clear();
          }
        } catch (...) {
          std::cout.rdbuf(old);
          throw;
        }
        std::cout.rdbuf(old);
        out << "o " << rc << " " << hex(cap.str()) << '\n';
      } catch (std::exception& e) {
        out << "exc " << e.what() << '\n';
      }
      continue;
    }
    is >> h;
    if (!unhex(h, s)) {
      out << "bad-op\n";
      continue;
    }
    try {
      if (op == "mangle") {
        out << "s " << hex(tfel::unicode::getMangledString(s)) << '\n';
      } else if (op == "demangle") {
        std::ostringstream cap;
        auto* old = std::cout.rdbuf(cap.rdbuf());
        try {
          process(s);
        } catch (...) {
          std::cout.rdbuf(old);
          throw;
        }
        std::cout.rdbuf(old);
        auto r = cap.str();
        if (r.empty() || r.back() != '\n') {
          out << "no-newline " << hex(r) << '\n';
        } else {
          r.pop_back();
          out << "s " << hex(r) << '\n';
        }
      } else {
        out << "bad-op\n";
      }
    } catch (std::exception& e) {
      out << "exc " << e.what() << '\n';
    }
  }
  std::cout << out.str();
  return 0;
}
