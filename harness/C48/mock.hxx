/*
 * Shared scripted mocks for the MTest properties C48 / C50 / C49.
 *
 *  - hex I/O of doubles (bit patterns, so that both sides of a correspondence see the same numbers);
 *  - `verif48::MockStudy`: a `mtest::Study` whose answers come from a script (one entry per attempt of
 *    `GenericSolver::execute`), with optional "physics" hooks that read/write the real
 *    `StudyCurrentState` (used by C50);
 *  - exception classification of `GenericSolver::execute`.
 *
 * The mocks stand for the behaviour / the scheme (the *oracle* of the time loop); everything that is
 * anchored (GenericSolver.cxx, StudyCurrentState.cxx, ...) is the real code compiled from the tree.
 */
#ifndef VERIF_C48_MOCK_HXX
#define VERIF_C48_MOCK_HXX

#include <cstdint>
#include <cstring>
#include <functional>
#include <sstream>
#include <stdexcept>
#include <string>
#include <vector>

#include "TFEL/Math/vector.hxx"
#include "TFEL/Math/matrix.hxx"
#include "MTest/Types.hxx"
#include "MTest/SolverOptions.hxx"
#include "MTest/SolverWorkSpace.hxx"
#include "MTest/StudyCurrentState.hxx"
#include "MTest/StructureCurrentState.hxx"
#include "MTest/CurrentState.hxx"
#include "MTest/Study.hxx"

namespace verif48 {

  using mtest::real;

  inline std::string hex(const double d) {
    std::uint64_t u;
    std::memcpy(&u, &d, sizeof u);
    char b[20];
    std::snprintf(b, sizeof b, "%016llx", static_cast<unsigned long long>(u));
    return b;
  }

  inline double unhex(const std::string& s) {
    const std::uint64_t u = std::stoull(s, nullptr, 16);
    double d;
    std::memcpy(&d, &u, sizeof d);
    return d;
  }

  struct Tokens {
    std::vector<std::string> t;
    std::size_t p = 0;
    explicit Tokens(const std::string& line) {
      std::istringstream is(line);
      std::string w;
      while (is >> w) t.push_back(w);
    }
    bool done() const { return p >= t.size(); }
    const std::string& str() {
      if (p >= t.size()) throw std::runtime_error("bad-op");
      return t[p++];
    }
    long integer() { return std::stol(str()); }
    double dbl() { return unhex(str()); }
    std::vector<double> dbls(const std::size_t n) {
      std::vector<double> v(n);
      for (auto& x : v) x = dbl();
      return v;
    }
  };

  //! what the oracle answers for one attempt (one call of iterate/iterate2)
  struct Attempt {
    // 0: success, 1: behaviour integration failure at iteration `at`, 2: no convergence,
    // 3: postConvergence failure, 4: prepare failure
    int kind = 0;
    //! time step scaling factor returned by the behaviour
    double factor = 1;
    int at = 1;
  };

  struct ScriptExhausted : std::runtime_error {
    ScriptExhausted() : std::runtime_error("script exhausted") {}
  };

  struct MockStudy : mtest::Study {
    using Vector = tfel::math::vector<real>;
    using Matrix = tfel::math::matrix<real>;
    //! number of unknowns
    size_type n = 1;
    //! if true, a successful attempt converges at its iteration `at` (several Newton iterations,
    //! so that the acceleration algorithms run); otherwise as soon as the solver allows
    bool late_convergence = false;
    std::vector<Attempt> script;
    mutable std::size_t pos = 0;
    mutable Attempt cur;
    mutable int call = 0;
    mutable std::ostringstream log;
    //! list of accepted steps (t, dt) and of all attempts
    mutable std::vector<std::pair<double, double>> attempts;
    mutable std::vector<std::pair<double, double>> outputs;
    //! for each attempt: was it followed by an intermediate output (= accepted, not the last step)
    mutable std::vector<char> output_after;
    //! additional, state dependent, convergence condition (C50: non finite unknowns do not converge)
    std::function<bool(mtest::StudyCurrentState&)> extra_convergence;
    //! called at the very beginning of every attempt (C50: leak detection)
    std::function<void(mtest::StudyCurrentState&, real, real)> on_attempt_start;
    /*! physics hooks (C50): called with the real state */
    std::function<void(mtest::StudyCurrentState&, real, real)> on_prepare;
    //! called at each residual evaluation; fills the residual so that `u1 -= r` gives the new iterate
    std::function<void(mtest::StudyCurrentState&, Vector&, real, real, int)> on_compute;
    std::function<void(mtest::StudyCurrentState&, real, real)> on_prediction;

    size_type getNumberOfUnknowns() const override { return n; }
    void initializeCurrentState(mtest::StudyCurrentState& s) const override { s.initialize(n); }
    void initializeWorkSpace(mtest::SolverWorkSpace& wk) const override {
      wk.K.clear();
      wk.p_lu.clear();
      wk.x.clear();
      wk.r.clear();
      wk.du.clear();
      wk.K.resize(n, n);
      wk.p_lu.resize(n);
      wk.x.resize(n);
      wk.r.resize(n, 0.);
      wk.du.resize(n, 0.);
    }
    std::pair<bool, real> prepare(mtest::StudyCurrentState& s, const real t, const real dt) const override {
      if (pos >= script.size()) {
        throw ScriptExhausted();
      }
      cur = script[pos++];
      call = 0;
      if (on_attempt_start) on_attempt_start(s, t, dt);
      attempts.push_back({t, dt});
      output_after.push_back(0);
      log << " a " << hex(t) << " " << hex(dt);
      if (cur.kind == 4) {
        return {false, cur.factor};
      }
      if (on_prepare) on_prepare(s, t, dt);
      return {true, 1};
    }
    void makeLinearPrediction(mtest::StudyCurrentState& s, const real dt) const override {
      if (on_prediction) on_prediction(s, 0, dt);
    }
    bool doPackagingStep(mtest::StudyCurrentState&) const override { return true; }
    void identity(Matrix& K, Vector& r) const {
      std::fill(K.begin(), K.end(), real(0));
      for (size_type i = 0; i != n; ++i) K(i, i) = 1;
      std::fill(r.begin(), r.end(), real(0));
    }
    std::pair<bool, real> computePredictionStiffnessAndResidual(mtest::StudyCurrentState&,
                                                                 Matrix& K,
                                                                 Vector& r,
                                                                 const real&,
                                                                 const real&,
                                                                 const mtest::StiffnessMatrixType) const override {
      identity(K, r);
      return {true, 1};
    }
    std::pair<bool, real> computeStiffnessMatrixAndResidual(mtest::StudyCurrentState& s,
                                                             Matrix& K,
                                                             Vector& r,
                                                             const real t,
                                                             const real dt,
                                                             const mtest::StiffnessMatrixType) const override {
      ++call;
      if (n != 0) {
        identity(K, r);
      }
      if ((cur.kind == 1) && (cur.at == call)) {
        return {false, cur.factor};
      }
      if (on_compute) on_compute(s, r, t, dt, call);
      return {true, cur.factor};
    }
    real getErrorNorm(const Vector&) const override { return 0; }
    bool checkConvergence(mtest::StudyCurrentState& scs_,
                          const Vector&,
                          const Vector&,
                          const mtest::SolverOptions&,
                          const unsigned int,
                          const real,
                          const real) const override {
      if (cur.kind == 2) return false;
      if (late_convergence && (cur.kind == 0) && (call < cur.at)) return false;
      if (extra_convergence && !extra_convergence(scs_)) return false;
      return true;
    }
    std::vector<std::string> getFailedCriteriaDiagnostic(const mtest::StudyCurrentState&,
                                                         const Vector&,
                                                         const Vector&,
                                                         const mtest::SolverOptions&,
                                                         const real,
                                                         const real) const override {
      return {};
    }
    void computeLoadingCorrection(mtest::StudyCurrentState&,
                                  mtest::SolverWorkSpace&,
                                  const mtest::SolverOptions&,
                                  const real,
                                  const real) const override {}
    bool postConvergence(mtest::StudyCurrentState&, const real, const real, const unsigned int) const override {
      return cur.kind != 3;
    }
    void setModellingHypothesis(const std::string&) override {}
    void printOutput(const real t, const mtest::StudyCurrentState&, const bool) const override {
      outputs.push_back({t, 0});
      if (!output_after.empty()) output_after.back() = 1;
      log << " o " << hex(t);
    }
    void setDefaultModellingHypothesis() override {}
    ~MockStudy() override = default;

   protected:
    void setGaussPointPositionForEvolutionsEvaluation(const mtest::CurrentState&) const override {}
  };

  //! small enum for the exceptions of GenericSolver::execute
  inline std::string classify(const std::exception& e) {
    const std::string m = e.what();
    if (dynamic_cast<const ScriptExhausted*>(&e) != nullptr) return "exhausted";
    if (m.find("maximum number of sub stepping") != std::string::npos) return "maxsub";
    if (m.find("below its minimal") != std::string::npos) return "belowmin";
    if (m.find("negative time step") != std::string::npos) return "negative";
    return "other:" + m;
  }

}  // namespace verif48

#endif
