/*
 * C48: a complete MTest problem run through the PUBLIC interface of mtest::MTest, observed at the MTest
 * result file (the property's observation point):
 *   setModellingHypothesis / setBehaviour / setGradientEpsilon / setThermodynamicForceEpsilon / setTimes /
 *   addConstraint (constraints built from component NAMES, options applied with applyConstraintOptions) /
 *   addEvent / setOutputFileName ... then MTest::execute() (completeInitialisation, initializeCurrentState,
 *   the loop over the requested times, printOutput).
 *
 * mx <hyp> <strain_based> <ndv> <nl> D*(ndv*ndv) <eeps> <seps> <dyn> <mSub> <iterMax> <ppolicy> <freq> <lagrange>
 *    <nt> times*nt
 *    <nc> (g|f comp <opt> [<active> <na> names*na <nd> names*nd] evolution)*nc
 *    <nev> (name k times*k)*nev
 *    <ns> (ok factor)*ns
 * evolution: c v | l n (t v)*n | m n (t v)*n  (make_evolution from a map) | k v (make_evolution from a value)
 *          | F formula ne (name evolution)*ne
 * answer: end rows=<n> (R <k> x*k)*n     every data row of the result file, numbers as bit patterns
 */
#ifndef VERIF_C48_FULLRUN_HXX
#define VERIF_C48_FULLRUN_HXX

#include <cstdio>
#include <cstdlib>
#include <fstream>
#include <map>
#include <unistd.h>

#include "TFEL/Material/ModellingHypothesis.hxx"
#include "MTest/Constraint.hxx"
#include "MTest/FunctionEvolution.hxx"
#include "C48/mtrun.hxx"

namespace verif48 {

  inline std::shared_ptr<mtest::Evolution> read_evolution2(Tokens& tk) {
    const auto kind = tk.str();
    if (kind == "c") {
      return std::make_shared<mtest::ConstantEvolution>(tk.dbl());
    }
    if (kind == "k") {
      return mtest::make_evolution(tk.dbl());
    }
    if ((kind == "l") || (kind == "m")) {
      const auto n = static_cast<std::size_t>(tk.integer());
      std::vector<real> ts, vs;
      std::map<real, real> mv;
      for (std::size_t i = 0; i != n; ++i) {
        const auto t = tk.dbl();
        const auto v = tk.dbl();
        ts.push_back(t);
        vs.push_back(v);
        mv.insert({t, v});
      }
      if (kind == "m") return mtest::make_evolution(mv);
      return std::make_shared<mtest::LPIEvolution>(ts, vs);
    }
    if (kind == "F") {
      const auto formula = tk.str();
      const auto ne = static_cast<std::size_t>(tk.integer());
      auto evm = std::make_shared<mtest::EvolutionManager>();
      for (std::size_t i = 0; i != ne; ++i) {
        const auto name = tk.str();
        (*evm)[name] = read_evolution2(tk);
      }
      // FunctionEvolution keeps a reference to the manager: keep it alive with the evolution
      struct Holder : mtest::FunctionEvolution {
        Holder(const std::string& f, std::shared_ptr<mtest::EvolutionManager> m)
            : mtest::FunctionEvolution(f, *m), keep(std::move(m)) {}
        std::shared_ptr<mtest::EvolutionManager> keep;
      };
      return std::make_shared<Holder>(formula, evm);
    }
    throw std::runtime_error("bad-op");
  }

  //! MTest used through its public interface; only what the mock behaviour cannot do itself is overridden
  struct PMTest : mtest::MTest {
    void setMock(const std::shared_ptr<mtest::Behaviour>& bp) { mtest::MTest::setBehaviour(bp); }
    void initializeCurrentState(mtest::StudyCurrentState& s) const override {
      mtest::MTest::initializeCurrentState(s);
      // a behaviour loaded from a library registers itself in the state it allocates
      s.getStructureCurrentState("").istates[0].behaviour = this->b;
    }
  };

  inline std::string op_mx(Tokens& tk) {
    const auto hyp = tk.str();
    auto b = std::make_shared<MockBehaviour>();
    b->hyp = tfel::material::ModellingHypothesis::fromString(hyp);
    b->strain_based = tk.integer() != 0;
    const auto ndv = static_cast<unsigned short>(tk.integer());
    b->ndv = ndv;
    b->nl = tk.dbl();
    b->D = tk.dbls(static_cast<std::size_t>(ndv) * ndv);
    PMTest m;
    m.setModellingHypothesis(hyp);
    m.setMock(b);
    m.setGradientEpsilon(tk.dbl());
    m.setThermodynamicForceEpsilon(tk.dbl());
    m.setDynamicTimeStepScaling(tk.integer() != 0);
    m.setMaximumNumberOfSubSteps(static_cast<unsigned int>(tk.integer()));
    m.setMaximumNumberOfIterations(static_cast<unsigned int>(tk.integer()));
    const auto pp = tk.integer();
    m.setPredictionPolicy((pp == 0) ? mtest::PredictionPolicy::NOPREDICTION
                          : (pp == 1) ? mtest::PredictionPolicy::LINEARPREDICTION
                                      : mtest::PredictionPolicy::ELASTICPREDICTION);
    m.setOutputFrequency(tk.integer() != 0 ? mtest::SchemeBase::EVERYPERIOD : mtest::SchemeBase::USERDEFINEDTIMES);
    const auto lagrange = tk.integer() != 0;
    if (lagrange) m.printLagrangeMultipliers(true);
    const auto nt = static_cast<std::size_t>(tk.integer());
    m.setTimes(tk.dbls(nt));
    const auto nc = static_cast<std::size_t>(tk.integer());
    std::size_t nlm = 0;
    for (std::size_t i = 0; i != nc; ++i) {
      const auto kind = tk.str();
      const auto comp = tk.integer();
      const auto has_options = tk.integer() != 0;
      mtest::ConstraintOptions o;
      if (has_options) {
        o.active = tk.integer() != 0;
        const auto na = static_cast<std::size_t>(tk.integer());
        for (std::size_t j = 0; j != na; ++j) o.activating_events.push_back(tk.str());
        const auto nd = static_cast<std::size_t>(tk.integer());
        for (std::size_t j = 0; j != nd; ++j) o.desactivating_events.push_back(tk.str());
      }
      auto ev = read_evolution2(tk);
      std::shared_ptr<mtest::Constraint> c;
      if (kind == "g") {
        c = std::make_shared<mtest::ImposedGradient>(*b, "e" + std::to_string(comp), ev);
      } else {
        c = std::make_shared<mtest::ImposedThermodynamicForce>(*b, "s" + std::to_string(comp), ev);
      }
      if (has_options) mtest::applyConstraintOptions(*c, o);
      nlm += c->getNumberOfLagrangeMultipliers();
      m.addConstraint(c);
    }
    const auto nev = static_cast<std::size_t>(tk.integer());
    for (std::size_t i = 0; i != nev; ++i) {
      const auto name = tk.str();
      const auto k = static_cast<std::size_t>(tk.integer());
      m.addEvent(name, tk.dbls(k));
    }
    const auto ns = static_cast<std::size_t>(tk.integer());
    for (std::size_t i = 0; i != ns; ++i) {
      const auto ok = tk.integer();
      b->script.push_back({ok != 0, tk.dbl()});
      b->poison.push_back(0);
    }
    char path[] = "verif-c48-mx-XXXXXX";  // in the working directory of the harness (work/C48)
    const int fd = mkstemp(path);
    if (fd < 0) throw std::runtime_error("mkstemp failed");
    close(fd);
    struct Remove {
      const char* p;
      ~Remove() { std::remove(p); }
    } guard{path};
    m.setOutputFileName(path);
    m.setOutputFilePrecision(17);
    std::string verdict = "end";
    try {
      const auto tr = m.execute();
      static_cast<void>(tr);
    } catch (std::exception& e) {
      verdict = "exc:" + classify(e);
    }
    // the result file as it stands (complete or not)
    std::ifstream in(path);
    std::string line;
    std::ostringstream out;
    std::size_t rows = 0;
    while (std::getline(in, line)) {
      if (line.empty() || line[0] == '#') continue;
      std::istringstream is(line);
      std::vector<double> v;
      std::string w;
      while (is >> w) v.push_back(std::strtod(w.c_str(), nullptr));
      out << " R " << v.size();
      for (const auto x : v) out << " " << hex(x);
      ++rows;
    }
    return verdict + " rows=" + std::to_string(rows) + out.str();
  }

}  // namespace verif48

#endif
