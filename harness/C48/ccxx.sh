#!/bin/sh
# compiler wrapper of the MTest harnesses (C48/C49/C50): object files of unchanged translation units are
# taken from a ccache keyed on the preprocessed source, the flags and the compiler (checks/c48lib.py)
exec ccache g++ "$@"
