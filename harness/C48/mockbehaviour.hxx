/*
 * A mock `mtest::Behaviour` (linear law s = D.e, constant tangent) and a `mtest::MTest` subclass
 * giving access to the protected members, so that the *real* MTest::checkConvergence /
 * computeStiffnessMatrixAndResidual / prepare / printOutput and the real constraints run in-process
 * without a generated behaviour library.
 */
#ifndef VERIF_C48_MOCKBEHAVIOUR_HXX
#define VERIF_C48_MOCKBEHAVIOUR_HXX

#include <limits>
#include <memory>
#include <string>
#include <vector>

#include "MTest/Behaviour.hxx"
#include "MTest/BehaviourWorkSpace.hxx"
#include "MTest/Constraint.hxx"
#include "MTest/Evolution.hxx"
#include "MTest/MTest.hxx"
#include "C48/mock.hxx"

namespace verif48 {

  struct MockBehaviour : mtest::Behaviour {
    using real = mtest::real;
    unsigned short ndv = 3;
    //! stiffness (row major ndv x ndv)
    std::vector<real> D;
    //! scripted answers of integrate: (ok, factor); empty: always (true, 1)
    mutable std::vector<std::pair<bool, real>> script;
    //! parallel to `script`: the integration "succeeds" but returns non finite thermodynamic forces
    //! (a state outside the domain of the law): the residual is not finite, the attempt cannot converge
    mutable std::vector<char> poison;
    mutable std::size_t pos = 0;
    //! cubic non-linearity coefficient: s_i = sum_j D_ij e_j + nl * e_i^3
    real nl = 0;

    //! modelling hypothesis and behaviour type reported to MTest (complete runs through the public API:
    //! MTest::completeInitialisation adds the constraints implied by the hypothesis for strain based behaviours)
    Hypothesis hyp = ModellingHypothesis::TRIDIMENSIONAL;
    bool strain_based = false;
    Hypothesis getHypothesis() const override { return hyp; }
    std::string getBehaviourName() const override { return "verif-mock"; }
    BehaviourType getBehaviourType() const override {
      return strain_based ? tfel::material::MechanicalBehaviourBase::STANDARDSTRAINBASEDBEHAVIOUR
                          : tfel::material::MechanicalBehaviourBase::GENERALBEHAVIOUR;
    }
    Kinematic getBehaviourKinematic() const override {
      return strain_based ? tfel::material::MechanicalBehaviourBase::SMALLSTRAINKINEMATIC
                          : tfel::material::MechanicalBehaviourBase::UNDEFINEDKINEMATIC;
    }
    unsigned short getGradientsSize() const override { return ndv; }
    void getGradientsDefaultInitialValues(tfel::math::vector<real>& v) const override {
      std::fill(v.begin(), v.end(), real(0));
    }
    unsigned short getThermodynamicForcesSize() const override { return ndv; }
    std::vector<std::string> getStensorComponentsSuffixes() const override { return {}; }
    std::vector<std::string> getVectorComponentsSuffixes() const override { return {}; }
    std::vector<std::string> getTensorComponentsSuffixes() const override { return {}; }
    std::vector<std::string> names(const char c) const {
      std::vector<std::string> r;
      for (unsigned short i = 0; i != ndv; ++i) r.push_back(std::string(1, c) + std::to_string(i));
      return r;
    }
    std::vector<std::string> getGradientsComponents() const override { return names('e'); }
    std::vector<std::string> getThermodynamicForcesComponents() const override { return names('s'); }
    unsigned short getGradientComponentPosition(const std::string& n) const override {
      if (n.empty() || n[0] != 'e') throw std::runtime_error("verif-mock: '" + n + "' is not a gradient component");
      return static_cast<unsigned short>(std::stoi(n.substr(1)));
    }
    unsigned short getThermodynamicForceComponentPosition(const std::string& n) const override {
      if (n.empty() || n[0] != 's') throw std::runtime_error("verif-mock: '" + n + "' is not a force component");
      return static_cast<unsigned short>(std::stoi(n.substr(1)));
    }
    size_t getTangentOperatorArraySize() const override { return ndv * ndv; }
    std::vector<std::pair<std::string, std::string>> getTangentOperatorBlocks() const override { return {}; }
    unsigned short getSymmetryType() const override { return 0; }
    std::vector<std::string> getMaterialPropertiesNames() const override { return {}; }
    size_t getMaterialPropertiesSize() const override { return 0; }
    std::vector<std::string> getOptionalMaterialProperties() const override { return {}; }
    void setOptionalMaterialPropertiesDefaultValues(mtest::EvolutionManager&,
                                                    const mtest::EvolutionManager&) const override {}
    std::vector<std::string> getInternalStateVariablesNames() const override { return {}; }
    std::vector<std::string> expandInternalStateVariablesNames() const override { return {}; }
    size_t getInternalStateVariablesSize() const override { return 0; }
    std::vector<std::string> getInternalStateVariablesDescriptions() const override { return {}; }
    unsigned short getInternalStateVariableType(const std::string&) const override { return 0; }
    unsigned short getInternalStateVariablePosition(const std::string&) const override { return 0; }
    std::vector<std::string> getExternalStateVariablesNames() const override { return {}; }
    size_t getExternalStateVariablesSize() const override { return 0; }
    std::vector<std::string> expandExternalStateVariablesNames() const override { return {}; }
    unsigned short getExternalStateVariableType(const std::string&) const override { return 0; }
    unsigned short getExternalStateVariablePosition(const std::string&) const override { return 0; }
    std::vector<std::string> getParametersNames() const override { return {}; }
    std::vector<std::string> getIntegerParametersNames() const override { return {}; }
    std::vector<std::string> getUnsignedShortParametersNames() const override { return {}; }
    double getRealParameterDefaultValue(const std::string&) const override { return 0; }
    int getIntegerParameterDefaultValue(const std::string&) const override { return 0; }
    unsigned short getUnsignedShortParameterDefaultValue(const std::string&) const override { return 0; }
    void setOutOfBoundsPolicy(const tfel::material::OutOfBoundsPolicy) const override {}
    bool hasBounds(const std::string&) const override { return false; }
    bool hasLowerBound(const std::string&) const override { return false; }
    bool hasUpperBound(const std::string&) const override { return false; }
    long double getLowerBound(const std::string&) const override { return 0; }
    long double getUpperBound(const std::string&) const override { return 0; }
    bool hasPhysicalBounds(const std::string&) const override { return false; }
    bool hasLowerPhysicalBound(const std::string&) const override { return false; }
    bool hasUpperPhysicalBound(const std::string&) const override { return false; }
    long double getLowerPhysicalBound(const std::string&) const override { return 0; }
    long double getUpperPhysicalBound(const std::string&) const override { return 0; }
    void setParameter(const std::string&, const real) const override {}
    void setIntegerParameter(const std::string&, const int) const override {}
    void setUnsignedIntegerParameter(const std::string&, const unsigned short) const override {}
    void allocateWorkSpace(mtest::BehaviourWorkSpace& wk) const override {
      wk.kt.resize(ndv, ndv);
      wk.k.resize(ndv, ndv);
      wk.nk.resize(ndv, ndv);
      wk.ne.resize(ndv);
      wk.ns.resize(ndv);
    }
    void allocateCurrentState(mtest::CurrentState& s) const override {
      s.s_1.resize(ndv, 0.);
      s.s0.resize(ndv, 0.);
      s.s1.resize(ndv, 0.);
      s.e0.resize(ndv, 0.);
      s.e1.resize(ndv, 0.);
      s.e_th0.resize(ndv, 0.);
      s.e_th1.resize(ndv, 0.);
      s.se0 = s.se1 = s.de0 = s.de1 = 0;
    }
    mtest::StiffnessMatrixType getDefaultStiffnessMatrixType() const override {
      return mtest::StiffnessMatrixType::CONSISTENTTANGENTOPERATOR;
    }
    tfel::math::tmatrix<3u, 3u, real> getRotationMatrix(const tfel::math::vector<real>&,
                                                        const tfel::math::tmatrix<3u, 3u, real>& r) const override {
      return r;
    }
    bool doPackagingStep(mtest::CurrentState&, mtest::BehaviourWorkSpace&) const override { return true; }
    //! the tangent operator; the "elastic" one ignores the non linear term (modified Newton)
    void fill(tfel::math::matrix<real>& k,
              const tfel::math::vector<real>& e,
              const mtest::StiffnessMatrixType t = mtest::StiffnessMatrixType::CONSISTENTTANGENTOPERATOR) const {
      const bool elastic = (t == mtest::StiffnessMatrixType::ELASTIC) ||
                           (t == mtest::StiffnessMatrixType::ELASTICSTIFNESSFROMMATERIALPROPERTIES);
      for (unsigned short i = 0; i != ndv; ++i) {
        for (unsigned short j = 0; j != ndv; ++j) {
          k(i, j) = D[i * ndv + j];
        }
        if (!elastic) {
          k(i, i) += 3 * nl * e[i] * e[i];
        }
      }
    }
    std::pair<bool, real> computePredictionOperator(mtest::BehaviourWorkSpace& wk,
                                                    const mtest::CurrentState& s,
                                                    const mtest::StiffnessMatrixType t) const override {
      fill(wk.kt, s.e0, t);
      return {true, 1};
    }
    std::pair<bool, real> integrate(mtest::CurrentState& s,
                                    mtest::BehaviourWorkSpace& wk,
                                    const real,
                                    const mtest::StiffnessMatrixType t) const override {
      std::pair<bool, real> a{true, 1};
      bool poisoned = false;
      if (pos < script.size()) {
        poisoned = (pos < poison.size()) && (poison[pos] != 0);
        a = script[pos++];
      }
      if (!a.first) {
        return a;
      }
      if (poisoned) {
        for (unsigned short i = 0; i != ndv; ++i) {
          s.s1[i] = std::numeric_limits<real>::infinity();
        }
        fill(wk.k, s.e0, mtest::StiffnessMatrixType::ELASTIC);
        return a;
      }
      for (unsigned short i = 0; i != ndv; ++i) {
        real v = nl * s.e1[i] * s.e1[i] * s.e1[i];
        for (unsigned short j = 0; j != ndv; ++j) {
          v += D[i * ndv + j] * s.e1[j];
        }
        s.s1[i] = v;
      }
      fill(wk.k, s.e1, t);
      return a;
    }
    ~MockBehaviour() override = default;
  };

  //! access to the protected state of MTest
  struct TMTest : mtest::MTest {
    void install(const std::shared_ptr<mtest::Behaviour>& bp) {
      this->b = bp;
      this->hypothesis = tfel::material::ModellingHypothesis::TRIDIMENSIONAL;
      this->initialisationFinished = true;
      this->dmpv = std::make_shared<mtest::EvolutionManager>();
      if (this->evm == nullptr) {
        this->evm = std::make_shared<mtest::EvolutionManager>();
      }
      this->handleThermalExpansion = false;
    }
    void push(const std::shared_ptr<mtest::Constraint>& c) { this->constraints.push_back(c); }
    //! log of the attempts (t, dt) made by the solver
    mutable std::ostringstream alog;
    std::pair<bool, mtest::real> prepare(mtest::StudyCurrentState& s,
                                         const mtest::real t,
                                         const mtest::real dt) const override {
      alog << " a " << hex(t) << " " << hex(dt);
      return mtest::MTest::prepare(s, t, dt);
    }
    mtest::SolverOptions& opts() { return this->options; }
    std::vector<mtest::real>& timesRef() { return this->times; }
    size_t unknowns() const { return this->getNumberOfUnknowns(); }
  };

}  // namespace verif48

#endif
