/*
 * C48 — differential harness: the real mtest evolutions, the real GenericSolver::execute time loop
 * (driven by the scripted MockStudy) and the real MTest::checkConvergence + constraints, one request
 * per line, numbers as IEEE-754 bit patterns (hex).
 *
 *   lpi <n> (t v)*n <k> (t v)*k <m> x*m     LPIEvolution(times, values), k calls setValue(t, v), m evaluations
 *   cst <v> <m> x*m                           ConstantEvolution
 *   fe <formula> <ne> (name c v | name l n (t v)*n)*ne <m> x*m     FunctionEvolution
 *   solve <dyn> <mSub> <iterMax> <ppolicy> <nu> <minTs> <maxTs> <minF> <maxF> <ti> <te> <na> (kind factor at)*na
 *   cc <ndv> <eeps> <seps> <t> <dt> <n> du*n r*n u1*n s1*ndv <nc> (g|f comp active (c v | l k (t v)*k))*nc
 *   mt ...  (see mtrun.hxx) a complete MTest run on the mock behaviour, state read in memory
 *   mx ...  (see fullrun.hxx) a complete MTest problem through the public interface of mtest::MTest
 *           (hypothesis, setters, named constraints with options, events, execute()), read from the result file
 */
#include <iostream>
#include <map>

#include "TFEL/Raise.hxx"
#include "TFEL/Math/Evaluator.hxx"
#include "MFront/MFrontLogStream.hxx"
#include "MTest/Evolution.hxx"
#include "MTest/FunctionEvolution.hxx"
#include "MTest/GenericSolver.hxx"
#include "MTest/ImposedGradient.hxx"
#include "MTest/ImposedThermodynamicForce.hxx"
#include "C48/mock.hxx"
#include "C48/mockbehaviour.hxx"
#include "C48/mtrun.hxx"
#include "C48/fullrun.hxx"

using namespace verif48;

static std::string eval_points(const mtest::Evolution& e, Tokens& tk) {
  const auto m = static_cast<std::size_t>(tk.integer());
  std::string out = "v";
  for (std::size_t i = 0; i != m; ++i) {
    out += " " + hex(e(tk.dbl()));
  }
  return out;
}

static std::string op_lpi(Tokens& tk) {
  const auto n = static_cast<std::size_t>(tk.integer());
  std::vector<real> ts, vs;
  for (std::size_t i = 0; i != n; ++i) {
    ts.push_back(tk.dbl());
    vs.push_back(tk.dbl());
  }
  mtest::LPIEvolution e(ts, vs);
  const auto k = static_cast<std::size_t>(tk.integer());
  for (std::size_t i = 0; i != k; ++i) {
    const auto t = tk.dbl();
    const auto v = tk.dbl();
    e.setValue(t, v);
  }
  return eval_points(e, tk) + (e.isConstant() ? " const" : " var");
}

static std::string op_cst(Tokens& tk) {
  mtest::ConstantEvolution e(tk.dbl());
  return eval_points(e, tk) + (e.isConstant() ? " const" : " var");
}

static std::string op_fe(Tokens& tk) {
  const auto formula = tk.str();
  const auto ne = static_cast<std::size_t>(tk.integer());
  mtest::EvolutionManager evm;
  for (std::size_t i = 0; i != ne; ++i) {
    const auto name = tk.str();
    evm[name] = read_evolution(tk);
  }
  mtest::FunctionEvolution fe(formula, evm);
  // the reference: the evaluator on the same formula, constants of the manager frozen at construction
  tfel::math::Evaluator direct(formula, mtest::buildExternalFunctionManagerFromConstantEvolutions(evm));
  const auto m = static_cast<std::size_t>(tk.integer());
  std::string out = "v";
  for (std::size_t i = 0; i != m; ++i) {
    const auto t = tk.dbl();
    const auto r = fe(t);
    out += " " + hex(r) + " [";
    for (const auto& a : direct.getVariablesNames()) {
      const auto v = (a == "t") ? t : (*(evm.at(a)))(t);
      direct.setVariableValue(a, v);
      out += " " + a + "=" + hex(v);
    }
    out += " ] " + hex(direct.getValue());
  }
  return out + (fe.isConstant() ? " const" : " var");
}

static std::string op_solve(Tokens& tk) {
  mtest::SolverOptions o;
  o.dynamic_time_step_scaling = tk.integer() != 0;
  o.mSubSteps = static_cast<int>(tk.integer());
  o.iterMax = static_cast<int>(tk.integer());
  const auto pp = tk.integer();
  o.ppolicy = (pp == 0) ? mtest::PredictionPolicy::NOPREDICTION
                        : ((pp == 1) ? mtest::PredictionPolicy::LINEARPREDICTION
                                     : mtest::PredictionPolicy::ELASTICPREDICTION);
  o.ktype = mtest::StiffnessMatrixType::CONSISTENTTANGENTOPERATOR;
  o.eeps = 1e-12;
  o.seps = 1e-3;
  MockStudy s;
  s.n = static_cast<MockStudy::size_type>(tk.integer());
  o.minimal_time_step = tk.dbl();
  o.maximal_time_step = tk.dbl();
  o.minimal_time_step_scaling_factor = tk.dbl();
  o.maximal_time_step_scaling_factor = tk.dbl();
  const auto ti = tk.dbl();
  const auto te = tk.dbl();
  const auto na = static_cast<std::size_t>(tk.integer());
  for (std::size_t i = 0; i != na; ++i) {
    Attempt a;
    a.kind = static_cast<int>(tk.integer());
    a.factor = tk.dbl();
    a.at = static_cast<int>(tk.integer());
    s.script.push_back(a);
  }
  mtest::StudyCurrentState scs;
  mtest::SolverWorkSpace wk;
  s.initializeCurrentState(scs);
  s.initializeWorkSpace(wk);
  std::string verdict;
  try {
    mtest::GenericSolver().execute(scs, wk, s, o, ti, te);
    verdict = "end";
  } catch (std::exception& e) {
    verdict = "exc:" + classify(e);
  }
  // the time reached: the solver's `t` is local; it is the sum of the accepted steps, which the
  // accepted attempts (period increments) identify
  std::ostringstream out;
  out << verdict << " period=" << scs.period << " sub=" << scs.subSteps << " iters=" << scs.iterations
      << " dt_1=" << hex(scs.dt_1) << s.log.str();
  return out.str();
}

static std::string op_cc(Tokens& tk) {
  const auto ndv = static_cast<unsigned short>(tk.integer());
  mtest::SolverOptions o;
  o.eeps = tk.dbl();
  o.seps = tk.dbl();
  const auto t = tk.dbl();
  const auto dt = tk.dbl();
  const auto n = static_cast<std::size_t>(tk.integer());
  const auto du = tk.dbls(n);
  const auto r = tk.dbls(n);
  const auto u1 = tk.dbls(n);
  const auto s1 = tk.dbls(ndv);
  auto b = std::make_shared<MockBehaviour>();
  b->ndv = ndv;
  b->D.assign(static_cast<std::size_t>(ndv) * ndv, 0.);
  TMTest m;
  m.install(b);
  const auto nc = static_cast<std::size_t>(tk.integer());
  for (std::size_t i = 0; i != nc; ++i) {
    const auto kind = tk.str();
    const auto comp = static_cast<unsigned short>(tk.integer());
    const auto active = tk.integer() != 0;
    auto ev = read_evolution(tk);
    std::shared_ptr<mtest::Constraint> c;
    if (kind == "g") {
      c = std::make_shared<mtest::ImposedGradient>(comp, ev);
    } else {
      c = std::make_shared<mtest::ImposedThermodynamicForce>(comp, ev);
    }
    c->setActive(active);
    m.push(c);
  }
  if (m.unknowns() != n) throw std::runtime_error("bad-op");
  mtest::StudyCurrentState st;
  st.initialize(n);
  auto& scs = st.getStructureCurrentState("");
  scs.istates.resize(1);
  b->allocateCurrentState(scs.istates[0]);
  tfel::math::vector<real> vdu(n), vr(n);
  for (std::size_t i = 0; i != n; ++i) {
    vdu[i] = du[i];
    vr[i] = r[i];
    st.u1[i] = u1[i];
  }
  for (unsigned short i = 0; i != ndv; ++i) {
    scs.istates[0].s1[i] = s1[i];
  }
  const bool ok = m.checkConvergence(st, vdu, vr, o, 2u, t, dt);
  const auto diag = m.getFailedCriteriaDiagnostic(st, vdu, vr, o, t, dt);
  return std::string(ok ? "1" : "0") + " nd=" + std::to_string(diag.size());
}

int main() {
  mfront::getVerboseMode() = mfront::VERBOSE_QUIET;
  std::string line;
  while (std::getline(std::cin, line)) {
    std::string ans;
    try {
      Tokens tk(line);
      const auto op = tk.str();
      if (op == "lpi") {
        ans = op_lpi(tk);
      } else if (op == "cst") {
        ans = op_cst(tk);
      } else if (op == "fe") {
        ans = op_fe(tk);
      } else if (op == "solve") {
        ans = op_solve(tk);
      } else if (op == "cc") {
        ans = op_cc(tk);
      } else if (op == "mt") {
        ans = op_mt(tk);
      } else if (op == "mx") {
        ans = op_mx(tk);
      } else {
        ans = "bad-op";
      }
    } catch (std::exception& e) {
      const std::string m = e.what();
      ans = (m == "bad-op") ? "bad-op" : ("err " + m.substr(0, 60));
      for (auto& c : ans) {
        if (c == '\n') c = ' ';
      }
    }
    std::cout << ans << '\n';
  }
  return 0;
}
