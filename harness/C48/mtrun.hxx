/*
 * shared by the C48 and C49 harnesses: a complete run of the real MTest on the mock behaviour
 */
#ifndef VERIF_C48_MTRUN_HXX
#define VERIF_C48_MTRUN_HXX

#include "MTest/AccelerationAlgorithm.hxx"
#include "MTest/AccelerationAlgorithmFactory.hxx"
#include "MTest/ImposedGradient.hxx"
#include "MTest/ImposedThermodynamicForce.hxx"
#include "MTest/RoundingMode.hxx"
#include "C48/mock.hxx"
#include "C48/mockbehaviour.hxx"

namespace verif48 {

  inline std::shared_ptr<mtest::Evolution> read_evolution(Tokens& tk) {
    const auto kind = tk.str();
    if (kind == "c") {
      return std::make_shared<mtest::ConstantEvolution>(tk.dbl());
    }
    if (kind != "l") throw std::runtime_error("bad-op");
    const auto n = static_cast<std::size_t>(tk.integer());
    std::vector<real> ts, vs;
    for (std::size_t i = 0; i != n; ++i) {
      ts.push_back(tk.dbl());
      vs.push_back(tk.dbl());
    }
    return std::make_shared<mtest::LPIEvolution>(ts, vs);
  }

/*
 * mt <ndv> <nl> D*(ndv*ndv) <eeps> <seps> <dyn> <mSub> <iterMax> <ppolicy> <aa> <ktype> <rounding>
 *    <nt> times*nt <nc> (g|f comp (c v | l k (t v)*k))*nc <ns> (ok factor)*ns
 * ppolicy: 0 none, 1 linear, 2 elastic, 3 secant operator, 4 tangent operator;
 * aa: none | name of an acceleration algorithm; ktype: 1 elastic, 4 consistent tangent operator;
 * rounding: ToNearest | UpWard | DownWard | TowardZero
 * runs the real MTest (prepare, Newton with Lagrange multipliers, convergence test, sub-stepping)
 * on the mock behaviour; prints for each requested time the unknowns and forces at that time
 */
inline std::string op_mt(Tokens& tk) {
  const auto ndv = static_cast<unsigned short>(tk.integer());
  auto b = std::make_shared<MockBehaviour>();
  b->ndv = ndv;
  b->nl = tk.dbl();
  b->D = tk.dbls(static_cast<std::size_t>(ndv) * ndv);
  TMTest m;
  m.install(b);
  auto& o = m.opts();
  o.eeps = tk.dbl();
  o.seps = tk.dbl();
  o.dynamic_time_step_scaling = tk.integer() != 0;
  o.mSubSteps = static_cast<int>(tk.integer());
  o.iterMax = static_cast<int>(tk.integer());
  const auto pp = tk.integer();
  o.ppolicy = (pp == 0) ? mtest::PredictionPolicy::NOPREDICTION
              : (pp == 1) ? mtest::PredictionPolicy::LINEARPREDICTION
              : (pp == 2) ? mtest::PredictionPolicy::ELASTICPREDICTION
              : (pp == 3) ? mtest::PredictionPolicy::SECANTOPERATORPREDICTION
                          : mtest::PredictionPolicy::TANGENTOPERATORPREDICTION;
  const auto aan = tk.str();
  const auto kt = tk.integer();
  o.ktype = (kt == 1) ? mtest::StiffnessMatrixType::ELASTIC : mtest::StiffnessMatrixType::CONSISTENTTANGENTOPERATOR;
  const auto rounding = tk.str();
  const auto nt = static_cast<std::size_t>(tk.integer());
  const auto times = tk.dbls(nt);
  const auto nc = static_cast<std::size_t>(tk.integer());
  for (std::size_t i = 0; i != nc; ++i) {
    const auto kind = tk.str();
    const auto comp = static_cast<unsigned short>(tk.integer());
    auto ev = read_evolution(tk);
    if (kind == "g") {
      m.push(std::make_shared<mtest::ImposedGradient>(comp, ev));
    } else {
      m.push(std::make_shared<mtest::ImposedThermodynamicForce>(comp, ev));
    }
  }
  const auto ns = static_cast<std::size_t>(tk.integer());
  for (std::size_t i = 0; i != ns; ++i) {
    // 0: integration failure, 1: success, 2: success with non finite forces
    const auto ok = tk.integer();
    b->script.push_back({ok != 0, tk.dbl()});
    b->poison.push_back(ok == 2 ? 1 : 0);
  }
  const auto n = m.unknowns();
  if (aan != "none") {
    o.aa = mtest::AccelerationAlgorithmFactory::getAccelerationAlgorithmFactory().getAlgorithm(aan);
    o.aa->initialize(static_cast<unsigned short>(n));
  }
  struct RoundingGuard {
    explicit RoundingGuard(const std::string& r) { mtest::setRoundingMode(r); }
    ~RoundingGuard() { mtest::setRoundingMode("ToNearest"); }
  } guard(rounding);
  mtest::StudyCurrentState st;
  mtest::SolverWorkSpace wk;
  st.initialize(n);
  auto& scs = st.getStructureCurrentState("");
  scs.setBehaviour(b);
  scs.setModellingHypothesis(tfel::material::ModellingHypothesis::TRIDIMENSIONAL);
  scs.istates.resize(1);
  b->allocateCurrentState(scs.istates[0]);
  scs.istates[0].behaviour = b;
  m.initializeWorkSpace(wk);
  std::ostringstream out;
  try {
    for (std::size_t i = 0; i + 1 < nt; ++i) {
      m.alog.str("");
      m.execute(st, wk, times[i], times[i + 1]);
      out << m.alog.str();
      out << " T " << hex(times[i + 1]) << " u";
      for (std::size_t j = 0; j != n; ++j) out << " " << hex(st.u0[j]);
      out << " s";
      for (unsigned short j = 0; j != ndv; ++j) out << " " << hex(scs.istates[0].s0[j]);
    }
    return "end period=" + std::to_string(st.period) + " sub=" + std::to_string(st.subSteps) + out.str();
  } catch (std::exception& e) {
    return "exc:" + classify(e) + out.str() + m.alog.str();
  }
}


}  // namespace verif48

#endif
