/*
 * C46 — trace-validation harness for mfront/src/MFrontLock.cxx.
 *
 * Reads scenarios on stdin, runs each with real processes (fork) that use the real
 * MFrontLock / MFrontLockGuard under a *private* semaphore name, and prints for each scenario the
 * event log (one token per atomic section, written by the hooks of MFrontLock.cxx through a
 * single O_APPEND file descriptor, so that the log order is the kernel's order of the writes) and
 * the observations (semaphore values, overlap detector).
 *
 * scenario syntax:
 *   scenario <name> <seed> <jitter_us>
 *   phase
 *   proc <idx> <op> <op> ...        ops: O        instantiate the lock singleton
 *                                        G<us>    { MFrontLockGuard g; hold <us> }
 *                                        B<us>    same, but stays inside until another process is inside
 *                                                 too (or <us> elapsed)
 *                                        S<us>    sleep
 *                                        k        die by SIGKILL (outside a critical section)
 *                                        K<us>    take the guard, hold, die by SIGKILL inside
 *                                        H<n>:<timeout_us>:<period_us>
 *                                                 take the guard and, while inside, send SIGUSR1 every
 *                                                 <period_us> to each process blocked in sem_wait, until
 *                                                 <n> waiters have got their answer (or <timeout_us>)
 *                                        U<us>    install a SIGUSR1 handler WITHOUT SA_RESTART, then
 *                                                 { MFrontLockGuard g; hold <us> }; an exception thrown by
 *                                                 the guard (sem_wait failed) is caught and logged `r`
 *   end
 * Every process not killed ends by a normal exit() (static destructors run).
 * `sem_wait` is interposed: an interrupted call (-1/EINTR) is logged `i<idx>`.
 */
#include <atomic>
#include <cerrno>
#include <csignal>
#include <cstdarg>
#include <cstdio>
#include <cstdlib>
#include <cstring>
#include <dlfcn.h>
#include <fcntl.h>
#include <iostream>
#include <semaphore.h>
#include <sstream>
#include <string>
#include <sys/mman.h>
#include <sys/stat.h>
#include <sys/wait.h>
#include <unistd.h>
#include <vector>
#include "MFront/MFrontLock.hxx"

static const char* const private_tag = "-verif-";

// --- never touch the user's real semaphore: every sem_open of this program is checked -----------
extern "C" sem_t* sem_open(const char* name, int oflag, ...) {
  using fn = sem_t* (*)(const char*, int, ...);
  static fn real = reinterpret_cast<fn>(::dlsym(RTLD_NEXT, "sem_open"));
  if ((name == nullptr) || (std::strstr(name, private_tag) == nullptr) || (real == nullptr)) {
    static const char msg[] = "C46 harness: refusing sem_open on a non-private name\n";
    (void)!::write(2, msg, sizeof(msg) - 1);
    ::_exit(97);
  }
  if (oflag & O_CREAT) {
    va_list ap;
    va_start(ap, oflag);
    const mode_t mode = va_arg(ap, mode_t);
    const unsigned int value = va_arg(ap, unsigned int);
    va_end(ap);
    return real(name, oflag, mode, value);
  }
  return real(name, oflag);
}

struct Shared {
  std::atomic<int> in_cs;
  std::atomic<int> max_in_cs;
  std::atomic<int> entries;
  std::atomic<int> answered;          // waiters (op U) that entered, or were refused
  std::atomic<int> blocked_pid[64];   // pid of process idx while it is inside sem_wait, else 0
};

static int log_fd = -1;
static int my_idx = -1;
static bool interruptible = false;  // this process has a SIGUSR1 handler (op U)
static unsigned long long rng_state = 1;
static unsigned jitter_us = 0;
static Shared* shared = nullptr;

static unsigned long long next_rand() {
  rng_state = rng_state * 6364136223846793005ULL + 1442695040888963407ULL;
  return rng_state >> 33;
}
static void perturb() {
  if (jitter_us == 0) return;
  const auto r = next_rand();
  if (r % 3 == 0) return;
  if (r % 3 == 1) {
    ::sched_yield();
    return;
  }
  ::usleep(static_cast<useconds_t>(next_rand() % jitter_us));
}
static void log_event(const char c, const int idx) {
  char buf[32];
  const int n = std::snprintf(buf, sizeof(buf), "%c%d\n", c, idx);
  if (::write(log_fd, buf, n) != n) ::_exit(96);
}
static void log_raw(const std::string& s) {
  if (::write(log_fd, s.c_str(), s.size()) != static_cast<ssize_t>(s.size())) ::_exit(96);
}

// --- interposed sem_wait: tells the signaller who is blocked, logs the interrupted calls --------------
extern "C" int sem_wait(sem_t* sem) {
  using fn = int (*)(sem_t*);
  static fn real = reinterpret_cast<fn>(::dlsym(RTLD_NEXT, "sem_wait"));
  const bool known = interruptible && shared != nullptr && my_idx >= 0 && my_idx < 64;
  if (known) shared->blocked_pid[my_idx] = static_cast<int>(::getpid());
  const int r = real(sem);
  const int e = errno;
  if (known) shared->blocked_pid[my_idx] = 0;
  if (r == -1 && e == EINTR && my_idx >= 0) log_event('i', my_idx);
  errno = e;
  return r;
}

// --- the hook called by the instrumented MFrontLock.cxx ------------------------------------------
extern "C" void tfel_verif_mfrontlock_event(const char* const kind) {
  char c = '?';
  if (std::strcmp(kind, "open") == 0) c = 'o';
  if (std::strcmp(kind, "lock") == 0) c = 'l';
  if (std::strcmp(kind, "unlock") == 0) c = 'u';
  perturb();
  log_event(c, my_idx);
  perturb();
}

// `rendezvous`: stay inside until a second process is inside too, or until `us` elapsed: makes an
// overlap, when the lock admits one, independent of the scheduler
static void hold(const unsigned us, const bool rendezvous = false) {
  const int n = shared->in_cs.fetch_add(1) + 1;
  int m = shared->max_in_cs.load();
  while (m < n && !shared->max_in_cs.compare_exchange_weak(m, n)) {
  }
  shared->entries.fetch_add(1);
  if (rendezvous) {
    for (unsigned t = 0; t < us && shared->in_cs.load() < 2; t += 200) ::usleep(200);
  } else if (us != 0) {
    ::usleep(us);
  }
  shared->in_cs.fetch_sub(1);
}

static void usr1_handler(int) {}

// inside the critical section: interrupt the processes blocked in sem_wait until `n` of them have
// got their answer (entered, or refused by an exception)
static void hold_and_signal(const int n, const unsigned timeout_us, const unsigned period_us) {
  const int k = shared->in_cs.fetch_add(1) + 1;
  int m = shared->max_in_cs.load();
  while (m < k && !shared->max_in_cs.compare_exchange_weak(m, k)) {
  }
  shared->entries.fetch_add(1);
  for (unsigned t = 0; t < timeout_us && shared->answered.load() < n; t += period_us + 1) {
    ::usleep(period_us);
    for (int i = 0; i < 64; ++i) {
      const int pid = shared->blocked_pid[i].load();
      if (pid > 0 && i != my_idx) ::kill(pid, SIGUSR1);
    }
  }
  shared->in_cs.fetch_sub(1);
}

[[noreturn]] static void child(const int idx, const std::vector<std::string>& ops, const unsigned long long seed) {
  my_idx = idx;
  rng_state = seed * 1000003ULL + static_cast<unsigned long long>(idx) * 7919ULL + 17ULL;
  try {
    for (const auto& op : ops) {
      const unsigned us = op.size() > 1 ? static_cast<unsigned>(std::atoi(op.c_str() + 1)) : 0u;
      perturb();
      switch (op[0]) {
        case 'O':
          (void)mfront::MFrontLock::getMFrontLock();
          break;
        case 'G': {
          mfront::MFrontLockGuard g;
          hold(us);
        } break;
        case 'B': {
          mfront::MFrontLockGuard g;
          hold(us, true);
        } break;
        case 'H': {
          int n = 1;
          unsigned timeout = 2000000, period = 500;
          std::sscanf(op.c_str() + 1, "%d:%u:%u", &n, &timeout, &period);
          mfront::MFrontLockGuard g;
          hold_and_signal(n, timeout, period);
        } break;
        case 'U': {
          struct sigaction sa;
          std::memset(&sa, 0, sizeof(sa));
          sa.sa_handler = usr1_handler;  // no SA_RESTART: a blocked sem_wait returns -1/EINTR
          sigemptyset(&sa.sa_mask);
          ::sigaction(SIGUSR1, &sa, nullptr);
          interruptible = true;
          try {
            mfront::MFrontLockGuard g;
            hold(us);
          } catch (std::exception&) {
            log_event('r', idx);  // lock() refused to enter
          }
          interruptible = false;
          ::signal(SIGUSR1, SIG_IGN);
          shared->answered.fetch_add(1);
          ::usleep(3000);  // the signaller may still hold our pid: do not exit at once
        } break;
        case 'S':
          ::usleep(us);
          break;
        case 'k':
          log_event('k', idx);
          ::raise(SIGKILL);
          break;
        case 'K': {
          mfront::MFrontLockGuard g;
          hold(us);
          log_event('K', idx);
          ::raise(SIGKILL);
        } break;
        default:
          ::_exit(95);
      }
    }
  } catch (std::exception& e) {
    const std::string m = std::string("C46 harness child: exception: ") + e.what() + "\n";
    (void)!::write(2, m.c_str(), m.size());
    ::_exit(94);
  }
  // normal process exit: static destructors (among which ~MFrontLock, if the singleton was
  // instantiated) run after this event
  log_event('x', idx);
  std::exit(0);
}

struct Proc {
  int idx;
  std::vector<std::string> ops;
};

static std::string sem_name(const std::string& suffix) {
  std::ostringstream n;
  n << "/mfront-" << ::geteuid() << suffix;
  return n.str();
}

static std::string observe(const std::string& name) {
  sem_t* s = ::sem_open(name.c_str(), 0);
  if (s == SEM_FAILED) return "v-";
  int v = -1;
  ::sem_getvalue(s, &v);
  ::sem_close(s);
  return "v" + std::to_string(v);
}

int main(int argc, char** argv) {
  if (argc < 2) {
    std::fprintf(stderr, "usage: %s <log file>\n", argv[0]);
    return 2;
  }
  shared = static_cast<Shared*>(::mmap(nullptr, sizeof(Shared), PROT_READ | PROT_WRITE,
                                       MAP_SHARED | MAP_ANONYMOUS, -1, 0));
  if (shared == MAP_FAILED) return 3;
  std::string line, name;
  unsigned long long seed = 0;
  std::vector<std::vector<Proc>> phases;
  int nscen = 0;
  bool gave_up = false;
  // the whole input is read before the first fork (a forked child's exit() must never see a
  // partially consumed stdin)
  std::stringstream input;
  input << std::cin.rdbuf();
  while (std::getline(input, line)) {
    std::istringstream is(line);
    std::string w;
    is >> w;
    if (w == "scenario") {
      is >> name >> seed >> jitter_us;
      phases.clear();
    } else if (w == "phase") {
      phases.emplace_back();
    } else if (w == "proc") {
      Proc p;
      is >> p.idx;
      std::string op;
      while (is >> op) p.ops.push_back(op);
      phases.back().push_back(p);
    } else if (w == "end") {
      ++nscen;
      if (gave_up) {
        // a previous scenario hung (lock lost): the remaining ones are not run
        std::printf("trace %s\nobs %s status=skipped max_in_cs=0 entries=0\n", name.c_str(), name.c_str());
        continue;
      }
      const std::string suffix = std::string(private_tag) + std::to_string(::getpid()) + "-" + std::to_string(nscen);
      ::setenv("TFEL_VERIF_SEM_SUFFIX", suffix.c_str(), 1);
      const auto sname = sem_name(suffix);
      ::sem_unlink(sname.c_str());
      log_fd = ::open(argv[1], O_WRONLY | O_CREAT | O_TRUNC | O_APPEND, 0600);
      if (log_fd == -1) return 4;
      shared->in_cs = 0;
      shared->max_in_cs = 0;
      shared->entries = 0;
      shared->answered = 0;
      for (auto& b : shared->blocked_pid) b = 0;
      std::string status = "ok";
      for (const auto& ph : phases) {
        std::vector<pid_t> pids;
        for (const auto& p : ph) {
          const pid_t pid = ::fork();
          if (pid == 0) child(p.idx, p.ops, seed);
          if (pid == -1) {
            status = "fork-failed";
            break;
          }
          pids.push_back(pid);
        }
        // watchdog: a phase never needs more than 20 s unless the lock is lost
        int waited = 0;
        std::vector<bool> done(pids.size(), false);
        std::size_t ndone = 0;
        while (ndone != pids.size()) {
          bool progress = false;
          for (std::size_t i = 0; i != pids.size(); ++i) {
            if (done[i]) continue;
            int st = 0;
            const pid_t r = ::waitpid(pids[i], &st, WNOHANG);
            if (r == pids[i]) {
              done[i] = true;
              ++ndone;
              progress = true;
              const bool killed = WIFSIGNALED(st) && WTERMSIG(st) == SIGKILL;
              const bool clean = WIFEXITED(st) && WEXITSTATUS(st) == 0;
              if (!killed && !clean) {
                status = "child-failed(" + std::to_string(WIFEXITED(st) ? WEXITSTATUS(st) : -WTERMSIG(st)) + ")";
              }
            }
          }
          if (!progress) {
            ::usleep(1000);
            if (++waited > 20000) {
              status = "timeout";
              gave_up = true;
              for (std::size_t i = 0; i != pids.size(); ++i) {
                if (!done[i]) {
                  ::kill(pids[i], SIGKILL);
                  ::waitpid(pids[i], nullptr, 0);
                  done[i] = true;
                  ++ndone;
                }
              }
            }
          }
        }
        // quiescent point: observe the persistent semaphore
        log_raw(observe(sname) + "\n");
        if (status != "ok") break;
      }
      ::close(log_fd);
      ::sem_unlink(sname.c_str());
      // print the trace
      std::string trace;
      {
        FILE* f = std::fopen(argv[1], "r");
        char buf[64];
        while (f != nullptr && std::fgets(buf, sizeof(buf), f) != nullptr) {
          std::string t(buf);
          while (!t.empty() && (t.back() == '\n' || t.back() == ' ')) t.pop_back();
          if (!t.empty()) trace += " " + t;
        }
        if (f != nullptr) std::fclose(f);
      }
      std::printf("trace %s%s\n", name.c_str(), trace.c_str());
      std::printf("obs %s status=%s max_in_cs=%d entries=%d\n", name.c_str(), status.c_str(),
                  shared->max_in_cs.load(), shared->entries.load());
      std::fflush(stdout);
    }
  }
  ::unlink(argv[1]);
  return 0;
}
