// C38 run-time harness for the `c` interface: `<law>_checkBounds`.
// "c38_c_table.inc" (generated per run) declares the emitted functions and wraps them.
// stdin : cb <law> <a_1> .. <a_n>          stdout: value returned by <law>_checkBounds
#include <cmath>
#include <iostream>
#include <sstream>
#include <string>
#include <vector>

struct Entry {
  const char* name;
  unsigned n;
  int (*f)(const double*);
};
#include "c38_c_table.inc"

static double parse(const std::string& w) {
  if (w == "nan") return std::nan("");
  if (w == "inf") return HUGE_VAL;
  if (w == "-inf") return -HUGE_VAL;
  return std::stod(w) / 8;
}

int main() {
  std::string line;
  while (std::getline(std::cin, line)) {
    std::istringstream is(line);
    std::string op, law, w;
    if (!(is >> op >> law) || op != "cb") {
      std::cout << "bad-op\n";
      continue;
    }
    std::vector<double> a;
    while (is >> w) a.push_back(parse(w));
    const Entry* e = nullptr;
    for (const auto& t : table) {
      if (t.f != nullptr && law == t.name) e = &t;
    }
    if (e == nullptr || a.size() != e->n) {
      std::cout << "bad-op\n";
      continue;
    }
    std::cout << e->f(a.data()) << "\n";
  }
  return 0;
}
