// C38 run-time harness for the `generic` material property interface.
// The functions under test are the sources emitted by the mfront driver built from the current
// tree (checks/C38.py), compiled and linked into this binary; "c38_generic_table.inc" (generated
// per run) declares them and lists them in `table`.
// stdin : call <law> <policy 0=None|1=Warning|2=Strict> <errno before> <nargs> <a_1> .. <a_k>
// stdout: <status> <bounds_status> <c_error_number> <return value> <errno after>
//         (finite values are printed multiplied by 8 when that is an integer, as in the Lean driver)
#include <cerrno>
#include <cmath>
#include <cstdio>
#include <cstring>
#include <iostream>
#include <sstream>
#include <string>
#include <vector>
#include "MFront/GenericMaterialProperty/Types.h"
#include "MFront/GenericMaterialProperty/OutputStatus.h"
#include "MFront/GenericMaterialProperty/OutOfBoundsPolicy.h"

using Fct = mfront_gmp_real (*)(mfront_gmp_OutputStatus* const,
                                const mfront_gmp_real* const,
                                const mfront_gmp_size_type,
                                const mfront_gmp_OutOfBoundsPolicy);
struct Entry {
  const char* name;
  Fct f;
};
#include "c38_generic_table.inc"

static double parse(const std::string& w) {
  if (w == "nan") return std::nan("");
  if (w == "inf") return HUGE_VAL;
  if (w == "-inf") return -HUGE_VAL;
  return std::stod(w) / 8;
}

static std::string show(const double v) {
  if (std::isnan(v)) return "nan";
  if (std::isinf(v)) return v > 0 ? "inf" : "-inf";
  const double s = v * 8;
  if (s == std::floor(s) && std::fabs(s) < 1e15) {
    char b[64];
    std::snprintf(b, sizeof b, "%lld", static_cast<long long>(s));
    return b;
  }
  char b[64];
  std::snprintf(b, sizeof b, "raw:%.17g", v);
  return b;
}

int main() {
  std::string line;
  while (std::getline(std::cin, line)) {
    std::istringstream is(line);
    std::string op, law, w;
    int policy, e0;
    long nargs;
    if (!(is >> op >> law >> policy >> e0 >> nargs) || op != "call") {
      std::cout << "bad-op\n";
      continue;
    }
    std::vector<double> a;
    while (is >> w) a.push_back(parse(w));
    Fct f = nullptr;
    for (const auto& e : table) {
      if (law == e.name) f = e.f;
    }
    if (f == nullptr) {
      std::cout << "bad-op\n";
      continue;
    }
    mfront_gmp_OutputStatus s;
    std::memset(&s, 0x5a, sizeof s);  // stale garbage: every field must be written by the callee
    s.msg[0] = '\0';
    const auto p = static_cast<mfront_gmp_OutOfBoundsPolicy>(policy);
    a.push_back(0);  // never read: keeps data() non-null for zero arguments
    errno = e0;
    const double r = f(&s, a.data(), static_cast<mfront_gmp_size_type>(nargs), p);
    const int e1 = errno;
    std::cout << s.status << " " << s.bounds_status << " " << s.c_error_number << " " << show(r)
              << " " << e1 << "\n";
  }
  return 0;
}
