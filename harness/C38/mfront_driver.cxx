// C38: a minimal mfront driver whose material-property emitters come from the tree under test.
//  * GenericMaterialPropertyInterfaceBase.cxx (exported class) is compiled from the tree and linked in
//    front of libTFELMFront: the library's references are bound to this executable (ELF interposition,
//    verified by checks/C38.py with LD_DEBUG=bindings);
//  * CMaterialPropertyInterfaceBase / CMaterialPropertyInterface are not exported by the library and
//    cannot be interposed: the classes compiled from the tree are registered here under the interface
//    name "c38c".
// Everything else (DSL, parsing of @Bounds/@PhysicalBounds, descriptions) is the prebuilt library.
#include <cstdlib>
#include <iostream>
#include <stdexcept>
#include "MFront/InitDSLs.hxx"
#include "MFront/InitInterfaces.hxx"
#include "MFront/MFront.hxx"
#include "MFront/MaterialPropertyInterfaceProxy.hxx"
#include "MFront/CMaterialPropertyInterface.hxx"

namespace {
  //! the tree's `c` interface under another registry name (the library already registered its own "c")
  struct C38CInterface final : mfront::CMaterialPropertyInterface {
    static std::string getName() { return "c38c"; }
  };
}  // namespace

int main(const int argc, const char* const* const argv) {
  try {
    mfront::initDSLs();
    mfront::initInterfaces();
    mfront::MaterialPropertyInterfaceProxy<C38CInterface> c38c;
    mfront::MFront m(argc, argv);
    m.exe();
  } catch (std::exception& e) {
    std::cerr << e.what() << std::endl;
    return EXIT_FAILURE;
  } catch (...) {
    std::cerr << "unknown exception" << std::endl;
    return EXIT_FAILURE;
  }
  return EXIT_SUCCESS;
}
