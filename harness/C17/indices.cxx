/*!
 * C17 (a) — exhaustive enumeration of the index maps of the real TFEL indexing policies and views.
 * Output: one line per request, `<request> = <value>`; the request syntax is the one of the Lean model driver
 * (lean/TfelVerif/C17/Driver.lean). `idxa` is the `getIndex(std::array)` overload (same model request `idx`).
 * `wf <pol>` lines list every instantiated policy (the check verifies the hypotheses of the theorems on them).
 */
#include <array>
#include <iostream>
#include <sstream>
#include <string>
#include <tuple>
#include <utility>
#include "TFEL/Math/tvector.hxx"
#include "TFEL/Math/tmatrix.hxx"
#include "TFEL/Math/stensor.hxx"
#include "TFEL/Math/Array/FixedSizeIndexingPolicies.hxx"
#include "TFEL/Math/Array/RuntimeIndexingPolicies.hxx"
#include "TFEL/Math/Array/View.hxx"
#include "TFEL/Math/Array/ViewsArray.hxx"
#include "TFEL/Math/Array/CoalescedView.hxx"
#include "TFEL/Math/Array/StridedCoalescedView.hxx"

using namespace tfel::math;
using us = unsigned short;

// ---- descriptors
template <typename P>
struct Desc;
template <typename S>
struct Desc<ScalarIndexingPolicy<S>> {
  static std::string str() { return "S"; }
};
template <typename S, S N, S St>
struct Desc<FixedSizeVectorIndexingPolicy<S, N, St>> {
  static std::string str() {
    return "V " + std::to_string(N) + " " + std::to_string(St);
  }
};
template <typename S, S N, S M, S St>
struct Desc<FixedSizeRowMajorMatrixIndexingPolicy<S, N, M, St>> {
  static std::string str() {
    return "M " + std::to_string(N) + " " + std::to_string(M) + " " +
           std::to_string(St);
  }
};
template <typename P1, typename P2, typename P2::size_type St>
struct Desc<FixedSizeIndexingPoliciesCartesianProduct<P1, P2, St>> {
  static std::string str() {
    return "X " + std::to_string(St) + " " + Desc<P1>::str() + " " +
           Desc<P2>::str();
  }
};

template <typename P, std::size_t... I>
auto call_variadic(const P& p,
                   const std::array<typename P::size_type, sizeof...(I)>& a,
                   std::index_sequence<I...>) {
  return p.getIndex(a[I]...);
}

template <std::size_t A>
std::string idxstr(const std::array<std::size_t, A>& a) {
  std::string s;
  for (std::size_t k = 0; k != A; ++k) s += " " + std::to_string(a[k]);
  return s;
}

//! enumerate the whole index domain of a fixed size policy
template <typename P>
void dump_policy() {
  constexpr P p{};
  using size_type = typename P::size_type;
  constexpr std::size_t A = P::arity;
  const auto d = Desc<P>::str();
  std::cout << "wf " << d << " = 1\n";
  std::cout << "arity " << d << " = " << A << "\n";
  std::cout << "size " << d << " = " << p.size() << "\n";
  std::cout << "min " << d << " = " << p.getUnderlyingArrayMinimalSize() << "\n";
  std::cout << "contig " << d << " = " << (P::areDataContiguous ? 1 : 0) << "\n";
  if constexpr (A != 0) {
    std::array<std::size_t, A> it{};
    std::array<std::size_t, A> ext{};
    for (std::size_t k = 0; k != A; ++k) ext[k] = p.size(static_cast<size_type>(k));
    while (true) {
      std::array<size_type, A> a{};
      for (std::size_t k = 0; k != A; ++k) a[k] = static_cast<size_type>(it[k]);
      std::cout << "idx " << d << " ;" << idxstr<A>(it) << " = "
                << call_variadic(p, a, std::make_index_sequence<A>()) << "\n";
      std::cout << "idxa " << d << " ;" << idxstr<A>(it) << " = " << p.getIndex(a)
                << "\n";
      std::size_t k = A;
      while (k != 0) {
        --k;
        if (++it[k] != ext[k]) break;
        it[k] = 0;
        if (k == 0) return;
      }
    }
  }
}

template <us N, us... S>
void dump_vec_strides(std::integer_sequence<us, S...>) {
  (dump_policy<FixedSizeVectorIndexingPolicy<us, N, S + 1>>(), ...);
}
template <us... N>
void dump_vecs(std::integer_sequence<us, N...>) {
  (dump_vec_strides<N + 1>(std::make_integer_sequence<us, 4>()), ...);
}
template <us N, us M>
void dump_mat_nm() {
  dump_policy<FixedSizeRowMajorMatrixIndexingPolicy<us, N, M, M>>();
  dump_policy<FixedSizeRowMajorMatrixIndexingPolicy<us, N, M, M + 1>>();
  dump_policy<FixedSizeRowMajorMatrixIndexingPolicy<us, N, M, M + 3>>();
}
template <us N, us... M>
void dump_mat_n(std::integer_sequence<us, M...>) {
  (dump_mat_nm<N, M + 1>(), ...);
}
template <us... N>
void dump_mats(std::integer_sequence<us, N...>) {
  (dump_mat_n<N + 1>(std::make_integer_sequence<us, 6>()), ...);
}

// cartesian products over a list of base policies
using B0 = ScalarIndexingPolicy<us>;
using B1 = FixedSizeVectorIndexingPolicy<us, 2>;
using B2 = FixedSizeVectorIndexingPolicy<us, 3, 2>;
using B3 = FixedSizeRowMajorMatrixIndexingPolicy<us, 2, 3>;
using B4 = FixedSizeRowMajorMatrixIndexingPolicy<us, 3, 2, 4>;
using B5 = FixedSizeRowMajorMatrixIndexingPolicy<us, 2, 3, 5>;
using B6 = FixedSizeVectorIndexingPolicy<us, 6>;
using B7 = FixedSizeRowMajorMatrixIndexingPolicy<us, 6, 6>;

template <typename P1, typename P2>
void dump_pair() {
  // default stride (= the minimal size the code reports for P2), and two larger ones
  dump_policy<FixedSizeIndexingPoliciesCartesianProduct<P1, P2>>();
  constexpr auto m = getUnderlyingArrayMinimalSize<P2>();
  dump_policy<FixedSizeIndexingPoliciesCartesianProduct<P1, P2, m + 1>>();
  dump_policy<FixedSizeIndexingPoliciesCartesianProduct<P1, P2, m + 3>>();
}
template <typename P1, typename... P2>
void dump_pairs_1() {
  (dump_pair<P1, P2>(), ...);
}
template <typename... P>
void dump_pairs() {
  (dump_pairs_1<P, P...>(), ...);
}

template <typename T>
long off(const T* p, const T* base) {
  return static_cast<long>(p - base);
}

// ---- views of tmatrix
template <us N, us M, us I, us J, us K>
void dump_row_slice(tmatrix<N, M, int>& m) {
  if constexpr (J + K <= M && K >= 1) {
    auto v = m.template row_view<I, J, K>();
    for (us k = 0; k != K; ++k)
      std::cout << "row " << M << " " << I << " " << J << " ; " << k << " = "
                << off(&v[k], m.data()) << "\n";
    // the `const` overload is a separate function in tmatrix.ixx
    const auto& cm = m;
    auto cv = cm.template row_view<I, J, K>();
    for (us k = 0; k != K; ++k)
      std::cout << "crow " << M << " " << I << " " << J << " ; " << k << " = "
                << off(&cv[k], cm.data()) << "\n";
  }
}
template <us N, us M, us I, us J, us K>
void dump_col_slice(tmatrix<N, M, int>& m) {
  if constexpr (J + K <= N && K >= 1) {
    auto v = m.template column_view<I, J, K>();
    for (us k = 0; k != K; ++k)
      std::cout << "col " << M << " " << I << " " << J << " ; " << k << " = "
                << off(&v[k], m.data()) << "\n";
    const auto& cm = m;
    auto cv = cm.template column_view<I, J, K>();
    for (us k = 0; k != K; ++k)
      std::cout << "ccol " << M << " " << I << " " << J << " ; " << k << " = "
                << off(&cv[k], cm.data()) << "\n";
  }
}
template <us N, us M, us I, us J, us R, us C>
void dump_sub(tmatrix<N, M, int>& m) {
  if constexpr (I + R <= N && J + C <= M && R >= 1 && C >= 1) {
    auto v = m.template submatrix_view<I, J, R, C>();
    for (us r = 0; r != R; ++r)
      for (us c = 0; c != C; ++c)
        std::cout << "sub " << M << " " << I << " " << J << " ; " << r << " " << c
                  << " = " << off(&v(r, c), m.data()) << "\n";
    const auto& cm = m;
    auto cv = cm.template submatrix_view<I, J, R, C>();
    for (us r = 0; r != R; ++r)
      for (us c = 0; c != C; ++c)
        std::cout << "csub " << M << " " << I << " " << J << " ; " << r << " " << c
                  << " = " << off(&cv(r, c), cm.data()) << "\n";
  }
}
template <us N, us M, us I, us J, us R, us... C>
void dump_sub_c(tmatrix<N, M, int>& m, std::integer_sequence<us, C...>) {
  (dump_sub<N, M, I, J, R, C + 1>(m), ...);
}
template <us N, us M, us I, us J, us... R>
void dump_sub_r(tmatrix<N, M, int>& m, std::integer_sequence<us, R...>) {
  (dump_sub_c<N, M, I, J, R + 1>(m, std::make_integer_sequence<us, M>()), ...);
}
template <us N, us M, us I, us J, us... K>
void row_all_k(tmatrix<N, M, int>& m, std::integer_sequence<us, K...>) {
  (dump_row_slice<N, M, I, J, K + 1>(m), ...);
}
template <us N, us M, us I, us J, us... K>
void col_all_k(tmatrix<N, M, int>& m, std::integer_sequence<us, K...>) {
  (dump_col_slice<N, M, I, J, K + 1>(m), ...);
}
template <us N, us M, us I, us... J>
void row_all_j(tmatrix<N, M, int>& m, std::integer_sequence<us, J...>) {
  (row_all_k<N, M, I, J>(m, std::make_integer_sequence<us, M>()), ...);
  (dump_sub_r<N, M, I, J>(m, std::make_integer_sequence<us, N>()), ...);
}
template <us N, us M, us I, us... J>
void col_all_j(tmatrix<N, M, int>& m, std::integer_sequence<us, J...>) {
  (col_all_k<N, M, I, J>(m, std::make_integer_sequence<us, N>()), ...);
}
template <us N, us M, us I>
void full_row(tmatrix<N, M, int>& m) {
  auto v = m.template row_view<I>();
  for (us k = 0; k != M; ++k)
    std::cout << "row " << M << " " << I << " 0 ; " << k << " = "
              << off(&v[k], m.data()) << "\n";
  const auto& cm = m;
  auto cv = cm.template row_view<I>();
  for (us k = 0; k != M; ++k)
    std::cout << "row " << M << " " << I << " 0 ; " << k << " = "
              << off(&cv[k], cm.data()) << "\n";
  if constexpr (N * M <= 9) row_all_j<N, M, I>(m, std::make_integer_sequence<us, M>());
}
template <us N, us M, us I>
void full_col(tmatrix<N, M, int>& m) {
  auto v = m.template column_view<I>();
  for (us k = 0; k != N; ++k)
    std::cout << "col " << M << " " << I << " 0 ; " << k << " = "
              << off(&v[k], m.data()) << "\n";
  const auto& cm = m;
  auto cv = cm.template column_view<I>();
  for (us k = 0; k != N; ++k)
    std::cout << "col " << M << " " << I << " 0 ; " << k << " = "
              << off(&cv[k], cm.data()) << "\n";
  if constexpr (N * M <= 9) col_all_j<N, M, I>(m, std::make_integer_sequence<us, N>());
}
template <us N, us M, us... I>
void all_rows(tmatrix<N, M, int>& m, std::integer_sequence<us, I...>) {
  (full_row<N, M, I>(m), ...);
}
template <us N, us M, us... I>
void all_cols(tmatrix<N, M, int>& m, std::integer_sequence<us, I...>) {
  (full_col<N, M, I>(m), ...);
}
template <us N, us M>
void dump_tmatrix_views() {
  tmatrix<N, M, int> m(0);
  all_rows<N, M>(m, std::make_integer_sequence<us, N>());
  all_cols<N, M>(m, std::make_integer_sequence<us, M>());
}

// ---- strided views, views arrays, coalesced views on a raw buffer
template <us K, us S>
void dump_strided_view() {
  int buf[64] = {};
  using P = FixedSizeVectorIndexingPolicy<us, K, S>;
  auto v = map<tvector<K, int>, P>(&buf[3]);
  for (us k = 0; k != K; ++k)
    std::cout << "idx " << Desc<P>::str() << " ; " << k << " = "
              << off(&v[k], &buf[3]) << "\n";
}
template <us K, us... S>
void dump_strided_views(std::integer_sequence<us, S...>) {
  (dump_strided_view<K, S + 1>(), ...);
}
template <us NV, us K, us Offset, us Stride>
void dump_views_array() {
  tvector<40, int> w(0);
  auto va = map<NV, tvector<K, int>, Offset, Stride>(w);
  for (us i = 0; i != NV; ++i) {
    auto v = va[i];
    for (us k = 0; k != K; ++k)
      std::cout << "varr " << Stride << " V " << K << " 1 ; " << i << " " << k
                << " = " << off(&v[k], w.data() + Offset) << "\n";
  }
}
template <us NV, us D, us Offset, us Stride>
void dump_views_array_st() {
  tvector<60, int> w(0);
  auto va = map<NV, stensor<D, int>, Offset, Stride>(w);
  constexpr us K = StensorDimeToSize<D>::value;
  for (us i = 0; i != NV; ++i) {
    auto v = va[i];
    for (us k = 0; k != K; ++k)
      std::cout << "varr " << Stride << " V " << K << " 1 ; " << i << " " << k
                << " = " << off(&v[k], w.data() + Offset) << "\n";
  }
}
template <us NV, us N, us M, us Offset, us Stride>
void dump_views_array_mat() {
  tvector<60, int> w(0);
  auto va = map<NV, tmatrix<N, M, int>, Offset, Stride>(w);
  for (us i = 0; i != NV; ++i) {
    auto v = va[i];
    for (us r = 0; r != N; ++r)
      for (us c = 0; c != M; ++c)
        std::cout << "varr " << Stride << " M " << N << " " << M << " " << M
                  << " ; " << i << " " << r << " " << c << " = "
                  << off(&v(r, c), w.data() + Offset) << "\n";
  }
}
template <typename T, typename P>
void dump_strided_coalesced(const std::size_t stride) {
  int buf[128] = {};
  auto v = map_strided<T>(&buf[1], static_cast<typename P::size_type>(stride));
  constexpr P p{};
  if constexpr (P::arity == 1) {
    for (us k = 0; k != p.size(0); ++k)
      std::cout << "sco " << stride << " " << Desc<P>::str() << " ; " << k << " = "
                << off(&v[k], &buf[1]) << "\n";
  } else {
    for (us r = 0; r != p.size(0); ++r)
      for (us c = 0; c != p.size(1); ++c)
        std::cout << "sco " << stride << " " << Desc<P>::str() << " ; " << r << " "
                  << c << " = " << off(&v(r, c), &buf[1]) << "\n";
  }
}
template <typename T, typename P>
void dump_coalesced() {
  // pointer table: a fixed permutation with gaps; the view must select ptrs[getIndex]
  int buf[128] = {};
  constexpr P p{};
  constexpr auto n = p.size();
  std::array<int*, n> ptrs;
  for (std::size_t k = 0; k != n; ++k) ptrs[k] = &buf[(7 * k + 3) % 101];
  auto v = map<T>(ptrs);
  if constexpr (P::arity == 1) {
    for (us k = 0; k != n; ++k) {
      long which = -1;
      for (std::size_t q = 0; q != n; ++q)
        if (&v[k] == ptrs[q]) which = static_cast<long>(q);
      std::cout << "idx " << Desc<P>::str() << " ; " << k << " = " << which << "\n";
    }
  } else {
    for (us r = 0; r != p.size(0); ++r)
      for (us c = 0; c != p.size(1); ++c) {
        long which = -1;
        for (std::size_t q = 0; q != n; ++q)
          if (&v(r, c) == ptrs[q]) which = static_cast<long>(q);
        std::cout << "idx " << Desc<P>::str() << " ; " << r << " " << c << " = "
                  << which << "\n";
      }
  }
}

// ---- views on a derivative block of a tiny matrix (tmatrix.ixx map_derivative / map_derivative_strided): the
// block of d(function component r)/d(variable component c) placed at (I, J) is the matrix cell (I + r, J + c)
template <typename D>
const double* dcell(D&& d, const us r, const us c, const bool fs, const bool vs) {
  if constexpr (std::is_arithmetic_v<std::remove_cvref_t<D>>) {
    return &d;
  } else if constexpr (std::remove_cvref_t<D>::indexing_policy::arity == 1) {
    return &d(fs ? c : r);
  } else {
    return &d(r, c);
  }
}
template <us N, us M, us I, us J, typename F, typename V>
void dump_derivative_views() {
  constexpr us R = tfel::math::internals::getStridedDerivativeSubBlockExtent<F>();
  constexpr us C = tfel::math::internals::getStridedDerivativeSubBlockExtent<V>();
  constexpr bool fs = isScalar<F>(), vs = isScalar<V>();
  tmatrix<N, M, double> m(0);
  auto&& d1 = map_derivative<I, J, F, V>(m);
  auto&& d2 = map_derivative<F, V>(m, I, J);
  for (us r = 0; r != R; ++r)
    for (us c = 0; c != C; ++c) {
      std::cout << "dsub " << M << " " << I << " " << J << " ; " << r << " " << c << " = "
                << off(dcell(d1, r, c, fs, vs), static_cast<const double*>(m.data())) << "\n";
      std::cout << "dsub " << M << " " << I << " " << J << " ; " << r << " " << c << " = "
                << off(dcell(d2, r, c, fs, vs), static_cast<const double*>(m.data())) << "\n";
    }
  double buf[256] = {};
  for (std::size_t stride = 1; stride <= 3; stride += 2) {
    auto&& s1 = map_derivative_strided<I, J, F, V, N, M>(buf, stride);
    auto&& s2 = map_derivative_strided<F, V, N, M>(buf, stride, I, J);
    for (us r = 0; r != R; ++r)
      for (us c = 0; c != C; ++c) {
        std::cout << "dsco " << stride << " M " << N << " " << M << " " << M << " ; " << I + r << " "
                  << J + c << " = " << off(dcell(s1, r, c, fs, vs), static_cast<const double*>(buf)) << "\n";
        std::cout << "dsco " << stride << " M " << N << " " << M << " " << M << " ; " << I + r << " "
                  << J + c << " = " << off(dcell(s2, r, c, fs, vs), static_cast<const double*>(buf)) << "\n";
      }
  }
}
//! compile time / run time compatibility of two indexing policies: equal arity and equal extents
template <typename P1, typename P2>
void dump_compat() {
  std::cout << "compat " << Desc<P1>::str() << " | " << Desc<P2>::str() << " = "
            << (checkIndexingPoliciesCompatiblity<P1, P2>() ? 1 : 0) << "\n";
}
//! const access and array-index access of the (strided) coalesced views
template <typename T, typename P>
void dump_coalesced_const_access(const std::size_t stride) {
  int buf[128] = {};
  auto v = map_strided<T>(&buf[1], static_cast<typename P::size_type>(stride));
  auto cv = map_strided<const T>(static_cast<const int*>(&buf[1]), static_cast<typename P::size_type>(stride));
  const auto& v2 = v;
  constexpr P p{};
  using size_type = typename decltype(v)::size_type;
  if constexpr (P::arity == 1) {
    for (us k = 0; k != p.size(0); ++k) {
      const std::array<size_type, 1> a{k};
      for (const long o : {off(&v2[k], &buf[1]), off(&v2(k), &buf[1]), off(&v(a), &buf[1]), off(&v2(a), &buf[1]),
                           off(&cv[k], &buf[1]), off(&cv(k), &buf[1])})
        std::cout << "csco " << stride << " " << Desc<P>::str() << " ; " << k << " = " << o << "\n";
    }
  } else {
    for (us r = 0; r != p.size(0); ++r)
      for (us c = 0; c != p.size(1); ++c) {
        const std::array<size_type, 2> a{r, c};
        for (const long o : {off(&v2(r, c), &buf[1]), off(&v(a), &buf[1]), off(&v2(a), &buf[1]), off(&cv(r, c), &buf[1])})
          std::cout << "csco " << stride << " " << Desc<P>::str() << " ; " << r << " " << c << " = " << o << "\n";
      }
  }
}

#ifndef C17_PART
#define C17_PART 0
#endif

int main() {
#if C17_PART == 0 || C17_PART == 1
  // fixed size vectors N = 1..6, stride 1..4; matrices N, M = 1..6, stride M, M+1, M+3
  dump_vecs(std::make_integer_sequence<us, 6>());
  dump_mats(std::make_integer_sequence<us, 6>());
  // runtime policies (same model terms: vec n 1, mat r c c)
  for (std::size_t n = 0; n <= 6; ++n) {
    const RuntimeVectorIndexingPolicy p(n);
    const auto d = "V " + std::to_string(n) + " 1";
    std::cout << "size " << d << " = " << p.size() << "\n";
    std::cout << "min " << d << " = " << p.getUnderlyingArrayMinimalSize() << "\n";
    for (std::size_t i = 0; i != n; ++i) {
      std::cout << "idx " << d << " ; " << i << " = " << p.getIndex(i) << "\n";
      std::cout << "idxa " << d << " ; " << i << " = "
                << p.getIndex(std::array<std::size_t, 1>{i}) << "\n";
    }
  }
  for (std::size_t r = 0; r <= 6; ++r)
    for (std::size_t c = 0; c <= 6; ++c) {
      const RuntimeRowMajorMatrixIndexingPolicy p(r, c);
      const auto d = "M " + std::to_string(r) + " " + std::to_string(c) + " " +
                     std::to_string(c);
      std::cout << "size " << d << " = " << p.size() << "\n";
      std::cout << "min " << d << " = " << p.getUnderlyingArrayMinimalSize() << "\n";
      for (std::size_t i = 0; i != r; ++i)
        for (std::size_t j = 0; j != c; ++j) {
          std::cout << "idx " << d << " ; " << i << " " << j << " = "
                    << p.getIndex(i, j) << "\n";
          std::cout << "idxa " << d << " ; " << i << " " << j << " = "
                    << p.getIndex(std::array<std::size_t, 2>{i, j}) << "\n";
        }
    }
  // cartesian products (arity 0..4), default and larger strides; nested products (arity 3..5)
  dump_pairs<B0, B1, B2, B3, B4, B5>();
  dump_pair<B6, B7>();
  dump_pair<B7, B6>();
  dump_pair<B7, B7>();
  using N1 = FixedSizeIndexingPoliciesCartesianProduct<B2, B1>;
  using N2 = FixedSizeIndexingPoliciesCartesianProduct<B1, B4, 12>;
  dump_pair<N1, B1>();
  dump_pair<B1, N2>();
  dump_pair<N1, N2>();
  dump_pair<N2, B0>();
  dump_pair<B0, N1>();
#endif
#if C17_PART == 0 || C17_PART == 2
  // the policies of the library's own objects
  dump_policy<typename tvector<3, int>::indexing_policy>();
  dump_policy<typename tmatrix<2, 3, int>::indexing_policy>();
  dump_policy<typename stensor<1, int>::indexing_policy>();
  dump_policy<typename stensor<2, int>::indexing_policy>();
  dump_policy<typename stensor<3, int>::indexing_policy>();
  // views of tmatrix: every row/column view, every slice, every submatrix
  dump_tmatrix_views<1, 1>();
  dump_tmatrix_views<2, 3>();
  dump_tmatrix_views<3, 2>();
  dump_tmatrix_views<3, 3>();
  dump_tmatrix_views<4, 4>();
  // derivative views: the four scalar/tensor specialisations, static and run time positions, plain and strided
  dump_derivative_views<4, 5, 1, 2, tvector<2, double>, tvector<3, double>>();
  dump_derivative_views<4, 5, 1, 3, stensor<1u, double>, tvector<2, double>>();
  dump_derivative_views<4, 5, 3, 1, double, tvector<3, double>>();
  dump_derivative_views<4, 5, 0, 2, double, stensor<1u, double>>();
  dump_derivative_views<4, 5, 1, 4, stensor<1u, double>, double>();
  dump_derivative_views<5, 4, 2, 1, tvector<3, double>, double>();
  dump_derivative_views<4, 5, 2, 4, double, double>();
  dump_derivative_views<3, 3, 2, 1, double, double>();
#endif
#if C17_PART == 0 || C17_PART == 3
  // strided views on raw memory
  dump_strided_views<1>(std::make_integer_sequence<us, 4>());
  dump_strided_views<3>(std::make_integer_sequence<us, 4>());
  dump_strided_views<6>(std::make_integer_sequence<us, 4>());
  // arrays of views
  dump_views_array<3, 2, 0, 2>();
  dump_views_array<3, 2, 1, 3>();
  dump_views_array<4, 3, 2, 5>();
  dump_views_array<6, 6, 0, 6>();
  dump_views_array_st<3, 1, 0, 3>();
  dump_views_array_st<3, 2, 1, 6>();
  dump_views_array_st<2, 3, 2, 7>();
  dump_views_array_mat<3, 2, 3, 0, 6>();
  dump_views_array_mat<2, 3, 2, 1, 9>();
  // coalesced and strided coalesced views
  for (std::size_t s = 1; s <= 6; ++s) {
    dump_strided_coalesced<tvector<3, int>, typename tvector<3, int>::indexing_policy>(s);
    dump_strided_coalesced<stensor<2, int>, typename stensor<2, int>::indexing_policy>(s);
    dump_strided_coalesced<stensor<3, int>, typename stensor<3, int>::indexing_policy>(s);
    dump_strided_coalesced<tmatrix<2, 3, int>, typename tmatrix<2, 3, int>::indexing_policy>(s);
  }
  for (std::size_t s = 1; s <= 4; ++s) {
    dump_coalesced_const_access<tvector<3, int>, typename tvector<3, int>::indexing_policy>(s);
    dump_coalesced_const_access<tmatrix<2, 3, int>, typename tmatrix<2, 3, int>::indexing_policy>(s);
  }
  {
    // compatibility of indexing policies (static_asserts of View, isAssignableTo between views)
    using V2 = FixedSizeVectorIndexingPolicy<us, 2>;
    using V3 = FixedSizeVectorIndexingPolicy<us, 3>;
    using V3s = FixedSizeVectorIndexingPolicy<us, 3, 2>;
    using M23 = FixedSizeRowMajorMatrixIndexingPolicy<us, 2, 3>;
    using M32 = FixedSizeRowMajorMatrixIndexingPolicy<us, 3, 2>;
    using M23s = FixedSizeRowMajorMatrixIndexingPolicy<us, 2, 3, 5>;
    using M22 = FixedSizeRowMajorMatrixIndexingPolicy<us, 2, 2>;
    dump_compat<V2, V3>(); dump_compat<V3, V2>(); dump_compat<V3, V3s>(); dump_compat<V3s, V3>(); dump_compat<V3, V3>();
    dump_compat<M23, M32>(); dump_compat<M32, M23>(); dump_compat<M23, M23s>(); dump_compat<M23, M22>();
    dump_compat<M22, M23>(); dump_compat<M23, V3>(); dump_compat<V2, M22>(); dump_compat<M32, M22>(); dump_compat<M22, M32>();
    for (std::size_t a = 1; a <= 3; ++a)
      for (std::size_t b = 1; b <= 3; ++b) {
        std::cout << "rcompat V " << a << " 1 | V " << b << " 1 = "
                  << (areIndexingPoliciesCompatibleAtRunTime(RuntimeVectorIndexingPolicy(a), RuntimeVectorIndexingPolicy(b)) ? 1 : 0) << "\n";
        std::cout << "rcompat V " << a << " 1 | V 3 1 = "
                  << (areIndexingPoliciesCompatibleAtRunTime(RuntimeVectorIndexingPolicy(a), V3()) ? 1 : 0) << "\n";
        std::cout << "rcompat V 2 1 | V " << b << " 1 = "
                  << (areIndexingPoliciesCompatibleAtRunTime(V2(), RuntimeVectorIndexingPolicy(b)) ? 1 : 0) << "\n";
      }
  }
  {
    // clamp (ArrayCommonMethods.ixx): every component becomes min(max(x, lo), hi); cells outside a view are kept
    const int vals[8] = {-7, -2, 0, 3, 5, 8, 11, 4};
    tvector<8, int> v;
    for (us i = 0; i != 8; ++i) v[i] = vals[i];
    v.clamp(-2, 5);
    for (us i = 0; i != 8; ++i) std::cout << "clamp -2 5 " << vals[i] << " = " << v[i] << "\n";
    tmatrix<2, 3, int> m;
    for (us i = 0; i != 2; ++i)
      for (us j = 0; j != 3; ++j) m(i, j) = vals[3 * i + j + 1];
    m.clamp(0, 8);
    for (us i = 0; i != 2; ++i)
      for (us j = 0; j != 3; ++j) std::cout << "clamp 0 8 " << vals[3 * i + j + 1] << " = " << m(i, j) << "\n";
    int buf[8];
    for (us i = 0; i != 8; ++i) buf[i] = vals[i];
    auto a = map<tvector<3, int>, FixedSizeVectorIndexingPolicy<us, 3, 3>>(buf + 1);
    a.clamp(1, 4);
    for (us i = 0; i != 8; ++i)
      std::cout << (i % 3 == 1 ? "clamp 1 4 " : "keep ") << vals[i] << " = " << buf[i] << "\n";
  }
  dump_coalesced<tvector<4, int>, typename tvector<4, int>::indexing_policy>();
  dump_coalesced<stensor<2, int>, typename stensor<2, int>::indexing_policy>();
  dump_coalesced<stensor<3, int>, typename stensor<3, int>::indexing_policy>();
  dump_coalesced<tmatrix<3, 2, int>, typename tmatrix<3, 2, int>::indexing_policy>();
#endif
  return 0;
}
