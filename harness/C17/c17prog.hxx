/*! helpers of the generated C17 programs (checks/c17gen.py) */
#ifndef VERIF_C17PROG_HXX
#define VERIF_C17PROG_HXX
#include "tracehelp.hxx"
#include "TFEL/Math/General/BasicOperations.hxx"
#include "TFEL/Math/General/UnaryResultType.hxx"
namespace tfel::math {
  //! unary minus on the recording scalar (missing from symtrace/glue.hxx, which is shared: added here)
  template <>
  struct ComputeUnaryOperationResult<ScalarTag, UnaryOperatorTag, verif::Sym, OpNeg> {
    using type = verif::Sym;
  };
}  // namespace tfel::math
namespace c17 {
  //! matrix storage: inputs named p<i*M+j> (row major logical order)
  template <typename T>
  void fill2(T& t, const std::string& p, const int n, const int m) {
    for (int i = 0; i != n; ++i)
      for (int j = 0; j != m; ++j)
        t(i, j) = verif::make_input(p + std::to_string(i * m + j),
                                    verif::shadow_value(p, i * m + j));
  }
  template <typename T>
  void out1(const std::string& p, const T& t, const int n) {
    for (int i = 0; i != n; ++i) verif::output(p + std::to_string(i), verif::Sym(t[i]));
  }
  template <typename T>
  void out2(const std::string& p, const T& t, const int n, const int m) {
    for (int i = 0; i != n; ++i)
      for (int j = 0; j != m; ++j)
        verif::output(p + std::to_string(i * m + j), verif::Sym(t(i, j)));
  }
}  // namespace c17
#endif
