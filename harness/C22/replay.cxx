// C22 replay on the REAL double-precision code: second derivative returned by a criterion against central finite
// differences of its own normal, and normal against finite differences of its own value.
// usage: replay <crit: Dr|C4i|C1|C4o> <N> <c> <s0..s(S-1)> [a0..a5 b0..b10]
#include <cmath>
#include <cstdlib>
#include <iostream>
#include <string>
#include <vector>
#include "TFEL/Math/stensor.hxx"
#include "TFEL/Math/st2tost2.hxx"
#include "TFEL/Material/IsotropicPlasticity.hxx"
#include "TFEL/Material/OrthotropicPlasticity.hxx"
#include "TFEL/Material/Drucker1949YieldCriterion.hxx"
#include "TFEL/Material/Cazacu2001YieldCriterion.hxx"
#include "TFEL/Material/Cazacu2004IsotropicYieldCriterion.hxx"
#include "TFEL/Material/Cazacu2004OrthotropicYieldCriterion.hxx"
using namespace tfel::math;
using namespace tfel::material;

template <unsigned short N>
int run(const std::string& crit, const double c, const std::vector<double>& v) {
  using S = stensor<N, double>;
  constexpr int n = StensorDimeToSize<N>::value;
  S sig;
  for (int i = 0; i != n; ++i) sig[i] = v[i];
  J2OCoefficients<S> a;
  J3OCoefficients<S> b;
  for (int i = 0; i != 6; ++i) a[i] = v.size() >= std::size_t(n + 17) ? v[n + i] : 1.;
  for (int i = 0; i != 11; ++i) b[i] = v.size() >= std::size_t(n + 17) ? v[n + 6 + i] : 1.;
  const double seps = 1e-14;
  auto second = [&](const S& s) {
    if (crit == "Dr") return computeDrucker1949StressCriterionSecondDerivative(s, c, seps);
    if (crit == "C4i") return computeCazacu2004IsotropicStressCriterionSecondDerivative(s, c, seps);
    if (crit == "C1") return computeCazacu2001StressCriterionSecondDerivative(s, a, b, c, seps);
    return computeCazacu2004OrthotropicStressCriterionSecondDerivative(s, a, b, c, seps);
  };
  const auto r = second(sig);
  const auto& nrm = std::get<1>(r);
  const auto& dn = std::get<2>(r);
  double e1 = 0, e2 = 0;
  int bi = 0, bj = 0;
  double bfd = 0, bdn = 0;
  for (int j = 0; j != n; ++j) {
    const double h = 1e-6 * std::max(1., std::abs(sig[j]));
    S sp = sig, sm = sig;
    sp[j] += h;
    sm[j] -= h;
    const auto rp = second(sp), rm = second(sm);
    e1 = std::max(e1, std::abs((std::get<0>(rp) - std::get<0>(rm)) / (2 * h) - nrm[j]));
    for (int i = 0; i != n; ++i) {
      const double fd = (std::get<1>(rp)[i] - std::get<1>(rm)[i]) / (2 * h);
      if (std::abs(fd - dn(i, j)) > e2) {
        e2 = std::abs(fd - dn(i, j));
        bi = i; bj = j; bfd = fd; bdn = dn(i, j);
      }
    }
  }
  std::cout.precision(12);
  std::cout << "seq " << std::get<0>(r) << " max|normal-FD(value)| " << e1 << " max|second-FD(normal)| " << e2
            << " at (" << bi << "," << bj << "): returned " << bdn << " finite-difference " << bfd << "\n";
  return 0;
}

int main(const int argc, const char* const* argv) {
  if (argc < 5) return 2;
  const std::string crit = argv[1];
  const int N = std::atoi(argv[2]);
  const double c = std::atof(argv[3]);
  std::vector<double> v;
  for (int i = 4; i < argc; ++i) v.push_back(std::atof(argv[i]));
  if (N == 1) return run<1u>(crit, c, v);
  if (N == 2) return run<2u>(crit, c, v);
  return run<3u>(crit, c, v);
}
