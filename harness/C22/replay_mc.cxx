// C22 replay on the REAL double-precision Mohr-Coulomb code: the three variants at one stress.
// usage: replay_mc <N> <c> <angle_rad> <lodeT_rad> <a> <s0..s(S-1)>
#include <cmath>
#include <cstdlib>
#include <iostream>
#include <vector>
#include "TFEL/Math/stensor.hxx"
#include "TFEL/Math/st2tost2.hxx"
#include "TFEL/Material/MohrCoulombYieldCriterion.hxx"
using namespace tfel::math;
using namespace tfel::material;

template <unsigned short N>
int run(const char* const* a) {
  using S = stensor<N, double>;
  constexpr int n = StensorDimeToSize<N>::value;
  const MohrCoulombParameters<S> p(std::atof(a[0]), std::atof(a[1]), std::atof(a[2]), std::atof(a[3]));
  S sig;
  for (int i = 0; i != n; ++i) sig[i] = std::atof(a[4 + i]);
  const auto s = deviator(sig);
  const double J2 = (s | s) / 2, J3 = det(s);
  const double lode = std::asin(std::min(std::max(-3 * std::sqrt(3.) * J3 / (2 * J2 * std::sqrt(J2)), -1.), 1.)) / 3;
  const double F0 = computeMohrCoulombStressCriterion(p, sig);
  const auto r1 = computeMohrCoulombStressCriterionNormal(p, sig);
  const auto r2 = computeMohrCoulombStressCriterionSecondDerivative(p, sig);
  double en = 0, e1 = 0, e2 = 0;
  for (int i = 0; i != n; ++i) en = std::max(en, std::abs(std::get<1>(r1)[i] - std::get<1>(r2)[i]));
  for (int j = 0; j != n; ++j) {
    const double h = 1e-6 * std::max(1., std::abs(sig[j]));
    S sp = sig, sm = sig;
    sp[j] += h;
    sm[j] -= h;
    const auto rp = computeMohrCoulombStressCriterionNormal(p, sp), rm = computeMohrCoulombStressCriterionNormal(p, sm);
    e1 = std::max(e1, std::abs((std::get<0>(rp) - std::get<0>(rm)) / (2 * h) - std::get<1>(r1)[j]));
    for (int i = 0; i != n; ++i) {
      e2 = std::max(e2, std::abs((std::get<1>(rp)[i] - std::get<1>(rm)[i]) / (2 * h) - std::get<2>(r2)(i, j)));
    }
  }
  std::cout.precision(15);
  std::cout << "lode(deg) " << lode * 180 / M_PI << " value " << F0 << " value(normal variant) " << std::get<0>(r1)
            << " value(second-derivative variant) " << std::get<0>(r2) << " max|normal(n)-normal(s)| " << en
            << " max|normal-FD(value)| " << e1 << " max|second-FD(normal)| " << e2 << "\n";
  return 0;
}

int main(const int argc, const char* const* argv) {
  if (argc < 9) return 2;
  const int N = std::atoi(argv[1]);
  if (N == 1) return run<1u>(argv + 2);
  if (N == 2) return run<2u>(argv + 2);
  return run<3u>(argv + 2);
}
