// T1 tracer for C22: equivalent-stress criteria, value / normal / second-derivative variants.
// The REAL templates of /repo run on verif::Sym (concolic where the code branches on values).
#include "tracehelp.hxx"
#include "TFEL/Math/stensor.hxx"
#include "TFEL/Math/st2tost2.hxx"
#include "TFEL/Material/IsotropicPlasticity.hxx"
#include "TFEL/Material/OrthotropicPlasticity.hxx"
#include "TFEL/Material/Drucker1949YieldCriterion.hxx"
#include "TFEL/Material/Cazacu2001YieldCriterion.hxx"
#include "TFEL/Material/Cazacu2004IsotropicYieldCriterion.hxx"
#include "TFEL/Material/Cazacu2004OrthotropicYieldCriterion.hxx"
#include "TFEL/Material/Hosford1972YieldCriterion.hxx"
#include "TFEL/Material/Barlat2004YieldCriterion.hxx"

using namespace tfel::math;
using namespace tfel::material;
using verif::Sym;
using verif::Unit;

struct Concolic {
  Concolic() { verif::ctx().concolic = true; }
  ~Concolic() { verif::ctx().concolic = false; }
};

// generic (non degenerate) default stress: shadows overridable through VERIF_SHADOW
template <unsigned short N>
static stensor<N, Sym> stress() {
  static const double v[6] = {1.25, -0.5, 0.375, 0.625, -0.25, 0.75};
  stensor<N, Sym> s;
  for (int i = 0; i != StensorDimeToSize<N>::value; ++i) {
    s[i] = verif::scalar_input("s" + std::to_string(i), v[i]);
  }
  return s;
}

template <unsigned short N, typename T>
static void out_normal(const T& n) {
  verif::outputs("n", n, StensorDimeToSize<N>::value);
}
template <unsigned short N, typename T>
static void out_second(const T& d) {
  verif::outputs2("d", d, StensorDimeToSize<N>::value, StensorDimeToSize<N>::value);
}

template <unsigned short N>
static void trace_dim(const bool orthotropic) {
  using S = stensor<N, Sym>;
  const std::string d = "_N" + std::to_string(N);
  {
    Unit u("Mises" + d);
    const S s = stress<N>();
    verif::output("r", sigmaeq(s));
  }
  // ---- Drucker 1949
  {
    Unit u("Dr" + d + "_v");
    const S s = stress<N>();
    const Sym c = verif::scalar_input("cc", 1.5);
    verif::output("r", computeDrucker1949StressCriterion(s, c));
  }
  {
    Unit u("Dr" + d + "_n");
    Concolic cc;
    const S s = stress<N>();
    const Sym c = verif::scalar_input("cc", 1.5), seps = verif::scalar_input("seps", 1e-12);
    const auto r = computeDrucker1949StressCriterionNormal(s, c, seps);
    verif::output("r", std::get<0>(r));
    out_normal<N>(std::get<1>(r));
  }
  {
    Unit u("Dr" + d + "_s");
    Concolic cc;
    const S s = stress<N>();
    const Sym c = verif::scalar_input("cc", 1.5), seps = verif::scalar_input("seps", 1e-12);
    const auto r = computeDrucker1949StressCriterionSecondDerivative(s, c, seps);
    verif::output("r", std::get<0>(r));
    out_normal<N>(std::get<1>(r));
    out_second<N>(std::get<2>(r));
  }
  // ---- Cazacu 2004, isotropic
  {
    Unit u("C4i" + d + "_v");
    const S s = stress<N>();
    const Sym c = verif::scalar_input("cc", 0.5);
    verif::output("r", computeCazacu2004IsotropicStressCriterion(s, c));
  }
  {
    Unit u("C4i" + d + "_n");
    Concolic cc;
    const S s = stress<N>();
    const Sym c = verif::scalar_input("cc", 0.5), seps = verif::scalar_input("seps", 1e-12);
    const auto r = computeCazacu2004IsotropicStressCriterionNormal(s, c, seps);
    verif::output("r", std::get<0>(r));
    out_normal<N>(std::get<1>(r));
  }
  {
    Unit u("C4i" + d + "_s");
    Concolic cc;
    const S s = stress<N>();
    const Sym c = verif::scalar_input("cc", 0.5), seps = verif::scalar_input("seps", 1e-12);
    const auto r = computeCazacu2004IsotropicStressCriterionSecondDerivative(s, c, seps);
    verif::output("r", std::get<0>(r));
    out_normal<N>(std::get<1>(r));
    out_second<N>(std::get<2>(r));
  }
  if (!orthotropic) return;
  // ---- Cazacu 2001 / 2004, orthotropic invariants J2O(a), J3O(b)
  auto coefs = [](J2OCoefficients<S>& a, J3OCoefficients<S>& b) {
    for (int i = 0; i != 6; ++i) a[i] = verif::scalar_input("a" + std::to_string(i), 1. + 0.125 * i);
    for (int i = 0; i != 11; ++i) b[i] = verif::scalar_input("b" + std::to_string(i), 1. - 0.0625 * i);
  };
  {
    Unit u("C1" + d + "_v");
    const S s = stress<N>();
    J2OCoefficients<S> a;
    J3OCoefficients<S> b;
    coefs(a, b);
    const Sym c = verif::scalar_input("cc", 1.5);
    verif::output("r", computeCazacu2001StressCriterion(s, a, b, c));
  }
  {
    Unit u("C1" + d + "_n");
    Concolic cc;
    const S s = stress<N>();
    J2OCoefficients<S> a;
    J3OCoefficients<S> b;
    coefs(a, b);
    const Sym c = verif::scalar_input("cc", 1.5), seps = verif::scalar_input("seps", 1e-12);
    const auto r = computeCazacu2001StressCriterionNormal(s, a, b, c, seps);
    verif::output("r", std::get<0>(r));
    out_normal<N>(std::get<1>(r));
  }
  {
    Unit u("C1" + d + "_s");
    Concolic cc;
    const S s = stress<N>();
    J2OCoefficients<S> a;
    J3OCoefficients<S> b;
    coefs(a, b);
    const Sym c = verif::scalar_input("cc", 1.5), seps = verif::scalar_input("seps", 1e-12);
    const auto r = computeCazacu2001StressCriterionSecondDerivative(s, a, b, c, seps);
    verif::output("r", std::get<0>(r));
    out_normal<N>(std::get<1>(r));
    out_second<N>(std::get<2>(r));
  }
  {
    Unit u("C4o" + d + "_v");
    const S s = stress<N>();
    J2OCoefficients<S> a;
    J3OCoefficients<S> b;
    coefs(a, b);
    const Sym c = verif::scalar_input("cc", 0.5);
    verif::output("r", computeCazacu2004OrthotropicStressCriterion(s, a, b, c));
  }
  {
    Unit u("C4o" + d + "_n");
    Concolic cc;
    const S s = stress<N>();
    J2OCoefficients<S> a;
    J3OCoefficients<S> b;
    coefs(a, b);
    const Sym c = verif::scalar_input("cc", 0.5), seps = verif::scalar_input("seps", 1e-12);
    const auto r = computeCazacu2004OrthotropicStressCriterionNormal(s, a, b, c, seps);
    verif::output("r", std::get<0>(r));
    out_normal<N>(std::get<1>(r));
  }
  {
    Unit u("C4o" + d + "_s");
    Concolic cc;
    const S s = stress<N>();
    J2OCoefficients<S> a;
    J3OCoefficients<S> b;
    coefs(a, b);
    const Sym c = verif::scalar_input("cc", 0.5), seps = verif::scalar_input("seps", 1e-12);
    const auto r = computeCazacu2004OrthotropicStressCriterionSecondDerivative(s, a, b, c, seps);
    verif::output("r", std::get<0>(r));
    out_normal<N>(std::get<1>(r));
    out_second<N>(std::get<2>(r));
  }
}

int main() {
  trace_dim<1u>(true);
  trace_dim<2u>(true);
  trace_dim<3u>(false);
  // ---- eigenvalue based criteria: in 1D the eigenvalues are the stored components (no eigen solver)
  using S1 = stensor<1u, Sym>;
  {
    Unit u("Ho_N1_v");
    Concolic cc;
    const S1 s = stress<1u>();
    const Sym a = verif::scalar_input("a", 6.), e = verif::scalar_input("e", 1e-12);
    verif::output("r", computeHosfordStress(s, a, e));
  }
  {
    Unit u("Ho_N1_n");
    Concolic cc;
    const S1 s = stress<1u>();
    const Sym a = verif::scalar_input("a", 6.), e = verif::scalar_input("e", 1e-12);
    const auto r = computeHosfordStressNormal(s, a, e);
    verif::output("r", std::get<0>(r));
    out_normal<1u>(std::get<1>(r));
  }
  {
    Unit u("Ho_N1_s");
    Concolic cc;
    const S1 s = stress<1u>();
    const Sym a = verif::scalar_input("a", 6.), e = verif::scalar_input("e", 1e-12);
    const auto r = computeHosfordStressSecondDerivative(s, a, e);
    verif::output("r", std::get<0>(r));
    out_normal<1u>(std::get<1>(r));
    out_second<1u>(std::get<2>(r));
  }
  {
    // Hosford exponent 2 (integer): the von Mises stress
    Unit u("Ho2_N1_v");
    Concolic cc;
    const S1 s = stress<1u>();
    const Sym e = verif::scalar_input("e", 1e-12);
    verif::output("r", computeHosfordStress(s, 2, e));
  }
  {
    // Barlat 2004 with all coefficients equal to one
    Unit u("Ba_N1_v");
    Concolic cc;
    const S1 s = stress<1u>();
    const Sym a = verif::scalar_input("a", 6.), e = verif::scalar_input("e", 1e-12);
    const Sym one(1);
    const auto l1 = makeBarlatLinearTransformation<1u, Sym>(one, one, one, one, one, one, one, one, one);
    const auto l2 = makeBarlatLinearTransformation<1u, Sym>(one, one, one, one, one, one, one, one, one);
    verif::output("r", computeBarlatStress(s, l1, l2, a, e));
  }
  return 0;
}
