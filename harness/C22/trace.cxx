// T1 tracer for C22: equivalent-stress criteria, value / normal / second-derivative variants.
// The REAL templates of /repo run on verif::Sym (concolic where the code branches on values).
#include "tracehelp.hxx"
#include "TFEL/Math/stensor.hxx"
#include "TFEL/Math/st2tost2.hxx"
#include "TFEL/Material/IsotropicPlasticity.hxx"
#include "TFEL/Material/OrthotropicPlasticity.hxx"
#include "TFEL/Material/Drucker1949YieldCriterion.hxx"
#include "TFEL/Material/Cazacu2001YieldCriterion.hxx"
#include "TFEL/Material/Cazacu2004IsotropicYieldCriterion.hxx"
#include "TFEL/Material/Cazacu2004OrthotropicYieldCriterion.hxx"
#include "TFEL/Material/Hosford1972YieldCriterion.hxx"
#include "TFEL/Material/Barlat2004YieldCriterion.hxx"
#include "TFEL/Material/MohrCoulombYieldCriterion.hxx"

using namespace tfel::math;
using namespace tfel::material;
using verif::Sym;
using verif::Unit;

struct Concolic {
  Concolic() { verif::ctx().concolic = true; }
  ~Concolic() { verif::ctx().concolic = false; }
};

// generic (non degenerate) default stress: shadows overridable through VERIF_SHADOW
template <unsigned short N>
static stensor<N, Sym> stress() {
  static const double v[6] = {1.25, -0.5, 0.375, 0.625, -0.25, 0.75};
  stensor<N, Sym> s;
  for (int i = 0; i != StensorDimeToSize<N>::value; ++i) {
    s[i] = verif::scalar_input("s" + std::to_string(i), v[i]);
  }
  return s;
}

template <unsigned short N, typename T>
static void out_normal(const T& n) {
  verif::outputs("n", n, StensorDimeToSize<N>::value);
}
template <unsigned short N, typename T>
static void out_second(const T& d) {
  verif::outputs2("d", d, StensorDimeToSize<N>::value, StensorDimeToSize<N>::value);
}

template <unsigned short N>
static void trace_dim(const bool orthotropic) {
  using S = stensor<N, Sym>;
  const std::string d = "_N" + std::to_string(N);
  {
    Unit u("Mises" + d);
    const S s = stress<N>();
    verif::output("r", sigmaeq(s));
  }
  // ---- Drucker 1949
  {
    Unit u("Dr" + d + "_v");
    const S s = stress<N>();
    const Sym c = verif::scalar_input("cc", 1.5);
    verif::output("r", computeDrucker1949StressCriterion(s, c));
  }
  {
    Unit u("Dr" + d + "_n");
    Concolic cc;
    const S s = stress<N>();
    const Sym c = verif::scalar_input("cc", 1.5), seps = verif::scalar_input("seps", 1e-12);
    const auto r = computeDrucker1949StressCriterionNormal(s, c, seps);
    verif::output("r", std::get<0>(r));
    out_normal<N>(std::get<1>(r));
  }
  {
    Unit u("Dr" + d + "_s");
    Concolic cc;
    const S s = stress<N>();
    const Sym c = verif::scalar_input("cc", 1.5), seps = verif::scalar_input("seps", 1e-12);
    const auto r = computeDrucker1949StressCriterionSecondDerivative(s, c, seps);
    verif::output("r", std::get<0>(r));
    out_normal<N>(std::get<1>(r));
    out_second<N>(std::get<2>(r));
  }
  // ---- Cazacu 2004, isotropic
  {
    Unit u("C4i" + d + "_v");
    const S s = stress<N>();
    const Sym c = verif::scalar_input("cc", 0.5);
    verif::output("r", computeCazacu2004IsotropicStressCriterion(s, c));
  }
  {
    Unit u("C4i" + d + "_n");
    Concolic cc;
    const S s = stress<N>();
    const Sym c = verif::scalar_input("cc", 0.5), seps = verif::scalar_input("seps", 1e-12);
    const auto r = computeCazacu2004IsotropicStressCriterionNormal(s, c, seps);
    verif::output("r", std::get<0>(r));
    out_normal<N>(std::get<1>(r));
  }
  {
    Unit u("C4i" + d + "_s");
    Concolic cc;
    const S s = stress<N>();
    const Sym c = verif::scalar_input("cc", 0.5), seps = verif::scalar_input("seps", 1e-12);
    const auto r = computeCazacu2004IsotropicStressCriterionSecondDerivative(s, c, seps);
    verif::output("r", std::get<0>(r));
    out_normal<N>(std::get<1>(r));
    out_second<N>(std::get<2>(r));
  }
  if (!orthotropic) return;
  // ---- Cazacu 2001 / 2004, orthotropic invariants J2O(a), J3O(b)
  auto coefs = [](J2OCoefficients<S>& a, J3OCoefficients<S>& b) {
    for (int i = 0; i != 6; ++i) a[i] = verif::scalar_input("a" + std::to_string(i), 1. + 0.125 * i);
    for (int i = 0; i != 11; ++i) b[i] = verif::scalar_input("b" + std::to_string(i), 1. - 0.0625 * i);
  };
  {
    Unit u("C1" + d + "_v");
    const S s = stress<N>();
    J2OCoefficients<S> a;
    J3OCoefficients<S> b;
    coefs(a, b);
    const Sym c = verif::scalar_input("cc", 1.5);
    verif::output("r", computeCazacu2001StressCriterion(s, a, b, c));
  }
  {
    Unit u("C1" + d + "_n");
    Concolic cc;
    const S s = stress<N>();
    J2OCoefficients<S> a;
    J3OCoefficients<S> b;
    coefs(a, b);
    const Sym c = verif::scalar_input("cc", 1.5), seps = verif::scalar_input("seps", 1e-12);
    const auto r = computeCazacu2001StressCriterionNormal(s, a, b, c, seps);
    verif::output("r", std::get<0>(r));
    out_normal<N>(std::get<1>(r));
  }
  {
    Unit u("C1" + d + "_s");
    Concolic cc;
    const S s = stress<N>();
    J2OCoefficients<S> a;
    J3OCoefficients<S> b;
    coefs(a, b);
    const Sym c = verif::scalar_input("cc", 1.5), seps = verif::scalar_input("seps", 1e-12);
    const auto r = computeCazacu2001StressCriterionSecondDerivative(s, a, b, c, seps);
    verif::output("r", std::get<0>(r));
    out_normal<N>(std::get<1>(r));
    out_second<N>(std::get<2>(r));
  }
  {
    Unit u("C4o" + d + "_v");
    const S s = stress<N>();
    J2OCoefficients<S> a;
    J3OCoefficients<S> b;
    coefs(a, b);
    const Sym c = verif::scalar_input("cc", 0.5);
    verif::output("r", computeCazacu2004OrthotropicStressCriterion(s, a, b, c));
  }
  {
    Unit u("C4o" + d + "_n");
    Concolic cc;
    const S s = stress<N>();
    J2OCoefficients<S> a;
    J3OCoefficients<S> b;
    coefs(a, b);
    const Sym c = verif::scalar_input("cc", 0.5), seps = verif::scalar_input("seps", 1e-12);
    const auto r = computeCazacu2004OrthotropicStressCriterionNormal(s, a, b, c, seps);
    verif::output("r", std::get<0>(r));
    out_normal<N>(std::get<1>(r));
  }
  {
    Unit u("C4o" + d + "_s");
    Concolic cc;
    const S s = stress<N>();
    J2OCoefficients<S> a;
    J3OCoefficients<S> b;
    coefs(a, b);
    const Sym c = verif::scalar_input("cc", 0.5), seps = verif::scalar_input("seps", 1e-12);
    const auto r = computeCazacu2004OrthotropicStressCriterionSecondDerivative(s, a, b, c, seps);
    verif::output("r", std::get<0>(r));
    out_normal<N>(std::get<1>(r));
    out_second<N>(std::get<2>(r));
  }
}

// ---------------------------------------------------------------- Mohr-Coulomb (Abbo-Sloan rounding)
// The parameter structure is filled with independent symbols (the theorems then hold whatever the cached
// trigonometric values are); shadows: friction angle 30 deg, transition angle 25 deg.
template <unsigned short N>
static MohrCoulombParameters<stensor<N, Sym>> mc_parameters() {
  MohrCoulombParameters<stensor<N, Sym>> p;
  const double ang = 30. * M_PI / 180, lt = 25. * M_PI / 180;
  p.c = verif::scalar_input("pc", 0.75);
  p.angle = verif::scalar_input("angle", ang);
  p.lodeT = verif::scalar_input("lodeT", lt);
  p.a = verif::scalar_input("pa", 0.25);
  p.cos_angle = verif::scalar_input("cos_angle", std::cos(ang));
  p.sin_angle = verif::scalar_input("sin_angle", std::sin(ang));
  p.cos_lodeT = verif::scalar_input("cos_lodeT", std::cos(lt));
  p.sin_lodeT = verif::scalar_input("sin_lodeT", std::sin(lt));
  p.tan_lodeT = verif::scalar_input("tan_lodeT", std::tan(lt));
  p.cos_3_lodeT = verif::scalar_input("cos_3_lodeT", std::cos(3 * lt));
  p.sin_3_lodeT = verif::scalar_input("sin_3_lodeT", std::sin(3 * lt));
  p.cos_6_lodeT = verif::scalar_input("cos_6_lodeT", std::cos(6 * lt));
  p.sin_6_lodeT = verif::scalar_input("sin_6_lodeT", std::sin(6 * lt));
  p.tan_3_lodeT = verif::scalar_input("tan_3_lodeT", std::tan(3 * lt));
  return p;
}

// Lode angle (degrees) as the criterion computes it, in double precision
template <unsigned short N>
static double mc_lode(const stensor<N, double>& sig) {
  const auto s = deviator(sig);
  const double J2 = (s | s) / 2, J3 = det(s);
  return std::asin(std::min(std::max(-3 * std::sqrt(3.) * J3 / (2 * J2 * std::sqrt(J2)), -1.), 1.)) / 3 * 180 / M_PI;
}

// default stress of a region: principal stresses from a Lode parameter, rotated (in plane for N=2, generally for N=3)
template <unsigned short N>
static stensor<N, double> mc_stress(const double deg) {
  const double t = deg * M_PI / 180, k = 2 * 1.25 / std::sqrt(3.), pm = -0.5;
  const double sp[3] = {pm + k * std::sin(t + 2 * M_PI / 3), pm + k * std::sin(t), pm + k * std::sin(t - 2 * M_PI / 3)};
  const double a = N == 3 ? 1.1 : 0., b = N == 3 ? -0.7 : 0., c = N >= 2 ? 0.4 : 0.;
  const double ca = std::cos(a), sa = std::sin(a), cb = std::cos(b), sb = std::sin(b), cc = std::cos(c), sc = std::sin(c);
  const double R[3][3] = {{cc * cb, cc * sb * sa - sc * ca, cc * sb * ca + sc * sa},
                          {sc * cb, sc * sb * sa + cc * ca, sc * sb * ca - cc * sa},
                          {-sb, cb * sa, cb * ca}};
  double m[3][3];
  for (int i = 0; i != 3; ++i)
    for (int j = 0; j != 3; ++j) {
      m[i][j] = 0;
      for (int l = 0; l != 3; ++l) m[i][j] += R[i][l] * sp[l] * R[j][l];
    }
  const double s2 = std::sqrt(2.);
  const double v[6] = {m[0][0], m[1][1], m[2][2], s2 * m[0][1], s2 * m[0][2], s2 * m[1][2]};
  stensor<N, double> r;
  for (int i = 0; i != StensorDimeToSize<N>::value; ++i) r[i] = v[i];
  return r;
}

template <unsigned short N>
static void trace_mohr_coulomb() {
  using S = stensor<N, Sym>;
  constexpr int n = StensorDimeToSize<N>::value;
  // regions of the Lode angle: |lode| < lodeT, lode >= lodeT, lode <= -lodeT
  const char* const names[3] = {"MCmid", "MCpos", "MCneg"};
  for (int r = 0; r != 3; ++r) {
    stensor<N, double> sd;
    bool ok = false;
    for (const double deg : {10., 28., -28., -10.}) {
      sd = mc_stress<N>(deg);
      const double l = mc_lode<N>(sd);
      if ((r == 0 && std::abs(l) < 20) || (r == 1 && l > 26) || (r == 2 && l < -26)) {
        ok = true;
        break;
      }
    }
    if (!ok) {
      std::fprintf(stderr, "no default stress for region %s\n", names[r]);
      std::abort();
    }
    auto stress_mc = [&sd]() {
      S s;
      for (int i = 0; i != n; ++i) s[i] = verif::scalar_input("s" + std::to_string(i), sd[i]);
      return s;
    };
    const std::string d = std::string(names[r]) + "_N" + std::to_string(N);
    {
      Unit u(d + "_v");
      Concolic cc;
      const S s = stress_mc();
      const auto p = mc_parameters<N>();
      verif::output("r", computeMohrCoulombStressCriterion(p, s));
    }
    {
      Unit u(d + "_n");
      Concolic cc;
      const S s = stress_mc();
      const auto p = mc_parameters<N>();
      const auto res = computeMohrCoulombStressCriterionNormal(p, s);
      verif::output("r", std::get<0>(res));
      out_normal<N>(std::get<1>(res));
    }
    {
      Unit u(d + "_s");
      Concolic cc;
      const S s = stress_mc();
      const auto p = mc_parameters<N>();
      const auto res = computeMohrCoulombStressCriterionSecondDerivative(p, s);
      verif::output("r", std::get<0>(res));
      out_normal<N>(std::get<1>(res));
      out_second<N>(std::get<2>(res));
    }
  }
}

int main() {
  trace_mohr_coulomb<1u>();
  trace_mohr_coulomb<2u>();
  trace_mohr_coulomb<3u>();
  trace_dim<1u>(true);
  trace_dim<2u>(true);
  trace_dim<3u>(false);
  // ---- eigenvalue based criteria: in 1D the eigenvalues are the stored components (no eigen solver)
  using S1 = stensor<1u, Sym>;
  {
    Unit u("Ho_N1_v");
    Concolic cc;
    const S1 s = stress<1u>();
    const Sym a = verif::scalar_input("a", 6.), e = verif::scalar_input("e", 1e-12);
    verif::output("r", computeHosfordStress(s, a, e));
  }
  {
    Unit u("Ho_N1_n");
    Concolic cc;
    const S1 s = stress<1u>();
    const Sym a = verif::scalar_input("a", 6.), e = verif::scalar_input("e", 1e-12);
    const auto r = computeHosfordStressNormal(s, a, e);
    verif::output("r", std::get<0>(r));
    out_normal<1u>(std::get<1>(r));
  }
  {
    Unit u("Ho_N1_s");
    Concolic cc;
    const S1 s = stress<1u>();
    const Sym a = verif::scalar_input("a", 6.), e = verif::scalar_input("e", 1e-12);
    const auto r = computeHosfordStressSecondDerivative(s, a, e);
    verif::output("r", std::get<0>(r));
    out_normal<1u>(std::get<1>(r));
    out_second<1u>(std::get<2>(r));
  }
  {
    // Hosford exponent 2 (integer): the von Mises stress
    Unit u("Ho2_N1_v");
    Concolic cc;
    const S1 s = stress<1u>();
    const Sym e = verif::scalar_input("e", 1e-12);
    verif::output("r", computeHosfordStress(s, 2, e));
  }
  {
    // Barlat 2004 with all coefficients equal to one
    Unit u("Ba_N1_v");
    Concolic cc;
    const S1 s = stress<1u>();
    const Sym a = verif::scalar_input("a", 6.), e = verif::scalar_input("e", 1e-12);
    const Sym one(1);
    const auto l1 = makeBarlatLinearTransformation<1u, Sym>(one, one, one, one, one, one, one, one, one);
    const auto l2 = makeBarlatLinearTransformation<1u, Sym>(one, one, one, one, one, one, one, one, one);
    verif::output("r", computeBarlatStress(s, l1, l2, a, e));
  }
  return 0;
}
