// C22 finite-difference / invariance harness on the REAL double-precision criteria (mutation audit 2026-09-22).
// Covers what the symbolic tracer does not reach: eigen-solver based criteria in 2D/3D (Hosford, Barlat), the
// derivatives of Mohr-Coulomb, the porous criteria with their inner Newton loops (Gurson-Tvergaard-Needleman,
// Rousselier-Tanguy-Besson, Michel-Suquet), the orthotropic Cazacu criteria in 3D, the Hill tensors.
//
// input lines : <id> <crit> <N> <np> p_1 .. p_np  s_0 .. s_(S-1)
// output lines: <id> <crit> <N> key=value ...        (python applies the tolerances, see checks/C22.py)
//   vdiff  max relative difference between the equivalent stress returned by the three variants
//   ndiff  max |normal(second-derivative variant) - normal(normal variant)|
//   nfd    max_j |n_j - d(value)/d s_j|            4th order central differences, step 1e-3 |s|_max
//   dfd    max_ij |d_ij - d n_i/d s_j| * |s|_max   idem on the normal variant
//   homog  |value(2.5 s) - 2.5 value(s)| / |value|  (degree-one homogeneous criteria only)
//   iso    |value(R s R^T) - value(s)| / |value|    (isotropic criteria only; fixed rotation, in plane for N = 2)
//   porous: fdf = |dseq/df - FD_f(value)|/scale, ndf = max |dn/df - FD_f(n)|/scale, and the same agreement
//           of value / normal / dseq_df between the Normal and SecondDerivative variants (pdiff)
//   hosford: ho2 = |Hosford(a = 2) - von Mises| / |.| ; barlat with unit coefficients: bh = |Barlat - Hosford| / |.|
//   hill: hq = |s:H:s - (F(s11-s22)^2+G(s22-s33)^2+H(s33-s11)^2+2L s12^2+2M s13^2+2N s23^2)|/|.|, hsym, hconv
#include <cmath>
#include <cstdio>
#include <functional>
#include <iostream>
#include <sstream>
#include <string>
#include <tuple>
#include <vector>
#include "TFEL/Math/stensor.hxx"
#include "TFEL/Math/st2tost2.hxx"
#include "TFEL/Material/IsotropicPlasticity.hxx"
#include "TFEL/Material/OrthotropicPlasticity.hxx"
#include "TFEL/Material/Hill.hxx"
#include "TFEL/Material/Drucker1949YieldCriterion.hxx"
#include "TFEL/Material/Cazacu2001YieldCriterion.hxx"
#include "TFEL/Material/Cazacu2004IsotropicYieldCriterion.hxx"
#include "TFEL/Material/Cazacu2004OrthotropicYieldCriterion.hxx"
#include "TFEL/Material/Hosford1972YieldCriterion.hxx"
#include "TFEL/Material/Barlat2004YieldCriterion.hxx"
#include "TFEL/Material/MohrCoulombYieldCriterion.hxx"
#include "TFEL/Material/GursonTvergaardNeedleman1982StressCriterion.hxx"
#include "TFEL/Material/RousselierTanguyBesson2002StressCriterion.hxx"
#include "TFEL/Material/MichelAndSuquet1992HollowSphereStressCriterion.hxx"

using namespace tfel::math;
using namespace tfel::material;

template <unsigned short N>
struct Dim {
  using S = stensor<N, double>;
  using S4 = st2tost2<N, double>;
  static constexpr int n = StensorDimeToSize<N>::value;

  struct Crit {
    std::function<double(const S&)> value;
    std::function<std::tuple<double, S>(const S&)> normal;
    std::function<std::tuple<double, S, S4>(const S&)> second;
    bool homogeneous = true, isotropic = false;
  };

  static double smax(const S& s) {
    double m = 0;
    for (int i = 0; i != n; ++i) m = std::max(m, std::abs(s[i]));
    return m;
  }
  //! 4th order central difference of g along component j
  template <typename G>
  static auto fd(const G& g, const S& s, const int j, const double h) {
    S a = s, b = s, c = s, d = s;
    a[j] += 2 * h;
    b[j] += h;
    c[j] -= h;
    d[j] -= 2 * h;
    return (-g(a) + 8 * g(b) - 8 * g(c) + g(d)) / (12 * h);
  }
  static S rotate(const S& s) {
    // fixed rotation (Euler angles 0.7, -0.4, 1.1; only the in-plane one for N = 2)
    const double a = N == 3 ? 0.7 : 0., b = N == 3 ? -0.4 : 0., c = 1.1;
    const double ca = std::cos(a), sa = std::sin(a), cb = std::cos(b), sb = std::sin(b), cc = std::cos(c), sc = std::sin(c);
    const double R[3][3] = {{cc * cb, cc * sb * sa - sc * ca, cc * sb * ca + sc * sa},
                            {sc * cb, sc * sb * sa + cc * ca, sc * sb * ca - cc * sa},
                            {-sb, cb * sa, cb * ca}};
    const double q = std::sqrt(2.);
    double m[3][3] = {{s[0], 0, 0}, {0, s[1], 0}, {0, 0, s[2]}};
    if constexpr (N >= 2) m[0][1] = m[1][0] = s[3] / q;
    if constexpr (N == 3) {
      m[0][2] = m[2][0] = s[4] / q;
      m[1][2] = m[2][1] = s[5] / q;
    }
    double r[3][3];
    for (int i = 0; i != 3; ++i)
      for (int j = 0; j != 3; ++j) {
        r[i][j] = 0;
        for (int k = 0; k != 3; ++k)
          for (int l = 0; l != 3; ++l) r[i][j] += R[i][k] * m[k][l] * R[j][l];
      }
    S o;
    o[0] = r[0][0];
    o[1] = r[1][1];
    o[2] = r[2][2];
    if constexpr (N >= 2) o[3] = r[0][1] * q;
    if constexpr (N == 3) {
      o[4] = r[0][2] * q;
      o[5] = r[1][2] * q;
    }
    return o;
  }

  static void generic(std::ostream& os, const Crit& c, const S& s) {
    const double sm = std::max(smax(s), 1e-300), h = 1e-3 * sm;
    const double v0 = c.value(s);
    const auto rn = c.normal(s);
    const auto rs = c.second(s);
    const double av = std::max(std::abs(v0), 1e-300);
    const double vdiff = std::max(std::abs(std::get<0>(rn) - v0), std::abs(std::get<0>(rs) - v0)) / av;
    double ndiff = 0, nfd = 0, dfd = 0;
    for (int i = 0; i != n; ++i) ndiff = std::max(ndiff, std::abs(std::get<1>(rs)[i] - std::get<1>(rn)[i]));
    for (int j = 0; j != n; ++j) {
      const double dv = fd(c.value, s, j, h);
      nfd = std::max(nfd, std::abs(dv - std::get<1>(rn)[j]));
      for (int i = 0; i != n; ++i) {
        const double dn = fd([&c, i](const S& x) { return std::get<1>(c.normal(x))[i]; }, s, j, h);
        dfd = std::max(dfd, std::abs(dn - std::get<2>(rs)(i, j)) * sm);
      }
    }
    os << " v=" << v0 << " vdiff=" << vdiff << " ndiff=" << ndiff << " nfd=" << nfd << " dfd=" << dfd;
    if (c.homogeneous) os << " homog=" << std::abs(c.value(S(2.5 * s)) - 2.5 * v0) / av;
    if (c.isotropic && N > 1) os << " iso=" << std::abs(c.value(rotate(s)) - v0) / av;
  }

  //! porous criteria: (value, normal, dseq_df[, dn_dsig, dn_df]) as functions of (sig, f)
  template <typename V, typename Nr, typename Sd>
  static void porous(std::ostream& os, const V& value, const Nr& normal, const Sd& second, const S& s, const double f) {
    Crit c;
    c.value = [&](const S& x) { return value(x, f); };
    c.normal = [&](const S& x) {
      const auto r = normal(x, f);
      return std::tuple<double, S>{std::get<0>(r), S(std::get<1>(r))};
    };
    c.second = [&](const S& x) {
      const auto r = second(x, f);
      return std::tuple<double, S, S4>{std::get<0>(r), S(std::get<1>(r)), S4(std::get<3>(r))};
    };
    c.homogeneous = true;
    c.isotropic = true;
    generic(os, c, s);
    const double hf = 1e-3 * f;
    auto fdf = [&](const auto& g) { return (-g(f + 2 * hf) + 8 * g(f + hf) - 8 * g(f - hf) + g(f - 2 * hf)) / (12 * hf); };
    const auto rn = normal(s, f);
    const auto rs = second(s, f);
    const double v0 = value(s, f), sc = std::max(std::abs(v0), 1e-300);
    // d seq / d f has the dimension of a stress: relative to the value; d n / d f is dimensionless
    const double e_fdf = std::abs(fdf([&](const double x) { return value(s, x); }) - std::get<2>(rn)) / sc;
    double e_ndf = 0, pdiff = std::abs(std::get<2>(rs) - std::get<2>(rn)) / sc;
    for (int i = 0; i != n; ++i) {
      const double d = fdf([&](const double x) { return std::get<1>(normal(s, x))[i]; });
      e_ndf = std::max(e_ndf, std::abs(d - std::get<4>(rs)[i]));
    }
    os << " fdf=" << e_fdf << " ndf=" << e_ndf << " pdiff=" << pdiff;
  }

  // ---- Hill tensors
  static double quad(const S4& H, const double v[6]) {
    double r = 0;
    for (int i = 0; i != n; ++i)
      for (int j = 0; j != n; ++j) r += v[i] * H(i, j) * v[j];
    return r;
  }
  template <ModellingHypothesis::Hypothesis Hy, OrthotropicAxesConvention oc>
  static double conv(const double* p, const bool swap23) {
    // expectation: the convention only renames the material axes; with the 2 <-> 3 swap (Pipe convention in plane
    // stress / plane strain / generalised plane strain) F <-> H and L <-> M
    const S4 e = swap23 ? hillTensor<N, double>(p[2], p[1], p[0], p[4], p[3], p[5])
                        : hillTensor<N, double>(p[0], p[1], p[2], p[3], p[4], p[5]);
    const S4 g1 = computeHillTensor<Hy, oc, double>(p[0], p[1], p[2], p[3], p[4], p[5]);
    const S4 g2 = makeHillTensor<Hy, oc, double>(p[0], p[1], p[2], p[3], p[4], p[5]);
    double r = 0;
    for (int i = 0; i != n; ++i)
      for (int j = 0; j != n; ++j) r = std::max(r, std::max(std::abs(g1(i, j) - e(i, j)), std::abs(g2(i, j) - e(i, j))));
    return r;
  }
  static void hill(std::ostream& os, const double* p, const S& s) {
    const S4 H = hillTensor<N, double>(p[0], p[1], p[2], p[3], p[4], p[5]);
    const S4 H2 = makeHillTensor<N, double>(p[0], p[1], p[2], p[3], p[4], p[5]);
    double v[6] = {s[0], s[1], s[2], 0, 0, 0};
    for (int i = 3; i < n; ++i) v[i] = s[i];
    const double q = std::sqrt(2.);
    const double s12 = v[3] / q, s13 = v[4] / q, s23 = v[5] / q;
    const double ref = p[0] * (v[0] - v[1]) * (v[0] - v[1]) + p[1] * (v[1] - v[2]) * (v[1] - v[2]) +
                       p[2] * (v[2] - v[0]) * (v[2] - v[0]) + 2 * p[3] * s12 * s12 + 2 * p[4] * s13 * s13 +
                       2 * p[5] * s23 * s23;
    double hsym = 0, hmk = 0;
    for (int i = 0; i != n; ++i)
      for (int j = 0; j != n; ++j) {
        hsym = std::max(hsym, std::abs(H(i, j) - H(j, i)));
        hmk = std::max(hmk, std::abs(H(i, j) - H2(i, j)));
      }
    os << " hq=" << std::abs(quad(H, v) - ref) / std::max(std::abs(ref), 1e-300) << " hsym=" << hsym << " hmk=" << hmk;
    using MH = ModellingHypothesis;
    using OC = OrthotropicAxesConvention;
    double hc = 0;
    if constexpr (N == 1) {
      hc = std::max({conv<MH::AXISYMMETRICALGENERALISEDPLANESTRAIN, OC::DEFAULT>(p, false),
                     conv<MH::AXISYMMETRICALGENERALISEDPLANESTRESS, OC::DEFAULT>(p, false),
                     conv<MH::AXISYMMETRICALGENERALISEDPLANESTRAIN, OC::PIPE>(p, false),
                     conv<MH::AXISYMMETRICALGENERALISEDPLANESTRESS, OC::PIPE>(p, false)});
    } else if constexpr (N == 2) {
      hc = std::max({conv<MH::AXISYMMETRICAL, OC::DEFAULT>(p, false), conv<MH::PLANESTRESS, OC::DEFAULT>(p, false),
                     conv<MH::PLANESTRAIN, OC::DEFAULT>(p, false), conv<MH::GENERALISEDPLANESTRAIN, OC::DEFAULT>(p, false),
                     conv<MH::AXISYMMETRICAL, OC::PIPE>(p, false), conv<MH::PLANESTRESS, OC::PIPE>(p, true),
                     conv<MH::PLANESTRAIN, OC::PIPE>(p, true), conv<MH::GENERALISEDPLANESTRAIN, OC::PIPE>(p, true),
                     conv<MH::PLANESTRESS, OC::PLATE>(p, false), conv<MH::PLANESTRAIN, OC::PLATE>(p, false),
                     conv<MH::GENERALISEDPLANESTRAIN, OC::PLATE>(p, false)});
    } else {
      hc = std::max({conv<MH::TRIDIMENSIONAL, OC::DEFAULT>(p, false), conv<MH::TRIDIMENSIONAL, OC::PIPE>(p, false),
                     conv<MH::TRIDIMENSIONAL, OC::PLATE>(p, false)});
    }
    os << " hconv=" << hc;
  }

  static void run(std::ostream& os, const std::string& crit, const std::vector<double>& p, const S& s) {
    const double seps0 = 1e-12 * std::max(smax(s), 1e-300);
    // eigen-based criteria: the default eigen-solver returns a double eigenvalue with ~1e-8 relative accuracy, so the
    // coalescence threshold must be above that for the eps branches of the second derivatives to be taken
    const double seps = (crit == "hosford" || crit == "hosford_int" || crit == "hosford_j" || crit == "barlat" || crit == "barlat_j") ? 1e-7 * std::max(smax(s), 1e-300) : seps0;
    Crit c;
    if (crit == "hosford" || crit == "hosford_int" || crit == "hosford_j") {
      const double a = p[0];
      if (crit == "hosford_j") {
        // explicit eigen-solver argument (Jacobi): on a diagonal tensor the eigenvalues come back in storage order,
        // which selects the coalescence branch (0,1), (0,2) or (1,2) of the second derivative
        constexpr auto J = stensor_common::FSESJACOBIEIGENSOLVER;
        c.value = [=](const S& x) { return computeHosfordStress<S, double, J>(x, a, seps); };
        c.normal = [=](const S& x) { return computeHosfordStressNormal<S, double, J>(x, a, seps); };
        c.second = [=](const S& x) { return computeHosfordStressSecondDerivative<S, double, J>(x, a, seps); };
      } else if (crit == "hosford_int") {
        const int ai = int(a);
        c.value = [=](const S& x) { return computeHosfordStress(x, ai, seps); };
        c.normal = [=](const S& x) { return computeHosfordStressNormal(x, ai, seps); };
        c.second = [=](const S& x) { return computeHosfordStressSecondDerivative(x, ai, seps); };
      } else {
        c.value = [=](const S& x) { return computeHosfordStress(x, a, seps); };
        c.normal = [=](const S& x) { return computeHosfordStressNormal(x, a, seps); };
        c.second = [=](const S& x) { return computeHosfordStressSecondDerivative(x, a, seps); };
      }
      c.isotropic = true;
      generic(os, c, s);
      const double vm = sigmaeq(s);
      os << " ho2=" << std::abs(computeHosfordStress(s, 2, seps) - vm) / std::max(vm, 1e-300);
      // which coalescence branch of the second derivative was taken (as the code tests it)
      const auto vpm = (crit == "hosford_j") ? s.template computeEigenVectors<stensor_common::FSESJACOBIEIGENSOLVER>()
                                             : s.computeEigenVectors();
      const auto& vp = std::get<0>(vpm);
      const int br = (std::abs(vp[0] - vp[1]) < seps ? 1 : 0) + (std::abs(vp[0] - vp[2]) < seps ? 2 : 0) +
                     (std::abs(vp[1] - vp[2]) < seps ? 4 : 0);
      os << " branch=" << br;
    } else if (crit == "barlat" || crit == "barlat_j") {
      // p: c12 c21 c13 c31 c23 c32 c44 c55 c66 (first) then the same for the second transformation, then a
      const auto l1 = makeBarlatLinearTransformation<N, double>(p[0], p[1], p[2], p[3], p[4], p[5], p[6], p[7], p[8]);
      const auto l2 = makeBarlatLinearTransformation<N, double>(p[9], p[10], p[11], p[12], p[13], p[14], p[15], p[16], p[17]);
      const double a = p[18];
      if (crit == "barlat_j") {
        constexpr auto J = stensor_common::FSESJACOBIEIGENSOLVER;
        c.value = [=](const S& x) { return computeBarlatStress<S, double, J>(x, l1, l2, a, seps); };
        c.normal = [=](const S& x) { return computeBarlatStressNormal<S, double, J>(x, l1, l2, a, seps); };
        c.second = [=](const S& x) { return computeBarlatStressSecondDerivative<S, double, J>(x, l1, l2, a, seps); };
      } else {
        c.value = [=](const S& x) { return computeBarlatStress(x, l1, l2, a, seps); };
        c.normal = [=](const S& x) { return computeBarlatStressNormal(x, l1, l2, a, seps); };
        c.second = [=](const S& x) { return computeBarlatStressSecondDerivative(x, l1, l2, a, seps); };
      }
      generic(os, c, s);
      bool ones = true;
      for (int i = 0; i != 18; ++i) ones = ones && (p[i] == 1.);
      if (ones) {
        const double vh = computeHosfordStress(s, a, seps);
        os << " bh=" << std::abs(c.value(s) - vh) / std::max(std::abs(vh), 1e-300);
      }
    } else if (crit == "drucker") {
      const double cc = p[0];
      c.value = [=](const S& x) { return computeDrucker1949StressCriterion(x, cc); };
      c.normal = [=](const S& x) { return computeDrucker1949StressCriterionNormal(x, cc, seps); };
      c.second = [=](const S& x) { return computeDrucker1949StressCriterionSecondDerivative(x, cc, seps); };
      c.isotropic = true;
      generic(os, c, s);
    } else if (crit == "cazacu04i") {
      const double cc = p[0];
      c.value = [=](const S& x) { return computeCazacu2004IsotropicStressCriterion(x, cc); };
      c.normal = [=](const S& x) { return computeCazacu2004IsotropicStressCriterionNormal(x, cc, seps); };
      c.second = [=](const S& x) { return computeCazacu2004IsotropicStressCriterionSecondDerivative(x, cc, seps); };
      c.isotropic = true;
      generic(os, c, s);
    } else if (crit == "cazacu01" || crit == "cazacu04o") {
      J2OCoefficients<S> a;
      J3OCoefficients<S> b;
      for (int i = 0; i != 6; ++i) a[i] = p[i];
      for (int i = 0; i != 11; ++i) b[i] = p[6 + i];
      const double cc = p[17];
      if (crit == "cazacu01") {
        c.value = [=](const S& x) { return computeCazacu2001StressCriterion(x, a, b, cc); };
        c.normal = [=](const S& x) { return computeCazacu2001StressCriterionNormal(x, a, b, cc, seps); };
        c.second = [=](const S& x) { return computeCazacu2001StressCriterionSecondDerivative(x, a, b, cc, seps); };
      } else {
        c.value = [=](const S& x) { return computeCazacu2004OrthotropicStressCriterion(x, a, b, cc); };
        c.normal = [=](const S& x) { return computeCazacu2004OrthotropicStressCriterionNormal(x, a, b, cc, seps); };
        c.second = [=](const S& x) { return computeCazacu2004OrthotropicStressCriterionSecondDerivative(x, a, b, cc, seps); };
      }
      generic(os, c, s);
    } else if (crit == "mc") {
      const MohrCoulombParameters<S> mp(p[0], p[1], p[2], p[3]);
      c.value = [=](const S& x) { return computeMohrCoulombStressCriterion(mp, x); };
      c.normal = [=](const S& x) { return computeMohrCoulombStressCriterionNormal(mp, x); };
      c.second = [=](const S& x) { return computeMohrCoulombStressCriterionSecondDerivative(mp, x); };
      c.homogeneous = false;
      c.isotropic = true;
      generic(os, c, s);
      const auto dv = deviator(s);
      const double J2 = (dv | dv) / 2, J3 = det(dv);
      os << " lode=" << std::asin(std::min(std::max(-3 * std::sqrt(3.) * J3 / (2 * J2 * std::sqrt(J2)), -1.), 1.)) / 3 * 180 / M_PI;
    } else if (crit == "gtn") {
      GursonTvergaardNeedleman1982StressCriterionParameters<S> gp;
      gp.f_c = p[1];
      gp.f_r = p[2];
      gp.q_1 = p[3];
      gp.q_2 = p[4];
      gp.q_3 = p[5];
      porous(
          os, [&](const S& x, const double f) { return computeGursonTvergaardNeedleman1982Stress(x, f, gp, seps); },
          [&](const S& x, const double f) { return computeGursonTvergaardNeedleman1982StressNormal(x, f, gp, seps); },
          [&](const S& x, const double f) { return computeGursonTvergaardNeedleman1982StressSecondDerivative(x, f, gp, seps); },
          s, p[0]);
    } else if (crit == "rtb") {
      RousselierTanguyBesson2002StressCriterionParameters<S> rp;
      rp.DR = p[1];
      rp.qR = p[2];
      porous(
          os, [&](const S& x, const double f) { return computeRousselierTanguyBesson2002Stress(x, f, rp, seps); },
          [&](const S& x, const double f) { return computeRousselierTanguyBesson2002StressNormal(x, f, rp, seps); },
          [&](const S& x, const double f) { return computeRousselierTanguyBesson2002StressSecondDerivative(x, f, rp, seps); },
          s, p[0]);
    } else if (crit == "ms") {
      MichelAndSuquet1992HollowSphereStressCriterionParameters<S> mp;
      mp.n = p[1];
      porous(
          os, [&](const S& x, const double f) { return computeMichelAndSuquet1992HollowSphereStress(x, f, mp, seps); },
          [&](const S& x, const double f) { return computeMichelAndSuquet1992HollowSphereStressNormal(x, f, mp, seps); },
          [&](const S& x, const double f) { return computeMichelAndSuquet1992HollowSphereStressSecondDerivative(x, f, mp, seps); },
          s, p[0]);
    } else if (crit == "hill") {
      hill(os, p.data(), s);
    } else {
      os << " error=unknown-criterion";
    }
  }
};

int main() {
  std::string line;
  std::cout.precision(17);
  while (std::getline(std::cin, line)) {
    std::istringstream is(line);
    std::string id, crit;
    int N, np;
    if (!(is >> id >> crit >> N >> np)) continue;
    std::vector<double> p(np);
    for (auto& x : p) is >> x;
    double s[6] = {0, 0, 0, 0, 0, 0};
    const int n = N == 1 ? 3 : (N == 2 ? 4 : 6);
    for (int i = 0; i != n; ++i) is >> s[i];
    std::ostringstream os;
    os.precision(17);
    os << id << " " << crit << " " << N;
    try {
      if (N == 1) {
        stensor<1u, double> x;
        for (int i = 0; i != n; ++i) x[i] = s[i];
        Dim<1u>::run(os, crit, p, x);
      } else if (N == 2) {
        stensor<2u, double> x;
        for (int i = 0; i != n; ++i) x[i] = s[i];
        Dim<2u>::run(os, crit, p, x);
      } else {
        stensor<3u, double> x;
        for (int i = 0; i != n; ++i) x[i] = s[i];
        Dim<3u>::run(os, crit, p, x);
      }
    } catch (std::exception& e) {
      os << " error=exception";
    } catch (...) {
      os << " error=exception";
    }
    std::cout << os.str() << "\n";
  }
  return 0;
}
