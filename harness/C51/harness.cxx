// C51 correspondence harness: drives the real tfel-check comparison classes and the real MTest
// @Test classes in-process.  The five *Comparison.cxx files and the two MTest test sources are
// compiled from the current tree into this binary; everything else comes from the prebuilt libs.
//
// stdin, one request per line (every number is the hexadecimal bit pattern of a double):
//   abs|rel|relabs|mixed <prec> <prec2> <n> a_1..a_n b_1..b_n        (a: reference '.ref', b: result '.res')
//   area none|linear <prec> <nA> tA_1.. vA_1.. <nB> tB_1.. vB_1..
//   analytical <eps> <n> v_1..v_n f_1..f_n      (v: computed value, f: value of the analytical formula)
//   analytical_t ...                            (same, the formula also uses the time variable 't')
//   reffile <eps> <n> v_1..v_n <m> r_1..r_m     (r: reference column, period i is compared with r_i)
//   reffile_f ...                               (same, through the constructor taking a formula, here "$2")
// Period i is checked as the time step [i-1, i] (t = i-1, dt = 1): the reference of an analytical
// test is the formula at the END of the time step, f(t+dt).
// stdout, one line per request:
//   tfel-check : "ok" | "fail <number of failed lines>" | "throw"       (area: "ok" | "fail" | "throw")
//   mtest      : "ok" | "fail <number of failed periods>" | "throw <period>"
// The columns are written to text files and read back by tfel::check::Column::setFilename
// (TextData + convert<double>), i.e. the path the tfel-check executable takes.
#include <cinttypes>
#include <cmath>
#include <cstdio>
#include <cstring>
#include <fstream>
#include <functional>
#include <iostream>
#include <memory>
#include <sstream>
#include <stdexcept>
#include <string>
#include <vector>

#include "TFEL/Check/AbsoluteComparison.hxx"
#include "TFEL/Check/AreaComparison.hxx"
#include "TFEL/Check/Column.hxx"
#include "TFEL/Check/LinearInterpolation.hxx"
#include "TFEL/Check/MixedComparison.hxx"
#include "TFEL/Check/NoInterpolation.hxx"
#include "TFEL/Check/RelativeAndAbsoluteComparison.hxx"
#include "TFEL/Check/RelativeComparison.hxx"
#include "TFEL/Utilities/TextData.hxx"

#include "MTest/AnalyticalTest.hxx"
#include "MTest/CurrentState.hxx"
#include "MTest/Evolution.hxx"
#include "MTest/ReferenceFileComparisonTest.hxx"

static double from_bits(const std::string& s) {
  const std::uint64_t u = std::stoull(s, nullptr, 16);
  double d;
  std::memcpy(&d, &u, sizeof d);
  return d;
}

static std::string num(const double d) {
  if (std::isnan(d)) return "nan";
  if (std::isinf(d)) return d > 0 ? "inf" : "-1e308";  // see `force`
  char buf[64];
  std::snprintf(buf, sizeof buf, "%.17g", d);
  return buf;
}

static bool read_vec(std::istringstream& is, std::vector<double>& v, const std::size_t n) {
  v.clear();
  std::string w;
  for (std::size_t i = 0; i != n; ++i) {
    if (!(is >> w)) return false;
    v.push_back(from_bits(w));
  }
  return true;
}

static std::string dir = ".";

static std::string write_file(const char* const name,
                              const std::vector<double>& t,
                              const std::vector<double>& v) {
  const auto f = dir + "/" + name;
  std::ofstream os(f);
  os << "t v\n";
  for (std::size_t i = 0; i != v.size(); ++i) {
    os << num(t[i]) << " " << num(v[i]) << "\n";
  }
  return f;
}

static bool same_bits(const std::vector<double>& a, const std::vector<double>& b) {
  if (a.size() != b.size()) return false;
  for (std::size_t i = 0; i != a.size(); ++i) {
    if (std::isnan(a[i]) && std::isnan(b[i])) continue;  // sign/payload of a NaN is not observable here
    if (std::memcmp(&a[i], &b[i], sizeof(double)) != 0) return false;
  }
  return true;
}

static void force(tfel::check::Column& c, const std::vector<double>& v) {
  for (std::size_t i = 0; i != v.size() && i != c.getValues().size(); ++i) {
    if (std::isinf(v[i]) && v[i] < 0) c.setValue(static_cast<unsigned>(i), v[i]);
  }
}

static std::string failed_lines(const std::string& log) {
  // "Failed comparisons (for column) : N / M" or "Failed comparisons count (for column) : N / M"
  const auto p = log.find("(for column) : ");
  if (p == std::string::npos) return "?";
  std::istringstream is(log.substr(p + 15));
  std::string n;
  is >> n;
  return n;
}

// evolution r(t) = values[t] for the integral times 0..n-1 (clamped outside: a formula evaluated at
// the wrong time then silently reads the value of another period, as a real evolution would)
struct Table final : mtest::Evolution {
  std::vector<double> values;
  mtest::real operator()(const mtest::real t) const override {
    if (values.empty()) throw std::runtime_error("empty table");
    long long i = std::llround(t);
    if (i < 0) i = 0;
    if (i >= static_cast<long long>(values.size())) i = static_cast<long long>(values.size()) - 1;
    return values[static_cast<std::size_t>(i)];
  }
  bool isConstant() const override { return false; }
  void setValue(const mtest::real) override {}
  void setValue(const mtest::real, const mtest::real) override {}
};

// evolution tt(t) = t
struct Clock final : mtest::Evolution {
  mtest::real operator()(const mtest::real t) const override { return t; }
  bool isConstant() const override { return false; }
  void setValue(const mtest::real) override {}
  void setValue(const mtest::real, const mtest::real) override {}
};

int main(const int argc, const char* const* const argv) {
  if (argc > 1) dir = argv[1];
  std::string line;
  while (std::getline(std::cin, line)) {
    std::istringstream is(line);
    std::string kind;
    is >> kind;
    try {
      if (kind == "abs" || kind == "rel" || kind == "relabs" || kind == "mixed") {
        std::string p1, p2;
        std::size_t n;
        std::vector<double> a, b;
        if (!(is >> p1 >> p2 >> n) || !read_vec(is, a, n) || !read_vec(is, b, n)) {
          std::cout << "bad-op\n";
          continue;
        }
        std::vector<double> t(n);
        for (std::size_t i = 0; i != n; ++i) t[i] = double(i);
        const auto fa = write_file("c51.ref", t, a);
        const auto fb = write_file("c51.res", t, b);
        auto c1 = std::make_shared<tfel::check::Column>("v");
        auto c2 = std::make_shared<tfel::check::Column>("v");
        c1->setFilename(fa);
        c2->setFilename(fb);
        // "-inf" is not a token TextData can read (it can only arise from a computed column):
        // such entries are written as a placeholder and set through Column::setValue
        force(*c1, a);
        force(*c2, b);
        if (!same_bits(c1->getValues(), a) || !same_bits(c2->getValues(), b)) {
          std::cout << "io-mismatch\n";  // the text round trip changed a value: not a verdict
          continue;
        }
        std::unique_ptr<tfel::check::Comparison> c;
        if (kind == "abs") c.reset(new tfel::check::AbsoluteComparison());
        if (kind == "rel") c.reset(new tfel::check::RelativeComparison());
        if (kind == "relabs") c.reset(new tfel::check::RelativeAndAbsoluteComparison());
        if (kind == "mixed") c.reset(new tfel::check::MixedComparison());
        auto ci = std::make_shared<tfel::check::Column>("t");
        c->setParameters(c1, c2, from_bits(p1), from_bits(p2), ci, "none", false, ci,
                         std::make_shared<tfel::check::NoInterpolation>());
        c->compare();
        if (c->hasSucceed()) {
          std::cout << "ok\n";
        } else {
          std::cout << "fail " << failed_lines(c->getMsgLog()) << "\n";
        }
      } else if (kind == "area") {
        std::string ik, p1;
        std::size_t na, nb;
        std::vector<double> ta, va, tb, vb;
        if (!(is >> ik >> p1 >> na) || !read_vec(is, ta, na) || !read_vec(is, va, na) ||
            !(is >> nb) || !read_vec(is, tb, nb) || !read_vec(is, vb, nb)) {
          std::cout << "bad-op\n";
          continue;
        }
        const auto fa = write_file("c51.ref", ta, va);
        const auto fb = write_file("c51.res", tb, vb);
        auto c1 = std::make_shared<tfel::check::Column>("v");
        auto c2 = std::make_shared<tfel::check::Column>("v");
        c1->setFilename(fa);
        c2->setFilename(fb);
        auto ci = std::make_shared<tfel::check::Column>("t");
        ci->setFilename(fa);
        if (!same_bits(c1->getValues(), va) || !same_bits(c2->getValues(), vb) ||
            !same_bits(ci->getValues(), ta)) {
          std::cout << "io-mismatch\n";
          continue;
        }
        std::shared_ptr<tfel::check::Interpolation> ii;
        if (ik == "linear") {
          ii = std::make_shared<tfel::check::LinearInterpolation>();
        } else {
          ii = std::make_shared<tfel::check::NoInterpolation>();
        }
        tfel::check::AreaComparison c;
        c.setParameters(c1, c2, from_bits(p1), 0., ci, "none", false, ci, ii);
        c.compare();
        std::cout << (c.hasSucceed() ? "ok" : "fail") << "\n";
      } else if (kind == "analytical" || kind == "analytical_t" || kind == "reffile" ||
                 kind == "reffile_f") {
        const bool reffile = (kind == "reffile") || (kind == "reffile_f");
        std::string p1;
        std::size_t n, m;
        std::vector<double> v, r;
        if (!(is >> p1 >> n) || !read_vec(is, v, n)) {
          std::cout << "bad-op\n";
          continue;
        }
        m = n;
        if (reffile && !(is >> m)) {
          std::cout << "bad-op\n";
          continue;
        }
        if (!read_vec(is, r, m)) {
          std::cout << "bad-op\n";
          continue;
        }
        std::size_t period = 0;
        auto get = [&v, &period](const mtest::CurrentState&) { return v.at(period); };
        mtest::CurrentState s;
        std::unique_ptr<mtest::MTest::UTest> test;
        if (!reffile) {
          mtest::EvolutionManager evm;
          auto tab = std::make_shared<Table>();
          tab->values = r;
          evm.insert({"r", tab});
          evm.insert({"tt", std::make_shared<Clock>()});
          // at the end of the step [i-1, i]: t = tt = i (exact small integers), so 1+t-tt == 1 and
          // r*(1+t-tt) == r bit for bit; with 't' or 'tt' taken at another time the factor is not 1
          const char* const formula = (kind == "analytical") ? "r" : "r*(1+t-tt)";
          test.reset(new mtest::AnalyticalTest(formula, "x", get, evm, from_bits(p1)));
        } else {
          std::vector<double> t(m);
          for (std::size_t i = 0; i != m; ++i) t[i] = double(i);
          const auto f = write_file("c51.ref", t, r);
          tfel::utilities::TextData d(f, "gnuplot");
          if (!same_bits(d.getColumn(2), r)) {
            std::cout << "io-mismatch\n";
            continue;
          }
          if (kind == "reffile") {
            test.reset(new mtest::ReferenceFileComparisonTest(d, 2u, "x", get, from_bits(p1)));
          } else {
            test.reset(new mtest::ReferenceFileComparisonTest(d, mtest::EvolutionManager{}, "$2", "x",
                                                              get, from_bits(p1)));
          }
        }
        bool thrown = false;
        for (; period != n; ++period) {
          try {
            // the time step [period-1, period]: AnalyticalTest evaluates its formula at t+dt
            test->check(s, double(period) - 1., 1., static_cast<unsigned int>(period));
          } catch (std::exception&) {
            thrown = true;
            break;
          }
        }
        if (thrown) {
          std::cout << "throw " << period << "\n";
        } else {
          const auto res = test->getResults();
          if (res.success()) {
            std::cout << "ok\n";
          } else {
            std::cout << "fail " << (res.end() - res.begin()) << "\n";
          }
        }
      } else {
        std::cout << "bad-op\n";
      }
    } catch (std::exception& e) {
      std::cout << "throw\n";
    }
  }
  return 0;
}
