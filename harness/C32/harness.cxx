// C32 correspondence harness: calls the real tfel::utilities string algorithms in-process
// (src/Utilities/StringAlgorithms.cxx of the current tree is compiled into this binary).
//
//   harness <request-file> <first-line-index> [<budget-ms> [<end-line-index>]]
//
// One request per line, byte strings hex-encoded (`-` = empty); one answer per line in the format
// of lean/TfelVerif/C32/Driver.lean.  Every call runs under a watchdog (periodic ITIMER_PROF tick, i.e.
// CPU time of this process): if it has not returned after the budget (~400 ms of CPU) the answers so far are flushed, `timeout` is printed for the
// current request and the process exits with status 3; the check restarts it after that request.
// A sanitizer report flushes the answers, prints `crash` and dies (non-zero status).
#include <csignal>
#include <cstdint>
#include <cstdio>
#include <cstdlib>
#include <cstring>
#include <fstream>
#include <sstream>
#include <string>
#include <vector>
#include <sys/time.h>
#include <unistd.h>
#include "TFEL/Utilities/StringAlgorithms.hxx"

#if defined(__has_feature)
#if __has_feature(address_sanitizer)
#define C32_ASAN 1
#endif
#endif
#if defined(__SANITIZE_ADDRESS__)
#define C32_ASAN 1
#endif
#ifdef C32_ASAN
#include <sanitizer/common_interface_defs.h>
#endif

namespace {

  // own output buffer: flushed with write(2) so that the signal handler can do it
  std::string& out = *new std::string;  // never destroyed: the death callback may run during exit
  void flush_out() {
    const char* p = out.data();
    size_t n = out.size();
    while (n != 0) {
      const ssize_t w = ::write(1, p, n);
      if (w <= 0) break;
      p += w;
      n -= static_cast<size_t>(w);
    }
    out.clear();
  }
  // watchdog: a periodic tick of consumed CPU time; a call that is still the current one after
  // `budget` ms of CPU is a hang (a hung call spins, so CPU time advances)
  volatile sig_atomic_t in_call = 0;
  volatile sig_atomic_t call_seq = 0;
  volatile sig_atomic_t seen_seq = -1;
  volatile sig_atomic_t stuck_ticks = 0;
  long max_ticks = 4;
  constexpr long tick_ms = 100;
  void on_alarm(int) {
    if (!in_call) {
      stuck_ticks = 0;
      return;
    }
    if (seen_seq != call_seq) {
      seen_seq = call_seq;
      stuck_ticks = 0;
      return;
    }
    stuck_ticks = stuck_ticks + 1;
    if (stuck_ticks < max_ticks) return;
    flush_out();
    const char m[] = "timeout\n";
    if (::write(1, m, sizeof(m) - 1) < 0) {
    }
    _exit(3);
  }
  void on_death() {
    flush_out();
    const char m[] = "crash\n";
    if (::write(1, m, sizeof(m) - 1) < 0) {
    }
  }
  void on_fatal(int s) {
    on_death();
    ::signal(s, SIG_DFL);
    ::raise(s);
  }
  void arm(const long) {
    call_seq = call_seq + 1;
    in_call = 1;
  }
  void disarm() { in_call = 0; }
  void start_ticks(const long budget_ms) {
    max_ticks = budget_ms / tick_ms < 1 ? 1 : budget_ms / tick_ms;
    struct sigaction sa {};
    sa.sa_handler = on_alarm;
    sa.sa_flags = SA_RESTART;
    ::sigaction(SIGPROF, &sa, nullptr);
    itimerval t{};
    t.it_value.tv_usec = tick_ms * 1000;
    t.it_interval.tv_usec = tick_ms * 1000;
    ::setitimer(ITIMER_PROF, &t, nullptr);  // CPU time of this process: immune to machine load
  }

  int hv(const char c) {
    if (c >= '0' && c <= '9') return c - '0';
    if (c >= 'a' && c <= 'f') return c - 'a' + 10;
    return -1;
  }
  bool unhex(const std::string& h, std::string& r) {
    r.clear();
    if (h == "-") return true;
    if (h.size() % 2 != 0) return false;
    for (size_t i = 0; i != h.size(); i += 2) {
      const int a = hv(h[i]), b = hv(h[i + 1]);
      if (a < 0 || b < 0) return false;
      r.push_back(static_cast<char>(16 * a + b));
    }
    return true;
  }
  std::string hex(const std::string& s) {
    if (s.empty()) return "-";
    static const char* d = "0123456789abcdef";
    std::string r;
    for (const unsigned char c : s) {
      r.push_back(d[c / 16]);
      r.push_back(d[c % 16]);
    }
    return r;
  }
  std::string fields(const std::vector<std::string>& v) {
    std::string r = "l " + std::to_string(v.size());
    for (const auto& f : v) r += " " + hex(f);
    return r;
  }

  std::string answer(const std::vector<std::string>& w, const long budget) {
    using namespace tfel::utilities;
    std::string a, b, c;
    const auto& op = w[0];
    std::string res;
    try {
      if (op == "tokc" && w.size() == 4 && unhex(w[1], a) && unhex(w[2], b) && b.size() == 1) {
        arm(budget);
        const auto r = tokenize(std::string_view(a), b[0], w[3] == "1");
        disarm();
        return fields(r);
      }
      if (op == "tokcd" && w.size() == 3 && unhex(w[1], a) && unhex(w[2], b) && b.size() == 1) {
        // default third argument
        arm(budget);
        const auto r = tokenize(std::string_view(a), b[0]);
        disarm();
        return fields(r);
      }
      if (op == "toks" && w.size() == 3 && unhex(w[1], a) && unhex(w[2], b)) {
        arm(budget);
        const auto r = tokenize(std::string_view(a), std::string_view(b));
        disarm();
        return fields(r);
      }
      if (op == "rep" && w.size() == 4 && unhex(w[1], a) && unhex(w[2], b) && unhex(w[3], c)) {
        arm(budget);
        const auto r = replace_all(std::string_view(a), std::string_view(b), std::string_view(c));
        disarm();
        // second overload (result in an existing, non-empty string) must agree
        std::string r2 = "junk";
        arm(budget);
        replace_all(r2, std::string_view(a), std::string_view(b), std::string_view(c));
        disarm();
        if (r2 != r) return "overloads-differ " + hex(r) + " " + hex(r2);
        return "s " + hex(r);
      }
      if (op == "repps" && w.size() == 5 && unhex(w[1], a) && unhex(w[2], b) && unhex(w[3], c)) {
        // observation only (start offset): never part of the compared stream
        arm(budget);
        const auto r = replace_all(std::string_view(a), std::string_view(b), std::string_view(c),
                                   static_cast<std::string::size_type>(std::stoul(w[4])));
        disarm();
        return "s " + hex(r);
      }
      if (op == "repcc" && w.size() == 4 && unhex(w[1], a) && unhex(w[2], b) && unhex(w[3], c) &&
          b.size() == 1 && c.size() == 1) {
        arm(budget);
        const auto r = replace_all(std::string_view(a), b[0], c[0]);
        disarm();
        return "s " + hex(r);
      }
      if (op == "repcs" && w.size() == 4 && unhex(w[1], a) && unhex(w[2], b) && unhex(w[3], c) &&
          b.size() == 1) {
        arm(budget);
        replace_all(a, b[0], std::string_view(c));
        disarm();
        return "s " + hex(a);
      }
      if (op == "sw" && w.size() == 3 && unhex(w[1], a) && unhex(w[2], b)) {
        arm(budget);
        const bool r = starts_with(a, b);
        disarm();
        return r ? "b 1" : "b 0";
      }
      if (op == "ew" && w.size() == 3 && unhex(w[1], a) && unhex(w[2], b)) {
        arm(budget);
        const bool r = ends_with(a, b);
        disarm();
        return r ? "b 1" : "b 0";
      }
      if ((op == "conv" || op == "convl") && w.size() == 2 && unhex(w[1], a)) {
        if (op == "conv") {
          arm(budget);
          const double r = convert<double>(a);
          disarm();
          std::uint64_t bits;
          std::memcpy(&bits, &r, sizeof(bits));
          char buf[40];
          std::snprintf(buf, sizeof(buf), "d %016llx", static_cast<unsigned long long>(bits));
          return buf;
        }
        arm(budget);
        const long double r = convert<long double>(a);
        disarm();
        char buf[80];
        std::snprintf(buf, sizeof(buf), "ld %La", r);
        return buf;
      }
    } catch (std::invalid_argument&) {
      disarm();
      return "err";
    } catch (std::exception& e) {
      disarm();
      return std::string("exc ") + typeid(e).name();
    } catch (...) {
      disarm();
      return "exc unknown";
    }
    return "bad-op";
  }

}  // namespace

int main(const int argc, const char* const* const argv) {
  if (argc < 3) return 2;
  const long first = std::atol(argv[2]);
  const long budget = argc > 3 ? std::atol(argv[3]) : 400;
  const long last = argc > 4 ? std::atol(argv[4]) : -1;
  start_ticks(budget);
#ifdef C32_ASAN
  __sanitizer_set_death_callback(on_death);
#else
  ::signal(SIGSEGV, on_fatal);
  ::signal(SIGABRT, on_fatal);
#endif
  (void)on_fatal;
  std::ifstream in(argv[1]);
  std::string line;
  long n = 0;
  while (std::getline(in, line)) {
    if (last >= 0 && n >= last) break;
    if (n++ < first) continue;
    std::vector<std::string> w;
    for (size_t i = 0; i < line.size();) {
      while (i < line.size() && line[i] == ' ') ++i;
      size_t j = i;
      while (j < line.size() && line[j] != ' ') ++j;
      if (j > i) w.emplace_back(line, i, j - i);
      i = j;
    }
    if (w.empty()) {
      out += "bad-op\n";
      continue;
    }
    out += answer(w, budget);
    out += '\n';
    if (out.size() > (1u << 16)) flush_out();
  }
  flush_out();
  return 0;
}
