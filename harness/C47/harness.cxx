// C47 correspondence harness: the real TargetsDescription writer / reader / merge (compiled from the tree,
// sanitizers on) on hex-encoded descriptions and files.
// Requests (one per line):
//   W <desc>                 write the description with operator<<        -> "ok <hex of the file>"
//   R <hex file>             tokenize (CxxTokenizer) + read<TargetsDescription> -> "ok <desc>" | "err <hex of what()>"
//   M <b:0|1> <desc> ; <desc>  mergeTargetsDescription(d, s, b)            -> "ok <desc>" | "err <hex>"
//   U <hex old file|none> <desc>   one run: read old (failure is logged), merge new with b=true, write
//                                -> "ok <logged:0|1> <hex of the new file>" | "err <hex>"
// <desc> = <nlibs> {name type prefix suffix install_path 8 vectors} <headers> <ntargets> {name deps cmds sources libraries}
// vector = <n> <hex>...; strings are hex encoded, "-" is the empty string.
// The token list handed to the reader is copied into an exactly-sized vector, so that a dereference of the
// end iterator is a heap-buffer-overflow that AddressSanitizer reports.
#include <csignal>
#include <cstring>
#include <iostream>
#include <sstream>
#include <string>
#include <vector>
#include <sys/time.h>
#include <unistd.h>
#include "TFEL/Utilities/CxxTokenizer.hxx"
#include "MFront/MFrontLogStream.hxx"
#include "MFront/MFrontUtilities.hxx"
#include "MFront/TargetsDescription.hxx"

using namespace mfront;
using tfel::utilities::CxxTokenizer;
using tfel::utilities::Token;

static std::string hex(const std::string& s) {
  static const char* d = "0123456789abcdef";
  if (s.empty()) return "-";
  std::string r;
  for (const unsigned char c : s) {
    r += d[c >> 4];
    r += d[c & 15];
  }
  return r;
}
static int hv(const char c) {
  if (c >= '0' && c <= '9') return c - '0';
  if (c >= 'a' && c <= 'f') return c - 'a' + 10;
  return -1;
}
static std::string unhex(const std::string& h) {
  std::string out;
  if (h == "-") return out;
  if (h.size() % 2) throw std::runtime_error("bad hex");
  for (std::size_t i = 0; i < h.size(); i += 2) {
    const int a = hv(h[i]), b = hv(h[i + 1]);
    if (a < 0 || b < 0) throw std::runtime_error("bad hex");
    out += static_cast<char>(a * 16 + b);
  }
  return out;
}
static void arm(const int s) {
  struct itimerval t;
  std::memset(&t, 0, sizeof(t));
  t.it_value.tv_sec = s;
  setitimer(ITIMER_PROF, &t, nullptr);
}
extern "C" void __asan_on_error() { arm(0); }
static void on_alarm(int) {
  const char m[] = "HANG\n";
  if (write(1, m, sizeof(m) - 1) < 0) {
  }
  _exit(3);
}

static std::vector<std::string> rvec(std::istream& is) {
  std::size_t n;
  if (!(is >> n)) throw std::runtime_error("bad vector");
  std::vector<std::string> v;
  for (std::size_t i = 0; i != n; ++i) {
    std::string h;
    if (!(is >> h)) throw std::runtime_error("bad vector");
    v.push_back(unhex(h));
  }
  return v;
}
static std::string rstr(std::istream& is) {
  std::string h;
  if (!(is >> h)) throw std::runtime_error("bad string");
  return unhex(h);
}

// the description is built field by field (no insert_if: the request says exactly what the lists are)
static TargetsDescription rdesc(std::istream& is) {
  TargetsDescription t;
  std::size_t nl;
  if (!(is >> nl)) throw std::runtime_error("bad desc");
  for (std::size_t i = 0; i != nl; ++i) {
    const auto name = rstr(is);
    const auto type = rstr(is);
    const auto prefix = rstr(is);
    const auto suffix = rstr(is);
    LibraryDescription l{name, prefix, suffix,
                         type == "M" ? LibraryDescription::MODULE : LibraryDescription::SHARED_LIBRARY};
    l.install_path = rstr(is);
    l.sources = rvec(is);
    l.cppflags = rvec(is);
    l.include_directories = rvec(is);
    l.ldflags = rvec(is);
    l.link_directories = rvec(is);
    l.link_libraries = rvec(is);
    l.epts = rvec(is);
    l.deps = rvec(is);
    t.libraries.push_back(l);
  }
  t.headers = rvec(is);
  std::size_t nt;
  if (!(is >> nt)) throw std::runtime_error("bad desc");
  for (std::size_t i = 0; i != nt; ++i) {
    const auto name = rstr(is);
    auto& st = t.specific_targets[name];
    st.deps = rvec(is);
    st.cmds = rvec(is);
    st.sources = rvec(is);
    st.libraries = rvec(is);
  }
  return t;
}
static void wvec(std::ostream& os, const std::vector<std::string>& v) {
  os << ' ' << v.size();
  for (const auto& s : v) os << ' ' << hex(s);
}
static std::string wdesc(const TargetsDescription& t) {
  std::ostringstream os;
  os << t.libraries.size();
  for (const auto& l : t.libraries) {
    os << ' ' << hex(l.name) << ' ' << (l.type == LibraryDescription::MODULE ? "4d" : "53") << ' '
       << hex(l.prefix) << ' ' << hex(l.suffix) << ' ' << hex(l.install_path);
    wvec(os, l.sources);
    wvec(os, l.cppflags);
    wvec(os, l.include_directories);
    wvec(os, l.ldflags);
    wvec(os, l.link_directories);
    wvec(os, l.link_libraries);
    wvec(os, l.epts);
    wvec(os, l.deps);
  }
  wvec(os, t.headers);
  os << ' ' << t.specific_targets.size();
  for (const auto& s : t.specific_targets) {
    os << ' ' << hex(s.first);
    wvec(os, s.second.deps);
    wvec(os, s.second.cmds);
    wvec(os, s.second.sources);
    wvec(os, s.second.libraries);
  }
  return os.str();
}

static TargetsDescription readFile(const std::string& content) {
  CxxTokenizer tok;
  tok.parseString(content);
  // exact-size copy: *end() is out of the allocation
  const std::vector<Token> v(tok.begin(), tok.end());
  auto c = v.begin();
  return read<TargetsDescription>(c, v.end());
}

int main() {
  // the log stream of mfront (merge notices) must not be mixed with the answers
  static std::ostringstream logsink;
  mfront::setLogStream(logsink);
  std::signal(SIGPROF, on_alarm);
  std::ios::sync_with_stdio(false);
  std::string line;
  while (std::getline(std::cin, line)) {
    std::istringstream is(line);
    std::string op;
    is >> op;
    arm(5);
    try {
      if (op == "C") {
        // constants of the build needed by the model
        LibraryDescription l{"x", "lib", "so", LibraryDescription::SHARED_LIBRARY};
        std::cout << "ok " << hex(l.cppflags.at(0)) << ' ' << hex(l.include_directories.at(0)) << std::endl;
      } else if (op == "W") {
        const auto t = rdesc(is);
        std::ostringstream os;
        os << t;
        std::cout << "ok " << hex(os.str()) << std::endl;
      } else if (op == "R") {
        const auto content = rstr(is);
        const auto t = readFile(content);
        std::cout << "ok " << wdesc(t) << std::endl;
      } else if (op == "M") {
        int b;
        is >> b;
        auto d = rdesc(is);
        std::string sep;
        is >> sep;
        const auto s = rdesc(is);
        mergeTargetsDescription(d, s, b != 0);
        std::cout << "ok " << wdesc(d) << std::endl;
      } else if (op == "U") {
        std::string old;
        is >> old;
        const auto nd = rdesc(is);
        TargetsDescription targets;
        bool logged = false;
        if (old != "none") {
          try {
            const auto t = readFile(unhex(old));
            mergeTargetsDescription(targets, t, false);
          } catch (std::exception&) {
            logged = true;
          }
        }
        mergeTargetsDescription(targets, nd, true);
        std::ostringstream os;
        os << targets;
        std::cout << "ok " << (logged ? 1 : 0) << ' ' << hex(os.str()) << std::endl;
      } else {
        std::cout << "bad-request" << std::endl;
      }
    } catch (std::exception& e) {
      std::cout << "err " << hex(e.what()) << std::endl;
    }
    arm(0);
  }
  return 0;
}
