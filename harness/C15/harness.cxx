// C15 correspondence harness: calls the real tfel::math::geometricDiscretization in-process.
//   stdin : "<xb> <xe> <db> <de> <n>"  (the doubles as decimal u64 bit patterns)
//   stdout: "<answer> # <statistics of the property on the returned vector>"
//           answer     = same format as lean/TfelVerif/C15/Driver.lean (one variant)
//           statistics = size first last back minlen maxabs rmin rmax zero minpos nonfinite   (see below)
#include <cmath>
#include <cstdint>
#include <cstdio>
#include <cstring>
#include <iostream>
#include <limits>
#include <sstream>
#include <string>
#include <vector>
#include "TFEL/Math/Discretization1D.hxx"

static double fromBits(const std::uint64_t b) {
  double d;
  std::memcpy(&d, &b, sizeof d);
  return d;
}
static std::uint64_t toBits(const double d) {
  std::uint64_t b;
  std::memcpy(&b, &d, sizeof b);
  return b;
}

int main() {
  std::string line;
  while (std::getline(std::cin, line)) {
    std::istringstream is(line);
    std::uint64_t bxb, bxe, bdb, bde, n;
    if (!(is >> bxb >> bxe >> bdb >> bde >> n)) {
      std::cout << "bad-op\n";
      continue;
    }
    const double xb = fromBits(bxb), xe = fromBits(bxe), db = fromBits(bdb), de = fromBits(bde);
    std::vector<double> v;
    try {
      tfel::math::geometricDiscretization(v, xb, xe, db, de, static_cast<std::vector<double>::size_type>(n));
    } catch (tfel::math::GeometricDiscretizationInvalidLength&) {
      std::cout << "err:length\n";
      continue;
    } catch (tfel::math::GeometricDiscretizationInvalidDensity&) {
      std::cout << "err:density\n";
      continue;
    } catch (tfel::math::GeometricDiscretizationInvalidNumberOfElements&) {
      std::cout << "err:number\n";
      continue;
    }
    std::uint64_t h = 14695981039346656037ull;
    for (const double x : v) h = (h ^ toBits(x)) * 1099511628211ull;
    std::cout << "ok " << v.size() << " " << h;
    const std::size_t c = v.size();
    for (std::size_t i = (c <= 17 ? 0 : c - 3); i != c; ++i) std::cout << " " << toBits(v[i]);
    // the property evaluated on the returned vector (double arithmetic, interpreted by checks/C15.py):
    //  size, first == xb, last == xe, largest step *against* the direction of xe - xb, smallest and
    //  largest |element length|, largest |node|, min / max ratio of consecutive lengths, number of
    //  zero-length elements
    const double dir = (xe > xb) ? 1. : -1.;
    double back = 0., minlen = std::numeric_limits<double>::infinity(), maxabs = 0.;
    double minpos = std::numeric_limits<double>::infinity();  // smallest non-zero |length|
    double rmin = std::numeric_limits<double>::infinity(), rmax = -rmin;
    std::size_t zero = 0, worst = 0, nonfinite = 0;
    for (std::size_t i = 0; i != c; ++i) {
      if (!std::isfinite(v[i])) ++nonfinite;  // NaN / infinite node
      maxabs = std::fmax(maxabs, std::fabs(v[i]));
    }
    for (std::size_t i = 0; i + 1 < c; ++i) {
      const double len = dir * (v[i + 1] - v[i]);
      if (-len > back) {
        back = -len;
        worst = i;
      }
      if (len == 0.) {
        ++zero;
      } else {
        minpos = std::fmin(minpos, std::fabs(len));
      }
      minlen = std::fmin(minlen, std::fabs(len));
      if (i + 2 < c) {
        const double len2 = dir * (v[i + 2] - v[i + 1]);
        const double rho = len2 / len;
        if (rho < rmin) rmin = rho;
        if (rho > rmax) rmax = rho;
      }
    }
    char buf[512];
    std::snprintf(buf, sizeof buf, " # size=%zu first=%d last=%d back=%.17g at=%zu minlen=%.17g maxabs=%.17g rmin=%.17g rmax=%.17g zero=%zu minpos=%.17g nonfinite=%zu",
                  c, int(c > 0 && toBits(v.front()) == bxb), int(c > 0 && toBits(v.back()) == bxe), back, worst, minlen,
                  maxabs, rmin, rmax, zero, minpos, nonfinite);
    std::cout << buf << "\n";
  }
  return 0;
}
