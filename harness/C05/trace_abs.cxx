// T1 tracer for C05, second translation unit: the generic template tfel::math::abs of
// TFEL/Math/General/Abs.hxx traced concolically on the recording scalar (trace.cxx replaces it by an
// `abs` node; the theorems `abs_*` show that the template computes |x| on each of its two paths).
#include "tracehelp.hxx"
#include "TFEL/Math/General/Abs.hxx"

void trace_abs() {
  using verif::Sym;
  verif::ctx().concolic = true;
  for (const auto& p : {std::pair<const char*, double>{"abs_neg", -1.25},
                        std::pair<const char*, double>{"abs_pos", 0.75},
                        std::pair<const char*, double>{"abs_zero", 0.}}) {
    verif::Unit u(p.first);
    const Sym x = verif::scalar_input("x", p.second);
    verif::output("r", Sym(tfel::math::abs(x)));
  }
  verif::ctx().concolic = false;
}
