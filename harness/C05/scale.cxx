// C05, supporting clause in double precision: for f(x) = x^2 (and x^3) the derivative of the isotropic function is
// positively homogeneous in the tensor, D(l s) = l D(s) (l^2 D(s)): with l a power of two and eps scaled by l the
// real double code must return the same numbers at every scale (no absolute threshold of rounding size may sit in
// the way). One request per line: l0 l1 l2 k eps  (eigenvalues, scale 2^k, eps at scale 1); answers: 2 x 36 entries
// of D(2^k s) / 2^k for x^2 (derivative, and-derivative variants), then 36 entries of D(2^k s) / 4^k for x^3.
#include <cmath>
#include <cstdio>
#include <iostream>
#include <sstream>
#include <string>
#include "TFEL/Math/tmatrix.hxx"
#include "TFEL/Math/stensor.hxx"
#include "TFEL/Math/st2tost2.hxx"

using namespace tfel::math;

int main() {
  // fixed proper rotation
  const double a = 0.7, b = -0.4, c = 1.1;
  const double ca = std::cos(a), sa = std::sin(a), cb = std::cos(b), sb = std::sin(b), cc = std::cos(c), sc = std::sin(c);
  tmatrix<3u, 3u, double> r;
  r(0, 0) = cb * cc; r(0, 1) = sa * sb * cc - ca * sc; r(0, 2) = ca * sb * cc + sa * sc;
  r(1, 0) = cb * sc; r(1, 1) = sa * sb * sc + ca * cc; r(1, 2) = ca * sb * sc - sa * cc;
  r(2, 0) = -sb;     r(2, 1) = sa * cb;                r(2, 2) = ca * cb;
  std::string line;
  while (std::getline(std::cin, line)) {
    std::istringstream is(line);
    double l0, l1, l2, eps;
    int k;
    if (!(is >> l0 >> l1 >> l2 >> k >> eps)) {
      std::printf("bad-op\n");
      continue;
    }
    const double l = std::ldexp(1., k);
    stensor<3u, double> s = stensor<3u, double>::buildFromEigenValuesAndVectors(l0, l1, l2, r);
    for (unsigned short i = 0; i != 6; ++i) s(i) *= l;  // exact
    const auto f2 = [](const double x) { return x * x; };
    const auto df2 = [](const double x) { return 2 * x; };
    const auto f3 = [](const double x) { return x * x * x; };
    const auto df3 = [](const double x) { return 3 * x * x; };
    const auto d = s.computeIsotropicFunctionDerivative(f2, df2, eps * l);
    const auto fd = s.computeIsotropicFunctionAndDerivative(f2, df2, eps * l);
    const auto d3 = s.computeIsotropicFunctionDerivative(f3, df3, eps * l);
    std::printf("D");
    for (unsigned short i = 0; i != 6; ++i)
      for (unsigned short j = 0; j != 6; ++j) std::printf(" %.17g", d(i, j) / l);
    for (unsigned short i = 0; i != 6; ++i)
      for (unsigned short j = 0; j != 6; ++j) std::printf(" %.17g", fd.second(i, j) / l);
    for (unsigned short i = 0; i != 6; ++i)
      for (unsigned short j = 0; j != 6; ++j) std::printf(" %.17g", d3(i, j) / l / l);
    std::printf("\n");
  }
  return 0;
}
