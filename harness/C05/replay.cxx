// C05 replay harness (double precision, real eigen-solver): evaluates the shipped functions of
// DecompositionInPositiveAndNegativeParts.ixx on a given tensor and prints the bilinear forms used by the
// traced units:  a = g:(dpp:h)  b = g:(dnp:h)  p = g.pp  n = g.np  qa = g:(dpp':h)  qp = g.pp'
// (primed: computeStensorPositivePartAndDerivative).
// input lines:  dec <N> <eps> s[0..S) h[0..S) g[0..S)
#include <cstdio>
#include <iostream>
#include <string>
#include "TFEL/Math/stensor.hxx"
#include "TFEL/Math/st2tost2.hxx"
#include "TFEL/Math/Stensor/DecompositionInPositiveAndNegativeParts.hxx"

template <unsigned short N>
static void dec(std::istream& in) {
  using namespace tfel::math;
  constexpr unsigned short S = StensorDimeToSize<N>::value;
  double eps;
  in >> eps;
  stensor<N, double> s, h, g;
  for (unsigned short i = 0; i != S; ++i) in >> s[i];
  for (unsigned short i = 0; i != S; ++i) in >> h[i];
  for (unsigned short i = 0; i != S; ++i) in >> g[i];
  st2tost2<N, double> dpp, dnp, dpp2;
  stensor<N, double> pp, np, pp2;
  computeStensorDecompositionInPositiveAndNegativeParts(dpp, dnp, pp, np, s, eps);
  computeStensorPositivePartAndDerivative(dpp2, pp2, s, eps);
  auto bil = [&](const st2tost2<N, double>& d) {
    double r = 0;
    for (unsigned short i = 0; i != S; ++i)
      for (unsigned short j = 0; j != S; ++j) r += g[i] * d(i, j) * h[j];
    return r;
  };
  auto dot = [&](const stensor<N, double>& t) {
    double r = 0;
    for (unsigned short i = 0; i != S; ++i) r += g[i] * t[i];
    return r;
  };
  std::printf("%.17g %.17g %.17g %.17g %.17g %.17g\n", bil(dpp), bil(dnp), dot(pp), dot(np), bil(dpp2), dot(pp2));
}

int main() {
  std::string op;
  int N;
  while (std::cin >> op >> N) {
    if (op != "dec") return 2;
    if (N == 1) dec<1>(std::cin);
    else if (N == 2) dec<2>(std::cin);
    else dec<3>(std::cin);
  }
  return 0;
}
