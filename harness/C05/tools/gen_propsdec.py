#!/usr/bin/env python3
"""Author's tool (not used by the check): writes the statements of lean/TfelVerif/C05/PropsDec*.lean from the
reading of DecompositionInPositiveAndNegativeParts.ixx encoded below (same rule as checks/c05ref.py, symbolic).
The generated files are then maintained by hand; Lean re-checks every statement against the traced code."""
import sys

S6 = "[s0, s1, s2, s3, s4, s5]"
S4 = "[s0, s1, s2, s3]"


def th(c, positive):
    if c == "z":
        return "(1 / 2)"
    return "1" if (c == "p") == positive else "0"


def val(x, c, positive):
    if c == "z":
        return "0"
    return x if (c == "p") == positive else "0"


def pp(x, c_sign, positive):
    """stensor_ppos / stensor_pneg of x whose sign class is c_sign in {'p','n'} (z: sign given by the shadow)"""
    return x if (c_sign == "p") == positive else "0"


def theta_vals(N, name, positive, zsign):
    """returns (t00,t11,t22,t01,t02,t12), (v0,v1,v2)"""
    L = ["l0", "l1", "l2"]
    parts = name.split("_")
    br, kinds = parts[0], parts[1]
    if N == 3 and br == "dist":
        t = [th(k, positive) for k in kinds]
        v = [val(L[i], kinds[i], positive) for i in range(3)]

        def cross(a, b):
            s = []
            if val("1", kinds[a], positive) == "1":
                s.append("%s / (%s - %s)" % (L[a], L[a], L[b]))
            if val("1", kinds[b], positive) == "1":
                s.append("%s / (%s - %s)" % (L[b], L[b], L[a]))
            return "(" + " + ".join(s) + ")" if s else "0"
        return (t[0], t[1], t[2], cross(0, 1), cross(0, 2), cross(1, 2)), v
    if N == 3 and br in ("p01", "p02", "p12"):
        i, j = {"p01": (0, 1), "p02": (0, 2), "p12": (1, 2)}[br]
        k = 3 - i - j
        vpm = "((%s + %s) * (1 / 2))" % (L[i], L[j])
        c, ck = kinds[0], kinds[1]
        sg = lambda cc, idx: cc if cc != "z" else zsign[idx]
        x = "((%s - %s) / (%s - %s))" % (pp(vpm, sg(c, 0), positive), pp(L[k], sg(ck, 1), positive), vpm, L[k])
        T = {}
        for a in range(3):
            for b in range(a, 3):
                if a == k and b == k:
                    T[(a, b)] = th(ck, positive)
                elif a == k or b == k:
                    T[(a, b)] = x
                else:
                    T[(a, b)] = th(c, positive)
        v = [None] * 3
        v[i] = v[j] = val(vpm, c, positive)
        v[k] = val(L[k], ck, positive)
        return (T[(0, 0)], T[(1, 1)], T[(2, 2)], T[(0, 1)], T[(0, 2)], T[(1, 2)]), v
    if N == 2 and br == "eq":
        vpm = "((l0 + l1) * (1 / 2))"
        c, c2 = kinds[0], kinds[1]
        t = th(c, positive)
        return (t, t, th(c2, positive), t, "0", "0"), [val(vpm, c, positive), val(vpm, c, positive), val("l2", c2, positive)]
    if N == 2 and br == "dist":
        sg = lambda idx: kinds[idx] if kinds[idx] != "z" else zsign[idx]
        x = "((%s - %s) / (l1 - l0))" % (pp("l1", sg(1), positive), pp("l0", sg(0), positive))
        return (th(kinds[0], positive), th(kinds[1], positive), th(kinds[2], positive), x, "0", "0"), \
            [val(L[i], kinds[i], positive) for i in range(3)]
    raise KeyError(name)


HDR = '''/-
  C05 — Isotropic tensor functions and their derivatives are consistent.   Part 4%(part)s:
  `computeStensorDecompositionInPositiveAndNegativeParts` and `computeStensorPositivePartAndDerivative`
  (DecompositionInPositiveAndNegativeParts.ixx), traced in concolic mode with the eigen-solver's result as
  uninterpreted symbols; one unit per decision pattern (`z`: |x| < eps, `p`: x > 0, `n`: otherwise), named
  `<branch>_<pattern>`. Outputs of a unit, for symbolic symmetric tensors `G`, `H` (stored `g`, `h`):
      a = G : (dpp : H),  b = G : (dnp : H),  p = G : pp,  n = G : np      (Decomposition…)
      qa = G : (dpp : H), qp = G : pp                                      (…PositivePartAndDerivative)
  Each theorem states, for *every* result `(l, M)` of the eigen-solver (hypotheses `hl*`, `hM` only name it):
      a = G : (M (Θ⁺ ∘ (Mᵀ H M)) Mᵀ),  b = G : (M (Θ⁻ ∘ (Mᵀ H M)) Mᵀ),  p = G : (M diag(v⁺) Mᵀ),  n = G : (M diag(v⁻) Mᵀ)
  with the tables Θ± (Daleckii–Krein weights of `x ↦ max(x,0)`, `min(x,0)`, regularised inside the eps zones as the
  code documents) and the eigenvalues v± of the two parts; and `qa = a`, `qp = p`.
  The `*_meaning` theorems read the tables under the branch's conditions.

  Only a core set of patterns carries a Lean theorem (quick tier: this file; thorough tier: PropsDecX.lean); every
  traced pattern is in addition evaluated exactly against the same rule by the check (checks/c05ref.py).
-/
import TfelVerif.Common.M3
import TfelVerif.C05.Lemmas
%(imports)s
namespace TfelVerif.C05.%(ns)s
open TfelVerif TfelVerif.Mandel TfelVerif.C05
set_option linter.unusedVariables false
set_option linter.unusedSectionVars false
set_option linter.unusedSimpArgs false
set_option maxHeartbeats 4000000
set_option maxRecDepth 100000

variable {K : Type} [Field K] [CharZero K] (c c3 : K) (fn : Fns K)

/-- after naming the solver's result: unfold, turn divisions into inverses of atoms, `ring` modulo `c² = 2` -/
macro "c05_dec" hc:term : tactic =>
  `(tactic| (
      c05_unfold
      (try simp only [div_eq_mul_inv, c_inv $hc two_ne_zero])
      (first | ring1 | (ring_nf; (try c_powers $hc); (try ring1)))))

'''


def unit3(name, zsign=("p", "p")):
    tp, vp = theta_vals(3, name, True, zsign)
    tn, vn = theta_vals(3, name, False, zsign)
    args = "s0 s1 s2 s3 s4 s5 eps h00 h11 h22 (c * h01) (c * h02) (c * h12) g00 g11 g22 (c * g01) (c * g02) (c * g12)"
    M = "⟨m00, m01, m02, m10, m11, m12, m20, m21, m22⟩"
    G = "(M3.sym g00 g11 g22 g01 g02 g12)"
    H = "(M3.sym h00 h11 h22 h01 h02 h12)"
    U = "Gen.N3_dec_%s" % name
    return f'''theorem N3_dec_{name} (hc : c * c = 2)
    (s0 s1 s2 s3 s4 s5 eps h00 h11 h22 h01 h02 h12 g00 g11 g22 g01 g02 g12 l0 l1 l2 m00 m01 m02 m10 m11 m12 m20 m21 m22 : K)
    (hl0 : solvp fn "vp0" {S6} = l0) (hl1 : solvp fn "vp1" {S6} = l1) (hl2 : solvp fn "vp2" {S6} = l2)
    (hM : solM3 fn {S6} = {M}) :
    {U}_a c c3 fn {args}
      = {G}.frob (dkAct {M} (M3.sym {" ".join(tp)}) {H})
    ∧ {U}_b c c3 fn {args}
      = {G}.frob (dkAct {M} (M3.sym {" ".join(tn)}) {H})
    ∧ {U}_p c c3 fn {args} = {G}.frob (iso {M} {" ".join(vp)})
    ∧ {U}_n c c3 fn {args} = {G}.frob (iso {M} {" ".join(vn)})
    ∧ {U}_qa c c3 fn {args} = {U}_a c c3 fn {args}
    ∧ {U}_qp c c3 fn {args} = {U}_p c c3 fn {args} := by
  subst hl0 hl1 hl2
  simp only [solM3, M3.mk.injEq] at hM
  obtain ⟨rfl, rfl, rfl, rfl, rfl, rfl, rfl, rfl, rfl⟩ := hM
  (try simp only [solvp])
  refine ⟨?_, ?_, ?_, ?_, ?_, ?_⟩
  · c05_dec hc
  · c05_dec hc
  · c05_dec hc
  · c05_dec hc
  · simp only [gen_simp]
  · simp only [gen_simp]

'''


def unit3full(name):
    k = name.split("_")[1]
    tp, tn = th(k, True), th(k, False)
    args = "a00 a11 a22 (c * a01) (c * a02) (c * a12) eps h00 h11 h22 (c * h01) (c * h02) (c * h12) g00 g11 g22 (c * g01) (c * g02) (c * g12)"
    G = "(M3.sym g00 g11 g22 g01 g02 g12)"
    H = "(M3.sym h00 h11 h22 h01 h02 h12)"
    A = "(M3.sym a00 a11 a22 a01 a02 a12)"
    U = "Gen.N3_dec_%s" % name
    pv = f"{G}.frob {A}" if k == "p" else "0"
    nv = f"{G}.frob {A}" if k == "n" else "0"
    return f'''/-- all eigenvalues within eps of each other: `dpp = t⁺ Id`, `dnp = t⁻ Id`; the parts are the tensor itself or zero -/
theorem N3_dec_{name} (hc : c * c = 2)
    (a00 a11 a22 a01 a02 a12 eps h00 h11 h22 h01 h02 h12 g00 g11 g22 g01 g02 g12 : K) :
    {U}_a c c3 fn {args} = {tp} * {G}.frob {H}
    ∧ {U}_b c c3 fn {args} = {tn} * {G}.frob {H}
    ∧ {U}_p c c3 fn {args} = {pv}
    ∧ {U}_n c c3 fn {args} = {nv}
    ∧ {U}_qa c c3 fn {args} = {U}_a c c3 fn {args}
    ∧ {U}_qp c c3 fn {args} = {U}_p c c3 fn {args} := by
  refine ⟨?_, ?_, ?_, ?_, ?_, ?_⟩
  · c05_dec hc
  · c05_dec hc
  · c05_dec hc
  · c05_dec hc
  · simp only [gen_simp]
  · simp only [gen_simp]

'''


def unit2(name, zsign=("p", "p")):
    tp, vp = theta_vals(2, name, True, zsign)
    tn, vn = theta_vals(2, name, False, zsign)
    args = "s0 s1 s2 s3 eps h00 h11 h22 (c * h01) g00 g11 g22 (c * g01)"
    M = "(M2 m00 m01 m10 m11)"
    G = "(M3.sym g00 g11 g22 g01 0 0)"
    H = "(M3.sym h00 h11 h22 h01 0 0)"
    U = "Gen.N2_dec_%s" % name
    return f'''theorem N2_dec_{name} (hc : c * c = 2)
    (s0 s1 s2 s3 eps h00 h11 h22 h01 g00 g11 g22 g01 l0 l1 l2 m00 m01 m10 m11 : K)
    (hl0 : solvp fn "vp0" {S4} = l0) (hl1 : solvp fn "vp1" {S4} = l1) (hl2 : solvp fn "vp2" {S4} = l2)
    (hM : solM2 fn {S4} = {M}) :
    {U}_a c c3 fn {args}
      = {G}.frob (dkAct {M} (M3.sym {" ".join(tp)}) {H})
    ∧ {U}_b c c3 fn {args}
      = {G}.frob (dkAct {M} (M3.sym {" ".join(tn)}) {H})
    ∧ {U}_p c c3 fn {args} = {G}.frob (iso {M} {" ".join(vp)})
    ∧ {U}_n c c3 fn {args} = {G}.frob (iso {M} {" ".join(vn)})
    ∧ {U}_qa c c3 fn {args} = {U}_a c c3 fn {args}
    ∧ {U}_qp c c3 fn {args} = {U}_p c c3 fn {args} := by
  subst hl0 hl1 hl2
  simp only [solM2, M2, M3.mk.injEq, and_true, true_and] at hM
  obtain ⟨rfl, rfl, rfl, rfl⟩ := hM
  (try simp only [solvp])
  refine ⟨?_, ?_, ?_, ?_, ?_, ?_⟩
  · c05_dec hc
  · c05_dec hc
  · c05_dec hc
  · c05_dec hc
  · simp only [gen_simp]
  · simp only [gen_simp]

'''


def unit1(name):
    t = [th(k, True) for k in name]
    tn = [th(k, False) for k in name]
    v = [val("s%d" % i, name[i], True) for i in range(3)]
    vn = [val("s%d" % i, name[i], False) for i in range(3)]
    args = "s0 s1 s2 eps h0 h1 h2 g0 g1 g2"
    U = "Gen.N1_dec_%s" % name
    return f'''theorem N1_dec_{name} (s0 s1 s2 eps h0 h1 h2 g0 g1 g2 : K) :
    {U}_a c c3 fn {args} = dot3 [g0, g1, g2] [{t[0]} * h0, {t[1]} * h1, {t[2]} * h2]
    ∧ {U}_b c c3 fn {args} = dot3 [g0, g1, g2] [{tn[0]} * h0, {tn[1]} * h1, {tn[2]} * h2]
    ∧ {U}_p c c3 fn {args} = dot3 [g0, g1, g2] [{v[0]}, {v[1]}, {v[2]}]
    ∧ {U}_n c c3 fn {args} = dot3 [g0, g1, g2] [{vn[0]}, {vn[1]}, {vn[2]}]
    ∧ {U}_qa c c3 fn {args} = {U}_a c c3 fn {args}
    ∧ {U}_qp c c3 fn {args} = {U}_p c c3 fn {args} := by
  refine ⟨?_, ?_, ?_, ?_, ?_, ?_⟩ <;> simp only [gen_simp, dot3] <;> ring1

'''


def unit3tab(name, zsign=("p", "p")):
    """3D core patterns: the whole tables are traced (unit `dect_<name>`)"""
    tp, vp = theta_vals(3, name, True, zsign)
    tn, vn = theta_vals(3, name, False, zsign)
    M = "⟨m00, m01, m02, m10, m11, m12, m20, m21, m22⟩"
    U = "Gen.N3_dect_%s" % name
    return f'''/-- tables `dpp`, `dnp` (36 numbers each) and parts `pp`, `np` of
`computeStensorDecompositionInPositiveAndNegativeParts` for the decision pattern `{name}` -/
theorem N3_dect_{name} (hc : c * c = 2)
    (s0 s1 s2 s3 s4 s5 eps l0 l1 l2 m00 m01 m02 m10 m11 m12 m20 m21 m22 : K)
    (hl0 : solvp fn "vp0" {S6} = l0) (hl1 : solvp fn "vp1" {S6} = l1) (hl2 : solvp fn "vp2" {S6} = l2)
    (hM : solM3 fn {S6} = {M}) :
    {U}_all c c3 fn s0 s1 s2 s3 s4 s5 eps
      = DK3 c {M} (M3.sym {" ".join(tp)})
        ++ DK3 c {M} (M3.sym {" ".join(tn)})
        ++ M3.mandel3 c (iso {M} {" ".join(vp)})
        ++ M3.mandel3 c (iso {M} {" ".join(vn)}) := by
  subst hl0 hl1 hl2
  simp only [solM3, M3.mk.injEq] at hM
  obtain ⟨rfl, rfl, rfl, rfl, rfl, rfl, rfl, rfl, rfl⟩ := hM
  (try simp only [solvp])
  c05_unfold
  simp only [List.cons_append, List.nil_append, List.cons.injEq, and_true, true_and, div_eq_mul_inv,
    c_inv hc two_ne_zero]
  (repeat' apply And.intro)
  all_goals (first | ring1 | (ring_nf; (try c_powers hc); (try ring1)))

'''

MEANING_HDR = '''/-! ## reading the tables

For a positive definite tensor (all eigenvalues ≥ eps, pairwise apart) the positive part is the tensor and its
derivative the identity, the negative part and its derivative vanish; symmetrically for a negative definite
tensor. (`M` orthogonal, i.e. a valid result of the eigen-solver; `l_i ≠ l_j` follows from the branch condition.)
The second statement is the one violated by the defect found in the 3D all-distinct branch (`dnp`, term
`vp(2)/(vp(2)-vp(1))` instead of `vp(2)/(vp(2)-vp(0))`, fixed in /repo b8fe4ffa9). -/
'''
MEANING_PPP = '''theorem N3_dect_dist_ppp_meaning (hc : c * c = 2)
    (s0 s1 s2 s3 s4 s5 eps l0 l1 l2 m00 m01 m02 m10 m11 m12 m20 m21 m22 h00 h11 h22 h01 h02 h12 : K)
    (hl0 : solvp fn "vp0" [s0, s1, s2, s3, s4, s5] = l0) (hl1 : solvp fn "vp1" [s0, s1, s2, s3, s4, s5] = l1)
    (hl2 : solvp fn "vp2" [s0, s1, s2, s3, s4, s5] = l2)
    (hM : solM3 fn [s0, s1, s2, s3, s4, s5] = ⟨m00, m01, m02, m10, m11, m12, m20, m21, m22⟩)
    (hO : Orth (⟨m00, m01, m02, m10, m11, m12, m20, m21, m22⟩ : M3 K)) (n01 : l0 ≠ l1) (n02 : l0 ≠ l2) (n12 : l1 ≠ l2) :
    Gen.N3_dect_dist_ppp_all c c3 fn s0 s1 s2 s3 s4 s5 eps
      = DK3 c ⟨m00, m01, m02, m10, m11, m12, m20, m21, m22⟩ (M3.sym 1 1 1 1 1 1)
        ++ DK3 c ⟨m00, m01, m02, m10, m11, m12, m20, m21, m22⟩ (M3.sym 0 0 0 0 0 0)
        ++ M3.mandel3 c (iso ⟨m00, m01, m02, m10, m11, m12, m20, m21, m22⟩ l0 l1 l2)
        ++ M3.mandel3 c (iso ⟨m00, m01, m02, m10, m11, m12, m20, m21, m22⟩ 0 0 0)
    ∧ apply6 (DK3 c ⟨m00, m01, m02, m10, m11, m12, m20, m21, m22⟩ (M3.sym 1 1 1 1 1 1))
          (M3.mandel3 c (M3.sym h00 h11 h22 h01 h02 h12)) = M3.mandel3 c (M3.sym h00 h11 h22 h01 h02 h12) := by
  have s01 : l0 - l1 ≠ 0 := sub_ne_zero.mpr n01
  have s10 : l1 - l0 ≠ 0 := sub_ne_zero.mpr n01.symm
  have s02 : l0 - l2 ≠ 0 := sub_ne_zero.mpr n02
  have s20 : l2 - l0 ≠ 0 := sub_ne_zero.mpr n02.symm
  have s12 : l1 - l2 ≠ 0 := sub_ne_zero.mpr n12
  have s21 : l2 - l1 ≠ 0 := sub_ne_zero.mpr n12.symm
  have e01 : l0 / (l0 - l1) + l1 / (l1 - l0) = 1 := by field_simp; ring
  have e02 : l0 / (l0 - l2) + l2 / (l2 - l0) = 1 := by field_simp; ring
  have e12 : l1 / (l1 - l2) + l2 / (l2 - l1) = 1 := by field_simp; ring
  constructor
  · rw [N3_dect_dist_ppp c c3 fn hc s0 s1 s2 s3 s4 s5 eps l0 l1 l2 m00 m01 m02 m10 m11 m12 m20 m21 m22 hl0 hl1 hl2 hM,
      e01, e02, e12]
  · rw [DK3_apply hc]
    have := dkAct_const hO 1 (M3.sym h00 h11 h22 h01 h02 h12)
    simp only [M3.sym] at this ⊢
    rw [this]; congr 1; m3_ring

'''
MEANING_NNN = '''theorem N3_dect_dist_nnn_meaning (hc : c * c = 2)
    (s0 s1 s2 s3 s4 s5 eps l0 l1 l2 m00 m01 m02 m10 m11 m12 m20 m21 m22 : K)
    (hl0 : solvp fn "vp0" [s0, s1, s2, s3, s4, s5] = l0) (hl1 : solvp fn "vp1" [s0, s1, s2, s3, s4, s5] = l1)
    (hl2 : solvp fn "vp2" [s0, s1, s2, s3, s4, s5] = l2)
    (hM : solM3 fn [s0, s1, s2, s3, s4, s5] = ⟨m00, m01, m02, m10, m11, m12, m20, m21, m22⟩)
    (n01 : l0 ≠ l1) (n02 : l0 ≠ l2) (n12 : l1 ≠ l2) :
    Gen.N3_dect_dist_nnn_all c c3 fn s0 s1 s2 s3 s4 s5 eps
      = DK3 c ⟨m00, m01, m02, m10, m11, m12, m20, m21, m22⟩ (M3.sym 0 0 0 0 0 0)
        ++ DK3 c ⟨m00, m01, m02, m10, m11, m12, m20, m21, m22⟩ (M3.sym 1 1 1 1 1 1)
        ++ M3.mandel3 c (iso ⟨m00, m01, m02, m10, m11, m12, m20, m21, m22⟩ 0 0 0)
        ++ M3.mandel3 c (iso ⟨m00, m01, m02, m10, m11, m12, m20, m21, m22⟩ l0 l1 l2) := by
  have s01 : l0 - l1 ≠ 0 := sub_ne_zero.mpr n01
  have s10 : l1 - l0 ≠ 0 := sub_ne_zero.mpr n01.symm
  have s02 : l0 - l2 ≠ 0 := sub_ne_zero.mpr n02
  have s20 : l2 - l0 ≠ 0 := sub_ne_zero.mpr n02.symm
  have s12 : l1 - l2 ≠ 0 := sub_ne_zero.mpr n12
  have s21 : l2 - l1 ≠ 0 := sub_ne_zero.mpr n12.symm
  have e01 : l0 / (l0 - l1) + l1 / (l1 - l0) = 1 := by field_simp; ring
  have e02 : l0 / (l0 - l2) + l2 / (l2 - l0) = 1 := by field_simp; ring
  have e12 : l1 / (l1 - l2) + l2 / (l2 - l1) = 1 := by field_simp; ring
  rw [N3_dect_dist_nnn c c3 fn hc s0 s1 s2 s3 s4 s5 eps l0 l1 l2 m00 m01 m02 m10 m11 m12 m20 m21 m22 hl0 hl1 hl2 hM,
    e01, e02, e12]

'''


if __name__ == "__main__":
    which = sys.argv[1]
    if which == "quick":
        body = "".join(unit1(n) for n in ["ppp", "nnn", "zzz", "pnz", "znp"])
        body += unit2("eq_pp") + unit2("dist_ppp") + unit2("dist_nnn")
        body += unit3full("full_p")
        imports = "import TfelVerif.C05.GenDec12\nimport TfelVerif.C05.GenDec3full\n"
        sys.stdout.write(HDR % {"part": "", "imports": imports, "ns": "PropsDec"} + body + "end TfelVerif.C05.PropsDec\n")
    elif which in ("Ta", "Tb", "Tc"):
        body, imp = {"Ta": (unit3tab("p01_pp"), "GenTabP01pp"),
                     "Tb": (unit3tab("dist_ppp") + MEANING_HDR + MEANING_PPP, "GenTabDistppp"),
                     "Tc": (unit3tab("dist_nnn") + MEANING_HDR + MEANING_NNN, "GenTabDistnnn")}[which]
        sys.stdout.write(HDR % {"part": " (3D, whole tables, one pattern per file)", "imports": "import TfelVerif.C05.%s\n" % imp, "ns": "PropsDec" + which}
                         + body + "end TfelVerif.C05.PropsDec%s\n" % which)
    else:
        body = unit2("eq_pn") + unit2("eq_zz") + unit2("dist_pnp") + unit2("dist_zpn", zsign=("p", "p"))
        body += unit3full("full_n") + unit3full("full_z")
        imports = "import TfelVerif.C05.GenDec12\nimport TfelVerif.C05.GenDec3full\n"
        sys.stdout.write(HDR % {"part": " (thorough tier: more patterns)", "imports": imports, "ns": "PropsDecX"} + body + "end TfelVerif.C05.PropsDecX\n")
