// T1 tracer for C05: isotropic functions of symmetric tensors and their derivatives.
//
// Everything is traced on stensor<N,Sym> / st2tost2<N,Sym> through the static overloads that take
// the eigenvalues `vp`, the eigenvector matrix `m` and f(vp_i), f'(vp_i) as fresh symbols, so that no
// eigen-solver runs inside a trace. Wrappers that call the eigen-solver themselves (logarithm,
// absolute_value, positive_part, negative_part, square_root, the member functions templated by the
// solver, DecompositionInPositiveAndNegativeParts) are traced with the *result* of the default
// solver replaced by uninterpreted symbols `vp<i>(s)`, `m<i><j>(s)` (partial specialisation of
// StensorEigenSolver for the recording scalar, below): the theorems then hold for whatever the solver
// returns, and C03 is the property that says what it returns.
//
// The derivative code branches on |vp_i - vp_j| < eps: traced in concolic mode, one unit per branch
// pattern, the shadow values of (vp, eps) being chosen so as to select the pattern.
#include "tracehelp.hxx"
#include <algorithm>
#include <deque>

// std::max/std::min on the recording scalar: record a `max`/`min` node (the generic templates would
// branch on `a < b`). For any linear order  (a < b ? b : a) = max a b  and  (b < a ? b : a) = min a b.
namespace std {
  template <>
  inline const verif::Sym& max<verif::Sym>(const verif::Sym& a,
                                           const verif::Sym& b) {
    static std::deque<verif::Sym> pool;
    pool.push_back(verif::max(a, b));
    return pool.back();
  }
  template <>
  inline const verif::Sym& min<verif::Sym>(const verif::Sym& a,
                                           const verif::Sym& b) {
    static std::deque<verif::Sym> pool;
    pool.push_back(verif::min(a, b));
    return pool.back();
  }
}  // namespace std

// tfel::math::abs is `(s < 0) ? -s : s`: on the recording scalar record an `abs` node instead of
// branching on the sign. A more constrained template overload is declared before the TFEL headers
// (qualified calls are bound at template definition; unqualified calls reach verif::abs by ADL).
// The template of General/Abs.hxx itself is traced concolically in the units `abs_neg/abs_pos/abs_zero`.
#include "TFEL/Math/Forward/General.hxx"
namespace tfel::math {
  template <typename T>
  requires(ScalarConcept<T>&& std::same_as<T, verif::Sym>) inline verif::Sym
      abs(const T& s) noexcept {
    return verif::abs(s);
  }
}  // namespace tfel::math
#include "TFEL/Math/General/BasicOperations.hxx"
#include "TFEL/Math/General/UnaryResultType.hxx"
namespace tfel::math {
  //! unary minus on the recording scalar (missing from symtrace/glue.hxx, which is shared; same specialisation as
  //! harness/C17/c17prog.hxx): needed by StensorComputeEigenTensorsDerivatives<2u> (`dn1_ds = -dn0_ds`)
  template <>
  struct ComputeUnaryOperationResult<ScalarTag, UnaryOperatorTag, verif::Sym, OpNeg> {
    using type = verif::Sym;
  };
}  // namespace tfel::math

#include "TFEL/Math/stensor.hxx"
#include "TFEL/Math/st2tost2.hxx"
#include "TFEL/Math/tmatrix.hxx"
#include "TFEL/Math/tvector.hxx"
#include "TFEL/Math/Stensor/DecompositionInPositiveAndNegativeParts.hxx"

namespace c05 {
  //! shadow value of a named quantity of the current unit (overridable through VERIF_SHADOW)
  inline double shadow_of(const std::string& name, const double dflt) {
    const auto& o = verif::shadow_overrides();
    const auto q = o.find(verif::current_unit() + " " + name);
    return q != o.end() ? q->second : dflt;
  }
  //! an uninterpreted call, memoised per unit (the same solver call on the same tensor is one symbol)
  inline verif::Sym call(const std::string& name,
                         const std::vector<verif::Sym>& args,
                         const double shadow) {
    static std::string unit;
    static std::map<std::pair<std::string, std::vector<int>>, verif::Sym> memo;
    if (unit != verif::current_unit()) {
      unit = verif::current_unit();
      memo.clear();
    }
    std::vector<int> ids;
    for (const auto& a : args) ids.push_back(verif::node_of(a));
    const auto key = std::make_pair(name, ids);
    const auto q = memo.find(key);
    if (q != memo.end()) return q->second;
    const auto r = verif::make_call(name, args, shadow);
    memo[key] = r;
    return r;
  }
  //! default shadow values of the stub solver results for the current unit
  inline double& vp_default(const int i) {
    static double v[3] = {1., 2., 3.5};
    return v[i];
  }
}  // namespace c05

namespace tfel::math::internals {
  /*!
   * The default eigen-solver on the recording scalar: its results are uninterpreted functions
   * `vp<i>(s...)`, `m<i><j>(s...)` of the stored components of the tensor.
   */
  template <unsigned short N>
  struct StensorEigenSolver<stensor_common::TFELEIGENSOLVER, N, verif::Sym> {
    using Sym = verif::Sym;
    static std::vector<Sym> args(const Sym* const v) {
      return std::vector<Sym>(v, v + StensorDimeToSize<N>::value);
    }
    static void computeEigenValues(
        Sym& vp0, Sym& vp1, Sym& vp2, const Sym* const v, const bool) {
      if constexpr (N == 1) {
        // 1D: the stored components are the eigenvalues (StensorComputeEigenValues<1u>)
        vp0 = v[0];
        vp1 = v[1];
        vp2 = v[2];
        return;
      }
      const auto a = args(v);
      vp0 = c05::call("vp0", a, c05::shadow_of("vp0", c05::vp_default(0)));
      vp1 = c05::call("vp1", a, c05::shadow_of("vp1", c05::vp_default(1)));
      vp2 = c05::call("vp2", a, c05::shadow_of("vp2", c05::vp_default(2)));
    }
    static void computeEigenVectors(tvector<3u, Sym>& vp,
                                    tmatrix<3u, 3u, Sym>& m,
                                    const Sym* const v,
                                    const bool b) {
      computeEigenValues(vp[0], vp[1], vp[2], v, b);
      const auto a = args(v);
      for (unsigned short i = 0; i != 3; ++i) {
        for (unsigned short j = 0; j != 3; ++j) {
          const auto n = "m" + std::to_string(i) + std::to_string(j);
          if ((N == 1) || ((N == 2) && ((i == 2) || (j == 2)))) {
            // structure of the eigenvector matrix in 1D and 2D (identity / out-of-plane axis)
            m(i, j) = (i == j) ? Sym(1) : Sym(0);
          } else {
            m(i, j) = c05::call(
                n, a, c05::shadow_of(n, verif::shadow_value("m" + std::to_string(i), j)));
          }
        }
      }
    }
  };
}  // namespace tfel::math::internals

using namespace tfel::math;
using verif::Sym;
using verif::Unit;

//! f and f' as uninterpreted functions
static const auto fsym = [](const Sym& x) {
  return c05::call("f", {x}, 0.3 + 0.7 * x.shadow() * x.shadow());
};
static const auto dfsym = [](const Sym& x) {
  return c05::call("df", {x}, 1.4 * x.shadow() + 0.11);
};

struct Pattern {
  const char* name;
  double l0, l1, l2, eps;
};

template <unsigned short N>
static void inputs_vp_m(tvector<3u, Sym>& vp,
                        rotation_matrix<Sym>& m,
                        const Pattern& p) {
  verif::fill_inputs2(m, "m", 3, 3);
  vp[0] = verif::scalar_input("l0", p.l0);
  vp[1] = verif::scalar_input("l1", p.l1);
  vp[2] = verif::scalar_input("l2", p.l2);
}

static void set_vp_defaults(const double a, const double b, const double c) {
  c05::vp_default(0) = a;
  c05::vp_default(1) = b;
  c05::vp_default(2) = c;
}

//! bilinear form of a fourth order tensor: sum_i g_i (sum_j d(i,j) h_j), for symbolic g and h
template <unsigned short N>
static void out_bilinear(const std::string& name,
                         const stensor<N, Sym>& g,
                         const st2tost2<N, Sym>& d,
                         const stensor<N, Sym>& h) {
  constexpr unsigned short S = StensorDimeToSize<N>::value;
  Sym r;
  for (unsigned short i = 0; i != S; ++i) {
    Sym a = d(i, 0) * h[0];
    for (unsigned short j = 1; j != S; ++j) {
      a = a + d(i, j) * h[j];
    }
    r = (i == 0) ? g[0] * a : r + g[i] * a;
  }
  verif::output(name, r);
}
//! sum_i g_i t_i
template <unsigned short N>
static void out_dot(const std::string& name,
                    const stensor<N, Sym>& g,
                    const stensor<N, Sym>& t) {
  constexpr unsigned short S = StensorDimeToSize<N>::value;
  Sym r = g[0] * t[0];
  for (unsigned short i = 1; i != S; ++i) {
    r = r + g[i] * t[i];
  }
  verif::output(name, r);
}

template <unsigned short N>
void trace_dim() {
  constexpr int S = StensorDimeToSize<N>::value;
  const std::string d = "N" + std::to_string(N) + "_";
  const Pattern generic{"", 1., 2., 3.5, 0.01};
  // ---------------------------------------------------------------- values
  {
    Unit u(d + "isofun_values");
    rotation_matrix<Sym> m;
    verif::fill_inputs2(m, "m", 3, 3);
    tvector<3u, Sym> f;
    verif::fill_inputs(f, "f", 3);
    const stensor<N, Sym> r = stensor<N, Sym>::computeIsotropicFunction(f, m);
    verif::outputs("r", r, S);
  }
  {
    Unit u(d + "isofun_fn");
    rotation_matrix<Sym> m;
    tvector<3u, Sym> vp;
    inputs_vp_m<N>(vp, m, generic);
    const stensor<N, Sym> r =
        stensor<N, Sym>::computeIsotropicFunction(fsym, vp, m);
    verif::outputs("r", r, S);
  }
  {
    Unit u(d + "build_log");
    rotation_matrix<Sym> m;
    tvector<3u, Sym> vp;
    inputs_vp_m<N>(vp, m, generic);
    const stensor<N, Sym> r =
        stensor<N, Sym>::buildLogarithmFromEigenValuesAndVectors(vp, m);
    const stensor<N, Sym> r2 =
        stensor<N, Sym>::buildLogarithmFromEigenValuesAndVectors(vp[0], vp[1],
                                                                 vp[2], m);
    verif::outputs("r", r, S);
    verif::outputs("q", r2, S);
  }
  {
    Unit u(d + "build_pos_neg");
    rotation_matrix<Sym> m;
    tvector<3u, Sym> vp;
    inputs_vp_m<N>(vp, m, generic);
    const stensor<N, Sym> p =
        stensor<N, Sym>::buildPositivePartFromEigenValuesAndVectors(vp, m);
    const stensor<N, Sym> n =
        stensor<N, Sym>::buildNegativePartFromEigenValuesAndVectors(vp, m);
    const stensor<N, Sym> p2 =
        stensor<N, Sym>::buildPositivePartFromEigenValuesAndVectors(
            vp[0], vp[1], vp[2], m);
    const stensor<N, Sym> n2 =
        stensor<N, Sym>::buildNegativePartFromEigenValuesAndVectors(
            vp[0], vp[1], vp[2], m);
    verif::outputs("p", p, S);
    verif::outputs("n", n, S);
    verif::outputs("pp", p2, S);
    verif::outputs("nn", n2, S);
  }
  {
    Unit u(d + "eigentensors");
    rotation_matrix<Sym> m;
    verif::fill_inputs2(m, "m", 3, 3);
    const auto [n0, n1, n2] = stensor<N, Sym>::computeEigenTensors(m);
    verif::outputs("a", n0, S);
    verif::outputs("b", n1, S);
    verif::outputs("e", n2, S);
  }
  // ---------------------------------------------------------------- wrappers (stub solver)
  auto wrapper = [&](const std::string& name, auto&& fct) {
    Unit u(d + "w_" + name);
    stensor<N, Sym> s;
    verif::fill_inputs(s, "s", S);
    const stensor<N, Sym> r = fct(s);
    verif::outputs("r", r, S);
  };
  wrapper("logarithm", [](const stensor<N, Sym>& s) { return logarithm(s); });
  wrapper("absolute_value",
          [](const stensor<N, Sym>& s) { return absolute_value(s); });
  wrapper("positive_part",
          [](const stensor<N, Sym>& s) { return positive_part(s); });
  wrapper("negative_part",
          [](const stensor<N, Sym>& s) { return negative_part(s); });
  wrapper("square_root",
          [](const stensor<N, Sym>& s) { return square_root(s); });
  wrapper("isofun_member", [](const stensor<N, Sym>& s) {
    return s.computeIsotropicFunction(fsym);
  });
  wrapper("isofun_free", [](const stensor<N, Sym>& s) {
    return computeIsotropicFunction<stensor_common::TFELEIGENSOLVER>(fsym, s,
                                                                     false);
  });
  // ---------------------------------------------------------------- derivatives
  std::vector<Pattern> pats;
  if (N == 1) {
    pats = {{"any", 1., 2., 3.5, 0.01}};
  } else if (N == 2) {
    pats = {{"dist", 1., 2., 3.5, 0.01}, {"eq", 1., 1., 3.5, 0.01}};
  } else {
    pats = {{"dist", 1., 2., 3.5, 0.01},
            {"full", 1., 1., 1., 0.01},
            {"p01", 1., 1., 3.5, 0.01},
            {"p02", 1., 3.5, 1., 0.01},
            {"p12", 3.5, 1., 1., 0.01}};
  }
  verif::ctx().concolic = true;
  for (const auto& p : pats) {
    {
      // values of f and f' given: the whole fourth order tensor
      Unit u(d + "dval_" + p.name);
      rotation_matrix<Sym> m;
      tvector<3u, Sym> vp, f, df;
      inputs_vp_m<N>(vp, m, p);
      verif::fill_inputs(f, "f", 3);
      verif::fill_inputs(df, "g", 3);
      const Sym eps = verif::scalar_input("eps", p.eps);
      const st2tost2<N, Sym> r =
          stensor<N, Sym>::computeIsotropicFunctionDerivative(f, df, vp, m,
                                                              eps);
      verif::outputs2("d", r, S, S);
    }
    {
      // functions f and f' given: bilinear form g:(D:h) for symbolic symmetric tensors g, h
      Unit u(d + "dfun_" + p.name);
      rotation_matrix<Sym> m;
      tvector<3u, Sym> vp;
      inputs_vp_m<N>(vp, m, p);
      const Sym eps = verif::scalar_input("eps", p.eps);
      stensor<N, Sym> h, g;
      verif::fill_inputs(h, "h", S);
      verif::fill_inputs(g, "g", S);
      const st2tost2<N, Sym> r =
          stensor<N, Sym>::computeIsotropicFunctionDerivative(fsym, dfsym, vp,
                                                              m, eps);
      out_bilinear<N>("a", g, r, h);
    }
    {
      // member and free functions templated by the eigen-solver (stub solver): derivative and
      // value-and-derivative. The stub solver is memoised, so identical computations are identical
      // DAG nodes (the check turns outputs that are the same node into aliases).
      set_vp_defaults(p.l0, p.l1, p.l2);
      Unit u(d + "w_d_" + p.name);
      stensor<N, Sym> s, h, g;
      verif::fill_inputs(s, "s", S);
      const Sym eps = verif::scalar_input("eps", p.eps);
      verif::fill_inputs(h, "h", S);
      verif::fill_inputs(g, "g", S);
      const st2tost2<N, Sym> r =
          s.computeIsotropicFunctionDerivative(fsym, dfsym, eps);
      const auto [v, r2] =
          s.computeIsotropicFunctionAndDerivative(fsym, dfsym, eps);
      const st2tost2<N, Sym> fr =
          computeIsotropicFunctionDerivative<stensor_common::TFELEIGENSOLVER>(
              fsym, dfsym, s, eps, false);
      const auto [fv, fr2] = computeIsotropicFunctionAndDerivative<
          stensor_common::TFELEIGENSOLVER>(fsym, dfsym, s, eps, false);
      out_bilinear<N>("a", g, r, h);
      out_dot<N>("v", g, v);
      out_bilinear<N>("b", g, r2, h);
      out_bilinear<N>("fa", g, fr, h);
      out_dot<N>("fv", g, fv);
      out_bilinear<N>("fb", g, fr2, h);
      set_vp_defaults(1., 2., 3.5);
    }
  }
  // ---------------------------------------------------------------- DecompositionInPositiveAndNegativeParts
  // shadow values: z* lie in the regularisation zone |x| < eps = 0.01
  std::vector<Pattern> dpats;
  if (N == 1) {
    dpats = {{"ppp", 1., 2., 3.5, 0.01},
             {"nnn", -1., -2., -3.5, 0.01},
             {"zzz", 0.002, -0.003, 0.004, 0.01},
             {"pnz", 1., -2., 0.002, 0.01},
             {"znp", -0.002, -2., 1.5, 0.01}};
  } else if (N == 2) {
    dpats = {{"eq_zz", 0.001, 0.002, -0.003, 0.01},
             {"eq_pp", 1., 1.001, 2., 0.01},
             {"eq_nn", -1., -1.001, -2., 0.01},
             {"eq_pn", 1., 1.001, -2., 0.01},
             {"eq_np", -1., -1.001, 2., 0.01},
             {"dist_ppp", 1., 2., 3.5, 0.01},
             {"dist_nnn", -1., -2., -3.5, 0.01},
             {"dist_zzz", -0.006, 0.006, 0.001, 0.01},
             {"dist_pnp", 1., -2., 3.5, 0.01},
             {"dist_npn", -1., 2., -3.5, 0.01},
             {"dist_zpn", 0.002, 2., -3.5, 0.01},
             {"dist_nzp", -2., 0.002, 3.5, 0.01}};
  } else {
    dpats = {{"full_z", 0.002, 0.003, 0.001, 0.01},
             {"full_p", 1., 1.001, 1.002, 0.01},
             {"full_n", -1., -1.001, -1.002, 0.01},
             {"p01_zz", 0.001, 0.002, -0.0095, 0.01},
             {"p01_pp", 1., 1.001, 2., 0.01},
             {"p01_nn", -1., -1.001, -2., 0.01},
             {"p01_pn", 1., 1.001, -2., 0.01},
             {"p02_zz", 0.001, -0.0095, 0.002, 0.01},
             {"p02_pp", 1., 2., 1.001, 0.01},
             {"p02_nn", -1., -2., -1.001, 0.01},
             {"p12_zz", -0.0095, 0.001, 0.002, 0.01},
             {"p12_pp", 2., 1., 1.001, 0.01},
             {"p12_nn", -2., -1., -1.001, 0.01},
             {"dist_ppp", 1., 2., 3.5, 0.01},
             {"dist_nnn", -1., -2., -3.5, 0.01},
             {"dist_pnz", 1., -2., 0.002, 0.01},
             {"dist_zzp", -0.006, 0.006, 2., 0.01},
             {"dist_npn", -1., 2., -3.5, 0.01}};
  }
  for (const auto& p : dpats) {
    set_vp_defaults(p.l0, p.l1, p.l2);
    Unit u(d + "dec_" + p.name);
    stensor<N, Sym> s, h, g;
    if (N == 1) {
      // no eigen-solver in 1D: the components are the eigenvalues
      s[0] = verif::scalar_input("s0", p.l0);
      s[1] = verif::scalar_input("s1", p.l1);
      s[2] = verif::scalar_input("s2", p.l2);
    } else {
      verif::fill_inputs(s, "s", S);
    }
    const Sym eps = verif::scalar_input("eps", p.eps);
    verif::fill_inputs(h, "h", S);
    verif::fill_inputs(g, "g", S);
    {
      st2tost2<N, Sym> dpp, dnp;
      stensor<N, Sym> pp, np;
      computeStensorDecompositionInPositiveAndNegativeParts(dpp, dnp, pp, np, s,
                                                            eps);
      out_bilinear<N>("a", g, dpp, h);
      out_bilinear<N>("b", g, dnp, h);
      out_dot<N>("p", g, pp);
      out_dot<N>("n", g, np);
    }
    {
      st2tost2<N, Sym> dpp;
      stensor<N, Sym> pp;
      computeStensorPositivePartAndDerivative(dpp, pp, s, eps);
      out_bilinear<N>("qa", g, dpp, h);
      out_dot<N>("qp", g, pp);
    }
    set_vp_defaults(1., 2., 3.5);
  }
  // the same functions with the whole tables as outputs, for a core set of 3D patterns (the Lean proofs
  // about the bilinear forms above are only affordable in 1D/2D)
  if constexpr (N == 3) {
    for (const auto& p : dpats) {
      const std::string pn = p.name;
      if (!((pn == "p01_pp") || (pn == "dist_ppp") || (pn == "dist_nnn"))) continue;
      set_vp_defaults(p.l0, p.l1, p.l2);
      Unit u(d + "dect_" + p.name);
      stensor<N, Sym> s;
      verif::fill_inputs(s, "s", S);
      const Sym eps = verif::scalar_input("eps", p.eps);
      st2tost2<N, Sym> dpp, dnp;
      stensor<N, Sym> pp, np;
      computeStensorDecompositionInPositiveAndNegativeParts(dpp, dnp, pp, np, s,
                                                            eps);
      verif::outputs2("a", dpp, S, S);
      verif::outputs2("b", dnp, S, S);
      verif::outputs("p", pp, S);
      verif::outputs("n", np, S);
      set_vp_defaults(1., 2., 3.5);
    }
  }
  verif::ctx().concolic = false;
}

//! defined in trace_abs.cxx (a translation unit without the overload of tfel::math::abs above)
void trace_abs();

//! audit units (see the comment inside): traced AFTER every other unit so that the generated Lean files of the
//! existing units stay byte-identical (later units would otherwise be renumbered)
template <unsigned short N>
static void trace_eigen_tensors_derivatives() {
  constexpr int S = StensorDimeToSize<N>::value;
  verif::ctx().concolic = true;
    // mutation audit 2026-09-22: derivatives of the eigen-tensors n_i (x) n_i (StensorComputeEigenVectorsDerivatives.hxx,
    // stensor::computeEigenTensorsDerivatives), one unit per branch of regularized_inverse for the pair (0,1):
    // gap above eps (1/x), inside eps (regularisation x (4 - x^2/eps^2)/(3 eps^2)), exactly zero (0). These "X" units have no
    // theorem: checks/C05.py evaluates them exactly against checks/c05ref.py (eigtd_action) and does not emit them to Lean.
    const std::vector<Pattern> xp = {{"dist", 1., 2., 3.5, 0.01}, {"reg", 1., 1.004, 3.5, 0.01}, {"zero", 1., 1., 3.5, 0.01}};
    for (const auto& p : xp) {
      Unit u("X" + std::to_string(N) + "_eigtd_" + p.name);
      rotation_matrix<Sym> m;
      tvector<3u, Sym> vp;
      inputs_vp_m<N>(vp, m, p);
      const Sym eps = verif::scalar_input("eps", p.eps);
      st2tost2<N, Sym> d0, d1, d2;
      stensor<N, Sym>::computeEigenTensorsDerivatives(d0, d1, d2, vp, m, eps);
      verif::outputs2("a", d0, S, S);
      verif::outputs2("b", d1, S, S);
      verif::outputs2("e", d2, S, S);
      // eigenvalue derivatives = eigen-tensors (same nodes as computeEigenTensors)
      const auto [n0, n1, n2] = stensor<N, Sym>::computeEigenValuesDerivatives(m);
      verif::outputs("va", n0, S);
      verif::outputs("vb", n1, S);
      verif::outputs("ve", n2, S);
    }
  verif::ctx().concolic = false;
}

int main() {
  trace_abs();
  trace_dim<1>();
  trace_dim<2>();
  trace_dim<3>();
  trace_eigen_tensors_derivatives<2>();
  trace_eigen_tensors_derivatives<3>();
  return 0;
}
