/*!
 * C13/C14 differential harness: the REAL tfel::math::Evaluator, one request per line.
 *
 * This translation unit *is* src/Math/Evaluator.cxx of the current tree (included below) so that
 * the function/constant tables of Evaluator::FunctionGeneratorManager (a struct private to that
 * file) can be enumerated for the T2 dump. `private`/`protected` are opened for this TU only,
 * after every standard header has been read.
 *
 *   T                       -> table dump (constants, unary, binary functions, external operators)
 *   P <f>                   -> ok <getCxxFormula>            | err <what>
 *   V <x=hex,..>;<f>        -> val <hex bits of getValue()>  | err <what>
 *   Q <v,..>;<p,..>;<f>     -> Evaluator(vars,f,manager), createFunctionByChangingParametersIntoVariables(p)
 *   D <var>;<f>             -> ok <differentiate(var)->getCxxFormula> | err <what>
 *   E <var>;<x=hex,..>;<f>  -> val <hex bits of differentiate(var)->getValue()> | err <what>
 *                              (the differentiated evaluator itself sits at the point + 1)
 */
#include <algorithm>
#include <cassert>
#include <cctype>
#include <cerrno>
#include <cmath>
#include <cstdint>
#include <cstdio>
#include <cstring>
#include <functional>
#include <iostream>
#include <iterator>
#include <limits>
#include <map>
#include <memory>
#include <numbers>
#include <set>
#include <sstream>
#include <stdexcept>
#include <string>
#include <typeinfo>
#include <utility>
#include <vector>
#include <cxxabi.h>

#define private public
#define protected public
#include "Evaluator.cxx"
#undef private
#undef protected

using tfel::math::Evaluator;

static std::string oneline(std::string s) {
  for (auto& c : s) {
    if (c == '\n' || c == '\r') c = ' ';
  }
  return s;
}

static std::string hexbits(const double v) {
  std::uint64_t u;
  std::memcpy(&u, &v, sizeof u);
  char b[32];
  std::snprintf(b, sizeof b, "%016llx", static_cast<unsigned long long>(u));
  return b;
}

static double frombits(const std::string& h) {
  const std::uint64_t u = std::stoull(h, nullptr, 16);
  double v;
  std::memcpy(&v, &u, sizeof v);
  return v;
}

static std::vector<std::string> split(const std::string& s, const char c) {
  std::vector<std::string> r;
  std::string cur;
  for (const auto ch : s) {
    if (ch == c) {
      r.push_back(cur);
      cur.clear();
    } else {
      cur += ch;
    }
  }
  r.push_back(cur);
  return r;
}

//! split "a;b;rest" at the first n semicolons
static std::vector<std::string> fields(const std::string& s, const unsigned n) {
  std::vector<std::string> r;
  std::string::size_type b = 0;
  for (unsigned i = 0; i != n; ++i) {
    const auto p = s.find(';', b);
    if (p == std::string::npos) break;
    r.push_back(s.substr(b, p - b));
    b = p + 1;
  }
  r.push_back(s.substr(b));
  return r;
}

static void bind(Evaluator& ev, const std::string& b) {
  if (b.empty()) return;
  for (const auto& kv : split(b, ',')) {
    const auto p = kv.find('=');
    if (p == std::string::npos) continue;
    const auto n = kv.substr(0, p);
    // variables that do not appear in the formula are ignored
    const auto names = ev.getVariablesNames();
    if (std::find(names.begin(), names.end(), n) == names.end()) continue;
    ev.setVariableValue(n, frombits(kv.substr(p + 1)));
  }
}

//! the variables of `b`, each moved by `shift`
static void bindShifted(Evaluator& ev, const std::string& b, const double shift) {
  if (b.empty()) return;
  const auto names = ev.getVariablesNames();
  for (const auto& kv : split(b, ',')) {
    const auto p = kv.find('=');
    if (p == std::string::npos) continue;
    const auto n = kv.substr(0, p);
    if (std::find(names.begin(), names.end(), n) == names.end()) continue;
    ev.setVariableValue(n, frombits(kv.substr(p + 1)) + shift);
  }
}

static std::string demangle(const char* n) {
  int st = 0;
  char* d = abi::__cxa_demangle(n, nullptr, nullptr, &st);
  std::string r = (st == 0 && d != nullptr) ? d : n;
  std::free(d);
  return r;
}

static void dumpTables() {
  using namespace tfel::math::parser;
  const auto& m = Evaluator::getFunctionGeneratorManager();
  for (const auto& c : m.constants) {
    std::string s;
    try {
      Evaluator ev(c.first);
      s = ev.getCxxFormula();
    } catch (std::exception& e) {
      s = "?";
    }
    std::cout << "const " << c.first << " " << hexbits(c.second) << " " << s << "\n";
  }
  for (const auto& f : m.fctGenerators) {
    std::vector<double> vars(1);
    auto x = std::shared_ptr<Expr>(new Variable(vars, 0));
    auto e = f.second(x);
    // C function behind the registered name: taken from the type of the generated node
    auto t = demangle(typeid(*e).name());
    const auto b = t.find('&');
    std::string cf = "?";
    if (b != std::string::npos) {
      auto q = t.find_first_of("(>", b);
      cf = t.substr(b + 1, q - b - 1);
    }
    for (auto& c : cf) if (c == ' ') c = '_';
    std::string rule = "rule";
    try {
      auto d = e->differentiate(0, vars);
      if (d == nullptr) rule = "norule";
    } catch (std::exception& ex) {
      rule = "norule";
    }
    std::cout << "unary " << f.first << " " << cf << " " << rule << " "
              << e->getCxxFormula({"x"}) << "\n";
  }
  for (const auto& f : m.bFctGenerators) {
    std::vector<double> vars(2);
    auto x = std::shared_ptr<Expr>(new Variable(vars, 0));
    auto y = std::shared_ptr<Expr>(new Variable(vars, 1));
    auto e = f.second(x, y);
    std::string rule = "rule";
    try {
      auto d = e->differentiate(0, vars);
      if (d == nullptr) rule = "norule";
    } catch (std::exception& ex) {
      rule = "norule";
    }
    std::cout << "binary " << f.first << " " << rule << " " << e->getCxxFormula({"x", "y"}) << "\n";
  }
  for (const auto& f : m.extOpGenerators) {
    std::cout << "extop " << f.first << "\n";
  }
  std::cout << "end" << std::endl;
}

int main() {
  std::ios::sync_with_stdio(false);
  std::string l;
  while (std::getline(std::cin, l)) {
    if (l.empty()) {
      std::cout << "bad-op" << std::endl;
      continue;
    }
    const char k = l[0];
    const std::string a = l.size() > 2 ? l.substr(2) : std::string{};
    try {
      if (k == 'T') {
        dumpTables();
      } else if (k == 'P') {
        Evaluator ev(a);
        const auto s = ev.getCxxFormula();
        // resolveDependencies must not change the rendering of a formula without external functions
        auto r = std::dynamic_pointer_cast<Evaluator>(ev.resolveDependencies());
        const auto s2 = r->getCxxFormula();
        // a copy (clone of the tree) must render identically as well
        Evaluator cp(ev);
        const auto s3 = cp.getCxxFormula();
        std::cout << "ok " << s;
        if (s2 != s) std::cout << " RESOLVE-DIFF " << s2;
        if (s3 != s) std::cout << " CLONE-DIFF " << s3;
        std::cout << std::endl;
      } else if (k == 'V') {
        const auto f = fields(a, 1);
        if (f.size() != 2) throw std::runtime_error("bad-request");
        Evaluator ev(f[1]);
        bind(ev, f[0]);
        const auto v = ev.getValue();
        auto r = std::dynamic_pointer_cast<Evaluator>(ev.resolveDependencies());
        const auto v2 = r->getValue();
        std::cout << "val " << hexbits(v);
        if (hexbits(v2) != hexbits(v)) std::cout << " RESOLVE-DIFF " << hexbits(v2);
        std::cout << std::endl;
      } else if (k == 'Q') {
        const auto f = fields(a, 2);
        if (f.size() != 3) throw std::runtime_error("bad-request");
        auto vars = f[0].empty() ? std::vector<std::string>{} : split(f[0], ',');
        auto params = f[1].empty() ? std::vector<std::string>{} : split(f[1], ',');
        auto m = std::make_shared<tfel::math::parser::ExternalFunctionManager>();
        Evaluator ev(vars, f[2], m);
        auto r = std::dynamic_pointer_cast<Evaluator>(
            ev.createFunctionByChangingParametersIntoVariables(params));
        std::cout << "ok " << r->getCxxFormula() << std::endl;
      } else if (k == 'D') {
        const auto f = fields(a, 1);
        if (f.size() != 2) throw std::runtime_error("bad-request");
        Evaluator ev(f[1]);
        auto d = std::dynamic_pointer_cast<Evaluator>(ev.differentiate(f[0]));
        std::cout << "ok " << d->getCxxFormula() << std::endl;
      } else if (k == 'E') {
        const auto f = fields(a, 2);
        if (f.size() != 3) throw std::runtime_error("bad-request");
        Evaluator ev(f[2]);
        // the evaluator that is differentiated sits at its own point, before and after the call
        bindShifted(ev, f[1], 2.75);
        auto d = std::dynamic_pointer_cast<Evaluator>(ev.differentiate(f[0]));
        bindShifted(ev, f[1], 1.0);
        // the object returned by differentiate() is evaluated as is (no copy, no resolveDependencies)
        bind(*d, f[1]);
        const auto v = d->getValue();
        std::cout << "val " << hexbits(v) << std::endl;
      } else {
        std::cout << "bad-op" << std::endl;
      }
    } catch (std::exception& e) {
      std::cout << "err " << oneline(e.what()) << std::endl;
    }
  }
  return 0;
}
