/*!
 * C13/C14 differential harness: the REAL tfel::math::Evaluator, one request per line.
 *
 * This translation unit *is* src/Math/Evaluator.cxx of the current tree (included below) so that
 * the function/constant tables of Evaluator::FunctionGeneratorManager (a struct private to that
 * file) can be enumerated for the T2 dump. `private`/`protected` are opened for this TU only,
 * after every standard header has been read.
 *
 *   T                       -> table dump (constants, unary, binary functions, external operators)
 *   P <f>                   -> ok <getCxxFormula>            | err <what>
 *   V <x=hex,..>;<f>        -> val <hex bits of getValue()>  | err <what>   (+ " API-DIFF <what>=<bits>" when another
 *                              way of the public API to the same value disagrees: copies, assignment, getValue(map),
 *                              operator(), setVariableValue by position / C string, fixed variable lists, managers)
 *   Q <v,..>;<p,..>;<f>     -> Evaluator(vars,f,manager), createFunctionByChangingParametersIntoVariables(p)
 *   D <var>;<f>             -> ok <differentiate(var)->getCxxFormula> | err <what>
 *   E <var>;<x=hex,..>;<f>  -> val <hex bits of differentiate(var)->getValue()> | err <what>
 *                              (the differentiated evaluator itself sits at the point + 1)
 */
#include <algorithm>
#include <cassert>
#include <cctype>
#include <cerrno>
#include <cmath>
#include <cstdint>
#include <cstdio>
#include <cstring>
#include <functional>
#include <iostream>
#include <iterator>
#include <limits>
#include <map>
#include <memory>
#include <numbers>
#include <set>
#include <sstream>
#include <stdexcept>
#include <string>
#include <typeinfo>
#include <utility>
#include <vector>
#include <cxxabi.h>

#define private public
#define protected public
#include "Evaluator.cxx"
#undef private
#undef protected

using tfel::math::Evaluator;

static std::string oneline(std::string s) {
  for (auto& c : s) {
    if (c == '\n' || c == '\r') c = ' ';
  }
  return s;
}

static std::string hexbits(const double v) {
  std::uint64_t u;
  std::memcpy(&u, &v, sizeof u);
  char b[32];
  std::snprintf(b, sizeof b, "%016llx", static_cast<unsigned long long>(u));
  return b;
}

static double frombits(const std::string& h) {
  const std::uint64_t u = std::stoull(h, nullptr, 16);
  double v;
  std::memcpy(&v, &u, sizeof v);
  return v;
}

static std::vector<std::string> split(const std::string& s, const char c) {
  std::vector<std::string> r;
  std::string cur;
  for (const auto ch : s) {
    if (ch == c) {
      r.push_back(cur);
      cur.clear();
    } else {
      cur += ch;
    }
  }
  r.push_back(cur);
  return r;
}

//! split "a;b;rest" at the first n semicolons
static std::vector<std::string> fields(const std::string& s, const unsigned n) {
  std::vector<std::string> r;
  std::string::size_type b = 0;
  for (unsigned i = 0; i != n; ++i) {
    const auto p = s.find(';', b);
    if (p == std::string::npos) break;
    r.push_back(s.substr(b, p - b));
    b = p + 1;
  }
  r.push_back(s.substr(b));
  return r;
}

static void bind(Evaluator& ev, const std::string& b) {
  if (b.empty()) return;
  for (const auto& kv : split(b, ',')) {
    const auto p = kv.find('=');
    if (p == std::string::npos) continue;
    const auto n = kv.substr(0, p);
    // variables that do not appear in the formula are ignored
    const auto names = ev.getVariablesNames();
    if (std::find(names.begin(), names.end(), n) == names.end()) continue;
    ev.setVariableValue(n, frombits(kv.substr(p + 1)));
  }
}

//! the variables of `b`, each moved by `shift`
static void bindShifted(Evaluator& ev, const std::string& b, const double shift) {
  if (b.empty()) return;
  const auto names = ev.getVariablesNames();
  for (const auto& kv : split(b, ',')) {
    const auto p = kv.find('=');
    if (p == std::string::npos) continue;
    const auto n = kv.substr(0, p);
    if (std::find(names.begin(), names.end(), n) == names.end()) continue;
    ev.setVariableValue(n, frombits(kv.substr(p + 1)) + shift);
  }
}

static std::string demangle(const char* n) {
  int st = 0;
  char* d = abi::__cxa_demangle(n, nullptr, nullptr, &st);
  std::string r = (st == 0 && d != nullptr) ? d : n;
  std::free(d);
  return r;
}

static void dumpTables() {
  using namespace tfel::math::parser;
  const auto& m = Evaluator::getFunctionGeneratorManager();
  for (const auto& c : m.constants) {
    std::string s;
    try {
      Evaluator ev(c.first);
      s = ev.getCxxFormula();
    } catch (std::exception& e) {
      s = "?";
    }
    std::cout << "const " << c.first << " " << hexbits(c.second) << " " << s << "\n";
  }
  for (const auto& f : m.fctGenerators) {
    std::vector<double> vars(1);
    auto x = std::shared_ptr<Expr>(new Variable(vars, 0));
    auto e = f.second(x);
    // C function behind the registered name: taken from the type of the generated node
    auto t = demangle(typeid(*e).name());
    const auto b = t.find('&');
    std::string cf = "?";
    if (b != std::string::npos) {
      auto q = t.find_first_of("(>", b);
      cf = t.substr(b + 1, q - b - 1);
    }
    for (auto& c : cf) if (c == ' ') c = '_';
    std::string rule = "rule";
    try {
      auto d = e->differentiate(0, vars);
      if (d == nullptr) rule = "norule";
    } catch (std::exception& ex) {
      rule = "norule";
    }
    std::cout << "unary " << f.first << " " << cf << " " << rule << " "
              << e->getCxxFormula({"x"}) << "\n";
  }
  for (const auto& f : m.bFctGenerators) {
    std::vector<double> vars(2);
    auto x = std::shared_ptr<Expr>(new Variable(vars, 0));
    auto y = std::shared_ptr<Expr>(new Variable(vars, 1));
    auto e = f.second(x, y);
    std::string rule = "rule";
    try {
      auto d = e->differentiate(0, vars);
      if (d == nullptr) rule = "norule";
    } catch (std::exception& ex) {
      rule = "norule";
    }
    std::cout << "binary " << f.first << " " << rule << " " << e->getCxxFormula({"x", "y"}) << "\n";
  }
  for (const auto& f : m.extOpGenerators) {
    std::cout << "extop " << f.first << "\n";
  }
  // references stated independently of Evaluator.cxx: the documented constant each name stands for
  // (include/TFEL/PhysicalConstants.hxx) and the value of every registered function at two sample points
  {
    using PC = tfel::PhysicalConstants<double>;
    const std::map<std::string, double> ref = {
        {"Cste::AtomicMassConstant", PC::AtomicMassConstant}, {"Cste::mu", PC::AtomicMassConstant},
        {"Cste::AvogadroConstant", PC::AvogadroConstant}, {"Cste::Na", PC::AvogadroConstant},
        {"Cste::BoltzmannConstant", PC::BoltzmannConstant}, {"Cste::kb", PC::BoltzmannConstant},
        {"Cste::ConductanceQuantum", PC::ConductanceQuantum}, {"Cste::G0", PC::ConductanceQuantum},
        {"Cste::ElectricConstant", PC::ElectricConstant}, {"Cste::e0", PC::ElectricConstant},
        {"Cste::ElectronMass", PC::ElectronMass}, {"Cste::me", PC::ElectronMass},
        {"Cste::ElectronVolt", PC::ElectronVolt}, {"Cste::eV", PC::ElectronVolt},
        {"Cste::ElementaryCharge", PC::ElementaryCharge}, {"Cste::e", PC::ElementaryCharge},
        {"Cste::FaradayConstant", PC::FaradayConstant}, {"Cste::F", PC::FaradayConstant},
        {"Cste::FineStructureConstant", PC::FineStructureConstant}, {"Cste::a", PC::FineStructureConstant},
        {"Cste::MolarGasConstant", PC::MolarGasConstant}, {"Cste::R", PC::MolarGasConstant},
        {"Cste::StefanBoltzmannConstant", PC::StefanBoltzmannConstant}, {"Cste::s", PC::StefanBoltzmannConstant}};
    for (const auto& c : m.constants) {
      const auto p = ref.find(c.first);
      double got = 0;
      std::string how = "val";
      try {
        Evaluator ev(c.first + "*1");
        got = ev.getValue();
      } catch (std::exception&) {
        how = "err";
      }
      std::cout << "constref " << c.first << " " << (p == ref.end() ? std::string("?") : hexbits(p->second)) << " "
                << how << " " << hexbits(got) << "\n";
    }
    for (const auto& f : m.fctGenerators) {
      std::cout << "uval " << f.first;
      for (const double x0 : {0.3, 1.7, -0.6, 0.0}) {
        try {
          Evaluator ev(f.first + "(x)");
          ev.setVariableValue("x", x0);
          std::cout << " " << hexbits(ev.getValue());
        } catch (std::exception&) {
          std::cout << " err";
        }
      }
      std::cout << "\n";
    }
    for (const auto& f : m.bFctGenerators) {
      std::cout << "bval " << f.first;
      for (const auto& pt : std::vector<std::pair<double, double>>{{1.7, 0.3}, {0.3, 1.7}, {-0.6, 0.25}}) {
        try {
          Evaluator ev(f.first + "(x,y)");
          ev.setVariableValue("x", pt.first);
          ev.setVariableValue("y", pt.second);
          std::cout << " " << hexbits(ev.getValue());
        } catch (std::exception&) {
          std::cout << " err";
        }
      }
      std::cout << "\n";
    }
  }
  std::cout << "end" << std::endl;
}

//! `s` (a getCxxFormula string) with every whole identifier that is a key of `m` replaced
static std::string substituteNames(const std::string& s, const std::map<std::string, std::string>& m) {
  std::string r;
  std::string::size_type i = 0;
  auto idc = [](const char c) { return std::isalnum(static_cast<unsigned char>(c)) || c == '_'; };
  while (i < s.size()) {
    const char c = s[i];
    const bool start = (std::isalpha(static_cast<unsigned char>(c)) || c == '_') &&
                       (i == 0 || !(idc(s[i - 1]) || s[i - 1] == ':' || s[i - 1] == '.'));
    if (!start) {
      r += c;
      ++i;
      continue;
    }
    auto j = i;
    while (j < s.size() && idc(s[j])) ++j;
    if (j < s.size() && s[j] == '[') {
      const auto k = s.find(']', j);
      if (k != std::string::npos && m.count(s.substr(i, k + 1 - i)) != 0) j = k + 1;
    }
    const auto tok = s.substr(i, j - i);
    const auto p = m.find(tok);
    r += (p == m.end()) ? tok : p->second;
    i = j;
  }
  return r;
}

//! the values given by a binding string for the variables of `ev`
static std::map<std::string, double> pointOf(const Evaluator& ev, const std::string& b) {
  std::map<std::string, double> r;
  if (b.empty()) return r;
  const auto names = ev.getVariablesNames();
  for (const auto& kv : split(b, ',')) {
    const auto p = kv.find('=');
    if (p == std::string::npos) continue;
    const auto n = kv.substr(0, p);
    if (std::find(names.begin(), names.end(), n) == names.end()) continue;
    r[n] = frombits(kv.substr(p + 1));
  }
  return r;
}

/*!
 * every other way the public API offers to reach the value of formula `f` at the point `b` must give the
 * bits of `v` = Evaluator(f) + setVariableValue(name) + getValue(): copies and assigned evaluators (which
 * must own their variables: the source is moved away first), getValue(map), operator(), values set by
 * position / C string, evaluators built on a fixed variable list (with and without function manager).
 */
static std::string apiConsistency(Evaluator& ev, const std::string& f, const std::string& b, const double v) {
  std::string r;
  auto chk = [&r, v](const char* what, const double x) {
    if (hexbits(x) != hexbits(v) && !((x != x) && (v != v))) r += std::string(" API-DIFF ") + what + "=" + hexbits(x);
  };
  const auto pt = pointOf(ev, b);
  Evaluator cp(ev);
  Evaluator as;
  as = ev;
  bindShifted(ev, b, 2.75);
  chk("copy.getValue()", cp.getValue());
  chk("copy()", cp());
  chk("assigned.getValue()", as.getValue());
  chk("getValue(map)", ev.getValue(pt));
  bindShifted(ev, b, -1.5);
  chk("operator()(map)", ev(pt));
  Evaluator e2(f);
  for (const auto& nv : pt) e2.setVariableValue(e2.getVariablePosition(nv.first), nv.second);
  chk("setVariableValue(position)", e2.getValue());
  Evaluator e3(f);
  for (const auto& nv : pt) e3.setVariableValue(nv.first.c_str(), nv.second);
  chk("setVariableValue(const char*)", e3());
  auto vars = ev.getVariablesNames();
  std::reverse(vars.begin(), vars.end());
  vars.push_back("unused_w9");
  auto m = std::make_shared<tfel::math::parser::ExternalFunctionManager>();
  Evaluator e4(vars, f);
  Evaluator e5(vars, f, m);
  Evaluator e6(f, m);
  for (const auto& nv : pt) {
    e4.setVariableValue(nv.first, nv.second);
    e5.setVariableValue(nv.first, nv.second);
    e6.setVariableValue(nv.first, nv.second);
  }
  chk("Evaluator(vars,f)", e4.getValue());
  chk("Evaluator(vars,f,manager)", e5.getValue());
  chk("Evaluator(f,manager)", e6.getValue());
  for (std::vector<std::string>::size_type k = 0; k != vars.size(); ++k) {
    if (e4.getVariablePosition(vars[k]) != k || e5.getVariablePosition(vars[k]) != k) {
      r += " API-DIFF position-of-" + vars[k];
      break;
    }
  }
  if (e4.getNumberOfVariables() != vars.size()) r += " API-DIFF getNumberOfVariables";
  return r;
}

int main() {
  std::ios::sync_with_stdio(false);
  std::string l;
  while (std::getline(std::cin, l)) {
    if (l.empty()) {
      std::cout << "bad-op" << std::endl;
      continue;
    }
    const char k = l[0];
    const std::string a = l.size() > 2 ? l.substr(2) : std::string{};
    try {
      if (k == 'T') {
        dumpTables();
      } else if (k == 'P') {
        Evaluator ev(a);
        const auto s = ev.getCxxFormula();
        // resolveDependencies must not change the rendering of a formula without external functions
        auto r = std::dynamic_pointer_cast<Evaluator>(ev.resolveDependencies());
        const auto s2 = r->getCxxFormula();
        // a copy (clone of the tree) must render identically as well
        Evaluator cp(ev);
        const auto s3 = cp.getCxxFormula();
        std::cout << "ok " << s;
        if (s2 != s) std::cout << " RESOLVE-DIFF " << s2;
        if (s3 != s) std::cout << " CLONE-DIFF " << s3;
        {
          // getCxxFormula(m): the variables renamed by `m`, nothing else changed
          // (checked when every variable is a plain identifier, optionally indexed: name or name[digits])
          std::map<std::string, std::string> sub;
          auto k = 0;
          bool plain = true;
          for (const auto& n : ev.getVariablesNames()) {
            std::string::size_type q = 0;
            if (n.empty() || !(std::isalpha(static_cast<unsigned char>(n[0])) || n[0] == '_')) plain = false;
            while (q < n.size() && (std::isalnum(static_cast<unsigned char>(n[q])) || n[q] == '_')) ++q;
            if (q < n.size()) {
              if (n[q] != '[' || n.back() != ']' || q + 2 > n.size() - 1) plain = false;
              for (auto u = q + 1; plain && u + 1 < n.size(); ++u) {
                if (!std::isdigit(static_cast<unsigned char>(n[u]))) plain = false;
              }
            }
            if ((k++ % 2) == 0 || n.size() > 1) sub[n] = "s_" + std::to_string(k) + "_";
          }
          if (plain) {
            const auto s4 = ev.getCxxFormula(sub);
            if (s4 != substituteNames(s, sub)) std::cout << " SUBST-DIFF " << s4;
          }
        }
        std::cout << std::endl;
      } else if (k == 'V') {
        const auto f = fields(a, 1);
        if (f.size() != 2) throw std::runtime_error("bad-request");
        Evaluator ev(f[1]);
        bind(ev, f[0]);
        const auto v = ev.getValue();
        auto r = std::dynamic_pointer_cast<Evaluator>(ev.resolveDependencies());
        const auto v2 = r->getValue();
        const auto api = apiConsistency(ev, f[1], f[0], v);
        std::cout << "val " << hexbits(v);
        if (hexbits(v2) != hexbits(v)) std::cout << " RESOLVE-DIFF " << hexbits(v2);
        std::cout << api << std::endl;
      } else if (k == 'Q') {
        const auto f = fields(a, 2);
        if (f.size() != 3) throw std::runtime_error("bad-request");
        auto vars = f[0].empty() ? std::vector<std::string>{} : split(f[0], ',');
        auto params = f[1].empty() ? std::vector<std::string>{} : split(f[1], ',');
        auto m = std::make_shared<tfel::math::parser::ExternalFunctionManager>();
        Evaluator ev(vars, f[2], m);
        auto r = std::dynamic_pointer_cast<Evaluator>(
            ev.createFunctionByChangingParametersIntoVariables(params));
        std::cout << "ok " << r->getCxxFormula() << std::endl;
      } else if (k == 'D') {
        const auto f = fields(a, 1);
        if (f.size() != 2) throw std::runtime_error("bad-request");
        Evaluator ev(f[1]);
        auto d = std::dynamic_pointer_cast<Evaluator>(ev.differentiate(f[0]));
        std::cout << "ok " << d->getCxxFormula() << std::endl;
      } else if (k == 'E') {
        const auto f = fields(a, 2);
        if (f.size() != 3) throw std::runtime_error("bad-request");
        Evaluator ev(f[2]);
        // the evaluator that is differentiated sits at its own point, before and after the call
        bindShifted(ev, f[1], 2.75);
        auto d = std::dynamic_pointer_cast<Evaluator>(ev.differentiate(f[0]));
        bindShifted(ev, f[1], 1.0);
        // the object returned by differentiate() is evaluated as is (no copy, no resolveDependencies)
        bind(*d, f[1]);
        const auto v = d->getValue();
        std::cout << "val " << hexbits(v) << std::endl;
      } else {
        std::cout << "bad-op" << std::endl;
      }
    } catch (std::exception& e) {
      std::cout << "err " << oneline(e.what()) << std::endl;
    }
  }
  return 0;
}
