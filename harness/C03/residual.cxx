// C03 residual harness (double precision, real code): every EigenSolver enum value on the matrices read from
// stdin; prints per (case, solver) the residuals of the spectral decomposition returned.
// input lines : <id> <N> a00 a11 a22 a01 a02 a12      (symmetric matrix entries; N=1,2: unused entries ignored)
// output lines: <id> <N> <solver> recon orth eigeq evdiff finite
//   recon  = |A - M diag(vp) M^T|_F / max(|A|_F, tiny)       orth = |M^T M - 1|_F
//   eigeq  = max_i |A m_i - vp_i m_i| / max(|A|_F, tiny)     evdiff = max_i |sorted vp(computeEigenValues) - sorted vp(computeEigenVectors)| / max(|A|_F, tiny)
//   finite = 1 when every returned number is finite
#include <algorithm>
#include <cmath>
#include <cstdio>
#include <iostream>
#include <limits>
#include <string>
#include "TFEL/Math/stensor.hxx"
#include "TFEL/Math/tmatrix.hxx"
#include "TFEL/Math/tvector.hxx"

using namespace tfel::math;
using ES = stensor_common::EigenSolver;

static const char* name(const ES e) {
  switch (e) {
    case ES::TFELEIGENSOLVER: return "TFEL";
    case ES::FSESANALYTICALEIGENSOLVER: return "FSESANALYTICAL";
    case ES::FSESJACOBIEIGENSOLVER: return "FSESJACOBI";
    case ES::FSESQLEIGENSOLVER: return "FSESQL";
    case ES::FSESCUPPENEIGENSOLVER: return "FSESCUPPEN";
    case ES::FSESHYBRIDEIGENSOLVER: return "FSESHYBRID";
    case ES::GTESYMMETRICQREIGENSOLVER: return "GTEQR";
    case ES::HARARIEIGENSOLVER: return "HARARI";
  }
  return "?";
}

template <unsigned short N, ES es>
static void one(const std::string& id, const double a[6]) {
  constexpr double tiny = 1e-300;
  stensor<N, double> s;
  const double A[3][3] = {{a[0], (N >= 2) ? a[3] : 0, (N == 3) ? a[4] : 0},
                          {(N >= 2) ? a[3] : 0, a[1], (N == 3) ? a[5] : 0},
                          {(N == 3) ? a[4] : 0, (N == 3) ? a[5] : 0, a[2]}};
  s[0] = a[0];
  s[1] = a[1];
  s[2] = a[2];
  if constexpr (N >= 2) s[3] = a[3] * std::sqrt(2.);
  if constexpr (N == 3) {
    s[4] = a[4] * std::sqrt(2.);
    s[5] = a[5] * std::sqrt(2.);
  }
  tvector<3u, double> vp, vp2;
  tmatrix<3u, 3u, double> m;
  bool thrown = false;
  try {
    s.template computeEigenVectors<es>(vp, m);
    s.template computeEigenValues<es>(vp2);
  } catch (...) {
    thrown = true;
  }
  if (thrown) {
    std::printf("%s %d %s nan nan nan nan 0\n", id.c_str(), int(N), name(es));
    return;
  }
  double nA = 0;
  for (int i = 0; i != 3; ++i)
    for (int j = 0; j != 3; ++j) nA += A[i][j] * A[i][j];
  nA = std::max(std::sqrt(nA), tiny);
  bool finite = true;
  for (int i = 0; i != 3; ++i) {
    finite = finite && std::isfinite(vp[i]) && std::isfinite(vp2[i]);
    for (int j = 0; j != 3; ++j) finite = finite && std::isfinite(m(i, j));
  }
  double recon = 0, orth = 0, eigeq = 0;
  for (int i = 0; i != 3; ++i)
    for (int j = 0; j != 3; ++j) {
      double r = 0, o = 0;
      for (int k = 0; k != 3; ++k) {
        r += m(i, k) * vp[k] * m(j, k);
        o += m(k, i) * m(k, j);
      }
      recon += (A[i][j] - r) * (A[i][j] - r);
      orth += (o - (i == j)) * (o - (i == j));
    }
  for (int k = 0; k != 3; ++k) {
    double e2 = 0;
    for (int i = 0; i != 3; ++i) {
      double y = -vp[k] * m(i, k);
      for (int j = 0; j != 3; ++j) y += A[i][j] * m(j, k);
      e2 += y * y;
    }
    eigeq = std::max(eigeq, std::sqrt(e2));
  }
  double w1[3] = {vp[0], vp[1], vp[2]}, w2[3] = {vp2[0], vp2[1], vp2[2]};
  if (N == 2) {  // the third value is the out-of-plane component for both
    std::sort(w1, w1 + 2);
    std::sort(w2, w2 + 2);
  } else {
    std::sort(w1, w1 + 3);
    std::sort(w2, w2 + 3);
  }
  double evdiff = 0;
  for (int i = 0; i != 3; ++i) evdiff = std::max(evdiff, std::abs(w1[i] - w2[i]));
  std::printf("%s %d %s %.3e %.3e %.3e %.3e %d\n", id.c_str(), int(N), name(es), std::sqrt(recon) / nA,
              std::sqrt(orth), eigeq / nA, evdiff / nA, finite ? 1 : 0);
}

template <unsigned short N>
static void all(const std::string& id, const double a[6]) {
  one<N, ES::TFELEIGENSOLVER>(id, a);
  one<N, ES::FSESANALYTICALEIGENSOLVER>(id, a);
  one<N, ES::FSESJACOBIEIGENSOLVER>(id, a);
  one<N, ES::FSESQLEIGENSOLVER>(id, a);
  one<N, ES::FSESCUPPENEIGENSOLVER>(id, a);
  one<N, ES::FSESHYBRIDEIGENSOLVER>(id, a);
  one<N, ES::GTESYMMETRICQREIGENSOLVER>(id, a);
  one<N, ES::HARARIEIGENSOLVER>(id, a);
}

int main() {
  std::string id;
  int N;
  double a[6];
  while (std::cin >> id >> N >> a[0] >> a[1] >> a[2] >> a[3] >> a[4] >> a[5]) {
    if (N == 1) all<1>(id, a);
    else if (N == 2) all<2>(id, a);
    else all<3>(id, a);
  }
  return 0;
}
