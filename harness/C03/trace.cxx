// T1 tracer for C03: the straight-line algebra inside the symmetric eigen-solvers.
//  * syevc3 (Cardano closed form, cos/sin/atan2/sqrt uninterpreted): the three returned values;
//  * stensor<3>::computeEigenVector (default TFEL solver: eigenvector from the 2x2 minors / cross products of the
//    rows of A - vp), the three branches selected by the shadow values (concolic);
//  * syevj3 (Jacobi): traced with shadow values such that exactly one rotation (p,q) is performed before the
//    convergence test fires, for the three pairs and both signs of theta; the off-diagonal entries that are
//    zero in the shadow are still *symbols*, so the trace is the general rotation step;
//  * sytrd3 (Householder tridiagonalisation), both signs of A01 and the degenerate branch.
#include "tracehelp.hxx"
#include <algorithm>
#include <cmath>
#include <deque>
#include <numbers>

namespace std {
  template <>
  inline const verif::Sym& max<verif::Sym>(const verif::Sym& a,
                                           const verif::Sym& b) {
    static std::deque<verif::Sym> pool;
    pool.push_back(verif::max(a, b));
    return pool.back();
  }
  template <>
  inline const verif::Sym& min<verif::Sym>(const verif::Sym& a,
                                           const verif::Sym& b) {
    static std::deque<verif::Sym> pool;
    pool.push_back(verif::min(a, b));
    return pool.back();
  }
  //! std::fpclassify(x) == FP_ZERO on the recording scalar: decided by the shadow, recorded as `x == 0`
  inline int fpclassify(const verif::Sym& x) {
    return (x == verif::Sym(0)) ? FP_ZERO : FP_NORMAL;
  }
  namespace numbers {
    template <>
    inline constexpr verif::Sym sqrt3_v<verif::Sym> = verif::Sym::cst(1, 1, 3);
  }
}  // namespace std

// see harness/C05/trace.cxx: tfel::math::abs recorded as an `abs` node
#include "TFEL/Math/Forward/General.hxx"
namespace tfel::math {
  template <typename T>
  requires(ScalarConcept<T>&& std::same_as<T, verif::Sym>) inline verif::Sym
      abs(const T& s) noexcept {
    return verif::abs(s);
  }
}  // namespace tfel::math

#include "TFEL/Math/stensor.hxx"
#include "TFEL/Math/tmatrix.hxx"
#include "TFEL/Math/tvector.hxx"
#include "FSES/syevc3.hxx"
#include "FSES/syevj3.hxx"
#include "FSES/sytrd3.hxx"

using namespace tfel::math;
using verif::Sym;
using verif::Unit;

static void sym_matrix(tmatrix<3u, 3u, Sym>& A, const double sh[6]) {
  // inputs a00 a11 a22 a01 a02 a12 (matrix entries), symmetric fill
  const char* n[6] = {"a00", "a11", "a22", "a01", "a02", "a12"};
  Sym v[6];
  for (int i = 0; i != 6; ++i) v[i] = verif::scalar_input(n[i], sh[i]);
  A(0, 0) = v[0];
  A(1, 1) = v[1];
  A(2, 2) = v[2];
  A(0, 1) = A(1, 0) = v[3];
  A(0, 2) = A(2, 0) = v[4];
  A(1, 2) = A(2, 1) = v[5];
}

int main() {
  {
    Unit u("syevc3");
    tmatrix<3u, 3u, Sym> A;
    const double sh[6] = {1., 2., 3.5, 0.3, 0.2, 0.1};
    sym_matrix(A, sh);
    tvector<3u, Sym> w;
    fses::syevc3(w, A);
    verif::outputs("w", w, 3);
  }
  verif::ctx().concolic = true;
  {
    // eigenvector of a single eigenvalue (default solver): three branches on the largest 2x2 minor
    const double shs[3][7] = {{3., 2., 1., 0.3, 0.2, 0.1, 0.5},
                              {1., 2., 3., 0.3, 0.2, 0.1, 0.5},
                              {3., 1., 2.9, 0.3, 0.2, 0.1, 0.5}};
    const char* names[3] = {"eigvec_det3", "eigvec_det1", "eigvec_det2"};
    for (int k = 0; k != 3; ++k) {
      Unit u(names[k]);
      stensor<3u, Sym> s;
      const char* n[6] = {"s0", "s1", "s2", "s3", "s4", "s5"};
      for (int i = 0; i != 6; ++i) {
        s[i] = verif::scalar_input(n[i], shs[k][i] * (i < 3 ? 1. : std::sqrt(2.)));
      }
      const Sym vp = verif::scalar_input("vp", shs[k][6]);
      tvector<3u, Sym> ev;
      const bool ok = s.computeEigenVector(ev, vp);
      verif::output("ok", Sym(ok ? 1 : 0));
      verif::outputs("v", ev, 3);
    }
  }
  {
    // one Jacobi rotation: pair (p,q), sign of theta = sign of (w_q - w_p)/(2 A_pq)
    struct J {
      const char* name;
      double sh[6];
    };
    const J js[6] = {{"jacobi_01_pos", {1., 2., 3., 0.5, 0., 0.}},  {"jacobi_01_neg", {2., 1., 3., 0.5, 0., 0.}},
                     {"jacobi_02_pos", {1., 2., 3., 0., 0.5, 0.}},  {"jacobi_02_neg", {3., 2., 1., 0., 0.5, 0.}},
                     {"jacobi_12_pos", {1., 2., 3., 0., 0., 0.5}},  {"jacobi_12_neg", {1., 3., 2., 0., 0., 0.5}}};
    for (const auto& j : js) {
      Unit u(j.name);
      tmatrix<3u, 3u, Sym> A, Q;
      sym_matrix(A, j.sh);
      tvector<3u, Sym> w;
      const int r = fses::syevj3(Q, w, A);
      verif::output("ret", Sym(r));
      verif::outputs2("q", Q, 3, 3);
      verif::outputs("w", w, 3);
      verif::output("b01", A(0, 1));
      verif::output("b02", A(0, 2));
      verif::output("b12", A(1, 2));
    }
  }
  {
    struct H {
      const char* name;
      double sh[6];
    };
    const H hs[3] = {{"sytrd3_pos", {1., 2., 3., 0.5, 0.4, 0.3}},
                     {"sytrd3_neg", {1., 2., 3., -0.5, 0.4, 0.3}},
                     {"sytrd3_diag", {1., 2., 3., 0., 0., 0.3}}};
    for (const auto& h : hs) {
      Unit u(h.name);
      tmatrix<3u, 3u, Sym> A, Q;
      sym_matrix(A, h.sh);
      tvector<3u, Sym> d;
      Sym e[3];
      fses::sytrd3(Q, d, e, A);
      verif::outputs2("q", Q, 3, 3);
      verif::outputs("d", d, 3);
      verif::output("e0", e[0]);
      verif::output("e1", e[1]);
    }
  }
  verif::ctx().concolic = false;
  return 0;
}
