// T1 tracer for C03: the straight-line algebra inside the symmetric eigen-solvers.
//  * syevc3 (Cardano closed form, cos/sin/atan2/sqrt uninterpreted): the three returned values;
//  * stensor<3>::computeEigenVector (default TFEL solver: eigenvector from the 2x2 minors / cross products of the
//    rows of A - vp), the three branches selected by the shadow values (concolic);
//  * syevj3 (Jacobi): traced with shadow values such that exactly one rotation (p,q) is performed before the
//    convergence test fires, for the three pairs and both signs of theta; the off-diagonal entries that are
//    zero in the shadow are still *symbols*, so the trace is the general rotation step;
//  * sytrd3 (Householder tridiagonalisation), both signs of A01 and the degenerate branch.
#include "tracehelp.hxx"
#include <algorithm>
#include <cmath>
#include <deque>
#include <numbers>

namespace std {
  template <>
  inline const verif::Sym& max<verif::Sym>(const verif::Sym& a,
                                           const verif::Sym& b) {
    static std::deque<verif::Sym> pool;
    pool.push_back(verif::max(a, b));
    return pool.back();
  }
  template <>
  inline const verif::Sym& min<verif::Sym>(const verif::Sym& a,
                                           const verif::Sym& b) {
    static std::deque<verif::Sym> pool;
    pool.push_back(verif::min(a, b));
    return pool.back();
  }
  //! std::fpclassify(x) == FP_ZERO on the recording scalar: decided by the shadow, recorded as `x == 0`
  inline int fpclassify(const verif::Sym& x) {
    return (x == verif::Sym(0)) ? FP_ZERO : FP_NORMAL;
  }
  namespace numbers {
    template <>
    inline constexpr verif::Sym sqrt3_v<verif::Sym> = verif::Sym::cst(1, 1, 3);
  }
}  // namespace std

// see harness/C05/trace.cxx: tfel::math::abs recorded as an `abs` node
#include "TFEL/Math/Forward/General.hxx"
namespace tfel::math {
  template <typename T>
  requires(ScalarConcept<T>&& std::same_as<T, verif::Sym>) inline verif::Sym
      abs(const T& s) noexcept {
    return verif::abs(s);
  }
}  // namespace tfel::math

#include "TFEL/Math/stensor.hxx"
#include "TFEL/Math/tmatrix.hxx"
#include "TFEL/Math/tvector.hxx"
#include "FSES/syevc3.hxx"
#include "FSES/syevj3.hxx"
#include "FSES/sytrd3.hxx"

// The default solver's eigenvalue routine (CubicRoots, property C10) is not traced here: on the recording
// scalar it returns uninterpreted symbols (it is only reachable from the degenerate fallback branch of
// computeEigenVector, which the traced paths do not take).
namespace tfel::math::internals {
  template <>
  inline void StensorComputeEigenValues<3u>::exe<verif::Sym>(const verif::Sym* const v,
                                                             verif::Sym& vp1,
                                                             verif::Sym& vp2,
                                                             verif::Sym& vp3,
                                                             const bool) {
    const std::vector<verif::Sym> a(v, v + 6);
    vp1 = verif::make_call("vp0", a, 1.);
    vp2 = verif::make_call("vp1", a, 2.);
    vp3 = verif::make_call("vp2", a, 3.);
  }
}  // namespace tfel::math::internals

using namespace tfel::math;
using verif::Sym;
using verif::Unit;

static void sym_matrix(tmatrix<3u, 3u, Sym>& A, const double sh[6]) {
  // inputs a00 a11 a22 a01 a02 a12 (matrix entries), symmetric fill
  const char* n[6] = {"a00", "a11", "a22", "a01", "a02", "a12"};
  Sym v[6];
  for (int i = 0; i != 6; ++i) v[i] = verif::scalar_input(n[i], sh[i]);
  A(0, 0) = v[0];
  A(1, 1) = v[1];
  A(2, 2) = v[2];
  A(0, 1) = A(1, 0) = v[3];
  A(0, 2) = A(2, 0) = v[4];
  A(1, 2) = A(2, 1) = v[5];
}

int main() {
  {
    Unit u("syevc3");
    tmatrix<3u, 3u, Sym> A;
    const double sh[6] = {1., 2., 3.5, 0.3, 0.2, 0.1};
    sym_matrix(A, sh);
    tvector<3u, Sym> w;
    fses::syevc3(w, A);
    verif::outputs("w", w, 3);
    // the intermediate quantities of syevc3, recomputed here with the same formulas: common subexpression
    // elimination makes them the *same DAG nodes* as inside the function, so that the theorems can name them
    // (m = trace, c1, c0 = coefficients of the characteristic polynomial, p, q, phi, sqrt_p, cos, sin)
    using fses::square;
    const Sym two(2), three(3), c3_2 = three / Sym(2), c27(27), c27_2 = Sym(27) / Sym(2),
              c27_4 = Sym(27) / Sym(4), c1_4 = Sym(1) / Sym(4), one_third = Sym(1) / Sym(3);
    const Sym de = A(0, 1) * A(1, 2);
    const Sym dd = square(A(0, 1));
    const Sym ee = square(A(1, 2));
    const Sym ff = square(A(0, 2));
    const Sym m = A(0, 0) + A(1, 1) + A(2, 2);
    const Sym c1 = (A(0, 0) * A(1, 1) + A(0, 0) * A(2, 2) + A(1, 1) * A(2, 2)) - (dd + ee + ff);
    const Sym c0 = (A(2, 2) * dd + A(0, 0) * ee + A(1, 1) * ff - A(0, 0) * A(1, 1) * A(2, 2) -
                    two * A(0, 2) * de);
    const Sym p = square(m) - three * c1;
    const Sym q = m * (p - c3_2 * c1) - c27_2 * c0;
    const Sym sqrt_p = std::sqrt(std::abs(p));
    Sym phi = c27 * (c1_4 * square(c1) * (p - c1) + c0 * (q + c27_4 * c0));
    phi = (one_third)*std::atan2(std::sqrt(std::abs(phi)), q);
    verif::output("m", m);
    verif::output("c1", c1);
    verif::output("c0", c0);
    verif::output("p", p);
    verif::output("q", q);
    verif::output("sqrtp", sqrt_p);
    verif::output("cosphi", std::cos(phi));
    verif::output("sinphi", std::sin(phi));
  }
  verif::ctx().concolic = true;
  {
    // eigenvector of a single eigenvalue (default solver): three branches on the largest 2x2 minor
    const double shs[3][7] = {{3., 2., 1., 0.3, 0.2, 0.1, 0.5},
                              {1., 2., 3., 0.3, 0.2, 0.1, 0.5},
                              {3., 1., 2.9, 0.3, 0.2, 0.1, 0.5}};
    const char* names[3] = {"eigvec_det3", "eigvec_det1", "eigvec_det2"};
    for (int k = 0; k != 3; ++k) {
      Unit u(names[k]);
      stensor<3u, Sym> s;
      const char* n[6] = {"s0", "s1", "s2", "s3", "s4", "s5"};
      for (int i = 0; i != 6; ++i) {
        s[i] = verif::scalar_input(n[i], shs[k][i] * (i < 3 ? 1. : std::sqrt(2.)));
      }
      const Sym vp = verif::scalar_input("vp", shs[k][6]);
      tvector<3u, Sym> ev;
      const bool ok = s.computeEigenVector(ev, vp);
      verif::output("ok", Sym(ok ? 1 : 0));
      verif::outputs("v", ev, 3);
      {
        // the 2x2 minor used as divisor and the norm, recomputed with the formulas of the code
        constexpr auto icste = Cste<Sym>::isqrt2;
        const Sym a = s[0] - vp, b = s[3] * icste, c = s[4] * icste, d = s[1] - vp, e = s[5] * icste,
                  f = s[2] - vp;
        const Sym det3 = a * d - b * b, det2 = a * f - c * c, det1 = d * f - e * e;
        verif::output("minor", k == 0 ? det3 : (k == 1 ? det1 : det2));
        // unnormalised eigenvector and its norm, as computed by the branch
        Sym x0, x1, x2;
        if (k == 0) {
          x0 = (b * e - c * d) / det3;
          x1 = (b * c - a * e) / det3;
          x2 = Sym(1);
        } else if (k == 1) {
          x0 = Sym(1);
          x1 = (c * e - b * f) / det1;
          x2 = (b * e - c * d) / det1;
        } else {
          x0 = (c * e - b * f) / det2;
          x1 = Sym(1);
          x2 = (b * c - a * e) / det2;
        }
        verif::output("nr2", x0 * x0 + x1 * x1 + x2 * x2);
        verif::output("nr", std::sqrt(x0 * x0 + x1 * x1 + x2 * x2));
      }
    }
  }
  {
    // one Jacobi rotation: pair (p,q), sign of theta = sign of (w_q - w_p)/(2 A_pq)
    struct J {
      const char* name;
      double sh[6];
    };
    const J js[6] = {{"jacobi_01_pos", {1., 2., 3., 0.5, 0., 0.}},  {"jacobi_01_neg", {2., 1., 3., 0.5, 0., 0.}},
                     {"jacobi_02_pos", {1., 2., 3., 0., 0.5, 0.}},  {"jacobi_02_neg", {3., 2., 1., 0., 0.5, 0.}},
                     {"jacobi_12_pos", {1., 2., 3., 0., 0., 0.5}},  {"jacobi_12_neg", {1., 3., 2., 0., 0., 0.5}}};
    for (const auto& j : js) {
      Unit u(j.name);
      tmatrix<3u, 3u, Sym> A, Q;
      sym_matrix(A, j.sh);
      const tmatrix<3u, 3u, Sym> A0 = A;
      tvector<3u, Sym> w;
      const int r = fses::syevj3(Q, w, A);
      verif::output("ret", Sym(r));
      verif::outputs2("q", Q, 3, 3);
      verif::outputs("w", w, 3);
      verif::output("b01", A(0, 1));
      verif::output("b02", A(0, 2));
      verif::output("b12", A(1, 2));
      // the rotation parameters, recomputed with the formulas of syevj3 (same DAG nodes by CSE)
      const std::string nm = j.name;
      const int p = nm[7] - '0', q = nm[8] - '0';
      const bool neg = nm.substr(10) == "neg";
      const Sym one(1), one_half = Sym(1) / Sym(2);
      const Sym h = A0(q, q) - A0(p, p);
      const Sym theta = one_half * h / A0(p, q);
      const Sym r1 = std::sqrt(one + fses::square(theta));
      const Sym t = neg ? -one / (r1 - theta) : one / (r1 + theta);
      const Sym r2 = std::sqrt(one + fses::square(t));
      const Sym cc = one / r2;
      const Sym ss = t * cc;
      verif::output("th", theta);
      verif::output("r1", r1);
      verif::output("t", t);
      verif::output("r2", r2);
      verif::output("cc", cc);
      verif::output("ss", ss);
    }
  }
  {
    struct H {
      const char* name;
      double sh[6];
    };
    const H hs[3] = {{"sytrd3_pos", {1., 2., 3., 0.5, 0.4, 0.3}},
                     {"sytrd3_neg", {1., 2., 3., -0.5, 0.4, 0.3}},
                     {"sytrd3_diag", {1., 2., 3., 0., 0., 0.3}}};
    for (const auto& h : hs) {
      Unit u(h.name);
      tmatrix<3u, 3u, Sym> A, Q;
      sym_matrix(A, h.sh);
      tvector<3u, Sym> d;
      Sym e[3];
      fses::sytrd3(Q, d, e, A);
      verif::outputs2("q", Q, 3, 3);
      verif::outputs("d", d, 3);
      verif::output("e0", e[0]);
      verif::output("e1", e[1]);
      // Householder parameters recomputed with the formulas of sytrd3 (same DAG nodes by CSE)
      const Sym hh = fses::square(A(0, 1)) + fses::square(A(0, 2));
      verif::output("h", hh);
      if (std::string(h.name) != "sytrd3_diag") {
        const Sym g = (std::string(h.name) == "sytrd3_pos") ? -std::sqrt(hh) : std::sqrt(hh);
        const Sym f = g * A(0, 1);
        verif::output("g", g);
        verif::output("omega", Sym(1) / (hh - f));
      }
    }
  }
  verif::ctx().concolic = false;
  return 0;
}
