// C37 run-time harness: calls the material-property functions emitted by the *current* mfront
// (checks/C37.py generates the .mfront files, runs mfront --interface=c,c++,generic, and writes
//  "c37_sources.inc" = #include of every emitted source of ONE interface and "c37_table.inc" = one
//  glue lambda per law).  Built three times: -DC37_IFACE_C, -DC37_IFACE_CXX, -DC37_IFACE_GENERIC
// (the three interfaces define the same metadata symbols and cannot share a binary).
//
// stdin : <law> <nov> (<key> <bits>)* <nargs> <bits>*          numbers = 16 hex digits (binary64)
// stdout: <bits|nan> <status> <r1,r2,..>
//         c       : status 0
//         c++     : status 0, or `exc` in place of the value when operator() throws;
//                   r_i = 1 when the i-th key is a declared parameter name (setter called), else 0
//         generic : status = mfront_gmp_OutputStatus::status; r_i = value returned by <law>_setParameter
#include <cerrno>
#include <cmath>
#include <cstdint>
#include <cstdio>
#include <cstring>
#include <iostream>
#include <sstream>
#include <string>
#include <utility>
#include <vector>

#include "c37_sources.inc"

struct Result {
  double v = 0;
  int status = 0;
  bool exc = false;
  std::vector<int> set;
};
using Ov = std::vector<std::pair<std::string, double>>;
using Glue = void (*)(const double*, const Ov&, Result&);
struct Entry {
  const char* name;
  int nargs;
  Glue f;
};

#include "c37_table.inc"

static double frombits(const std::string& w) {
  const std::uint64_t b = std::stoull(w, nullptr, 16);
  double d;
  std::memcpy(&d, &b, sizeof d);
  return d;
}

static std::string tobits(const double d) {
  if (std::isnan(d)) return "nan";
  std::uint64_t b;
  std::memcpy(&b, &d, sizeof d);
  char buf[32];
  std::snprintf(buf, sizeof buf, "%016llx", static_cast<unsigned long long>(b));
  return buf;
}

int main() {
  std::string line;
  while (std::getline(std::cin, line)) {
    std::istringstream is(line);
    std::string law, w, k;
    int nov = 0, nargs = 0;
    if (!(is >> law >> nov)) {
      std::cout << "bad-op\n";
      continue;
    }
    Ov ov;
    bool ok = true;
    for (int i = 0; i != nov; ++i) {
      if (!(is >> k >> w)) ok = false;
      else ov.push_back({k, frombits(w)});
    }
    if (!(is >> nargs)) ok = false;
    std::vector<double> a;
    for (int i = 0; ok && i != nargs; ++i) {
      if (!(is >> w)) ok = false;
      else a.push_back(frombits(w));
    }
    const Entry* e = nullptr;
    for (const auto& t : table) {
      if (law == t.name) e = &t;
    }
    if (!ok || e == nullptr || e->f == nullptr || e->nargs != nargs) {
      std::cout << "bad-op\n";
      continue;
    }
    a.push_back(0);  // keeps data() non-null for zero arguments; never read
    Result r;
    errno = 0;
    e->f(a.data(), ov, r);
    std::cout << (r.exc ? std::string("exc") : tobits(r.v)) << " " << r.status << " ";
    for (std::size_t i = 0; i != r.set.size(); ++i) std::cout << (i ? "," : "") << r.set[i];
    if (r.set.empty()) std::cout << "-";
    std::cout << "\n";
  }
  return 0;
}
