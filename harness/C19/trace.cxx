// T1 tracer for C19: the covariances, drifts and nugget of the kriging models shipped with TFEL,
// instantiated with verif::Sym (the real member functions run; every scalar operation is recorded).
#include "tracehelp.hxx"
#include "TFEL/Math/tvector.hxx"
#include "TFEL/Math/vector.hxx"
#include "TFEL/Math/Kriging.hxx"
#include "TFEL/Math/FactorizedKriging.hxx"
#include "TFEL/Math/Kriging/KrigingPieceWiseLinearModel1D.hxx"

using namespace tfel::math;
using verif::Sym;
using verif::Unit;

template <unsigned short N>
static tvector<N, Sym> inputs(const double* shadow) {
  tvector<N, Sym> v;
  for (unsigned short i = 0; i != N; ++i)
    v(i) = verif::scalar_input("v" + std::to_string(i), shadow[i]);
  return v;
}

template <unsigned short N, typename Model>
static void drifts(const std::string& name, const double* shadow) {
  Unit u(name);
  if constexpr (N == 1) {
    const Sym v = verif::scalar_input("v0", shadow[0]);
    verif::output("nb", Sym(static_cast<int>(Model::nb)));
    for (unsigned short k = 0; k != Model::nb; ++k)
      verif::output("d" + std::to_string(k), (Model::drifts[k])(v));
  } else {
    const auto v = inputs<N>(shadow);
    verif::output("nb", Sym(static_cast<int>(Model::nb)));
    for (unsigned short k = 0; k != Model::nb; ++k)
      verif::output("d" + std::to_string(k), (Model::drifts[k])(v));
  }
}

int main() {
  const double far[3] = {0.375, -0.625, 0.875};
  const double near[3] = {1.e-9, -2.e-9, 0.};
  // ---- covariances
  {
    Unit u("cov1D");
    const Sym v = verif::scalar_input("v0", far[0]);
    const KrigingDefaultModel<1u, Sym> m;
    verif::output("r", m.covariance(v));
  }
  {
    Unit u("covPW");
    const Sym v = verif::scalar_input("v0", far[0]);
    const KrigingPieceWiseLinearModel1D<Sym> m;
    verif::output("r", m.covariance(v));
  }
  {
    // the branch `h2 < 10*eps` is decided by the shadow value and recorded as a path condition
    Unit u("cov2D_far");
    verif::ctx().concolic = true;
    const auto v = inputs<2u>(far);
    verif::output("r", KrigingDefaultModel<2u, Sym>::covariance(v));
    verif::ctx().concolic = false;
  }
  {
    Unit u("cov2D_near");
    verif::ctx().concolic = true;
    const auto v = inputs<2u>(near);
    verif::output("r", KrigingDefaultModel<2u, Sym>::covariance(v));
    verif::ctx().concolic = false;
  }
  {
    Unit u("cov3D");
    const auto v = inputs<3u>(far);
    verif::output("r", KrigingDefaultModel<3u, Sym>::covariance(v));
  }
  // ---- drifts (and their number) of the models and of the adaptated models of FactorizedKriging
  drifts<1u, KrigingDefaultModel<1u, Sym>>("drift1D", far);
  drifts<2u, KrigingDefaultModel<2u, Sym>>("drift2D", far);
  drifts<3u, KrigingDefaultModel<3u, Sym>>("drift3D", far);
  drifts<1u, KrigingPieceWiseLinearModel1D<Sym>>("driftPW", far);
  drifts<1u, KrigingModelAdaptator<KrigingDefaultModel<1u, Sym>>>("driftA1D", far);
  drifts<2u, KrigingModelAdaptator<KrigingDefaultModel<2u, Sym>>>("driftA2D", far);
  drifts<3u, KrigingModelAdaptator<KrigingDefaultModel<3u, Sym>>>("driftA3D", far);
  // ---- nugget: default constructed, and after setNuggetEffect
  {
    Unit u("nugget");
    const Sym x = verif::scalar_input("x", 0.5);
    const Sym nu = verif::scalar_input("nu", 0.25);
    KrigingDefaultNuggetModel<1u, Sym> m;
    verif::output("dflt", m.nuggetEffect(0, x));
    m.setNuggetEffect(nu);
    verif::output("set", m.nuggetEffect(3, x));
    KrigingDefaultModel<2u, Sym> m2;
    tvector<2u, Sym> x2;
    x2(0) = x;
    x2(1) = x;
    verif::output("dflt2", m2.nuggetEffect(1, x2));
    KrigingPieceWiseLinearModel1D<Sym> m3;
    verif::output("dfltPW", m3.nuggetEffect(1, x));
  }
  return 0;
}
