// C19 correspondence harness: the real Kriging / FactorizedKriging templates, the Kriging{1,2,3}D and
// FactorizedKriging1D{1,2,3}D wrappers (sources of the current tree compiled into this translation unit)
// and parser::KrigedFunction<N>, on `double`.
//
// The assembled system is observed without touching /repo: `LUSolve::exe(m, b)` is a member template
// of a non-template class, so this file declares an explicit specialisation for
// <matrix<double>, vector<double>> *before* the kriging headers are seen.  The specialisation records
// the matrix and right-hand side exactly as `buildInterpolation` assembled them, then does what the
// primary template does (the 4-argument `LUSolve::exe`, i.e. the real LU code) and records the solution.
//
// stdin : one request per line, floating-point data as the 16 hex digits of the IEEE-754 bits
//   <kind> <n> <nq> <nugget values> <n points (d coordinates each)> <n values> <nq query points>
//   kinds (d, number of nugget values):
//     k1 k2 k3 (d = 1,2,3; 1)  Kriging<N,double>  (default model, setNuggetEffect(nugget))
//     pw (1; 1)                Kriging<1,double,KrigingPieceWiseLinearModel1D<double>>
//     cu (2; n)                Kriging<2,double,CustomL1>: cov = |h0|+|h1|, drift {1}, nugget_i = table[i]
//     f11 f12 f13 (1+M; 0)     FactorizedKriging<1,M,double,PieceWiseLinear,Adaptator<Default<M>>>
//     K1 K2 K3 (d; 0)          Kriging1D / Kriging2D / Kriging3D (raw coordinates, normalised inside)
//     F11 F12 F13 (1+M; 0)     FactorizedKriging1D1D / 1D2D / 1D3D
//       the six wrapper kinds use the std::vector<double> constructors; with the suffix `v` (K1v .. F13v)
//       the tfel::math::vector<double> constructors (hence KrigingUtilities::normalize(tfel::math::vector));
//       with a further suffix `+c` (K2+1, K3v+3 ..) argument number c of the constructor (0..d-1: the
//       coordinate columns, d: the values) receives one element more than the others: the constructor
//       must raise KrigingErrorInvalidLength (only c >= 1 is requested: the loops run over argument 0)
//     kf1 kf2 kf3 (d; 1)       parser::KrigedFunction<N>(points, nugget): setVariableValue/getValue at the
//                              training points, the queries through a copy (resolveDependencies and
//                              createFunctionByChangingParametersIntoVariables); setVariableValue(N, .)
//                              must raise and leave the value unchanged (else `err index-unchecked`)
// stdout: ok <N> m <N*N> rhs <N> a <N> ev <n+nq>      (N = n + number of drifts; evaluations at the
//                                                       n training points first, then at the queries)
//         err <invalid-length|no-data|insufficient-data|degenerate|singular [N m.. rhs..]|index-unchecked|
//              clone-differs|other>
// The harness is compiled in two parts (in parallel, see checks/C19.py):
//   -DC19_PART=1 : k1 k2 k3 pw cu kf1 kf2 kf3      -DC19_PART=2 : f11 f12 f13 K1 K2 K3 F11 F12 F13
// a part answers `skip` to the kinds of the other one; without the macro everything is served.
#ifndef C19_PART
#define C19_PART 0
#endif
#include <cmath>
#include <cstdint>
#include <cstring>
#include <iostream>
#include <map>
#include <memory>
#include <stdexcept>
#include <sstream>
#include <string>
#include <vector>
#include "TFEL/Math/vector.hxx"
#include "TFEL/Math/matrix.hxx"
#include "TFEL/Math/tvector.hxx"
#include "TFEL/Math/LUSolve.hxx"

namespace c19 {
  struct Capture {
    bool seen = false;
    bool solved = false;
    std::size_t N = 0;
    std::vector<double> m, rhs, sol;
    void reset() { *this = Capture(); }
  };
  inline Capture& cap() {
    static Capture c;
    return c;
  }
}  // namespace c19

namespace tfel::math {
  template <>
  inline void LUSolve::exe<matrix<double>, vector<double>>(matrix<double>& m,
                                                          vector<double>& b) {
    auto& c = c19::cap();
    c.seen = true;
    c.solved = false;
    c.N = m.getNbRows();
    c.m.clear();
    c.rhs.clear();
    c.sol.clear();
    for (std::size_t i = 0; i != m.getNbRows(); ++i)
      for (std::size_t j = 0; j != m.getNbCols(); ++j) c.m.push_back(m(i, j));
    for (std::size_t i = 0; i != b.size(); ++i) c.rhs.push_back(b[i]);
    // body of the primary template
    typedef index_type<matrix<double>> IndexType;
    Permutation<IndexType> p(m.getNbRows());
    vector<double> x(b.size());
    LUSolve::exe(m, b, x, p);
    for (std::size_t i = 0; i != b.size(); ++i) c.sol.push_back(b[i]);
    c.solved = true;
  }
}  // namespace tfel::math

#include "TFEL/Math/Kriging.hxx"
#include "TFEL/Math/Kriging/KrigingPieceWiseLinearModel1D.hxx"
#if C19_PART != 2
#include "TFEL/Math/Parser/KrigedFunction.hxx"
#endif
#if C19_PART != 1
#include "TFEL/Math/FactorizedKriging.hxx"
// the wrappers of the current tree, in this translation unit (-I<repo>/src/Math)
#include "KrigingUtilities.cxx"
#include "Kriging1D.cxx"
#include "Kriging2D.cxx"
#include "Kriging3D.cxx"
#include "FactorizedKriging1D1D.cxx"
#include "FactorizedKriging1D2D.cxx"
#include "FactorizedKriging1D3D.cxx"
#endif

using namespace tfel::math;

// a model of the harness' own: L1 covariance, constant drift, per-point nugget
struct CustomL1 {
  static std::vector<double>& table() {
    static std::vector<double> t;
    return t;
  }
  static double one(const tvector<2u, double>&) { return 1.; }
  static double covariance(const tvector<2u, double>& v) {
    return std::abs(v(0)) + std::abs(v(1));
  }
  double nuggetEffect(const std::size_t i, const tvector<2u, double>&) const {
    return table().at(i);
  }
  typedef double (*Drifts)(const tvector<2u, double>&);
  static const unsigned short nb = 1u;
  static const Drifts drifts[1u];
};
const CustomL1::Drifts CustomL1::drifts[1u] = {CustomL1::one};

static bool parse_hex(const std::string& s, double& x) {
  if (s.size() != 16) return false;
  std::uint64_t v = 0;
  for (const char c : s) {
    v <<= 4;
    if (c >= '0' && c <= '9') {
      v |= static_cast<std::uint64_t>(c - '0');
    } else if (c >= 'a' && c <= 'f') {
      v |= static_cast<std::uint64_t>(c - 'a' + 10);
    } else {
      return false;
    }
  }
  std::memcpy(&x, &v, sizeof(double));
  return true;
}

static std::string show_hex(const double x) {
  if (std::isnan(x)) return "nan";
  std::uint64_t v;
  std::memcpy(&v, &x, sizeof(double));
  static const char* digits = "0123456789abcdef";
  std::string r(16, '0');
  for (int i = 0; i != 16; ++i) r[i] = digits[(v >> (4 * (15 - i))) & 15u];
  return r;
}

struct Request {
  std::string kind;
  std::size_t n = 0, nq = 0, d = 0;
  bool tfelvec = false;  // wrappers: tfel::math::vector<double> constructor
  int extra = -1;        // wrappers: constructor argument receiving one element too many
  std::vector<double> nug, pts, f, q;
};

template <unsigned short N>
static typename KrigingVariable<N, double>::type var(const double* p) {
  if constexpr (N == 1) {
    return *p;
  } else {
    tvector<N, double> v;
    for (unsigned short i = 0; i != N; ++i) v(i) = p[i];
    return v;
  }
}

static void finish(std::ostringstream& os, const std::vector<double>& ev) {
  const auto& c = c19::cap();
  os << "ok " << c.N << " m";
  for (const auto v : c.m) os << " " << show_hex(v);
  os << " rhs";
  for (const auto v : c.rhs) os << " " << show_hex(v);
  os << " a";
  for (const auto v : c.sol) os << " " << show_hex(v);
  os << " ev";
  for (const auto v : ev) os << " " << show_hex(v);
}

template <unsigned short N, typename K>
static void run_kriging(K& k, const Request& r, std::ostringstream& os) {
  for (std::size_t i = 0; i != r.n; ++i) k.addValue(var<N>(&r.pts[i * N]), r.f[i]);
  k.buildInterpolation();
  std::vector<double> ev;
  for (std::size_t i = 0; i != r.n; ++i) ev.push_back(k(var<N>(&r.pts[i * N])));
  for (std::size_t i = 0; i != r.nq; ++i) ev.push_back(k(var<N>(&r.q[i * N])));
  finish(os, ev);
}

#if C19_PART != 1
template <unsigned short M>
static void run_factorized(const Request& r, std::ostringstream& os) {
  FactorizedKriging<1u, M, double, KrigingPieceWiseLinearModel1D<double>,
                    KrigingModelAdaptator<KrigingDefaultModel<M, double>>>
      k;
  constexpr std::size_t d = 1 + M;
  for (std::size_t i = 0; i != r.n; ++i)
    k.addValue(r.pts[i * d], var<M>(&r.pts[i * d + 1]), r.f[i]);
  k.buildInterpolation();
  std::vector<double> ev;
  for (std::size_t i = 0; i != r.n; ++i)
    ev.push_back(k(r.pts[i * d], var<M>(&r.pts[i * d + 1])));
  for (std::size_t i = 0; i != r.nq; ++i)
    ev.push_back(k(r.q[i * d], var<M>(&r.q[i * d + 1])));
  finish(os, ev);
}

#endif
static std::vector<double> column(const std::vector<double>& p,
                                  const std::size_t n,
                                  const std::size_t d,
                                  const std::size_t c) {
  std::vector<double> r;
  for (std::size_t i = 0; i != n; ++i) r.push_back(p[i * d + c]);
  return r;
}

// constructor arguments of a wrapper: the d coordinate columns, then the values
static std::vector<std::vector<double>> columns(const Request& r) {
  std::vector<std::vector<double>> c;
  for (std::size_t k = 0; k != r.d; ++k) c.push_back(column(r.pts, r.n, r.d, k));
  c.push_back(r.f);
  if (r.extra >= 0) {
    auto& e = c.at(static_cast<std::size_t>(r.extra));
    e.push_back(e.empty() ? 1. : e.back() + 1.);
  }
  return c;
}

static tfel::math::vector<double> tv(const std::vector<double>& v) {
  return tfel::math::vector<double>(v.begin(), v.end());
}

#if C19_PART != 2
template <unsigned short N>
static void run_kriged_function(const Request& r, std::ostringstream& os) {
  using KF = tfel::math::parser::KrigedFunction<N>;
  std::vector<typename KF::Point> pts;
  for (std::size_t i = 0; i != r.n; ++i)
    pts.push_back({var<N>(&r.pts[i * N]), r.f[i]});
  KF kf(pts, r.nug[0]);
  std::vector<double> ev;
  auto at = [&kf](const double* p) {
    for (unsigned short c = 0; c != N; ++c) kf.setVariableValue(c, p[c]);
    return kf.getValue();
  };
  for (std::size_t i = 0; i != r.n; ++i) ev.push_back(at(&r.pts[i * N]));
  // an index beyond the last variable must be rejected and must not disturb the variables
  if (kf.getNumberOfVariables() != N) throw std::runtime_error("number of variables");
  for (const std::size_t bad : {std::size_t(N), std::size_t(N + 1)}) {
    const auto before = at(&r.pts[0]);
    bool raised = false;
    try {
      kf.setVariableValue(bad, 4096.5);
    } catch (std::exception&) {
      raised = true;
    }
    const auto after = kf.getValue();
    if (!raised || show_hex(before) != show_hex(after)) {
      os << "err index-unchecked";
      return;
    }
  }
  // the queries through copies: the variables' values and the interpolant must be carried over
  for (std::size_t i = 0; i != r.nq; ++i) {
    const auto direct = at(&r.q[i * N]);
    std::vector<std::string> names(1, "x");
    const auto c1 = kf.resolveDependencies();
    const auto c2 = kf.createFunctionByChangingParametersIntoVariables(
        names, std::vector<double>(), std::vector<std::string>(),
        std::map<std::string, std::vector<double>::size_type>());
    if (show_hex(c1->getValue()) != show_hex(direct) ||
        show_hex(c2->getValue()) != show_hex(direct) || !names.empty()) {
      os << "err clone-differs";
      return;
    }
    // the copy is a function of its own variables
    for (unsigned short c = 0; c != N; ++c) c1->setVariableValue(c, r.pts[c]);
    for (unsigned short c = 0; c != N; ++c) c1->setVariableValue(c, r.q[i * N + c]);
    ev.push_back(c1->getValue());
  }
  finish(os, ev);
}

#endif
static void dispatch(const Request& r, std::ostringstream& os) {
  const auto& k = r.kind;
  const auto n = r.n;
  (void)n;
#if C19_PART != 2
  if (k == "k1") {
    Kriging<1u, double> kr;
    kr.setNuggetEffect(r.nug[0]);
    run_kriging<1u>(kr, r, os);
  } else if (k == "k2") {
    Kriging<2u, double> kr;
    kr.setNuggetEffect(r.nug[0]);
    run_kriging<2u>(kr, r, os);
  } else if (k == "k3") {
    Kriging<3u, double> kr;
    kr.setNuggetEffect(r.nug[0]);
    run_kriging<3u>(kr, r, os);
  } else if (k == "pw") {
    Kriging<1u, double, KrigingPieceWiseLinearModel1D<double>> kr;
    kr.setNuggetEffect(r.nug[0]);
    run_kriging<1u>(kr, r, os);
  } else if (k == "cu") {
    CustomL1::table() = r.nug;
    Kriging<2u, double, CustomL1> kr;
    run_kriging<2u>(kr, r, os);
  } else if (k == "kf1") {
    run_kriged_function<1u>(r, os);
  } else if (k == "kf2") {
    run_kriged_function<2u>(r, os);
  } else if (k == "kf3") {
    run_kriged_function<3u>(r, os);
  } else
#endif
#if C19_PART != 1
  if (k == "f11") {
    run_factorized<1u>(r, os);
  } else if (k == "f12") {
    run_factorized<2u>(r, os);
  } else if (k == "f13") {
    run_factorized<3u>(r, os);
  } else if (k == "K1") {
    const auto c = columns(r);
    const std::unique_ptr<const Kriging1D> kr(
        r.tfelvec ? new Kriging1D(tv(c[0]), tv(c[1])) : new Kriging1D(c[0], c[1]));
    std::vector<double> ev;
    for (std::size_t i = 0; i != n; ++i) ev.push_back((*kr)(r.pts[i]));
    for (std::size_t i = 0; i != r.nq; ++i) ev.push_back((*kr)(r.q[i]));
    finish(os, ev);
  } else if (k == "K2") {
    const auto c = columns(r);
    const std::unique_ptr<const Kriging2D> kr(
        r.tfelvec ? new Kriging2D(tv(c[0]), tv(c[1]), tv(c[2]))
                  : new Kriging2D(c[0], c[1], c[2]));
    std::vector<double> ev;
    for (std::size_t i = 0; i != n; ++i)
      ev.push_back((*kr)(r.pts[2 * i], r.pts[2 * i + 1]));
    for (std::size_t i = 0; i != r.nq; ++i)
      ev.push_back((*kr)(r.q[2 * i], r.q[2 * i + 1]));
    finish(os, ev);
  } else if (k == "K3") {
    const auto c = columns(r);
    const std::unique_ptr<const Kriging3D> kr(
        r.tfelvec ? new Kriging3D(tv(c[0]), tv(c[1]), tv(c[2]), tv(c[3]))
                  : new Kriging3D(c[0], c[1], c[2], c[3]));
    std::vector<double> ev;
    for (std::size_t i = 0; i != n; ++i)
      ev.push_back((*kr)(r.pts[3 * i], r.pts[3 * i + 1], r.pts[3 * i + 2]));
    for (std::size_t i = 0; i != r.nq; ++i)
      ev.push_back((*kr)(r.q[3 * i], r.q[3 * i + 1], r.q[3 * i + 2]));
    finish(os, ev);
  } else if (k == "F11") {
    const auto c = columns(r);
    const std::unique_ptr<const FactorizedKriging1D1D> kr(
        r.tfelvec ? new FactorizedKriging1D1D(tv(c[0]), tv(c[1]), tv(c[2]))
                  : new FactorizedKriging1D1D(c[0], c[1], c[2]));
    std::vector<double> ev;
    for (std::size_t i = 0; i != n; ++i)
      ev.push_back((*kr)(r.pts[2 * i], r.pts[2 * i + 1]));
    for (std::size_t i = 0; i != r.nq; ++i)
      ev.push_back((*kr)(r.q[2 * i], r.q[2 * i + 1]));
    finish(os, ev);
  } else if (k == "F12") {
    const auto c = columns(r);
    const std::unique_ptr<const FactorizedKriging1D2D> kr(
        r.tfelvec
            ? new FactorizedKriging1D2D(tv(c[0]), tv(c[1]), tv(c[2]), tv(c[3]))
            : new FactorizedKriging1D2D(c[0], c[1], c[2], c[3]));
    std::vector<double> ev;
    for (std::size_t i = 0; i != n; ++i)
      ev.push_back((*kr)(r.pts[3 * i], r.pts[3 * i + 1], r.pts[3 * i + 2]));
    for (std::size_t i = 0; i != r.nq; ++i)
      ev.push_back((*kr)(r.q[3 * i], r.q[3 * i + 1], r.q[3 * i + 2]));
    finish(os, ev);
  } else if (k == "F13") {
    const auto c = columns(r);
    const std::unique_ptr<const FactorizedKriging1D3D> kr(
        r.tfelvec ? new FactorizedKriging1D3D(tv(c[0]), tv(c[1]), tv(c[2]),
                                              tv(c[3]), tv(c[4]))
                  : new FactorizedKriging1D3D(c[0], c[1], c[2], c[3], c[4]));
    std::vector<double> ev;
    for (std::size_t i = 0; i != n; ++i)
      ev.push_back((*kr)(r.pts[4 * i], r.pts[4 * i + 1], r.pts[4 * i + 2],
                         r.pts[4 * i + 3]));
    for (std::size_t i = 0; i != r.nq; ++i)
      ev.push_back(
          (*kr)(r.q[4 * i], r.q[4 * i + 1], r.q[4 * i + 2], r.q[4 * i + 3]));
    finish(os, ev);
  } else
#endif
  {
    os << "skip";
  }
}

static bool layout(Request& r) {
  // suffixes of the wrapper kinds: [v][+c]
  const auto plus = r.kind.find('+');
  if (plus != std::string::npos) {
    const auto c = r.kind.substr(plus + 1);
    if (c.size() != 1 || c[0] < '0' || c[0] > '9') return false;
    r.extra = c[0] - '0';
    r.kind.erase(plus);
  }
  if (r.kind.size() > 1 && r.kind.back() == 'v') {
    r.tfelvec = true;
    r.kind.pop_back();
  }
  const auto& k = r.kind;
  if ((r.tfelvec || r.extra >= 0) && (k.empty() || (k[0] != 'K' && k[0] != 'F')))
    return false;
  std::size_t nn = 0;
  if (k == "k1" || k == "pw" || k == "kf1") {
    r.d = 1;
    nn = 1;
  } else if (k == "k2" || k == "kf2") {
    r.d = 2;
    nn = 1;
  } else if (k == "k3" || k == "kf3") {
    r.d = 3;
    nn = 1;
  } else if (k == "cu") {
    r.d = 2;
    nn = r.n;
  } else if (k == "f11" || k == "F11" || k == "K2") {
    r.d = 2;
  } else if (k == "f12" || k == "F12" || k == "K3") {
    r.d = 3;
  } else if (k == "f13" || k == "F13") {
    r.d = 4;
  } else if (k == "K1") {
    r.d = 1;
  } else {
    return false;
  }
  if (r.extra > static_cast<int>(r.d)) return false;
  r.nug.resize(nn);
  return true;
}

int main() {
  std::string line;
  while (std::getline(std::cin, line)) {
    std::istringstream is(line);
    Request r;
    if (!(is >> r.kind >> r.n >> r.nq) || !layout(r) || r.n > 4096 ||
        r.nq > 4096) {
      std::cout << "bad-op\n";
      continue;
    }
    std::vector<double> data;
    std::string w;
    bool okp = true;
    while (is >> w) {
      double x;
      if (!parse_hex(w, x)) {
        okp = false;
        break;
      }
      data.push_back(x);
    }
    const auto need = r.nug.size() + r.n * r.d + r.n + r.nq * r.d;
    if (!okp || data.size() != need) {
      std::cout << "bad-op\n";
      continue;
    }
    auto p = data.begin();
    r.nug.assign(p, p + static_cast<long>(r.nug.size()));
    p += static_cast<long>(r.nug.size());
    r.pts.assign(p, p + static_cast<long>(r.n * r.d));
    p += static_cast<long>(r.n * r.d);
    r.f.assign(p, p + static_cast<long>(r.n));
    p += static_cast<long>(r.n);
    r.q.assign(p, data.end());
    c19::cap().reset();
    std::ostringstream os;
    try {
      dispatch(r, os);
      if (os.str() != "skip" && !(c19::cap().seen && c19::cap().solved)) {
        os.str("");
        os << "err no-capture";
      }
    } catch (KrigingErrorInvalidLength&) {
      os.str("");
      os << "err invalid-length";
    } catch (KrigingErrorNoDataSpecified&) {
      os.str("");
      os << "err no-data";
    } catch (KrigingErrorInsufficientData&) {
      os.str("");
      os << "err insufficient-data";
    } catch (LUException&) {
      os.str("");
      const auto& c = c19::cap();
      os << "err singular " << c.N << " m";
      for (const auto v : c.m) os << " " << show_hex(v);
      os << " rhs";
      for (const auto v : c.rhs) os << " " << show_hex(v);
    } catch (std::exception& e) {
      os.str("");
      const std::string what = e.what();
      os << (what.find("almost identical") != std::string::npos
                 ? "err degenerate"
                 : "err other");
    }
    std::cout << os.str() << "\n";
  }
  return 0;
}
