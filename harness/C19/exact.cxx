// C19 exact harness: the real Kriging / FactorizedKriging templates and the real LUSolve instantiated
// with an exact rational scalar `c19::Q` (128-bit numerator/denominator, every overflow detected and
// reported as `err overflow`).  With exact arithmetic the solve is exact, so the theorem
//   K(x_k) = f_k + (cov(0) - nugget_k) a_k
// must hold *exactly* on the real code; the assembled system, the solution and the evaluations are
// printed as reduced fractions and compared with the Lean model run on `Rat`.
//
// stdin : <kind> <n> <nq> <nugget values> <n points> <n values> <nq queries>, data as p/q
//         kinds: k1 pw cu f11 (see harness.cxx)
// stdout: ok <N> m <N*N> rhs <N> a <N> ev <n+nq>  |  err <insufficient-data|no-data|singular|overflow|other>
#include <cstdlib>
#include <iostream>
#include <limits>
#include <sstream>
#include <stdexcept>
#include <string>
#include <type_traits>
#include <vector>

namespace c19 {
  using i128 = __int128;
  struct Overflow : std::runtime_error {
    Overflow() : std::runtime_error("overflow") {}
  };
  struct DivisionByZero : std::runtime_error {
    DivisionByZero() : std::runtime_error("division by zero") {}
  };
  constexpr i128 gcd(i128 a, i128 b) {
    if (a < 0) a = -a;
    if (b < 0) b = -b;
    while (b != 0) {
      const i128 t = a % b;
      a = b;
      b = t;
    }
    return a;
  }
  constexpr i128 mul(const i128 a, const i128 b) {
    i128 r = 0;
    if (__builtin_mul_overflow(a, b, &r)) throw Overflow();
    return r;
  }
  constexpr i128 add(const i128 a, const i128 b) {
    i128 r = 0;
    if (__builtin_add_overflow(a, b, &r)) throw Overflow();
    return r;
  }
  //! exact rational, always reduced, d > 0
  struct Q {
    i128 n = 0;
    i128 d = 1;
    constexpr Q() = default;
    template <typename I>
    requires(std::is_integral_v<I>) constexpr Q(const I v)
        : n(static_cast<i128>(v)) {}
    static constexpr Q make(i128 n, i128 d) {
      if (d == 0) throw DivisionByZero();
      if (d < 0) {
        n = -n;
        d = -d;
      }
      const i128 g = gcd(n, d);
      Q r;
      r.n = g > 1 ? n / g : n;
      r.d = g > 1 ? d / g : d;
      return r;
    }
    constexpr Q& operator+=(const Q& o);
    constexpr Q& operator-=(const Q& o);
    constexpr Q& operator*=(const Q& o);
    constexpr Q& operator/=(const Q& o);
  };
  constexpr Q operator-(const Q& x) {
    Q r;
    r.n = -x.n;
    r.d = x.d;
    return r;
  }
  constexpr Q operator+(const Q& x, const Q& y) {
    const i128 g = gcd(x.d, y.d);
    const i128 yd = y.d / g;
    const i128 xd = x.d / g;
    return Q::make(add(mul(x.n, yd), mul(y.n, xd)), mul(x.d, yd));
  }
  constexpr Q operator-(const Q& x, const Q& y) { return x + (-y); }
  constexpr Q operator*(const Q& x, const Q& y) {
    const i128 g1 = gcd(x.n, y.d);
    const i128 g2 = gcd(y.n, x.d);
    return Q::make(mul(x.n / (g1 ? g1 : 1), y.n / (g2 ? g2 : 1)),
                   mul(x.d / (g2 ? g2 : 1), y.d / (g1 ? g1 : 1)));
  }
  constexpr Q operator/(const Q& x, const Q& y) {
    if (y.n == 0) throw DivisionByZero();
    Q inv;
    inv.n = y.n < 0 ? -y.d : y.d;
    inv.d = y.n < 0 ? -y.n : y.n;
    return x * inv;
  }
  constexpr Q& Q::operator+=(const Q& o) { return *this = *this + o; }
  constexpr Q& Q::operator-=(const Q& o) { return *this = *this - o; }
  constexpr Q& Q::operator*=(const Q& o) { return *this = *this * o; }
  constexpr Q& Q::operator/=(const Q& o) { return *this = *this / o; }
  constexpr int cmp(const Q& x, const Q& y) {
    const i128 l = mul(x.n, y.d);
    const i128 r = mul(y.n, x.d);
    return l < r ? -1 : (l > r ? 1 : 0);
  }
  constexpr bool operator<(const Q& x, const Q& y) { return cmp(x, y) < 0; }
  constexpr bool operator>(const Q& x, const Q& y) { return cmp(x, y) > 0; }
  constexpr bool operator<=(const Q& x, const Q& y) { return cmp(x, y) <= 0; }
  constexpr bool operator>=(const Q& x, const Q& y) { return cmp(x, y) >= 0; }
  constexpr bool operator==(const Q& x, const Q& y) {
    return x.n == y.n && x.d == y.d;
  }
  constexpr bool operator!=(const Q& x, const Q& y) { return !(x == y); }
#define C19_MIXED(T)                                                    \
  constexpr Q operator+(const Q& x, const T y) { return x + Q(y); }     \
  constexpr Q operator+(const T x, const Q& y) { return Q(x) + y; }     \
  constexpr Q operator-(const Q& x, const T y) { return x - Q(y); }     \
  constexpr Q operator-(const T x, const Q& y) { return Q(x) - y; }     \
  constexpr Q operator*(const Q& x, const T y) { return x * Q(y); }     \
  constexpr Q operator*(const T x, const Q& y) { return Q(x) * y; }     \
  constexpr Q operator/(const Q& x, const T y) { return x / Q(y); }     \
  constexpr Q operator/(const T x, const Q& y) { return Q(x) / y; }
  C19_MIXED(int)
  C19_MIXED(long)
  C19_MIXED(unsigned int)
  C19_MIXED(unsigned long)
#undef C19_MIXED
  //! found by argument dependent lookup from `abs(v*v*v)` / `std::abs(v)` in the kriging models
  constexpr Q abs(const Q& x) { return x.n < 0 ? -x : x; }

  inline std::string show(i128 v) {
    if (v == 0) return "0";
    const bool neg = v < 0;
    std::string s;
    while (v != 0) {
      int dgt = static_cast<int>(v % 10);
      if (dgt < 0) dgt = -dgt;
      s.insert(s.begin(), static_cast<char>('0' + dgt));
      v /= 10;
    }
    return neg ? "-" + s : s;
  }
  inline std::string show(const Q& q) { return show(q.n) + "/" + show(q.d); }
  inline bool parse(const std::string& s, Q& q) {
    const auto p = s.find('/');
    try {
      std::size_t pos = 0;
      const long long n = std::stoll(s.substr(0, p), &pos);
      if (pos != s.substr(0, p).size()) return false;
      long long d = 1;
      if (p != std::string::npos) {
        d = std::stoll(s.substr(p + 1), &pos);
        if (pos != s.substr(p + 1).size() || d <= 0) return false;
      }
      q = Q::make(n, d);
    } catch (std::exception&) {
      return false;
    }
    return true;
  }
}  // namespace c19

namespace std {
  using c19::abs;
  template <>
  struct numeric_limits<c19::Q> {
    static constexpr bool is_specialized = true;
    static constexpr bool is_exact = true;
    static constexpr c19::Q min() { return c19::Q(); }
    static constexpr c19::Q epsilon() { return c19::Q(); }
  };
}  // namespace std

// ---- trait glue making c19::Q a scalar for TFEL (modelled on harness/symtrace/glue.hxx)
#include "TFEL/Metaprogramming/InvalidType.hxx"
#include "TFEL/TypeTraits/IsReal.hxx"
#include "TFEL/TypeTraits/IsScalar.hxx"
#include "TFEL/TypeTraits/IsComplex.hxx"
#include "TFEL/TypeTraits/IsAssignableTo.hxx"
#include "TFEL/TypeTraits/IsFundamentalNumericType.hxx"
#include "TFEL/TypeTraits/BaseType.hxx"
#include "TFEL/TypeTraits/Promote.hxx"
#include "TFEL/Math/General/BasicOperations.hxx"
#include "TFEL/Math/General/UnaryResultType.hxx"
#include "TFEL/Math/General/ResultType.hxx"

namespace tfel::math {
  template <typename Op>
  struct ResultType<c19::Q, c19::Q, Op> {
    using type = c19::Q;
  };
  template <typename T2, typename Op>
  requires(std::is_integral_v<T2>) struct ResultType<c19::Q, T2, Op> {
    using type = c19::Q;
  };
  template <typename T1, typename Op>
  requires(std::is_integral_v<T1>) struct ResultType<T1, c19::Q, Op> {
    using type = c19::Q;
  };
  constexpr c19::Q& base_type_cast(c19::Q& v) noexcept { return v; }
  constexpr const c19::Q& base_type_cast(const c19::Q& v) noexcept { return v; }
}  // namespace tfel::math

namespace tfel::typetraits {
  template <>
  struct Promote<c19::Q, c19::Q> {
    using type = c19::Q;
  };
  template <typename T2>
  requires(std::is_integral_v<T2>) struct Promote<c19::Q, T2> {
    using type = c19::Q;
  };
  template <typename T1>
  requires(std::is_integral_v<T1>) struct Promote<T1, c19::Q> {
    using type = c19::Q;
  };
  template <>
  struct IsScalar<c19::Q> {
    static constexpr bool cond = true;
  };
  template <>
  struct IsScalar<const c19::Q> {
    static constexpr bool cond = true;
  };
  template <>
  struct IsReal<c19::Q> {
    static constexpr bool cond = true;
  };
  template <>
  struct IsReal<const c19::Q> {
    static constexpr bool cond = true;
  };
  template <>
  struct IsComplex<c19::Q> {
    static constexpr bool cond = false;
  };
  template <typename T1>
  requires(std::is_integral_v<T1>) struct IsAssignableTo<T1, c19::Q> {
    static constexpr bool cond = true;
  };
  template <>
  struct IsAssignableTo<c19::Q, c19::Q> {
    static constexpr bool cond = true;
  };
  template <>
  struct IsFundamentalNumericType<c19::Q> {
    static constexpr bool cond = true;
  };
  template <>
  struct IsFundamentalNumericType<const c19::Q> {
    static constexpr bool cond = true;
  };
  template <>
  struct BaseType<c19::Q> {
    using type = c19::Q;
  };
}  // end of namespace tfel::typetraits

#include "TFEL/Math/vector.hxx"
#include "TFEL/Math/matrix.hxx"
#include "TFEL/Math/tvector.hxx"
#include "TFEL/Math/LUSolve.hxx"

using c19::Q;

namespace c19 {
  struct Capture {
    bool seen = false;
    bool solved = false;
    std::size_t N = 0;
    std::vector<Q> m, rhs, sol;
    void reset() { *this = Capture(); }
  };
  inline Capture& cap() {
    static Capture c;
    return c;
  }
}  // namespace c19

namespace tfel::math {
  // same interception as in harness.cxx: record the assembled system, run the real solver
  template <>
  inline void LUSolve::exe<matrix<Q>, vector<Q>>(matrix<Q>& m, vector<Q>& b) {
    auto& c = c19::cap();
    c.seen = true;
    c.solved = false;
    c.N = m.getNbRows();
    c.m.clear();
    c.rhs.clear();
    c.sol.clear();
    for (std::size_t i = 0; i != m.getNbRows(); ++i)
      for (std::size_t j = 0; j != m.getNbCols(); ++j) c.m.push_back(m(i, j));
    for (std::size_t i = 0; i != b.size(); ++i) c.rhs.push_back(b[i]);
    typedef index_type<matrix<Q>> IndexType;
    Permutation<IndexType> p(m.getNbRows());
    vector<Q> x(b.size());
    LUSolve::exe(m, b, x, p);
    for (std::size_t i = 0; i != b.size(); ++i) c.sol.push_back(b[i]);
    c.solved = true;
  }
}  // namespace tfel::math

#include "TFEL/Math/Kriging.hxx"
#include "TFEL/Math/FactorizedKriging.hxx"
#include "TFEL/Math/Kriging/KrigingPieceWiseLinearModel1D.hxx"

using namespace tfel::math;

struct CustomL1 {
  static std::vector<Q>& table() {
    static std::vector<Q> t;
    return t;
  }
  static Q one(const tvector<2u, Q>&) { return Q(1); }
  static Q covariance(const tvector<2u, Q>& v) {
    return c19::abs(v(0)) + c19::abs(v(1));
  }
  Q nuggetEffect(const std::size_t i, const tvector<2u, Q>&) const {
    return table().at(i);
  }
  typedef Q (*Drifts)(const tvector<2u, Q>&);
  static const unsigned short nb = 1u;
  static const Drifts drifts[1u];
};
const CustomL1::Drifts CustomL1::drifts[1u] = {CustomL1::one};

struct Request {
  std::string kind;
  std::size_t n = 0, nq = 0, d = 0;
  std::vector<Q> nug, pts, f, q;
};

static tvector<2u, Q> var2(const Q* p) {
  tvector<2u, Q> v;
  v(0) = p[0];
  v(1) = p[1];
  return v;
}

static void finish(std::ostringstream& os, const std::vector<Q>& ev) {
  const auto& c = c19::cap();
  os << "ok " << c.N << " m";
  for (const auto& v : c.m) os << " " << c19::show(v);
  os << " rhs";
  for (const auto& v : c.rhs) os << " " << c19::show(v);
  os << " a";
  for (const auto& v : c.sol) os << " " << c19::show(v);
  os << " ev";
  for (const auto& v : ev) os << " " << c19::show(v);
}

template <typename K>
static void run1(K& k, const Request& r, std::ostringstream& os) {
  for (std::size_t i = 0; i != r.n; ++i) k.addValue(r.pts[i], r.f[i]);
  k.buildInterpolation();
  std::vector<Q> ev;
  for (std::size_t i = 0; i != r.n; ++i) ev.push_back(k(r.pts[i]));
  for (std::size_t i = 0; i != r.nq; ++i) ev.push_back(k(r.q[i]));
  finish(os, ev);
}

static void dispatch(const Request& r, std::ostringstream& os) {
  if (r.kind == "k1") {
    Kriging<1u, Q> k;
    k.setNuggetEffect(r.nug[0]);
    run1(k, r, os);
  } else if (r.kind == "pw") {
    Kriging<1u, Q, KrigingPieceWiseLinearModel1D<Q>> k;
    k.setNuggetEffect(r.nug[0]);
    run1(k, r, os);
  } else if (r.kind == "cu") {
    CustomL1::table() = r.nug;
    Kriging<2u, Q, CustomL1> k;
    for (std::size_t i = 0; i != r.n; ++i) k.addValue(var2(&r.pts[2 * i]), r.f[i]);
    k.buildInterpolation();
    std::vector<Q> ev;
    for (std::size_t i = 0; i != r.n; ++i) ev.push_back(k(var2(&r.pts[2 * i])));
    for (std::size_t i = 0; i != r.nq; ++i) ev.push_back(k(var2(&r.q[2 * i])));
    finish(os, ev);
  } else if (r.kind == "f11") {
    FactorizedKriging<1u, 1u, Q, KrigingPieceWiseLinearModel1D<Q>,
                      KrigingModelAdaptator<KrigingDefaultModel<1u, Q>>>
        k;
    for (std::size_t i = 0; i != r.n; ++i)
      k.addValue(r.pts[2 * i], r.pts[2 * i + 1], r.f[i]);
    k.buildInterpolation();
    std::vector<Q> ev;
    for (std::size_t i = 0; i != r.n; ++i)
      ev.push_back(k(r.pts[2 * i], r.pts[2 * i + 1]));
    for (std::size_t i = 0; i != r.nq; ++i)
      ev.push_back(k(r.q[2 * i], r.q[2 * i + 1]));
    finish(os, ev);
  } else {
    os << "bad-op";
  }
}

int main() {
  std::string line;
  while (std::getline(std::cin, line)) {
    std::istringstream is(line);
    Request r;
    if (!(is >> r.kind >> r.n >> r.nq) || r.n > 64 || r.nq > 64) {
      std::cout << "bad-op\n";
      continue;
    }
    std::size_t nn = 0;
    if (r.kind == "k1" || r.kind == "pw") {
      r.d = 1;
      nn = 1;
    } else if (r.kind == "cu") {
      r.d = 2;
      nn = r.n;
    } else if (r.kind == "f11") {
      r.d = 2;
    } else {
      std::cout << "bad-op\n";
      continue;
    }
    std::vector<Q> data;
    std::string w;
    bool okp = true;
    while (is >> w) {
      Q x;
      if (!c19::parse(w, x)) {
        okp = false;
        break;
      }
      data.push_back(x);
    }
    if (!okp || data.size() != nn + r.n * r.d + r.n + r.nq * r.d) {
      std::cout << "bad-op\n";
      continue;
    }
    auto p = data.begin();
    r.nug.assign(p, p + static_cast<long>(nn));
    p += static_cast<long>(nn);
    r.pts.assign(p, p + static_cast<long>(r.n * r.d));
    p += static_cast<long>(r.n * r.d);
    r.f.assign(p, p + static_cast<long>(r.n));
    p += static_cast<long>(r.n);
    r.q.assign(p, data.end());
    c19::cap().reset();
    std::ostringstream os;
    try {
      dispatch(r, os);
      if (os.str() != "bad-op" && !(c19::cap().seen && c19::cap().solved)) {
        os.str("");
        os << "err no-capture";
      }
    } catch (KrigingErrorNoDataSpecified&) {
      os.str("");
      os << "err no-data";
    } catch (KrigingErrorInsufficientData&) {
      os.str("");
      os << "err insufficient-data";
    } catch (c19::Overflow&) {
      os.str("");
      os << "err overflow";
    } catch (c19::DivisionByZero&) {
      os.str("");
      os << "err singular";
    } catch (LUException&) {
      os.str("");
      os << "err singular";
    } catch (std::exception&) {
      os.str("");
      os << "err other";
    }
    std::cout << os.str() << "\n";
  }
  return 0;
}
