// T1 tracer for C25 (part a): bounds, two-phase schemes, Eshelby / Hill / localisation tensors of
// spheres and of plane-strain ellipses. The REAL templates of /repo run on verif::Sym.
#include "C25/common.hxx"
#include "TFEL/Math/st2tost2.hxx"
#include "TFEL/Material/IsotropicModuli.hxx"
#include "TFEL/Material/LinearHomogenizationBounds.hxx"
#include "TFEL/Material/LinearHomogenizationSchemes.hxx"
#include "TFEL/Material/LocalisationTensor.hxx"

using namespace tfel::math;
using namespace tfel::material;
using namespace tfel::material::homogenization::elasticity;
using verif::Sym;
using verif::Unit;
using c25::vin;
using T4 = st2tost2<3u, Sym>;

static std::vector<double> fracs(const std::size_t n) {
  // shadow fractions summing to one (the trace itself does not depend on them)
  static const std::vector<std::vector<double>> t = {
      {}, {1.}, {0.25, 0.75}, {0.5, 0.25, 0.25}, {0.125, 0.25, 0.375, 0.25},
      {0.125, 0.25, 0.125, 0.25, 0.25}};
  return t[n];
}

template <unsigned short d>
static void hs_unit(const std::string& name,
                    const std::vector<double>& K,
                    const std::vector<double>& mu) {
  Unit u(name);
  c25::Concolic cc;
  auto f = vin("f", fracs(K.size()));
  auto k = vin("K", K);
  auto m = vin("mu", mu);
  const auto p = computeIsotropicHashinShtrikmanBounds<d, Sym>(
      std::span<Sym>(f), std::span<Sym>(k), std::span<Sym>(m));
  verif::output("KL", p.first.first);
  verif::output("GL", p.first.second);
  verif::output("KU", p.second.first);
  verif::output("GU", p.second.second);
}

static std::vector<T4> iso_tensors(const std::vector<Sym>& K, const std::vector<Sym>& G) {
  std::vector<T4> C;
  for (std::size_t i = 0; i != K.size(); ++i) {
    C.push_back(computeIsotropicStiffnessTensor<Sym>(KGModuli<Sym>(K[i], G[i])));
  }
  return C;
}

static void voigt_reuss(const std::size_t n) {
  std::vector<double> K, G;
  for (std::size_t i = 0; i != n; ++i) {
    K.push_back(1.5 + 0.75 * i);
    G.push_back(0.5 + 0.375 * ((i * 2) % n));
  }
  {
    Unit u("Voigt3_n" + std::to_string(n));
    auto f = vin("f", fracs(n));
    const auto k = vin("K", K);
    const auto g = vin("G", G);
    auto C = iso_tensors(k, g);
    const T4 CV = computeVoigtStiffness<3u, Sym>(std::span<Sym>(f), std::span<T4>(C));
    verif::outputs2("C", CV, 6, 6);
  }
  {
    // inversion by pivoted LU (TinyMatrixInvert): concolic; evaluated exactly in the check, not sent to Lean
    Unit u("Reuss3_n" + std::to_string(n));
    c25::Concolic cc;
    auto f = vin("f", fracs(n));
    const auto k = vin("K", K);
    const auto g = vin("G", G);
    auto C = iso_tensors(k, g);
    const T4 CR = computeReussStiffness<3u, Sym>(std::span<Sym>(f), std::span<T4>(C));
    verif::outputs2("C", CR, 6, 6);
  }
}

int main() {
  // ---------------------------------------------------------------- Hashin-Shtrikman bounds
  // per n several shadow orderings (the path decides which phase is min / max for mu and H)
  hs_unit<3u>("HS3_n2_p0", {1, 3}, {1, 2});
  hs_unit<3u>("HS3_n2_p1", {3, 1}, {2, 1});
  hs_unit<3u>("HS3_n2_p2", {100, 0.01}, {1, 1.1});
  hs_unit<3u>("HS3_n2_p3", {2, 2}, {1, 1});
  hs_unit<3u>("HS3_n3_p0", {1, 2, 3}, {1, 2, 3});
  hs_unit<3u>("HS3_n3_p1", {3, 2, 1}, {3, 2, 1});
  hs_unit<3u>("HS3_n3_p2", {100, 1, 0.01}, {1, 1.1, 1.2});
  hs_unit<3u>("HS3_n3_p3", {1, 5, 2}, {2, 1, 3});
  hs_unit<3u>("HS3_n4_p0", {1, 2, 3, 4}, {1, 2, 3, 4});
  hs_unit<3u>("HS3_n4_p1", {4, 3, 2, 1}, {4, 3, 2, 1});
  hs_unit<3u>("HS3_n4_p2", {100, 10, 0.1, 0.01}, {1, 1.1, 1.2, 1.3});
  hs_unit<3u>("HS3_n4_p3", {1, 2, 3, 4}, {3, 1, 4, 2});
  hs_unit<3u>("HS3_n5_p0", {1, 2, 3, 4, 5}, {1, 2, 3, 4, 5});
  hs_unit<3u>("HS3_n5_p1", {5, 4, 3, 2, 1}, {5, 4, 3, 2, 1});
  hs_unit<3u>("HS3_n5_p2", {2, 1, 4, 3, 5}, {3, 5, 1, 4, 2});
  hs_unit<2u>("HS2_n2_p0", {1, 3}, {1, 2});
  hs_unit<2u>("HS2_n2_p1", {3, 1}, {2, 1});
  hs_unit<2u>("HS2_n3_p0", {1, 3, 2}, {2, 1, 3});
  // ---------------------------------------------------------------- Voigt / Reuss
  for (std::size_t n = 2; n != 6; ++n) voigt_reuss(n);
  {
    // arbitrary (anisotropic) phase tensors, 2D storage (4x4)
    Unit u("VoigtGen2_n3");
    auto f = vin("f", fracs(3));
    std::vector<st2tost2<2u, Sym>> C(3);
    verif::fill_inputs2(C[0], "a", 4, 4);
    verif::fill_inputs2(C[1], "b", 4, 4);
    verif::fill_inputs2(C[2], "d", 4, 4);
    const st2tost2<2u, Sym> CV =
        computeVoigtStiffness<2u, Sym>(std::span<Sym>(f), std::span<st2tost2<2u, Sym>>(C));
    verif::outputs2("C", CV, 4, 4);
  }
  // ---------------------------------------------------------------- two-phase schemes, spheres
  {
    Unit u("SphDilute_EN");
    c25::Concolic cc;
    const Sym E0 = verif::scalar_input("E0", 3.), nu0 = verif::scalar_input("nu0", 0.25),
              f = verif::scalar_input("f", 0.25), Ei = verif::scalar_input("Ei", 7.),
              nui = verif::scalar_input("nui", 0.125);
    const auto r = computeSphereDiluteScheme<Sym>(E0, nu0, f, Ei, nui);
    verif::output("E", r.young);
    verif::output("nu", r.nu);
    const auto kg = r.ToKG();
    verif::output("K", kg.kappa);
    verif::output("G", kg.mu);
  }
  {
    Unit u("SphMT_EN");
    c25::Concolic cc;
    const Sym E0 = verif::scalar_input("E0", 3.), nu0 = verif::scalar_input("nu0", 0.25),
              f = verif::scalar_input("f", 0.25), Ei = verif::scalar_input("Ei", 7.),
              nui = verif::scalar_input("nui", 0.125);
    const auto r = computeSphereMoriTanakaScheme<Sym>(E0, nu0, f, Ei, nui);
    verif::output("E", r.young);
    verif::output("nu", r.nu);
    const auto kg = r.ToKG();
    verif::output("K", kg.kappa);
    verif::output("G", kg.mu);
  }
  {
    Unit u("SphDilute_KG");
    c25::Concolic cc;
    const Sym K0 = verif::scalar_input("K0", 2.), G0 = verif::scalar_input("G0", 1.),
              f = verif::scalar_input("f", 0.25), K1 = verif::scalar_input("K1", 5.),
              G1 = verif::scalar_input("G1", 3.);
    const auto kg = computeSphereDiluteScheme<Sym>(KGModuli<Sym>(K0, G0), f, KGModuli<Sym>(K1, G1));
    verif::output("K", kg.kappa);
    verif::output("G", kg.mu);
  }
  {
    Unit u("SphMT_KG");
    c25::Concolic cc;
    const Sym K0 = verif::scalar_input("K0", 2.), G0 = verif::scalar_input("G0", 1.),
              f = verif::scalar_input("f", 0.25), K1 = verif::scalar_input("K1", 5.),
              G1 = verif::scalar_input("G1", 3.);
    const auto kg = computeSphereMoriTanakaScheme<Sym>(KGModuli<Sym>(K0, G0), f, KGModuli<Sym>(K1, G1));
    verif::output("K", kg.kappa);
    verif::output("G", kg.mu);
  }
  {
    // tensorial dilute scheme with the localisation tensor of a sphere
    Unit u("DiluteT_sph");
    c25::Concolic cc;
    const Sym E0 = verif::scalar_input("E0", 3.), nu0 = verif::scalar_input("nu0", 0.25),
              f = verif::scalar_input("f", 0.25), Ei = verif::scalar_input("Ei", 7.),
              nui = verif::scalar_input("nui", 0.125);
    const auto A = computeSphereLocalisationTensor<Sym>(E0, nu0, Ei, nui);
    const T4 C = computeDiluteScheme<Sym>(E0, nu0, f, Ei, nui, A);
    verif::outputs2("C", C, 6, 6);
  }
  {
    // tensorial dilute scheme, arbitrary localisation tensor
    Unit u("DiluteT_gen");
    c25::Concolic cc;
    const Sym E0 = verif::scalar_input("E0", 3.), nu0 = verif::scalar_input("nu0", 0.25),
              f = verif::scalar_input("f", 0.25), Ei = verif::scalar_input("Ei", 7.),
              nui = verif::scalar_input("nui", 0.125);
    T4 A;
    verif::fill_inputs2(A, "a", 6, 6);
    const T4 C = computeDiluteScheme<Sym>(E0, nu0, f, Ei, nui, A);
    verif::outputs2("C", C, 6, 6);
  }
  {
    // the isotropic stiffness tensor as the schemes build it from (E, nu), and from (K, G)
    Unit u("IsoStiff_EN");
    const Sym E0 = verif::scalar_input("E0", 3.), nu0 = verif::scalar_input("nu0", 0.25);
    T4 C0;
    computeIsotropicStiffnessTensorII<3u, StiffnessTensorAlterationCharacteristic::UNALTERED, Sym, Sym>(C0, E0, nu0);
    verif::outputs2("C", C0, 6, 6);
  }
  {
    Unit u("IsoStiff_KG");
    const Sym K0 = verif::scalar_input("K0", 2.), G0 = verif::scalar_input("G0", 1.);
    const T4 C0 = computeIsotropicStiffnessTensor<Sym>(KGModuli<Sym>(K0, G0));
    verif::outputs2("C", C0, 6, 6);
  }
  {
    // tensorial Mori-Tanaka scheme, zero inclusion fraction (literal), arbitrary localisation tensor:
    // the inversion runs on 0*A + 1*Id
    Unit u("MTT_f0");
    c25::Concolic cc;
    const Sym E0 = verif::scalar_input("E0", 3.), nu0 = verif::scalar_input("nu0", 0.25),
              Ei = verif::scalar_input("Ei", 7.), nui = verif::scalar_input("nui", 0.125);
    T4 A;
    verif::fill_inputs2(A, "a", 6, 6);
    const T4 C = computeMoriTanakaScheme<Sym>(E0, nu0, Sym(0), Ei, nui, A);
    verif::outputs2("C", C, 6, 6);
  }
  {
    // tensorial Mori-Tanaka scheme with the sphere localisation tensor (LU inversion: exact evaluation only)
    Unit u("MTT_sph");
    c25::Concolic cc;
    const Sym E0 = verif::scalar_input("E0", 3.), nu0 = verif::scalar_input("nu0", 0.25),
              f = verif::scalar_input("f", 0.25), Ei = verif::scalar_input("Ei", 7.),
              nui = verif::scalar_input("nui", 0.125);
    const auto A = computeSphereLocalisationTensor<Sym>(E0, nu0, Ei, nui);
    const T4 C = computeMoriTanakaScheme<Sym>(E0, nu0, f, Ei, nui, A);
    verif::outputs2("C", C, 6, 6);
  }
  // ---------------------------------------------------------------- Eshelby, Hill, localisation (sphere)
  {
    Unit u("SphEshelby");
    const Sym nu = verif::scalar_input("nu", 0.25);
    const T4 S = computeSphereEshelbyTensor<Sym>(nu);
    verif::outputs2("S", S, 6, 6);
  }
  {
    Unit u("SphHill");
    const Sym E = verif::scalar_input("E", 3.), nu = verif::scalar_input("nu", 0.25);
    const T4 P = computeSphereHillPolarisationTensor<Sym>(E, nu);
    verif::outputs2("P", P, 6, 6);
  }
  {
    // defining identity of the Hill tensor: P0 : C0 = S0  (products by the TFEL st2tost2 algebra)
    Unit u("SphHill_def");
    const Sym E = verif::scalar_input("E", 3.), nu = verif::scalar_input("nu", 0.25);
    const T4 P = computeSphereHillPolarisationTensor<Sym>(E, nu);
    T4 C0;
    computeIsotropicStiffnessTensorII<3u, StiffnessTensorAlterationCharacteristic::UNALTERED, Sym, Sym>(C0, E, nu);
    const T4 S = computeSphereEshelbyTensor<Sym>(nu);
    const T4 R = P * C0 - S;
    verif::outputs2("R", R, 6, 6);
  }
  {
    Unit u("SphLoc");
    const Sym E0 = verif::scalar_input("E0", 3.), nu0 = verif::scalar_input("nu0", 0.25),
              Ei = verif::scalar_input("Ei", 7.), nui = verif::scalar_input("nui", 0.125);
    const T4 A = computeSphereLocalisationTensor<Sym>(E0, nu0, Ei, nui);
    verif::outputs2("A", A, 6, 6);
  }
  {
    // defining identity of the localisation tensor: A : (I + P0 : (Ci - C0)) = I
    Unit u("SphLoc_def");
    const Sym E0 = verif::scalar_input("E0", 3.), nu0 = verif::scalar_input("nu0", 0.25),
              Ei = verif::scalar_input("Ei", 7.), nui = verif::scalar_input("nui", 0.125);
    const T4 A = computeSphereLocalisationTensor<Sym>(E0, nu0, Ei, nui);
    const T4 P = computeSphereHillPolarisationTensor<Sym>(E0, nu0);
    T4 C0, Ci;
    computeIsotropicStiffnessTensorII<3u, StiffnessTensorAlterationCharacteristic::UNALTERED, Sym, Sym>(C0, E0, nu0);
    computeIsotropicStiffnessTensorII<3u, StiffnessTensorAlterationCharacteristic::UNALTERED, Sym, Sym>(Ci, Ei, nui);
    const T4 dC = Ci - C0;
    const T4 PdC = P * dC;
    const T4 M = T4::Id() + PdC;
    const T4 R = A * M;
    verif::outputs2("R", R, 6, 6);
  }
  {
    // spheroid routine on its sphere branch (|e-1| < precision)
    Unit u("AxiEshelby_sphere");
    c25::Concolic cc;
    const Sym nu = verif::scalar_input("nu", 0.25), e = verif::scalar_input("e", 1.);
    const T4 S = computeAxisymmetricalEshelbyTensor<Sym>(nu, e, Sym(1.5e-4));
    verif::outputs2("S", S, 6, 6);
  }
  // ---------------------------------------------------------------- plane strain (2D)
  {
    Unit u("DiskEshelby");
    c25::Concolic cc;
    const Sym nu = verif::scalar_input("nu", 0.25);
    const st2tost2<2u, Sym> S = computeDiskPlaneStrainEshelbyTensor<Sym>(nu);
    verif::outputs2("S", S, 4, 4);
  }
  {
    Unit u("EllipseEshelby_e1");
    c25::Concolic cc;
    const Sym nu = verif::scalar_input("nu", 0.25);
    const st2tost2<2u, Sym> S = computePlaneStrainEshelbyTensor<Sym>(nu, Sym(1));
    verif::outputs2("S", S, 4, 4);
  }
  {
    Unit u("EllipseEshelby_gt");
    c25::Concolic cc;
    const Sym nu = verif::scalar_input("nu", 0.25), e = verif::scalar_input("e", 2.);
    const st2tost2<2u, Sym> S = computePlaneStrainEshelbyTensor<Sym>(nu, e);
    verif::outputs2("S", S, 4, 4);
  }
  {
    Unit u("EllipseEshelby_lt");
    c25::Concolic cc;
    const Sym nu = verif::scalar_input("nu", 0.25), e = verif::scalar_input("e", 0.5);
    const st2tost2<2u, Sym> S = computePlaneStrainEshelbyTensor<Sym>(nu, e);
    verif::outputs2("S", S, 4, 4);
  }
  return 0;
}
