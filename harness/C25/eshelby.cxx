// C25 — numerical side: Eshelby, Hill polarisation and localisation tensors of spheroidal and ellipsoidal
// inclusions (IsotropicEshelbyTensor.ixx, LocalisationTensor.ixx). These formulas involve acos/acosh and
// elliptic integrals and cannot be traced symbolically: the real templates are run in double precision and every
// component is printed exactly (%a); checks/C25.py compares with an independent reference (quadrature of the
// integrals I_i, I_ij of the ellipsoid) and checks the defining identities.
//   axi  nu e                          computeAxisymmetricalEshelbyTensor<double>(nu, e)
//   ell  nu a b c                      computeEshelbyTensor<double>(nu, a, b, c)
//   axiP E nu nx ny nz e               computeAxisymmetricalHillPolarisationTensor<double>(E, nu, n, e)
//   axiA E nu Ei nui nx ny nz e        computeAxisymmetricalEllipsoidLocalisationTensor<double>(...)
//   ellP E nu nax nay naz a nbx nby nbz b c       computeHillPolarisationTensor<double>(E, nu, n_a, a, n_b, b, c)
//   out: 36 components (row major, Mandel storage) or "raise"
#include <cstdio>
#include <iostream>
#include <sstream>
#include <string>
#include "TFEL/Material/IsotropicEshelbyTensor.hxx"
#include "TFEL/Material/LocalisationTensor.hxx"

using namespace tfel::material;
using namespace tfel::material::homogenization::elasticity;
using tfel::math::st2tost2;
using tfel::math::tvector;

template <typename T>
static std::string show(const st2tost2<3u, T>& S) {
  std::string r;
  char b[64];
  for (unsigned short i = 0; i != 6; ++i)
    for (unsigned short j = 0; j != 6; ++j) {
      std::snprintf(b, sizeof(b), "%a", static_cast<double>(tfel::math::base_type_cast(S(i, j))));
      r += ((i || j) ? " " : "") + std::string(b);
    }
  return r;
}

int main() {
  std::string line;
  while (std::getline(std::cin, line)) {
    std::istringstream is(line);
    std::string op;
    is >> op;
    try {
      if (op == "axi") {
        double nu, e;
        is >> nu >> e;
        std::cout << show(computeAxisymmetricalEshelbyTensor<double>(nu, e)) << "\n";
      } else if (op == "ell") {
        double nu, a, b, c;
        is >> nu >> a >> b >> c;
        std::cout << show(computeEshelbyTensor<double>(nu, a, b, c)) << "\n";
      } else if (op == "axiP") {
        double E, nu, x, y, z, e;
        is >> E >> nu >> x >> y >> z >> e;
        const tvector<3u, double> n = {x, y, z};
        std::cout << show(computeAxisymmetricalHillPolarisationTensor<double>(E, nu, n, e)) << "\n";
      } else if (op == "axiA") {
        double E, nu, Ei, nui, x, y, z, e;
        is >> E >> nu >> Ei >> nui >> x >> y >> z >> e;
        const tvector<3u, double> n = {x, y, z};
        std::cout << show(computeAxisymmetricalEllipsoidLocalisationTensor<double>(E, nu, Ei, nui, n, e)) << "\n";
      } else if (op == "ellP") {
        double E, nu, x, y, z, a, u, v, w, b, c;
        is >> E >> nu >> x >> y >> z >> a >> u >> v >> w >> b >> c;
        const tvector<3u, double> na = {x, y, z};
        const tvector<3u, double> nb = {u, v, w};
        std::cout << show(computeHillPolarisationTensor<double>(E, nu, na, a, nb, b, c)) << "\n";
      } else {
        std::cout << "bad-op\n";
      }
    } catch (std::exception& ex) {
      std::cout << "raise " << ex.what() << "\n";
    }
  }
  return 0;
}
