/*! shared by the C25 tracers: shims for special functions that TFEL calls through std:: and
 * that the recording scalar does not provide, and input helpers. */
#ifndef VERIF_C25_COMMON_HXX
#define VERIF_C25_COMMON_HXX
#include "tracehelp.hxx"
namespace std {
  // only needed to *compile* the general ellipsoid / spheroid code paths (never traced here)
  inline verif::Sym ellint_1(const verif::Sym& k, const verif::Sym& t) {
    return verif::make_call("ellint_1", {k, t});
  }
  inline verif::Sym ellint_2(const verif::Sym& k, const verif::Sym& t) {
    return verif::make_call("ellint_2", {k, t});
  }
  inline verif::Sym acosh(const verif::Sym& k) {
    return verif::make_call("acosh", {k}, std::acosh(k.shadow()));
  }
}  // namespace std
#include <initializer_list>
#include <span>
#include <string>
#include <vector>
namespace c25 {
  using verif::Sym;
  //! symbols p0,p1,... with the given default shadow values (overridable through VERIF_SHADOW)
  inline std::vector<Sym> vin(const std::string& p, const std::vector<double>& v) {
    std::vector<Sym> r;
    for (std::size_t i = 0; i != v.size(); ++i) {
      r.push_back(verif::scalar_input(p + std::to_string(i), v[i]));
    }
    return r;
  }
  struct Concolic {
    Concolic() { verif::ctx().concolic = true; }
    ~Concolic() { verif::ctx().concolic = false; }
  };
}  // namespace c25
#endif
