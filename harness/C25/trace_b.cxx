// T1 tracer for C25 (part b): n-phase schemes on a ParticulateMicrostructure with spherical
// isotropic inclusions in an isotropic matrix (computeDilute / computeMoriTanaka / computeSelfConsistent).
#include "C25/common.hxx"
#include "TFEL/Math/st2tost2.hxx"
#include "TFEL/Material/MicrostructureDescription.hxx"
#include "TFEL/Material/MicrostructureLinearHomogenization.hxx"

using namespace tfel::math;
using namespace tfel::material;
using namespace tfel::material::homogenization::elasticity;
using verif::Sym;
using verif::Unit;
using c25::vin;
using T4 = st2tost2<3u, Sym>;

/* `SphereDistribution<Sym>` cannot be instantiated: its anisotropic branches use
 * `EshelbyTolerances::get<T>` (constrained to std::floating_point) and `fpclassify`. This class
 * reproduces its isotropic branch verbatim (MicrostructureDescription.hxx, SphereDistribution::
 * computeMeanLocalisator(const IsotropicModuli&), `else` branch): computeKGModuli +
 * computeSphereLocalisationTensor, both the real code. */
struct TracedSphereDistribution : public InclusionDistribution<3u, Sym> {
  TracedSphereDistribution(const Sphere<Sym>& sph, Sym frac, const IsotropicModuli<Sym>& IMi)
      : InclusionDistribution<3u, Sym>(sph, frac, IMi) {}
  std::unique_ptr<InclusionDistribution<3u, Sym>> clone() const override {
    return std::make_unique<TracedSphereDistribution>(*this);
  }
  T4 computeMeanLocalisator(const T4&, int) override { std::abort(); }
  T4 computeMeanLocalisator(const IsotropicModuli<Sym>& IM0) override {
    auto Ci = this->getElasticityOfPhase();
    const auto KGi = computeKGModuli<Sym>(Ci);
    return computeSphereLocalisationTensor<Sym>(IM0, KGi);
  }
};

struct Micro {
  ParticulateMicrostructure<3u, Sym> m;
  std::vector<Sym> f, K, G;
};

// phase 0 is the matrix; fi given for the inclusions only (fz: inclusion fractions are the literal 0)
static void build(Micro& mi, const std::size_t n, const bool fz) {
  std::vector<double> K, G, f;
  for (std::size_t i = 0; i != n; ++i) {
    K.push_back(2. + 1.5 * i);
    G.push_back(1. + 0.75 * ((i * 2) % n) + 0.25 * i);
    if (i != 0) f.push_back(0.125 * i);
  }
  mi.K = vin("K", K);
  mi.G = vin("G", G);
  if (!fz) {
    for (std::size_t i = 1; i != n; ++i) {
      mi.f.push_back(verif::scalar_input("f" + std::to_string(i), f[i - 1]));
    }
  } else {
    for (std::size_t i = 1; i != n; ++i) mi.f.push_back(Sym(0));
  }
  mi.m = ParticulateMicrostructure<3u, Sym>(KGModuli<Sym>(mi.K[0], mi.G[0]));
  for (std::size_t i = 1; i != n; ++i) {
    TracedSphereDistribution d(Sphere<Sym>(), mi.f[i - 1], KGModuli<Sym>(mi.K[i], mi.G[i]));
    if (mi.m.addInclusionPhase(d) != 1) {
      std::fprintf(stderr, "addInclusionPhase refused a phase\n");
      std::abort();
    }
  }
}

static void out_scheme(const HomogenizationScheme<3u, Sym>& h, const bool loc) {
  verif::outputs2("C", h.homogenized_stiffness, 6, 6);
  if (loc) {
    for (std::size_t r = 0; r != h.mean_strain_localisation_tensors.size(); ++r) {
      verif::outputs2("A" + std::to_string(r) + "_", h.mean_strain_localisation_tensors[r], 6, 6);
    }
  }
}

int main() {
  for (std::size_t n = 2; n != 4; ++n) {
    Unit u("MicroDilute_n" + std::to_string(n));
    c25::Concolic cc;
    Micro mi;
    build(mi, n, false);
    out_scheme(computeDilute<3u, Sym>(mi.m), true);
  }
  for (std::size_t n = 2; n != 5; ++n) {
    Unit u("MicroMT_n" + std::to_string(n));
    c25::Concolic cc;
    Micro mi;
    build(mi, n, false);
    out_scheme(computeMoriTanaka<3u, Sym>(mi.m), true);
  }
  {
    Unit u("MicroMT_f0_n2");
    c25::Concolic cc;
    Micro mi;
    build(mi, 2, true);
    out_scheme(computeMoriTanaka<3u, Sym>(mi.m), false);
  }
  {
    Unit u("MicroSC_f0_n2");
    c25::Concolic cc;
    Micro mi;
    build(mi, 2, true);
    out_scheme(computeSelfConsistent<3u, Sym>(mi.m, Sym(1e-6), true), false);
  }
  {
    // a tolerance above any relative error: the loop exits after its first pass, whose reference medium
    // is the matrix (exact evaluation only: LU inversion, sqrt in the exit test)
    Unit u("MicroSC_1pass_n3");
    c25::Concolic cc;
    Micro mi;
    build(mi, 3, false);
    out_scheme(computeSelfConsistent<3u, Sym>(mi.m, Sym(1000), true), true);
  }
  return 0;
}
