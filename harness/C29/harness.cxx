/*
 * C29 — trace-validation harness for tfel::system::ThreadPool.
 *
 * The real ThreadPool.cxx / ThreadPool.ixx (hooked: one event per section made atomic by the
 * pool's mutex, seeded yield points) run scenarios read on stdin; the events are appended to a
 * log under a private mutex, so that the log order of the locked sections is the order in which
 * the pool's mutex was taken.  Task bodies log their own execution (`e`), callers log what they
 * read from the futures (`g`).  Besides the log, the harness checks the observable outcomes
 * directly: side-effect counters (each body ran exactly once), completeness of wait(), futures.
 *
 * scenario syntax:
 *   scenario <name> <nworkers> <seed> <jitter_us>
 *   caller <c> <op> ...      ops: A<dur_us>:<v|x|n|m|a|p|q>  addTask: int task returning a value (v) or
 *                                                   throwing (x); void task returning (n) or throwing (m);
 *                                                   void task with two bound arguments (a: addTask(f, x, y));
 *                                                   task returning a structure (p) or throwing (q), whose
 *                                                   result is read through operator-> / operator* without a prior test
 *                                 W                 wait(), then check that every task whose addTask
 *                                                   had returned before the call has run
 *                                 G                 get() every future this caller holds, check content
 *                                 S<us>             sleep
 *   late                     one more thread calls addTask once the pool is stopping (must throw)
 *   end
 * After the callers have finished the pool is destroyed (`S` … `J`), then all remaining futures are read.
 * log tokens: s<t> r p<i> e<i>:<t>:<r> f<i> x<i> S J wb<c> we<c> wi<c>:<i> wr<c> g<t>:<r>
 */
#include <atomic>
#include <chrono>
#include <cstdio>
#include <cstdlib>
#include <cstring>
#include <future>
#include <iostream>
#include <memory>
#include <mutex>
#include <new>
#include <sstream>
#include <stdexcept>
#include <string>
#include <thread>
#include <typeinfo>
#include <unistd.h>
#include <vector>
#include "TFEL/System/ThreadPool.hxx"

using tfel::system::ThreadPool;
using tfel::system::ThreadedTaskResult;

static std::mutex logm;
static std::vector<std::string> logv;
static std::atomic<int> next_id{0};
static std::atomic<bool> stop_seen{false};
static std::atomic<bool> rejected_seen{false};
static unsigned jitter_us = 0;
static thread_local unsigned long long rng_state = 88172645463325252ULL;
static thread_local int cur_worker = -1;
static thread_local int cur_caller = -1;
static thread_local int* pending_slot = nullptr;

static constexpr int MAXT = 1 << 16;
static std::atomic<int> ran[MAXT];
static std::atomic<bool> returned_flag[MAXT];

static unsigned long long next_rand() {
  rng_state ^= rng_state << 13;
  rng_state ^= rng_state >> 7;
  rng_state ^= rng_state << 17;
  return rng_state;
}
static void perturb() {
  if (jitter_us == 0) return;
  const auto r = next_rand() % 8;
  if (r < 4) return;
  if (r < 6) {
    std::this_thread::yield();
    return;
  }
  ::usleep(static_cast<useconds_t>(next_rand() % jitter_us));
}
static void log_token(const std::string& t) {
  std::lock_guard<std::mutex> g(logm);
  logv.push_back(t);
}

// ---- the hook called by the instrumented ThreadPool ---------------------------------------------
extern "C" void tfel_verif_threadpool_hook(const char* const kind, const void* const, const std::size_t i) {
  if (std::strncmp(kind, "yield:", 6) == 0) {
    if (std::strcmp(kind, "yield:worker") == 0 && cur_worker == -1) {
      // first hook of a worker thread: seed its perturbation stream
      rng_state ^= 0x9E3779B97F4A7C15ULL * (i + 1);
      cur_worker = static_cast<int>(i);
    }
    perturb();
    return;
  }
  std::string t;
  if (std::strcmp(kind, "submit") == 0) {
    const int id = next_id.fetch_add(1);
    if (pending_slot != nullptr) *pending_slot = id;
    t = "s" + std::to_string(id);
  } else if (std::strcmp(kind, "submit:rejected") == 0) {
    t = "r";
  } else if (std::strcmp(kind, "pop") == 0) {
    cur_worker = static_cast<int>(i);
    t = "p" + std::to_string(i);
  } else if (std::strcmp(kind, "finish") == 0) {
    t = "f" + std::to_string(i);
  } else if (std::strcmp(kind, "exit") == 0) {
    t = "x" + std::to_string(i);
  } else if (std::strcmp(kind, "stop") == 0) {
    t = "S";
    stop_seen = true;
  } else if (std::strcmp(kind, "joined") == 0) {
    t = "J";
  } else if (std::strcmp(kind, "wait:begin") == 0) {
    t = "wb" + std::to_string(cur_caller);
  } else if (std::strcmp(kind, "wait:empty") == 0) {
    t = "we" + std::to_string(cur_caller);
  } else if (std::strcmp(kind, "wait:idle") == 0) {
    t = "wi" + std::to_string(cur_caller) + ":" + std::to_string(i);
  } else if (std::strcmp(kind, "wait:return") == 0) {
    t = "wr" + std::to_string(cur_caller);
  } else {
    t = std::string("?") + kind;
  }
  log_token(t);
  perturb();  // sometimes keep the pool's mutex a little longer
}

// ---- tasks ------------------------------------------------------------------------------------------
static int value_of(const int id) { return 1000 + 7 * id; }

struct Body {
  std::shared_ptr<int> slot;
  unsigned dur;
  bool throws;
  bool blocks_until_rejection;
  int run() const {
    const int id = *slot;
    if (dur != 0) ::usleep(dur);
    if (blocks_until_rejection) {
      for (int k = 0; k < 100000 && !rejected_seen.load(); ++k) ::usleep(100);
    }
    if (id >= 0 && id < MAXT) ran[id].fetch_add(1);
    const int r = throws ? -(id + 1) : value_of(id);
    log_token("e" + std::to_string(cur_worker) + ":" + std::to_string(id) + ":" + std::to_string(r));
    if (throws) throw std::runtime_error("E" + std::to_string(id));
    return r;
  }
};

//! result of the tasks of kind p/q: a class type, so that ThreadedTaskResult<T>::operator-> is usable
struct Boxed {
  int v = 0;
  int twice() const { return 2 * v; }
};

struct Held {
  std::shared_ptr<int> slot;
  bool is_void = false;
  bool is_boxed = false;
  std::future<ThreadedTaskResult<int>> fi;
  std::future<ThreadedTaskResult<void>> fv;
  std::future<ThreadedTaskResult<Boxed>> fb;
};

static std::atomic<int> future_mismatch{0};
static std::atomic<int> wait_violations{0};

static void read_future(Held& h) {
  const int id = *(h.slot);
  long r = 0;
  auto from_exception = [id](auto& res) -> long {
    try {
      res.rethrow();
    } catch (std::runtime_error& e) {
      if (std::string(e.what()) == "E" + std::to_string(id)) return -(id + 1);
      return -999999;
    } catch (...) {
      return -999998;
    }
    return -999997;
  };
  if (h.is_boxed) {
    // the content is accessed directly (no prior test): the accessors themselves must yield the
    // result or rethrow the exception of the task; the four accessors are used in turn
    // (the const overloads of operator* / operator-> call the non-const rethrow(): they do not compile when
    // instantiated, so they cannot be exercised)
    auto res = h.fb.get();
    const auto& cres = res;
    try {
      switch (id % 3) {
        case 0: r = res->v; break;
        case 1: r = res->twice() / 2; break;
        default: r = (*res).v; break;
      }
    } catch (std::runtime_error& e) {
      r = (std::string(e.what()) == "E" + std::to_string(id)) ? -(id + 1) : -999999;
    } catch (std::bad_cast&) {
      r = -999996;
    } catch (...) {
      r = -999998;
    }
    // operator bool must agree with what the accessors did
    if (static_cast<bool>(cres) != (r >= 0)) r = -999995;
  } else if (h.is_void) {
    auto res = h.fv.get();
    r = res ? value_of(id) : from_exception(res);
  } else {
    auto res = h.fi.get();
    r = res ? static_cast<long>(*res) : from_exception(res);
  }
  log_token("g" + std::to_string(id) + ":" + std::to_string(r));
}

static void submit(ThreadPool& pool, std::vector<Held>& mine, const unsigned dur, const char kind, const bool blocking) {
  Held h;
  h.slot = std::make_shared<int>(-1);
  h.is_void = (kind == 'n' || kind == 'm' || kind == 'a');
  h.is_boxed = (kind == 'p' || kind == 'q');
  const Body b{h.slot, dur, kind == 'x' || kind == 'm' || kind == 'q', blocking};
  pending_slot = h.slot.get();
  if (h.is_void) {
    h.fv = pool.addTask([b] { (void)b.run(); });
  } else if (h.is_boxed) {
    h.fb = pool.addTask([b] { return Boxed{b.run()}; });
  } else if (kind == 'a') {
    // bound arguments: addTask(f, x, y) must call f(x, y). Only void tasks can be given arguments
    // (Wrapper::Get<T>::exe has an empty, non deduced, argument pack: addTask(f, args...) does not
    // compile for a task returning a value)
    h.fv = pool.addTask(
        [b](const int x, const int y) {
          if (x != 42 || y != 21) throw std::logic_error("wrong arguments");
          (void)b.run();
        },
        42, 21);
  } else {
    h.fi = pool.addTask([b] { return b.run(); });
  }
  pending_slot = nullptr;
  const int id = *(h.slot);
  if (id >= 0 && id < MAXT) returned_flag[id] = true;
  mine.push_back(std::move(h));
}

static void caller_thread(ThreadPool* pool, const int c, const std::vector<std::string> ops, const unsigned long long seed,
                          std::vector<Held>* out) {
  cur_caller = c;
  rng_state ^= seed * 0x2545F4914F6CDD1DULL + static_cast<unsigned long long>(c) * 1000003ULL;
  std::vector<Held> mine;
  std::size_t read_upto = 0;
  for (const auto& op : ops) {
    perturb();
    if (op[0] == 'A') {
      const auto colon = op.find(':');
      const unsigned dur = static_cast<unsigned>(std::atoi(op.c_str() + 1));
      const char kind = colon == std::string::npos ? 'v' : op[colon + 1];
      submit(*pool, mine, dur, kind, false);
    } else if (op[0] == 'W') {
      // every task whose addTask had returned (in any thread) before this call
      const int upto = next_id.load();
      std::vector<int> before;
      for (int id = 0; id < upto && id < MAXT; ++id) {
        if (returned_flag[id].load()) before.push_back(id);
      }
      pool->wait();
      for (const int id : before) {
        if (ran[id].load() != 1) ++wait_violations;
      }
    } else if (op[0] == 'G') {
      for (; read_upto < mine.size(); ++read_upto) read_future(mine[read_upto]);
    } else if (op[0] == 'S') {
      ::usleep(static_cast<useconds_t>(std::atoi(op.c_str() + 1)));
    }
  }
  // futures not yet read are handed over: they are read after the pool has been destroyed
  for (; read_upto < mine.size(); ++read_upto) {
    std::lock_guard<std::mutex> g(logm);
    out->push_back(std::move(mine[read_upto]));
  }
}

struct Scenario {
  std::string name;
  unsigned nworkers = 1;
  unsigned long long seed = 1;
  std::vector<std::pair<int, std::vector<std::string>>> callers;
  bool late = false;
};

static void run_scenario(const Scenario& sc) {
  {
    std::lock_guard<std::mutex> g(logm);
    logv.clear();
  }
  next_id = 0;
  stop_seen = false;
  rejected_seen = false;
  future_mismatch = 0;
  wait_violations = 0;
  for (int i = 0; i < MAXT; ++i) {
    ran[i] = 0;
    returned_flag[i] = false;
  }
  rng_state = sc.seed * 6364136223846793005ULL + 1442695040888963407ULL;
  std::vector<Held> leftover;
  int late_result = 0;  // 1: threw as required, 2: was accepted
  alignas(ThreadPool) static unsigned char storage[sizeof(ThreadPool)];
  ThreadPool* pool = new (storage) ThreadPool(sc.nworkers);
  {
    std::vector<std::thread> ts;
    for (const auto& c : sc.callers) ts.emplace_back(caller_thread, pool, c.first, c.second, sc.seed, &leftover);
    for (auto& t : ts) t.join();
  }
  std::thread late_thread;
  if (sc.late) {
    // a task that cannot finish before the late submitter has been answered keeps a worker (hence
    // the joining destructor) alive while addTask is called on the stopping pool
    cur_caller = 9999;
    submit(*pool, leftover, 0, 'v', true);
    late_thread = std::thread([pool, &late_result, &leftover] {
      while (!stop_seen.load()) ::usleep(50);
      std::vector<Held> tmp;
      try {
        submit(*pool, tmp, 0, 'v', false);
        late_result = 2;
      } catch (std::runtime_error&) {
        late_result = 1;
      }
      pending_slot = nullptr;
      {
        std::lock_guard<std::mutex> g(logm);
        for (auto& h : tmp) leftover.push_back(std::move(h));
      }
      rejected_seen = true;
    });
  }
  pool->~ThreadPool();
  if (sc.late) late_thread.join();
  int broken = 0;
  for (auto& h : leftover) {
    try {
      read_future(h);
    } catch (std::future_error&) {
      ++broken;  // broken promise: the task was dropped without being run
    }
  }
  const int n = next_id.load();
  int not_once = 0;
  for (int id = 0; id < n && id < MAXT; ++id) {
    if (ran[id].load() != 1) ++not_once;
  }
  std::string line = "trace " + sc.name + " " + std::to_string(sc.nworkers);
  {
    std::lock_guard<std::mutex> g(logm);
    for (const auto& t : logv) line += " " + t;
  }
  std::printf("%s\n", line.c_str());
  std::printf("obs %s tasks=%d ran_not_once=%d wait_violations=%d broken_futures=%d late=%d\n", sc.name.c_str(), n, not_once,
              wait_violations.load(), broken, late_result);
  std::fflush(stdout);
}

int main() {
  std::string line;
  Scenario sc;
  std::atomic<long> beat{0};
  std::thread watchdog([&beat] {
    long last = -1;
    int idle = 0;
    for (;;) {
      ::usleep(100000);
      const long b = beat.load();
      if (b < 0) return;
      if (b == last) {
        if (++idle > 600) {
          std::printf("HANG\n");
          std::fflush(stdout);
          ::_exit(7);
        }
      } else {
        idle = 0;
        last = b;
      }
    }
  });
  while (std::getline(std::cin, line)) {
    std::istringstream is(line);
    std::string w;
    is >> w;
    if (w == "scenario") {
      sc = Scenario();
      is >> sc.name >> sc.nworkers >> sc.seed >> jitter_us;
    } else if (w == "caller") {
      int c;
      is >> c;
      std::vector<std::string> ops;
      std::string op;
      while (is >> op) ops.push_back(op);
      sc.callers.emplace_back(c, ops);
    } else if (w == "late") {
      sc.late = true;
    } else if (w == "end") {
      run_scenario(sc);
      ++beat;
    }
  }
  beat = -1;
  watchdog.join();
  return 0;
}
