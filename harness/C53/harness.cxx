/*
 * C53 — differential harness: the real Pipe*Element / PipeTest code of the tree, driven line by line.
 * Doubles travel as 16 hexadecimal digits (bit patterns). Same requests as
 * lean/TfelVerif/C53/Driver.lean (the harness ignores the `pi` and Gauss-rule tokens of `el`/`rs`:
 * those are inputs of the model only), plus:
 *
 *   gauss <p>                                   -> pg_radii[0..p], wg[0..p] of the element of order p
 *   solve <p> <ne> <Ri> <Re> <Pi> <Pe> <endcap> <E> <nu>
 *          -> `ok <iterations> u[0..n] | (position s_rr s_zz s_tt)*` : a complete run of the real PipeTest
 *             (GenericSolver, Newton) on the linear elastic mock, or `exc:<message>`
 */
#include <iostream>
#include <sstream>
#include <string>

#include "C53/pipe.hxx"
#include "MFront/MFrontLogStream.hxx"

using namespace verif53;

static std::string join(const std::vector<real>& v) {
  std::string s;
  for (std::size_t i = 0; i != v.size(); ++i) {
    if (i) s += ' ';
    s += hex(v[i]);
  }
  return s;
}

static std::string op_gauss(Tokens& tk) {
  const auto p = tk.integer();
  std::vector<real> v;
  if (p == 1) {
    for (auto x : mtest::PipeLinearElement::pg_radii) v.push_back(x);
    v.push_back(mtest::PipeLinearElement::wg);
    v.push_back(mtest::PipeLinearElement::wg);
  } else if (p == 2) {
    for (auto x : mtest::PipeQuadraticElement::pg_radii) v.push_back(x);
    for (auto x : mtest::PipeQuadraticElement::wg) v.push_back(x);
  } else if (p == 3) {
    for (auto x : mtest::PipeCubicElement::pg_radii) v.push_back(x);
    for (auto x : mtest::PipeCubicElement::wg) v.push_back(x);
  } else {
    return "bad-op";
  }
  return join(v);
}

static std::string op_sf(Tokens& tk) {
  const auto p = tk.integer();
  const auto x = tk.dbl();
  std::vector<real> v;
  for (long a = 0; a <= p; ++a) {
    auto e = [a](const long k) { return real(k == a ? 1 : 0); };
    if (p == 1) {
      v.push_back(mtest::PipeLinearElement::interpolate(e(0), e(1), x));
    } else if (p == 2) {
      v.push_back(mtest::PipeQuadraticElement::interpolate(e(0), e(1), e(2), x));
    } else if (p == 3) {
      v.push_back(mtest::PipeCubicElement::interpolate(e(0), e(1), e(2), e(3), x));
    } else {
      return "bad-op";
    }
  }
  return join(v);
}

static std::string op_el(Tokens& tk) {
  const auto p = tk.integer();
  const auto ne = tk.integer();
  const auto Ri = tk.dbl();
  const auto Re = tk.dbl();
  const auto i = static_cast<std::size_t>(tk.integer());
  tk.dbl();  // pi: model only
  if (p < 1 || p > 3 || ne < 1 || i >= static_cast<std::size_t>(ne)) return "bad-op";
  const auto D = tk.dbls(9);
  tk.dbls(2 * (p + 1));  // Gauss rule: model only
  const auto n = static_cast<std::size_t>(p * ne + 1);
  const auto uv = tk.dbls(n + 1);
  if (!tk.done()) return "bad-op";
  const auto m = mesh(p, ne, Ri, Re);
  auto b = Elastic::make(D);
  mtest::StructureCurrentState scs;
  scs.setBehaviour(b);
  scs.setModellingHypothesis(tfel::material::ModellingHypothesis::AXISYMMETRICALGENERALISEDPLANESTRAIN);
  scs.istates.resize((p + 1) * ne);
  for (auto& cs : scs.istates) b->allocateCurrentState(cs);
  tfel::math::vector<real> u(n + 1);
  for (std::size_t j = 0; j != n + 1; ++j) u[j] = uv[j];
  tfel::math::matrix<real> k(n + 1, n + 1, real(0));
  tfel::math::vector<real> r(n + 1, real(0));
  const auto mt = mtest::StiffnessMatrixType::CONSISTENTTANGENTOPERATOR;
  std::pair<bool, real> res;
  if (p == 1) {
    mtest::PipeLinearElement::setGaussPointsPositions(scs, m);
    res = mtest::PipeLinearElement::updateStiffnessMatrixAndInnerForces(k, r, scs, *b, u, m, 1, mt, i);
  } else if (p == 2) {
    mtest::PipeQuadraticElement::setGaussPointsPositions(scs, m);
    res = mtest::PipeQuadraticElement::updateStiffnessMatrixAndInnerForces(k, r, scs, *b, u, m, 1, mt, i);
  } else {
    mtest::PipeCubicElement::setGaussPointsPositions(scs, m);
    res = mtest::PipeCubicElement::updateStiffnessMatrixAndInnerForces(k, r, scs, *b, u, m, 1, mt, i);
  }
  if (!res.first) return "exc:integration-failure";
  std::vector<real> out;
  for (long g = 0; g <= p; ++g) {
    const auto& s = scs.istates[(p + 1) * i + g];
    out.push_back(s.position);
    for (int c = 0; c != 3; ++c) out.push_back(s.e1[c]);
    for (int c = 0; c != 3; ++c) out.push_back(s.s1[c]);
  }
  std::vector<std::size_t> dofs;
  for (long a = 0; a <= p; ++a) dofs.push_back(p * i + a);
  dofs.push_back(n);
  for (auto j : dofs) out.push_back(r[j]);
  for (auto l : dofs) {
    for (auto c : dofs) out.push_back(k(l, c));
  }
  return join(out);
}

static void setup(TPipe& t, const long p, const long ne, const real Ri, const real Re, const real Pi,
                  const real Pe, const bool endcap) {
  t.setInnerRadius(Ri);
  t.setOuterRadius(Re);
  t.setNumberOfElements(static_cast<int>(ne));
  t.setElementType(etype(p));
  t.performSmallStrainAnalysis();
  t.setAxialLoading(endcap ? mtest::PipeTest::ENDCAPEFFECT : mtest::PipeTest::NONE);
  t.setInnerPressureEvolution(mtest::make_evolution(Pi));
  t.setOuterPressureEvolution(mtest::make_evolution(Pe));
  t.setTimes({0, 1});
}

static std::string op_rs(Tokens& tk) {
  const auto p = tk.integer();
  const auto ne = tk.integer();
  const auto Ri = tk.dbl();
  const auto Re = tk.dbl();
  const auto Pi = tk.dbl();
  const auto Pe = tk.dbl();
  const auto endcap = tk.integer() != 0;
  const auto withK = tk.integer() != 0;
  tk.dbl();  // pi
  if (p < 1 || p > 3 || ne < 1) return "bad-op";
  const auto D = tk.dbls(9);
  tk.dbls(2 * (p + 1));
  const auto n = static_cast<std::size_t>(p * ne + 1);
  const auto uv = tk.dbls(n + 1);
  if (!tk.done()) return "bad-op";
  auto b = Elastic::make(D);
  TPipe t;
  t.install(b);
  setup(t, p, ne, Ri, Re, Pi, Pe, endcap);
  t.completeInitialisation();
  mtest::StudyCurrentState st;
  mtest::SolverWorkSpace wk;
  t.initializeCurrentState(st);
  t.initializeWorkSpace(wk);
  for (std::size_t j = 0; j != n + 1; ++j) st.u1[j] = uv[j];
  const auto res = t.computeStiffnessMatrixAndResidual(st, wk.K, wk.r, 0, 1,
                                                       mtest::StiffnessMatrixType::CONSISTENTTANGENTOPERATOR);
  if (!res.first) return "exc:integration-failure";
  std::vector<real> out;
  for (std::size_t j = 0; j != n + 1; ++j) out.push_back(wk.r[j]);
  if (withK) {
    for (std::size_t l = 0; l != n + 1; ++l) {
      for (std::size_t c = 0; c != n + 1; ++c) out.push_back(wk.K(l, c));
    }
  }
  return join(out);
}

static std::string op_solve(Tokens& tk) {
  const auto p = tk.integer();
  const auto ne = tk.integer();
  const auto Ri = tk.dbl();
  const auto Re = tk.dbl();
  const auto Pi = tk.dbl();
  const auto Pe = tk.dbl();
  const auto endcap = tk.integer() != 0;
  const auto E = tk.dbl();
  const auto nu = tk.dbl();
  if (p < 1 || p > 3 || ne < 1 || !tk.done()) return "bad-op";
  auto b = Elastic::make(isotropic(E, nu));
  TPipe t;
  t.install(b);
  setup(t, p, ne, Ri, Re, Pi, Pe, endcap);
  t.completeInitialisation();
  mtest::StudyCurrentState st;
  mtest::SolverWorkSpace wk;
  t.initializeCurrentState(st);
  t.initializeWorkSpace(wk);
  t.execute(st, wk, 0, 1);
  const auto n = static_cast<std::size_t>(p * ne + 1);
  std::vector<real> u, s;
  for (std::size_t j = 0; j != n + 1; ++j) u.push_back(st.u1[j]);
  for (const auto& cs : st.getStructureCurrentState("").istates) {
    s.push_back(cs.position);
    for (int c = 0; c != 3; ++c) s.push_back(cs.s1[c]);
  }
  return "ok " + std::to_string(st.iterations) + " " + join(u) + " | " + join(s);
}

int main() {
  mfront::setVerboseMode(mfront::VERBOSE_QUIET);
  std::string line;
  while (std::getline(std::cin, line)) {
    std::string a;
    try {
      Tokens tk(line);
      const auto op = tk.str();
      if (op == "gauss") {
        a = op_gauss(tk);
      } else if (op == "sf") {
        a = op_sf(tk);
      } else if (op == "el") {
        a = op_el(tk);
      } else if (op == "rs") {
        a = op_rs(tk);
      } else if (op == "solve") {
        a = op_solve(tk);
      } else {
        a = "bad-op";
      }
    } catch (std::exception& e) {
      const std::string w = e.what();
      if (w == "bad-op" || w.rfind("sto", 0) == 0) {
        a = "bad-op";
      } else {
        std::string m = w;
        for (auto& c : m) {
          if (c == '\n') c = ' ';
        }
        a = "exc:" + m;
      }
    }
    std::cout << a << '\n' << std::flush;
  }
  return 0;
}
