/*
 * C53 — helpers of the harness: a linear elastic mock `mtest::Behaviour` for the
 * AXISYMMETRICALGENERALISEDPLANESTRAIN hypothesis (strain order of PipeTest: rr, zz, tt) and a
 * `mtest::PipeTest` subclass giving access to the protected behaviour pointer, so that the *real*
 * PipeTest / Pipe*Element code compiled from the tree runs in-process without a generated library.
 *
 * The mock stands for the constitutive law only (s = D.e with a constant 3x3 matrix D given by the
 * request); everything anchored is the real code.
 */
#ifndef VERIF_C53_PIPE_HXX
#define VERIF_C53_PIPE_HXX

#include <memory>
#include <string>
#include <vector>

#include "C48/mock.hxx"
#include "C48/mockbehaviour.hxx"
#include "MTest/PipeMesh.hxx"
#include "MTest/PipeTest.hxx"
#include "MTest/PipeLinearElement.hxx"
#include "MTest/PipeQuadraticElement.hxx"
#include "MTest/PipeCubicElement.hxx"

namespace verif53 {

  using mtest::real;
  using verif48::hex;
  using verif48::Tokens;

  //! linear law s = D.e (rows/columns: rr, zz, tt), small strain, generalised plane strain
  struct Elastic : verif48::MockBehaviour {
    Hypothesis getHypothesis() const override {
      return ModellingHypothesis::AXISYMMETRICALGENERALISEDPLANESTRAIN;
    }
    BehaviourType getBehaviourType() const override {
      return tfel::material::MechanicalBehaviourBase::STANDARDSTRAINBASEDBEHAVIOUR;
    }
    Kinematic getBehaviourKinematic() const override {
      return tfel::material::MechanicalBehaviourBase::SMALLSTRAINKINEMATIC;
    }
    //! set by `make`: the real behaviours store `shared_from_this()` in the states they allocate
    std::weak_ptr<const mtest::Behaviour> self;
    void allocateCurrentState(mtest::CurrentState& s) const override {
      verif48::MockBehaviour::allocateCurrentState(s);
      s.behaviour = self.lock();
    }
    //! `s1[i] = D(i,0)*e1[0] + D(i,1)*e1[1] + D(i,2)*e1[2]` (this operation order is the one of the model)
    std::pair<bool, real> integrate(mtest::CurrentState& s,
                                    mtest::BehaviourWorkSpace& wk,
                                    const real,
                                    const mtest::StiffnessMatrixType) const override {
      for (unsigned short i = 0; i != 3; ++i) {
        s.s1[i] = D[i * 3] * s.e1[0] + D[i * 3 + 1] * s.e1[1] + D[i * 3 + 2] * s.e1[2];
        for (unsigned short j = 0; j != 3; ++j) {
          wk.k(i, j) = D[i * 3 + j];
        }
      }
      return {true, 1};
    }
    static std::shared_ptr<Elastic> make(const std::vector<real>& d) {
      auto b = std::make_shared<Elastic>();
      b->ndv = 3;
      b->D = d;
      b->self = b;
      return b;
    }
  };

  //! isotropic stiffness in the (rr, zz, tt) ordering
  inline std::vector<real> isotropic(const real E, const real nu) {
    const real lambda = E * nu / ((1 + nu) * (1 - 2 * nu));
    const real mu = E / (2 * (1 + nu));
    std::vector<real> D(9, lambda);
    D[0] += 2 * mu;
    D[4] += 2 * mu;
    D[8] += 2 * mu;
    return D;
  }

  struct TPipe : mtest::PipeTest {
    void install(const std::shared_ptr<mtest::Behaviour>& bp) {
      this->b = bp;
      this->hypothesis = tfel::material::ModellingHypothesis::AXISYMMETRICALGENERALISEDPLANESTRAIN;
      this->handleThermalExpansion = false;
    }
    mtest::SolverOptions& opts() { return this->options; }
  };

  inline mtest::PipeMesh::ElementType etype(const long order) {
    if (order == 1) return mtest::PipeMesh::LINEAR;
    if (order == 2) return mtest::PipeMesh::QUADRATIC;
    if (order == 3) return mtest::PipeMesh::CUBIC;
    throw std::runtime_error("bad-op");
  }

  inline mtest::PipeMesh mesh(const long order, const long ne, const real Ri, const real Re) {
    mtest::PipeMesh m;
    m.inner_radius = Ri;
    m.outer_radius = Re;
    m.number_of_elements = static_cast<int>(ne);
    m.etype = etype(order);
    return m;
  }

}  // namespace verif53

#endif
