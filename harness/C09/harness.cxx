// C09 correspondence harness: calls the real tfel::math::scalarNewtonRaphson in-process with a
// scripted / real user function and a logging stopping criterion.
// request : run <x0> <im> <xmin0> <xmax0> <ck> <cp> <fid> <ns> <f0> <d0> ...   (see Driver.lean)
// answer  : <converged 0|1> <x> <i> n <ncalls> <arg_0> ... c <ncrit> <fv> <dx>
//           fv, dx = arguments of the LAST criterion evaluation (0 bits when never evaluated);
//           followed by " | " and harness-side facts used by the property predicate:
//           ctrue=<result of last criterion call> cx=<x of last criterion call> ci=<i of it>
//           fv <f value answered at call 0> <at call 1> ...
#include <cmath>
#include <cstdint>
#include <cstdio>
#include <cstring>
#include <iostream>
#include <limits>
#include <sstream>
#include <string>
#include <tuple>
#include <vector>
#include "TFEL/Config/TFELConfig.hxx"
#include "TFEL/Math/ScalarNewtonRaphson.hxx"

static double from_bits(const std::string& s) {
  if (s.size() != 16) throw std::runtime_error("bad number");
  const std::uint64_t u = std::stoull(s, nullptr, 16);
  double d;
  std::memcpy(&d, &u, sizeof d);
  return d;
}
static std::string bits(const double d) {
  std::uint64_t u;
  std::memcpy(&u, &d, sizeof d);
  char b[32];
  std::snprintf(b, sizeof b, "%016llx", static_cast<unsigned long long>(u));
  return b;
}

static std::tuple<double, double> fn(const int id, const double x) {
  constexpr auto qnan = std::numeric_limits<double>::quiet_NaN();
  constexpr auto pinf = std::numeric_limits<double>::infinity();
  switch (id) {
    case 1: return {x * x - 13.0, 2.0 * x};
    case 2: return {x * x * x - 2.0 * x - 5.0, 3.0 * x * x - 2.0};
    case 3: return {1.0 / x - 2.0, -1.0 / (x * x)};
    case 4: return {x * x, 2.0 * x};
    case 5: return {(x - 1.0) * (x - 1.0) * (x - 1.0), 3.0 * (x - 1.0) * (x - 1.0)};
    case 6: return {1.0, 0.0};
    case 7: return {x / (1.0 + x * x), (1.0 - x * x) / ((1.0 + x * x) * (1.0 + x * x))};
    case 8: return {x - 2.0 / x, 1.0 + 2.0 / (x * x)};
    case 9: if (x < 0.0) return {qnan, qnan}; return {x * x - 2.0, 2.0 * x};
    case 10: if (3.0 < x) return {pinf, 1.0}; return {x - 2.0, 1.0};
    case 11: return {x * x * x, 3.0 * x * x};
    case 12: if (x < 1.0) return {-1.0, 0.0}; return {1.0, 0.0};
    default: return {qnan, qnan};
  }
}

int main() {
  std::string line;
  while (std::getline(std::cin, line)) {
    std::istringstream is(line);
    std::string cmd, sx0, smin, smax, scp;
    int im, ck, fid, ns;
    try {
      if (!(is >> cmd >> sx0 >> im >> smin >> smax >> ck >> scp >> fid >> ns) || (cmd != "run" && cmd != "run4") ||
          ns < 0 || ck < 0 || fid < 0) {
        std::cout << "bad-op\n";
        continue;
      }
      std::vector<std::tuple<double, double>> script;
      bool ok = true;
      for (int k = 0; k != ns; ++k) {
        std::string a, b;
        if (!(is >> a >> b)) {
          ok = false;
          break;
        }
        script.emplace_back(from_bits(a), from_bits(b));
      }
      std::string extra;
      if (!ok || (is >> extra)) {
        std::cout << "bad-op\n";
        continue;
      }
      const double cp = from_bits(scp);
      std::vector<double> args;
      std::vector<double> fvals;
      auto f = [&](const double x) {
        const auto k = args.size();
        args.push_back(x);
        const auto r = (k < script.size()) ? script[k] : fn(fid, x);
        fvals.push_back(std::get<0>(r));
        return r;
      };
      std::size_t ncrit = 0;
      double lfv = 0, ldx = 0, lx = 0;
      int li = -1;
      bool lres = false;
      auto c = [&](const double fv, const double dx, const double x, const int i) {
        ++ncrit;
        lfv = fv;
        ldx = dx;
        lx = x;
        li = i;
        bool r;
        switch (ck) {
          case 0: r = (fv < 0.0 ? -fv : fv) < cp; break;
          case 1: r = (dx < 0.0 ? -dx : dx) < cp; break;
          case 2: r = true; break;
          case 3: r = false; break;
          default: r = static_cast<double>(i) >= cp; break;
        }
        lres = r;
        return r;
      };
      auto p = tfel::math::ScalarNewtonRaphsonParameters<double, int>{};
      p.x0 = from_bits(sx0);
      p.im = im;
      p.xmin0 = from_bits(smin);
      p.xmax0 = from_bits(smax);
      // `run4`: the overload taking the initial guess and the iteration budget (no bracket: the bounds of the
      // request are NaN, the default of ScalarNewtonRaphsonParameters)
      const auto r = (cmd == "run4") ? tfel::math::scalarNewtonRaphson(f, c, p.x0, p.im)
                                     : tfel::math::scalarNewtonRaphson(f, c, p);
      std::cout << (std::get<0>(r) ? 1 : 0) << " " << bits(std::get<1>(r)) << " " << std::get<2>(r)
                << " n " << args.size();
      for (const auto a : args) std::cout << " " << bits(a);
      std::cout << " c " << ncrit << " " << bits(lfv) << " " << bits(ldx) << " | ctrue=" << (lres ? 1 : 0)
                << " cx=" << bits(lx) << " ci=" << li << " fv";
      for (const auto v : fvals) std::cout << " " << bits(v);
      std::cout << "\n";
    } catch (...) {
      std::cout << "bad-op\n";
    }
  }
  return 0;
}
