// T1 tracer for C21: isotropic moduli conversions, Lame coefficients, isotropic and
// orthotropic stiffness tensors for every modelling hypothesis / alteration / axes convention.
//
// Every "out" tensor handed to the traced code is pre-filled with fresh input symbols
// (`g`, "garbage"): a component which the code forgets to assign shows up as a garbage
// symbol in the generated definitions and breaks the theorems.
#include "tracehelp.hxx"
#include <utility>
#include "TFEL/Math/stensor.hxx"
#include "TFEL/Math/st2tost2.hxx"
#include "TFEL/Material/ModellingHypothesis.hxx"
#include "TFEL/Config/TFELTypes.hxx"

// Lame.hxx declares, in every ComputeElasticStiffnessBase<N,T>, one overload for quantities
// (tfel::config::Types<N,T,true>) and one for plain scalars (Types<N,T,false>). The generic
// Types<N,T,*> cannot be instantiated for a non-arithmetic scalar (qt<Unit,T> requires
// std::is_arithmetic_v<T>), so the alias table is specialised here for T = verif::Sym:
// pure type aliases, no arithmetic. The quantity overloads get distinct dummy types and are
// never called; the plain overloads (the code that is traced) see st2tost2<N,Sym> and Sym.
namespace verif {
  template <unsigned short N>
  struct UnusedQuantityStiffnessTensor {};
  struct UnusedQuantityStress {};
}  // namespace verif
namespace tfel::config {
  template <unsigned short N>
  struct Types<N, verif::Sym, false> : ScalarTypes<verif::Sym, false> {
    using Stensor = tfel::math::stensor<N, verif::Sym>;
    using StressStensor = tfel::math::stensor<N, verif::Sym>;
    using StrainStensor = tfel::math::stensor<N, verif::Sym>;
    using Stensor4 = tfel::math::st2tost2<N, verif::Sym>;
    using StiffnessTensor = tfel::math::st2tost2<N, verif::Sym>;
  };
  template <unsigned short N>
  struct Types<N, verif::Sym, true> {
    using StiffnessTensor = verif::UnusedQuantityStiffnessTensor<N>;
    using stress = verif::UnusedQuantityStress;
  };
}  // namespace tfel::config

#include "TFEL/Material/Lame.hxx"
#include "TFEL/Material/IsotropicModuli.hxx"
#include "TFEL/Material/StiffnessTensor.hxx"
#include "TFEL/Material/OrthotropicAxesConvention.hxx"

using namespace tfel::math;
using namespace tfel::material;
using verif::Sym;
using verif::Unit;
using MH = ModellingHypothesis;
using STAC = StiffnessTensorAlterationCharacteristic;
using OAC = OrthotropicAxesConvention;

template <unsigned short N>
constexpr int ssize() {
  return StensorDimeToSize<N>::value;
}

//! pre-fill a fourth order tensor with the garbage input symbol `g`
template <unsigned short N>
void garbage(st2tost2<N, Sym>& C) {
  const Sym g = verif::scalar_input("g", 7.5);
  for (auto& v : C) v = g;
}
template <unsigned short N>
void out4(const st2tost2<N, Sym>& C) {
  verif::outputs2("r", C, ssize<N>(), ssize<N>());
}

static const char* hname(const MH::Hypothesis h) {
  switch (h) {
    case MH::AXISYMMETRICALGENERALISEDPLANESTRAIN: return "AGPE";
    case MH::AXISYMMETRICALGENERALISEDPLANESTRESS: return "AGPS";
    case MH::AXISYMMETRICAL: return "AXIS";
    case MH::PLANESTRESS: return "PSTRESS";
    case MH::PLANESTRAIN: return "PSTRAIN";
    case MH::GENERALISEDPLANESTRAIN: return "GPSTRAIN";
    case MH::TRIDIMENSIONAL: return "TRIDIM";
    default: return "UNDEF";
  }
}
static const char* sname(const STAC s) {
  return s == STAC::ALTERED ? "ALT" : "UNALT";
}

struct OrthoInputs {
  Sym E1, E2, E3, n12, n23, n13, G12, G23, G13;
  OrthoInputs()
      : E1(verif::scalar_input("E1", 150.)),
        E2(verif::scalar_input("E2", 120.)),
        E3(verif::scalar_input("E3", 90.)),
        n12(verif::scalar_input("nu12", 0.31)),
        n23(verif::scalar_input("nu23", 0.27)),
        n13(verif::scalar_input("nu13", 0.23)),
        G12(verif::scalar_input("G12", 41.)),
        G23(verif::scalar_input("G23", 37.)),
        G13(verif::scalar_input("G13", 33.)) {}
};

// is ComputeOrthotropicStiffnessTensor<H,smt,c> a complete type (i.e. is the convention supported)?
template <MH::Hypothesis H, STAC smt, OAC c>
concept OrthoSupported = requires {
  sizeof(tfel::material::internals::ComputeOrthotropicStiffnessTensor<H, smt, c>);
};

template <MH::Hypothesis H, STAC smt, OAC c>
void trace_ortho_conv(const char* cname) {
  constexpr auto N = ModellingHypothesisToSpaceDimension<H>::value;
  const std::string id = std::string(hname(H)) + "_" + sname(smt);
  if constexpr (OrthoSupported<H, smt, c>) {
    Unit u("ortho_" + id + "_" + cname);
    OrthoInputs p;
    st2tost2<N, Sym> C;
    garbage(C);
    computeOrthotropicStiffnessTensor<H, smt, c>(C, p.E1, p.E2, p.E3, p.n12, p.n23,
                                                p.n13, p.G12, p.G23, p.G13);
    out4(C);
  } else {
    std::cout << "unsupported ortho_" << id << "_" << cname << "\n";
  }
}

template <MH::Hypothesis H, STAC smt>
void trace_hyp_smt() {
  constexpr auto N = ModellingHypothesisToSpaceDimension<H>::value;
  const std::string id = std::string(hname(H)) + "_" + sname(smt);
  {
    Unit u("iso_" + id);
    const Sym E = verif::scalar_input("E", 200.);
    const Sym nu = verif::scalar_input("nu", 0.3);
    st2tost2<N, Sym> C;
    garbage(C);
    computeIsotropicStiffnessTensor<H, smt>(C, E, nu);
    out4(C);
  }
  {
    Unit u("ortho_" + id);
    OrthoInputs p;
    st2tost2<N, Sym> C;
    garbage(C);
    computeOrthotropicStiffnessTensor<H, smt>(C, p.E1, p.E2, p.E3, p.n12, p.n23,
                                             p.n13, p.G12, p.G23, p.G13);
    out4(C);
  }
  trace_ortho_conv<H, smt, OAC::DEFAULT>("DEFAULT");
  trace_ortho_conv<H, smt, OAC::PIPE>("PIPE");
  trace_ortho_conv<H, smt, OAC::PLATE>("PLATE");
}

template <MH::Hypothesis H>
void trace_hyp() {
  constexpr auto N = ModellingHypothesisToSpaceDimension<H>::value;
  trace_hyp_smt<H, STAC::UNALTERED>();
  trace_hyp_smt<H, STAC::ALTERED>();
  {
    // Lame.hxx: stiffness from Lame coefficients, altered by the hypothesis
    Unit u(std::string("lame_altered_") + hname(H));
    const Sym l = verif::scalar_input("lambda", 115.);
    const Sym m = verif::scalar_input("mu", 77.);
    st2tost2<N, Sym> C;
    garbage(C);
    computeAlteredElasticStiffness<H, Sym>::exe(C, l, m);
    out4(C);
  }
  {
    // StiffnessTensor.ixx: altered tensor from an arbitrary unaltered one
    Unit u(std::string("alter_") + hname(H));
    st2tost2<N, Sym> D;
    verif::fill_inputs2(D, "d", ssize<N>(), ssize<N>());
    st2tost2<N, Sym> C;
    garbage(C);
    ComputeAlteredStiffnessTensor<H>::exe(C, D);
    out4(C);
  }
  {
    Unit u(std::string("convert_DEFAULT_") + hname(H));
    stensor<N, Sym> s;
    verif::fill_inputs(s, "s", ssize<N>());
    convertStressFreeExpansionStrain<H, OAC::DEFAULT>(s);
    verif::outputs("r", s, ssize<N>());
  }
  {
    Unit u(std::string("convert_PIPE_") + hname(H));
    stensor<N, Sym> s;
    verif::fill_inputs(s, "s", ssize<N>());
    convertStressFreeExpansionStrain<H, OAC::PIPE>(s);
    verif::outputs("r", s, ssize<N>());
  }
  {
    Unit u(std::string("convert_PLATE_") + hname(H));
    stensor<N, Sym> s;
    verif::fill_inputs(s, "s", ssize<N>());
    convertStressFreeExpansionStrain<H, OAC::PLATE>(s);
    verif::outputs("r", s, ssize<N>());
  }
}

template <unsigned short N, STAC smt>
void trace_II() {
  const std::string id = "N" + std::to_string(N) + "_" + sname(smt);
  {
    Unit u("isoII_" + id);
    const Sym E = verif::scalar_input("E", 200.);
    const Sym nu = verif::scalar_input("nu", 0.3);
    st2tost2<N, Sym> C;
    garbage(C);
    computeIsotropicStiffnessTensorII<N, smt>(C, E, nu);
    out4(C);
  }
  {
    Unit u("orthoII_" + id);
    OrthoInputs p;
    st2tost2<N, Sym> C;
    garbage(C);
    computeOrthotropicStiffnessTensorII<N, smt>(C, p.E1, p.E2, p.E3, p.n12, p.n23,
                                               p.n13, p.G12, p.G23, p.G13);
    out4(C);
  }
}

template <unsigned short N>
void trace_lame_dim() {
  Unit u("lame_N" + std::to_string(N));
  const Sym l = verif::scalar_input("lambda", 115.);
  const Sym m = verif::scalar_input("mu", 77.);
  st2tost2<N, Sym> C;
  garbage(C);
  computeElasticStiffness<N, Sym>::exe(C, l, m);
  out4(C);
}

void trace_moduli() {
  {
    Unit u("YN_ToKG");
    const Sym E = verif::scalar_input("E", 200.);
    const Sym nu = verif::scalar_input("nu", 0.3);
    const YoungNuModuli<Sym> m(E, nu);
    const auto r = m.ToKG();
    verif::output("kappa", r.kappa);
    verif::output("mu", r.mu);
  }
  {
    Unit u("YN_ToLambdaMu");
    const Sym E = verif::scalar_input("E", 200.);
    const Sym nu = verif::scalar_input("nu", 0.3);
    const YoungNuModuli<Sym> m(E, nu);
    const auto r = m.ToLambdaMu();
    verif::output("lambda", r.lambda);
    verif::output("mu", r.mu);
  }
  {
    Unit u("YN_ToYoungNu");
    const Sym E = verif::scalar_input("E", 200.);
    const Sym nu = verif::scalar_input("nu", 0.3);
    const YoungNuModuli<Sym> m(E, nu);
    const auto r = m.ToYoungNu();
    verif::output("young", r.young);
    verif::output("nu", r.nu);
  }
  {
    Unit u("KG_ToYoungNu");
    const Sym kap = verif::scalar_input("kap", 170.);
    const Sym mu = verif::scalar_input("mu", 77.);
    const KGModuli<Sym> m(kap, mu);
    const auto r = m.ToYoungNu();
    verif::output("young", r.young);
    verif::output("nu", r.nu);
  }
  {
    Unit u("KG_ToLambdaMu");
    const Sym kap = verif::scalar_input("kap", 170.);
    const Sym mu = verif::scalar_input("mu", 77.);
    const KGModuli<Sym> m(kap, mu);
    const auto r = m.ToLambdaMu();
    verif::output("lambda", r.lambda);
    verif::output("mu", r.mu);
  }
  {
    Unit u("KG_ToKG");
    const Sym kap = verif::scalar_input("kap", 170.);
    const Sym mu = verif::scalar_input("mu", 77.);
    const KGModuli<Sym> m(kap, mu);
    const auto r = m.ToKG();
    verif::output("kappa", r.kappa);
    verif::output("mu", r.mu);
  }
  {
    Unit u("LM_ToYoungNu");
    const Sym lambda = verif::scalar_input("lambda", 115.);
    const Sym mu = verif::scalar_input("mu", 77.);
    const LambdaMuModuli<Sym> m(lambda, mu);
    const auto r = m.ToYoungNu();
    verif::output("young", r.young);
    verif::output("nu", r.nu);
  }
  {
    Unit u("LM_ToKG");
    const Sym lambda = verif::scalar_input("lambda", 115.);
    const Sym mu = verif::scalar_input("mu", 77.);
    const LambdaMuModuli<Sym> m(lambda, mu);
    const auto r = m.ToKG();
    verif::output("kappa", r.kappa);
    verif::output("mu", r.mu);
  }
  {
    Unit u("LM_ToLambdaMu");
    const Sym lambda = verif::scalar_input("lambda", 115.);
    const Sym mu = verif::scalar_input("mu", 77.);
    const LambdaMuModuli<Sym> m(lambda, mu);
    const auto r = m.ToLambdaMu();
    verif::output("lambda", r.lambda);
    verif::output("mu", r.mu);
  }
  {
    Unit u("computeLambda");
    const Sym E = verif::scalar_input("E", 200.);
    const Sym nu = verif::scalar_input("nu", 0.3);
    verif::output("r", computeLambda<Sym>(E, nu));
  }
  {
    Unit u("computeMu");
    const Sym E = verif::scalar_input("E", 200.);
    const Sym nu = verif::scalar_input("nu", 0.3);
    verif::output("r", computeMu<Sym>(E, nu));
  }
  // stiffness tensor from each moduli class (through the virtual ToKG)
  {
    Unit u("stiffness_KG");
    const Sym kap = verif::scalar_input("kap", 170.);
    const Sym mu = verif::scalar_input("mu", 77.);
    const KGModuli<Sym> m(kap, mu);
    const st2tost2<3u, Sym> C = computeIsotropicStiffnessTensor<Sym>(m);
    out4(C);
  }
  {
    Unit u("stiffness_YN");
    const Sym E = verif::scalar_input("E", 200.);
    const Sym nu = verif::scalar_input("nu", 0.3);
    const YoungNuModuli<Sym> m(E, nu);
    const st2tost2<3u, Sym> C = computeIsotropicStiffnessTensor<Sym>(m);
    out4(C);
  }
  {
    Unit u("stiffness_LM");
    const Sym lambda = verif::scalar_input("lambda", 115.);
    const Sym mu = verif::scalar_input("mu", 77.);
    const LambdaMuModuli<Sym> m(lambda, mu);
    const st2tost2<3u, Sym> C = computeIsotropicStiffnessTensor<Sym>(m);
    out4(C);
  }
  {
    // the projectors used by the code
    Unit u("J");
    const st2tost2<3u, Sym> C = st2tost2<3u, Sym>::J();
    out4(C);
  }
  {
    Unit u("Kdev");
    const st2tost2<3u, Sym> C = st2tost2<3u, Sym>::K();
    out4(C);
  }
  {
    Unit u("computeKappaMu");
    st2tost2<3u, Sym> A;
    verif::fill_inputs2(A, "a", 6, 6);
    const auto p = computeKappaMu<Sym>(A);
    verif::output("kappa", std::get<0>(p));
    verif::output("mu", std::get<1>(p));
  }
  {
    Unit u("computeKGModuli");
    st2tost2<3u, Sym> A;
    verif::fill_inputs2(A, "a", 6, 6);
    const auto p = computeKGModuli<Sym>(A);
    verif::output("kappa", p.kappa);
    verif::output("mu", p.mu);
  }
  {
    // round trip on the real code: moduli -> tensor -> moduli
    Unit u("roundtrip_KG");
    const Sym kap = verif::scalar_input("kap", 170.);
    const Sym mu = verif::scalar_input("mu", 77.);
    const KGModuli<Sym> m(kap, mu);
    const st2tost2<3u, Sym> C = computeIsotropicStiffnessTensor<Sym>(m);
    const auto p = computeKGModuli<Sym>(C);
    verif::output("kappa", p.kappa);
    verif::output("mu", p.mu);
  }
  {
    // isIsotropic on the tensor computed from (K,G)
    Unit u("isIsotropic_KG");
    const Sym kap = verif::scalar_input("kap", 170.);
    const Sym mu = verif::scalar_input("mu", 77.);
    const KGModuli<Sym> m(kap, mu);
    const Sym eps = verif::scalar_input("eps", 1e-12);
    const st2tost2<3u, Sym> C = computeIsotropicStiffnessTensor<Sym>(m);
    verif::ctx().concolic = true;
    const bool b = isIsotropic<Sym>(C, eps);
    verif::ctx().concolic = false;
    verif::output("accepted", Sym(b ? 1 : 0));
  }
}

int main() {
  trace_moduli();
  trace_lame_dim<1u>();
  trace_lame_dim<2u>();
  trace_lame_dim<3u>();
  trace_II<1u, STAC::UNALTERED>();
  trace_II<1u, STAC::ALTERED>();
  trace_II<2u, STAC::UNALTERED>();
  trace_II<2u, STAC::ALTERED>();
  trace_II<3u, STAC::UNALTERED>();
  trace_II<3u, STAC::ALTERED>();
  trace_hyp<MH::AXISYMMETRICALGENERALISEDPLANESTRAIN>();
  trace_hyp<MH::AXISYMMETRICALGENERALISEDPLANESTRESS>();
  trace_hyp<MH::AXISYMMETRICAL>();
  trace_hyp<MH::PLANESTRESS>();
  trace_hyp<MH::PLANESTRAIN>();
  trace_hyp<MH::GENERALISEDPLANESTRAIN>();
  trace_hyp<MH::TRIDIMENSIONAL>();
  return 0;
}
