// C21 — the quantity overloads of Lame.hxx.
// Every ComputeElasticStiffnessBase<N,T> / ComputeAlteredElasticStiffnessBase<H,T> has two overloads of exe: one on
// tfel::config::Types<N,T,false> (plain scalars — the one instantiated with the recording scalar by trace.cxx and
// the object of the Lean theorems) and one on Types<N,T,true> (quantities, what a behaviour compiled with
// @UseQt true calls), which cannot be instantiated with a non-arithmetic scalar. Here both are run in double
// precision on the same Lame coefficients, on tensors pre-filled with a sentinel, and every component is printed
// exactly (%a): the check requires them to be identical (same expression, same operation order).
//   in : <lambda> <mu>            (hexadecimal or decimal floating-point)
//   out: one line per unit: "<unit> q=<v,...> p=<v,...>", then "end"
#include <cstdio>
#include <cstdlib>
#include <iostream>
#include <sstream>
#include <string>
#include "TFEL/Math/qt.hxx"
#include "TFEL/Math/st2tost2.hxx"
#include "TFEL/Config/TFELTypes.hxx"
#include "TFEL/Material/ModellingHypothesis.hxx"
#include "TFEL/Material/Lame.hxx"

using namespace tfel::material;
using MH = ModellingHypothesis;
static constexpr double sentinel = -12345.678;

static std::string hex(const double x) {
  char b[64];
  std::snprintf(b, sizeof(b), "%a", x);
  return b;
}

template <unsigned short N, typename Call>
static void unit(const std::string& name, const double l, const double m, Call&& call) {
  using QT = tfel::config::Types<N, double, true>;
  using PT = tfel::config::Types<N, double, false>;
  typename QT::StiffnessTensor Dq;
  typename PT::StiffnessTensor Dp;
  for (auto& v : Dq) v = typename QT::stress(sentinel);
  for (auto& v : Dp) v = sentinel;
  call(Dq, typename QT::stress(l), typename QT::stress(m));
  call(Dp, l, m);
  std::string q, p;
  constexpr unsigned short s = tfel::math::StensorDimeToSize<N>::value;
  for (unsigned short i = 0; i != s; ++i) {
    for (unsigned short j = 0; j != s; ++j) {
      q += ((i || j) ? "," : "") + hex(tfel::math::base_type_cast(Dq(i, j)));
      p += ((i || j) ? "," : "") + hex(Dp(i, j));
    }
  }
  std::cout << name << " q=" << q << " p=" << p << "\n";
}

template <unsigned short N>
static void elastic(const double l, const double m) {
  unit<N>("computeElasticStiffness<" + std::to_string(N) + ">", l, m,
          [](auto& D, const auto& a, const auto& b) { computeElasticStiffness<N, double>::exe(D, a, b); });
  unit<N>("computeUnalteredElasticStiffness<" + std::to_string(N) + ">", l, m,
          [](auto& D, const auto& a, const auto& b) { computeUnalteredElasticStiffness<N, double>::exe(D, a, b); });
}

template <MH::Hypothesis H>
static void altered(const double l, const double m) {
  constexpr auto N = ModellingHypothesisToSpaceDimension<H>::value;
  unit<N>("computeAlteredElasticStiffness<" + MH::toString(H) + ">", l, m,
          [](auto& D, const auto& a, const auto& b) { computeAlteredElasticStiffness<H, double>::exe(D, a, b); });
}

int main() {
  std::string line;
  while (std::getline(std::cin, line)) {
    std::istringstream is(line);
    std::string sl, sm;
    if (!(is >> sl >> sm)) {
      std::cout << "bad-op\nend\n";
      continue;
    }
    const double l = std::strtod(sl.c_str(), nullptr), m = std::strtod(sm.c_str(), nullptr);
    elastic<1u>(l, m);
    elastic<2u>(l, m);
    elastic<3u>(l, m);
    altered<MH::AXISYMMETRICALGENERALISEDPLANESTRAIN>(l, m);
    altered<MH::AXISYMMETRICALGENERALISEDPLANESTRESS>(l, m);
    altered<MH::AXISYMMETRICAL>(l, m);
    altered<MH::PLANESTRESS>(l, m);
    altered<MH::PLANESTRAIN>(l, m);
    altered<MH::GENERALISEDPLANESTRAIN>(l, m);
    altered<MH::TRIDIMENSIONAL>(l, m);
    std::cout << "end\n";
  }
  return 0;
}
