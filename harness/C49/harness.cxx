/*
 * C49 — differential harness for the acceleration algorithms of MTest (real classes from the tree,
 * obtained through the real AccelerationAlgorithmFactory), one request per line, numbers as IEEE-754
 * bit patterns:
 *
 *   acc <name> <psz> <trigger> <period> <eeps> <seps> <nseg> (<n> (u1*psz du*psz r*psz)*n)*nseg
 *        initialize(psz); for each segment (= one attempt of the solver): preExecuteTasks();
 *        execute(u1, du, r, eeps, seps, iter) for iter = 1..n; postExecuteTasks().
 *        Prints the accelerated u1 after each call.  trigger / period = -1: defaults.
 *   fp <name> <psz> <eeps> <seps> <n> (u1*psz du*psz r*psz)*n <ustar*psz> <m>
 *        fixed-point preservation on the implementation: after n arbitrary calls, m calls at a fixed
 *        point (u1 = ustar, du = 0, r = 0): prints for each whether u1 is still ustar bit for bit
 *   mt ...   a complete run of the real MTest on the mock behaviour under given solver options
 *        (harness/C48/mtrun.hxx)
 */
#include <iostream>

#include "TFEL/Raise.hxx"
#include "MFront/MFrontLogStream.hxx"
#include "MTest/AccelerationAlgorithm.hxx"
#include "MTest/AccelerationAlgorithmFactory.hxx"
#include "C48/mock.hxx"
#include "C48/mtrun.hxx"

using namespace verif48;
using Vector = tfel::math::vector<real>;

static std::shared_ptr<mtest::AccelerationAlgorithm> make(const std::string& n,
                                                          const unsigned short psz,
                                                          const long trigger,
                                                          const long period) {
  auto& f = mtest::AccelerationAlgorithmFactory::getAccelerationAlgorithmFactory();
  auto a = f.getAlgorithm(n);
  if (trigger >= 0) a->setParameter("AccelerationTrigger", std::to_string(trigger));
  if (period >= 0) a->setParameter("AccelerationPeriod", std::to_string(period));
  a->initialize(psz);
  return a;
}

static Vector read_vec(Tokens& tk, const std::size_t n) {
  Vector v(n);
  for (std::size_t i = 0; i != n; ++i) v[i] = tk.dbl();
  return v;
}

static std::string op_acc(Tokens& tk) {
  const auto name = tk.str();
  const auto psz = static_cast<unsigned short>(tk.integer());
  const auto trigger = tk.integer();
  const auto period = tk.integer();
  const auto eeps = tk.dbl();
  const auto seps = tk.dbl();
  const auto nseg = static_cast<std::size_t>(tk.integer());
  auto a = make(name, psz, trigger, period);
  std::string out = "v";
  for (std::size_t s = 0; s != nseg; ++s) {
    const auto n = static_cast<std::size_t>(tk.integer());
    a->preExecuteTasks();
    for (std::size_t k = 0; k != n; ++k) {
      auto u1 = read_vec(tk, psz);
      const auto du = read_vec(tk, psz);
      const auto r = read_vec(tk, psz);
      a->execute(u1, du, r, eeps, seps, static_cast<unsigned short>(k + 1));
      for (const auto x : u1) out += " " + hex(x);
    }
    a->postExecuteTasks();
  }
  return out;
}

static std::string op_fp(Tokens& tk) {
  const auto name = tk.str();
  const auto psz = static_cast<unsigned short>(tk.integer());
  const auto eeps = tk.dbl();
  const auto seps = tk.dbl();
  const auto n = static_cast<std::size_t>(tk.integer());
  auto a = make(name, psz, -1, -1);
  a->preExecuteTasks();
  std::size_t iter = 0;
  for (std::size_t k = 0; k != n; ++k) {
    auto u1 = read_vec(tk, psz);
    const auto du = read_vec(tk, psz);
    const auto r = read_vec(tk, psz);
    a->execute(u1, du, r, eeps, seps, static_cast<unsigned short>(++iter));
  }
  const auto ustar = read_vec(tk, psz);
  const auto m = static_cast<std::size_t>(tk.integer());
  const Vector zero(psz, real(0));
  std::string out = "v";
  for (std::size_t k = 0; k != m; ++k) {
    auto u1 = ustar;
    a->execute(u1, zero, zero, eeps, seps, static_cast<unsigned short>(++iter));
    bool same = true;
    for (std::size_t i = 0; i != psz; ++i) same = same && (hex(u1[i]) == hex(ustar[i]));
    out += same ? " 1" : " 0";
  }
  return out;
}

int main() {
  mfront::getVerboseMode() = mfront::VERBOSE_QUIET;
  std::string line;
  while (std::getline(std::cin, line)) {
    std::string ans;
    try {
      Tokens tk(line);
      const auto op = tk.str();
      if (op == "acc") {
        ans = op_acc(tk);
      } else if (op == "fp") {
        ans = op_fp(tk);
      } else if (op == "mt") {
        ans = op_mt(tk);
      } else {
        ans = "bad-op";
      }
    } catch (std::exception& e) {
      const std::string m = e.what();
      ans = (m == "bad-op") ? "bad-op" : ("err " + m.substr(0, 80));
      for (auto& c : ans) {
        if (c == '\n') c = ' ';
      }
    }
    std::cout << ans << '\n';
  }
  return 0;
}
