/*
 * C49 — differential harness for the acceleration algorithms of MTest (real classes from the tree,
 * obtained through the real AccelerationAlgorithmFactory), one request per line, numbers as IEEE-754
 * bit patterns:
 *
 *   acc <name> <psz> <trigger> <period> <eeps> <seps> <nseg> (<n> (u1*psz du*psz r*psz)*n)*nseg
 *        initialize(psz); for each segment (= one attempt of the solver): preExecuteTasks();
 *        execute(u1, du, r, eeps, seps, iter) for iter = 1..n; postExecuteTasks().
 *        Prints the accelerated u1 after each call.  trigger / period = -1: defaults.
 *   fp <name> <psz> <eeps> <seps> <n> (u1*psz du*psz r*psz)*n <ustar*psz> <m>
 *        fixed-point preservation on the implementation: after n arbitrary calls, m calls at a fixed
 *        point (u1 = ustar, du = 0, r = 0): prints for each whether u1 is still ustar bit for bit
 *   mt ...   a complete run of the real MTest on the mock behaviour under given solver options
 *        (harness/C48/mtrun.hxx)
 */
#include <iostream>

#include "TFEL/Raise.hxx"
#include "MFront/MFrontLogStream.hxx"
#include "MTest/AccelerationAlgorithm.hxx"
#include "MTest/AccelerationAlgorithmFactory.hxx"
#include "MTest/GenericSolver.hxx"
#include "C48/mock.hxx"
#include "C48/mtrun.hxx"

using namespace verif48;
using Vector = tfel::math::vector<real>;

static std::shared_ptr<mtest::AccelerationAlgorithm> make(const std::string& n,
                                                          const unsigned short psz,
                                                          const long trigger,
                                                          const long period) {
  auto& f = mtest::AccelerationAlgorithmFactory::getAccelerationAlgorithmFactory();
  auto a = f.getAlgorithm(n);
  if (trigger >= 0) a->setParameter("AccelerationTrigger", std::to_string(trigger));
  if (period >= 0) a->setParameter("AccelerationPeriod", std::to_string(period));
  a->initialize(psz);
  return a;
}

static Vector read_vec(Tokens& tk, const std::size_t n) {
  Vector v(n);
  for (std::size_t i = 0; i != n; ++i) v[i] = tk.dbl();
  return v;
}

static std::string op_acc(Tokens& tk) {
  const auto name = tk.str();
  const auto psz = static_cast<unsigned short>(tk.integer());
  const auto trigger = tk.integer();
  const auto period = tk.integer();
  const auto eeps = tk.dbl();
  const auto seps = tk.dbl();
  const auto nseg = static_cast<std::size_t>(tk.integer());
  auto a = make(name, psz, trigger, period);
  std::string out = "v";
  for (std::size_t s = 0; s != nseg; ++s) {
    const auto n = static_cast<std::size_t>(tk.integer());
    a->preExecuteTasks();
    for (std::size_t k = 0; k != n; ++k) {
      auto u1 = read_vec(tk, psz);
      const auto du = read_vec(tk, psz);
      const auto r = read_vec(tk, psz);
      a->execute(u1, du, r, eeps, seps, static_cast<unsigned short>(k + 1));
      for (const auto x : u1) out += " " + hex(x);
    }
    a->postExecuteTasks();
  }
  return out;
}

static std::string op_fp(Tokens& tk) {
  const auto name = tk.str();
  const auto psz = static_cast<unsigned short>(tk.integer());
  const auto eeps = tk.dbl();
  const auto seps = tk.dbl();
  const auto n = static_cast<std::size_t>(tk.integer());
  auto a = make(name, psz, -1, -1);
  a->preExecuteTasks();
  std::size_t iter = 0;
  for (std::size_t k = 0; k != n; ++k) {
    auto u1 = read_vec(tk, psz);
    const auto du = read_vec(tk, psz);
    const auto r = read_vec(tk, psz);
    a->execute(u1, du, r, eeps, seps, static_cast<unsigned short>(++iter));
  }
  const auto ustar = read_vec(tk, psz);
  const auto m = static_cast<std::size_t>(tk.integer());
  const Vector zero(psz, real(0));
  std::string out = "v";
  for (std::size_t k = 0; k != m; ++k) {
    auto u1 = ustar;
    a->execute(u1, zero, zero, eeps, seps, static_cast<unsigned short>(++iter));
    bool same = true;
    for (std::size_t i = 0; i != psz; ++i) same = same && (hex(u1[i]) == hex(ustar[i]));
    out += same ? " 1" : " 0";
  }
  return out;
}

/*
 * proto <dyn> <mSub> <iterMax> <ppolicy> <ti> <te> <na> (kind factor at)*na
 *   the calls GenericSolver::execute makes to the acceleration algorithm, attempt by attempt:
 *   a (attempt = prepare)  p (preExecuteTasks)  x<iter> (execute)  q (postExecuteTasks)
 */
struct SpyAlgorithm final : mtest::AccelerationAlgorithm {
  std::string* log;
  explicit SpyAlgorithm(std::string* l) : log(l) {}
  std::string getName() const override { return "spy"; }
  void initialize(const unsigned short) override {}
  void setParameter(const std::string&, const std::string&) override {}
  void preExecuteTasks() override { *log += " p"; }
  void execute(Vector&, const Vector&, const Vector&, const real, const real, const unsigned short iter) override {
    *log += " x" + std::to_string(iter);
  }
  void postExecuteTasks() override { *log += " q"; }
  ~SpyAlgorithm() override = default;
};

static std::string op_proto(Tokens& tk) {
  mtest::SolverOptions o;
  o.dynamic_time_step_scaling = tk.integer() != 0;
  o.mSubSteps = static_cast<int>(tk.integer());
  o.iterMax = static_cast<int>(tk.integer());
  const auto pp = tk.integer();
  o.ppolicy = (pp == 0) ? mtest::PredictionPolicy::NOPREDICTION
                        : ((pp == 1) ? mtest::PredictionPolicy::LINEARPREDICTION
                                     : mtest::PredictionPolicy::ELASTICPREDICTION);
  o.ktype = mtest::StiffnessMatrixType::CONSISTENTTANGENTOPERATOR;
  o.eeps = 1e-12;
  o.seps = 1e-3;
  const auto ti = tk.dbl();
  const auto te = tk.dbl();
  const auto na = static_cast<std::size_t>(tk.integer());
  MockStudy s;
  s.n = 2;
  s.late_convergence = true;
  for (std::size_t i = 0; i != na; ++i) {
    Attempt a;
    a.kind = static_cast<int>(tk.integer());
    a.factor = tk.dbl();
    a.at = static_cast<int>(tk.integer());
    s.script.push_back(a);
  }
  std::string log;
  s.on_attempt_start = [&log](mtest::StudyCurrentState&, real, real) { log += " a"; };
  o.aa = std::make_shared<SpyAlgorithm>(&log);
  mtest::StudyCurrentState scs;
  mtest::SolverWorkSpace wk;
  s.initializeCurrentState(scs);
  s.initializeWorkSpace(wk);
  std::string verdict;
  try {
    mtest::GenericSolver().execute(scs, wk, s, o, ti, te);
    verdict = "end";
  } catch (std::exception& e) {
    verdict = "exc:" + classify(e);
  }
  return verdict + log;
}

int main() {
  mfront::getVerboseMode() = mfront::VERBOSE_QUIET;
  std::string line;
  while (std::getline(std::cin, line)) {
    std::string ans;
    try {
      Tokens tk(line);
      const auto op = tk.str();
      if (op == "acc") {
        ans = op_acc(tk);
      } else if (op == "fp") {
        ans = op_fp(tk);
      } else if (op == "mt") {
        ans = op_mt(tk);
      } else if (op == "proto") {
        ans = op_proto(tk);
      } else {
        ans = "bad-op";
      }
    } catch (std::exception& e) {
      const std::string m = e.what();
      ans = (m == "bad-op") ? "bad-op" : ("err " + m.substr(0, 80));
      for (auto& c : ans) {
        if (c == '\n') c = ' ';
      }
    }
    std::cout << ans << '\n';
  }
  return 0;
}
