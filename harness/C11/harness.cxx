// C11 correspondence harness: calls the real interpolation routines in-process on `double`.
// stdin : one request per line, floating-point data as the 16 hex digits of the IEEE-754 bits.
// The harness is stateful: a `tab`/`tabd` line installs the current table, the following lines
// query it (same protocol and output format as lean/TfelVerif/C11/Driver.lean).
//   tab n x(n) y(n)        -> ok d(n) | fail:size | fail:unordered | fail:pivot
//   tabd n x(n) y(n) d(n)  -> ok
//   lin e a | lind e a | spl e a | spld e a | gv a | gv2 a | gv3 a | int a b | mean a b
#include <cmath>
#include <cstdint>
#include <cstring>
#include <iostream>
#include <sstream>
#include <string>
#include <vector>
#include "TFEL/Math/LinearInterpolation.hxx"
#include "TFEL/Math/CubicSpline.hxx"

using namespace tfel::math;

static bool parse_hex(const std::string& s, double& x) {
  if (s.size() != 16) return false;
  std::uint64_t v = 0;
  for (const char c : s) {
    v <<= 4;
    if (c >= '0' && c <= '9') {
      v |= static_cast<std::uint64_t>(c - '0');
    } else if (c >= 'a' && c <= 'f') {
      v |= static_cast<std::uint64_t>(c - 'a' + 10);
    } else {
      return false;
    }
  }
  std::memcpy(&x, &v, sizeof(double));
  return true;
}

static std::string show_hex(const double x) {
  if (std::isnan(x)) return "nan";
  std::uint64_t v;
  std::memcpy(&v, &x, sizeof(double));
  static const char* digits = "0123456789abcdef";
  std::string r(16, '0');
  for (int i = 0; i != 16; ++i) r[i] = digits[(v >> (4 * (15 - i))) & 15u];
  return r;
}

// access to the collocation points (to install arbitrary slopes)
struct Spline : public CubicSpline<double, double> {
  using Point = CubicSplineCollocationPoint<double, double>;
  void set(const std::vector<double>& x,
           const std::vector<double>& y,
           const std::vector<double>& d) {
    this->points.clear();
    for (std::size_t i = 0; i != x.size(); ++i) {
      Point p;
      p.x = x[i];
      p.y = y[i];
      p.d = d[i];
      this->points.push_back(p);
    }
  }
};

struct State {
  std::vector<double> x, y;
  Spline s;
  bool has_spline = false;
};

static bool read_flag(const std::string& t, bool& e) {
  if (t == "1") {
    e = true;
    return true;
  }
  if (t == "0") {
    e = false;
    return true;
  }
  return false;
}

static std::string answer(State& st, const std::string& line) {
  std::istringstream is(line);
  std::string op;
  if (!(is >> op)) return "bad-op";
  std::vector<std::string> tok;
  for (std::string t; is >> t;) tok.push_back(t);
  if (op == "tab" || op == "tabd") {
    if (tok.empty()) return "bad-op";
    std::size_t n = 0;
    try {
      n = std::stoul(tok[0]);
    } catch (...) {
      return "bad-op";
    }
    const std::size_t k = (op == "tab") ? 2 : 3;
    if (tok.size() != 1 + k * n) return "bad-op";
    std::vector<double> v(k * n);
    for (std::size_t i = 0; i != k * n; ++i)
      if (!parse_hex(tok[1 + i], v[i])) return "bad-op";
    if (op == "tabd" && n == 0) return "bad-op";
    st.x.assign(v.begin(), v.begin() + n);
    st.y.assign(v.begin() + n, v.begin() + 2 * n);
    st.has_spline = false;
    if (op == "tabd") {
      st.s.set(st.x, st.y, std::vector<double>(v.begin() + 2 * n, v.end()));
      st.has_spline = true;
      return "ok";
    }
    st.s = Spline();
    try {
      st.s.setCollocationPoints(st.x, st.y);
    } catch (CubicSplineInvalidAbscissaVectorSize&) {
      return "fail:size";
    } catch (CubicSplineUnorderedAbscissaVector&) {
      return "fail:unordered";
    } catch (CubicSplineNullPivot&) {
      return "fail:pivot";
    } catch (std::exception&) {
      return "fail:other";
    }
    st.has_spline = true;
    std::ostringstream os;
    os << "ok";
    for (const auto& p : st.s.getCollocationPoints()) os << " " << show_hex(p.d);
    return os.str();
  }
  const auto pair = [](const double a, const double b) {
    return show_hex(a) + " " + show_hex(b);
  };
  if (op == "int" || op == "mean") {
    double a, b;
    if (tok.size() != 2 || !parse_hex(tok[0], a) || !parse_hex(tok[1], b)) return "bad-op";
    if (!st.has_spline) return "nospline";
    if (op == "int") return show_hex(st.s.computeIntegral(a, b));
    return show_hex(st.s.computeMeanValue(a, b));
  }
  if (op == "lin" || op == "lind" || op == "spl" || op == "spld") {
    bool e;
    double a;
    if (tok.size() != 2 || !read_flag(tok[0], e) || !parse_hex(tok[1], a)) return "bad-op";
    if (st.x.empty()) return "bad-op";
    if (op == "lin") {
      return show_hex(e ? computeLinearInterpolation<true>(st.x, st.y, a)
                        : computeLinearInterpolation<false>(st.x, st.y, a));
    }
    if (op == "lind") {
      const auto r = e ? computeLinearInterpolationAndDerivative<true>(st.x, st.y, a)
                       : computeLinearInterpolationAndDerivative<false>(st.x, st.y, a);
      return pair(r.first, r.second);
    }
    if (!st.has_spline) return "nospline";
    const auto& pts = st.s.getCollocationPoints();
    if (op == "spl") {
      return show_hex(e ? computeCubicSplineInterpolation<true>(pts, a)
                        : computeCubicSplineInterpolation<false>(pts, a));
    }
    const auto r = e ? computeCubicSplineInterpolationAndDerivative<true>(pts, a)
                     : computeCubicSplineInterpolationAndDerivative<false>(pts, a);
    return pair(r.first, r.second);
  }
  if (op == "gv" || op == "gv2" || op == "gv3") {
    double a;
    if (tok.size() != 1 || !parse_hex(tok[0], a)) return "bad-op";
    if (!st.has_spline) return "nospline";
    if (op == "gv") return pair(st.s.getValue(a), st.s(a));
    double f, df, d2f;
    if (op == "gv2") {
      st.s.getValues(f, df, a);
      return pair(f, df);
    }
    st.s.getValues(f, df, d2f, a);
    return pair(f, df) + " " + show_hex(d2f);
  }
  return "bad-op";
}

int main() {
  State st;
  std::string line;
  while (std::getline(std::cin, line)) {
    std::cout << answer(st, line) << "\n" << std::flush;  // flushed: a crash must not lose answered lines
  }
  return 0;
}
