// C11 correspondence harness: calls the real interpolation routines in-process on `double`.
// stdin : one request per line, floating-point data as the 16 hex digits of the IEEE-754 bits.
// The harness is stateful: a `tab`/`tabd` line installs the current table, the following lines
// query it (same protocol and output format as lean/TfelVerif/C11/Driver.lean).
//   tab n x(n) y(n)        -> ok d(n) | fail:size | fail:unordered | fail:pivot
//   tabd n x(n) y(n) d(n)  -> ok
//   lin e a | lind e a | spl e a | spld e a | gv a | gv2 a | gv3 a | int a b | mean a b
// Variants (`op:variant`, same answers expected as for the plain op):
//   tab:it / tab:dq        the iterator overload setCollocationPoints(px, pxe, py) called directly with raw
//                          pointers / std::deque iterators (the plain `tab` uses the container overload)
//   lin:i lind:i spl:i spld:i   the query abscissa is passed as an `int`, `:f` as a `float` (the functions are
//                          templates of the type of the query point; the data is such that the conversion is exact)
//   spl:agg spld:agg       evaluation on a std::deque of collocation points built by aggregate initialisation
//                          `{x, y, d}` (as the documentation and the upstream tests build them)
//   tabm nx ny x(nx) y(ny) container overload with vectors of different sizes
//                          -> fail:size | fail:ordinate | fail:inputs
//   uninit                 the six accessors on a CubicSpline without collocation points -> 6 x `uninit`
// One CubicSpline object is REUSED for all `tab` lines (setCollocationPoints must forget the previous table).
#include <cmath>
#include <cstdint>
#include <cstring>
#include <deque>
#include <iostream>
#include <sstream>
#include <string>
#include <vector>
#include "TFEL/Math/LinearInterpolation.hxx"
#include "TFEL/Math/CubicSpline.hxx"

using namespace tfel::math;

static bool parse_hex(const std::string& s, double& x) {
  if (s.size() != 16) return false;
  std::uint64_t v = 0;
  for (const char c : s) {
    v <<= 4;
    if (c >= '0' && c <= '9') {
      v |= static_cast<std::uint64_t>(c - '0');
    } else if (c >= 'a' && c <= 'f') {
      v |= static_cast<std::uint64_t>(c - 'a' + 10);
    } else {
      return false;
    }
  }
  std::memcpy(&x, &v, sizeof(double));
  return true;
}

static std::string show_hex(const double x) {
  if (std::isnan(x)) return "nan";
  std::uint64_t v;
  std::memcpy(&v, &x, sizeof(double));
  static const char* digits = "0123456789abcdef";
  std::string r(16, '0');
  for (int i = 0; i != 16; ++i) r[i] = digits[(v >> (4 * (15 - i))) & 15u];
  return r;
}

// access to the collocation points (to install arbitrary slopes)
struct Spline : public CubicSpline<double, double> {
  using Point = CubicSplineCollocationPoint<double, double>;
  void set(const std::vector<double>& x,
           const std::vector<double>& y,
           const std::vector<double>& d) {
    this->points.clear();
    for (std::size_t i = 0; i != x.size(); ++i) {
      Point p;
      p.x = x[i];
      p.y = y[i];
      p.d = d[i];
      this->points.push_back(p);
    }
  }
};

using Point = CubicSplineCollocationPoint<double, double>;

struct State {
  std::vector<double> x, y;
  Spline s;  // never re-created: every table is installed in the same object
  bool has_spline = false;
};

// what an accessor does on a spline without collocation points
template <typename F>
static std::string probe(F&& f) {
  try {
    f();
  } catch (CubicSplineUninitialised&) {
    return "uninit";
  } catch (std::exception&) {
    return "other";
  }
  return "value";
}

static std::string build_answer(State& st, const std::string& variant) {
  try {
    if (variant == "it") {
      st.s.setCollocationPoints(st.x.data(), st.x.data() + st.x.size(), st.y.data());
    } else if (variant == "dq") {
      const std::deque<double> dx(st.x.begin(), st.x.end());
      const std::deque<double> dy(st.y.begin(), st.y.end());
      st.s.setCollocationPoints(dx.begin(), dx.end(), dy.begin());
    } else {
      st.s.setCollocationPoints(st.x, st.y);
    }
  } catch (CubicSplineInvalidAbscissaVectorSize&) {
    return "fail:size";
  } catch (CubicSplineInvalidOrdinateVectorSize&) {
    return "fail:ordinate";
  } catch (CubicSplineInvalidInputs&) {
    return "fail:inputs";
  } catch (CubicSplineUnorderedAbscissaVector&) {
    return "fail:unordered";
  } catch (CubicSplineNullPivot&) {
    return "fail:pivot";
  } catch (std::exception&) {
    return "fail:other";
  }
  st.has_spline = true;
  std::ostringstream os;
  os << "ok";
  for (const auto& p : st.s.getCollocationPoints()) os << " " << show_hex(p.d);
  return os.str();
}

// the four free interpolation functions with a query point of type T
template <typename T>
static std::string free_query(State& st, const std::string& op, const bool e, const T a, const bool agg) {
  const auto pair = [](const double u, const double v) { return show_hex(u) + " " + show_hex(v); };
  if (op == "lin") {
    return show_hex(e ? computeLinearInterpolation<true>(st.x, st.y, a)
                      : computeLinearInterpolation<false>(st.x, st.y, a));
  }
  if (op == "lind") {
    const auto r = e ? computeLinearInterpolationAndDerivative<true>(st.x, st.y, a)
                     : computeLinearInterpolationAndDerivative<false>(st.x, st.y, a);
    return pair(r.first, r.second);
  }
  if (!st.has_spline) return "nospline";
  const auto& pts = st.s.getCollocationPoints();
  if (agg) {
    std::deque<Point> q;
    for (const auto& p : pts) q.push_back(Point{p.x, p.y, p.d});
    if (op == "spl") {
      return show_hex(e ? computeCubicSplineInterpolation<true>(q, a)
                        : computeCubicSplineInterpolation<false>(q, a));
    }
    const auto r = e ? computeCubicSplineInterpolationAndDerivative<true>(q, a)
                     : computeCubicSplineInterpolationAndDerivative<false>(q, a);
    return pair(r.first, r.second);
  }
  if (op == "spl") {
    return show_hex(e ? computeCubicSplineInterpolation<true>(pts, a)
                      : computeCubicSplineInterpolation<false>(pts, a));
  }
  const auto r = e ? computeCubicSplineInterpolationAndDerivative<true>(pts, a)
                   : computeCubicSplineInterpolationAndDerivative<false>(pts, a);
  return pair(r.first, r.second);
}

static bool read_flag(const std::string& t, bool& e) {
  if (t == "1") {
    e = true;
    return true;
  }
  if (t == "0") {
    e = false;
    return true;
  }
  return false;
}

static std::string answer(State& st, const std::string& line) {
  std::istringstream is(line);
  std::string op;
  if (!(is >> op)) return "bad-op";
  std::string variant;
  if (const auto c = op.find(':'); c != std::string::npos) {
    variant = op.substr(c + 1);
    op = op.substr(0, c);
  }
  std::vector<std::string> tok;
  for (std::string t; is >> t;) tok.push_back(t);
  if (op == "uninit") {
    if (!tok.empty() || !variant.empty()) return "bad-op";
    const CubicSpline<double, double> e{};
    double f = 0, df = 0, d2f = 0;
    std::string r = probe([&] { f = e.getValue(0.5); });
    r += " " + probe([&] { f = e(0.5); });
    r += " " + probe([&] { e.getValues(f, df, 0.5); });
    r += " " + probe([&] { e.getValues(f, df, d2f, 0.5); });
    r += " " + probe([&] { f = e.computeIntegral(0., 1.); });
    r += " " + probe([&] { f = e.computeMeanValue(0., 1.); });
    return r;
  }
  if (op == "tabm") {
    if (tok.size() < 2 || !variant.empty()) return "bad-op";
    std::size_t nx = 0, ny = 0;
    try {
      nx = std::stoul(tok[0]);
      ny = std::stoul(tok[1]);
    } catch (...) {
      return "bad-op";
    }
    if (nx == ny || tok.size() != 2 + nx + ny) return "bad-op";
    std::vector<double> v(nx + ny);
    for (std::size_t i = 0; i != nx + ny; ++i)
      if (!parse_hex(tok[2 + i], v[i])) return "bad-op";
    // exactly-sized heap blocks, so that a read past the shorter vector is seen by the sanitizer
    st.x = std::vector<double>(v.begin(), v.begin() + nx);
    st.y = std::vector<double>(v.begin() + nx, v.end());
    st.x.shrink_to_fit();
    st.y.shrink_to_fit();
    st.has_spline = false;
    const auto r = build_answer(st, "");
    st.has_spline = false;
    st.x.clear();
    st.y.clear();
    return r;
  }
  if (op == "tab" || op == "tabd") {
    if (tok.empty()) return "bad-op";
    if (!(variant.empty() || (op == "tab" && (variant == "it" || variant == "dq")))) return "bad-op";
    std::size_t n = 0;
    try {
      n = std::stoul(tok[0]);
    } catch (...) {
      return "bad-op";
    }
    const std::size_t k = (op == "tab") ? 2 : 3;
    if (tok.size() != 1 + k * n) return "bad-op";
    std::vector<double> v(k * n);
    for (std::size_t i = 0; i != k * n; ++i)
      if (!parse_hex(tok[1 + i], v[i])) return "bad-op";
    if (op == "tabd" && n == 0) return "bad-op";
    st.x.assign(v.begin(), v.begin() + n);
    st.y.assign(v.begin() + n, v.begin() + 2 * n);
    st.has_spline = false;
    if (op == "tabd") {
      st.s.set(st.x, st.y, std::vector<double>(v.begin() + 2 * n, v.end()));
      st.has_spline = true;
      return "ok";
    }
    return build_answer(st, variant);
  }
  const auto pair = [](const double a, const double b) {
    return show_hex(a) + " " + show_hex(b);
  };
  if (op == "int" || op == "mean") {
    double a, b;
    if (tok.size() != 2 || !parse_hex(tok[0], a) || !parse_hex(tok[1], b)) return "bad-op";
    if (!st.has_spline) return "nospline";
    if (op == "int") return show_hex(st.s.computeIntegral(a, b));
    return show_hex(st.s.computeMeanValue(a, b));
  }
  if (op == "lin" || op == "lind" || op == "spl" || op == "spld") {
    bool e;
    double a;
    if (tok.size() != 2 || !read_flag(tok[0], e) || !parse_hex(tok[1], a)) return "bad-op";
    if (st.x.empty()) return "bad-op";
    if (variant == "i") {
      // the conversion must be exact: the model is queried with the same double
      if (!(std::fabs(a) < 2147483000.) || static_cast<double>(static_cast<int>(a)) != a) return "bad-op";
      return free_query<int>(st, op, e, static_cast<int>(a), false);
    }
    if (variant == "f") {
      if (static_cast<double>(static_cast<float>(a)) != a) return "bad-op";
      return free_query<float>(st, op, e, static_cast<float>(a), false);
    }
    if (variant == "agg") {
      if (op != "spl" && op != "spld") return "bad-op";
      return free_query<double>(st, op, e, a, true);
    }
    if (!variant.empty()) return "bad-op";
    return free_query<double>(st, op, e, a, false);
  }
  if (!variant.empty()) return "bad-op";
  if (op == "gv" || op == "gv2" || op == "gv3") {
    double a;
    if (tok.size() != 1 || !parse_hex(tok[0], a)) return "bad-op";
    if (!st.has_spline) return "nospline";
    if (op == "gv") return pair(st.s.getValue(a), st.s(a));
    double f, df, d2f;
    if (op == "gv2") {
      st.s.getValues(f, df, a);
      return pair(f, df);
    }
    st.s.getValues(f, df, d2f, a);
    return pair(f, df) + " " + show_hex(d2f);
  }
  return "bad-op";
}

int main() {
  State st;
  std::string line;
  while (std::getline(std::cin, line)) {
    std::cout << answer(st, line) << "\n" << std::flush;  // flushed: a crash must not lose answered lines
  }
  return 0;
}
