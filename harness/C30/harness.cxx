/*
 * C30 — trace-validation harness for ProcessManager::execute / wait / sigChildHandler.
 *
 * The real ProcessManager.cxx / SignalManager.cxx (hooked: `set`, `handler:enter/leave`) run
 * commands that exit with a known status or die by a known signal, from 1..16 threads.  `waitpid`
 * and `fork` are interposed *in this executable*: the interposer logs what the kernel answered
 * (pid / ECHILD / EINTR / 0) and the content of `status` after the call, inserts the seeded delay
 * between the running-state test of wait() and its waitpid (the waitpid of wait() is the only
 * blocking waitpid issued while a command runs), and can pre-load the caller's `status` variable
 * (which wait() leaves uninitialised) with a chosen value.
 *
 * usage:  c30h run <logfile> <mode> <threads> <seed>   (plans on stdin, see below)
 *         c30h child e <code> <sleep_us> | c30h child s <signal> <sleep_us>
 * modes:  A  workers block SIGCHLD, a dedicated thread receives it (handler in another thread)
 *         B  one worker, SIGCHLD never blocked (handler interrupts the waiting thread)
 *         C  workers unblock SIGCHLD only inside the interposed waitpid (EINTR from other children)
 * stdin:  one line per job:  <thread> <iter> <e|s> <n> <child_sleep_us> <delay mode> <delay_us> <poison|->
 *         delay modes: n none, s sleep, r until the child has been reaped by somebody else (or
 *         delay_us elapsed), z until the child is a zombie (or delay_us elapsed)
 * log (one line per event, O_APPEND, written with write(2) only):
 *   F <thread> <iter> <pid>                 fork returned in the parent
 *   W <thread> <iter> <pid> <r|c|i|o> <status>   blocking waitpid returned (pid/ECHILD/EINTR/other)
 *   H <pid> <r|n|c|o> <status>              waitpid(WNOHANG) returned (pid / 0 / ECHILD)
 *   E / L                                   handler entered / left (holds processesAccess)
 *   Sh <pid> <status> / Sw <pid> <status>   setProcessExitStatus called from the handler / from wait()
 *   D <thread> <iter> <ok|abn:<v>|sig|err>  execute() returned / threw
 */
#include <atomic>
#include <cerrno>
#include <csignal>
#include <cstdio>
#include <cstdlib>
#include <cstring>
#include <dlfcn.h>
#include <fcntl.h>
#include <iostream>
#include <map>
#include <pthread.h>
#include <sstream>
#include <string>
#include <sys/syscall.h>
#include <sys/wait.h>
#include <thread>
#include <time.h>
#include <unistd.h>
#include <vector>
#include "TFEL/System/SystemError.hxx"
#include "TFEL/System/SignalManager.hxx"
#include "TFEL/System/ProcessManager.hxx"

static int log_fd = -1;
static char mode = 'A';
static std::atomic<long> progress{0};
static std::atomic<unsigned long long> hook_rng{1};

struct Plan {
  int thread = -1, iter = -1;
  char kind = 'e';
  int n = 0;
  unsigned child_sleep = 0;
  char dmode = 'n';
  unsigned delay = 0;
  bool poison = false;
  int poison_value = 0;
};
static thread_local Plan* current = nullptr;
static thread_local bool in_handler = false;

// ---- async-signal-safe logging ---------------------------------------------------------------
static char* put_str(char* p, const char* s) {
  while (*s) *p++ = *s++;
  return p;
}
static char* put_int(char* p, long v) {
  char tmp[24];
  int n = 0;
  unsigned long u = v < 0 ? 0ul - static_cast<unsigned long>(v) : static_cast<unsigned long>(v);
  if (v < 0) *p++ = '-';
  do {
    tmp[n++] = static_cast<char>('0' + u % 10);
    u /= 10;
  } while (u != 0);
  while (n > 0) *p++ = tmp[--n];
  return p;
}
static void emit(char* begin, char* end) {
  *end++ = '\n';
  const int e = errno;
  (void)!::write(log_fd, begin, static_cast<size_t>(end - begin));
  errno = e;
}

// ---- hooks called by the instrumented ProcessManager.cxx ---------------------------------------
extern "C" void tfel_verif_processmanager_event(const char* const kind, const int pid, const int status) {
  char buf[96];
  char* p = buf;
  if (std::strcmp(kind, "set") == 0) {
    if (in_handler) {
      // seeded delay between the handler's successful waitpid and its write of the record: widens
      // the window in which wait() can see ECHILD while the status is still in flight
      const auto r = hook_rng.fetch_add(0x9E3779B97F4A7C15ULL) * 6364136223846793005ULL >> 33;
      if (r % 3 == 0) {
        struct timespec ts = {0, static_cast<long>((r / 3) % 1500) * 1000L};
        ::nanosleep(&ts, nullptr);
      }
    }
    p = put_str(p, in_handler ? "Sh " : "Sw ");
    p = put_int(p, pid);
    *p++ = ' ';
    p = put_int(p, status);
  } else if (std::strcmp(kind, "handler:enter") == 0) {
    in_handler = true;
    p = put_str(p, "E");
  } else if (std::strcmp(kind, "handler:leave") == 0) {
    p = put_str(p, "L");
    in_handler = false;
  } else {
    p = put_str(p, "?");
  }
  emit(buf, p);
}

// ---- interposed fork / waitpid ------------------------------------------------------------------
extern "C" pid_t fork(void) {
  using fn = pid_t (*)(void);
  static fn real = reinterpret_cast<fn>(::dlsym(RTLD_NEXT, "fork"));
  const pid_t r = real();
  if (r > 0 && current != nullptr) {
    char buf[96];
    char* p = put_str(buf, "F ");
    p = put_int(p, current->thread);
    *p++ = ' ';
    p = put_int(p, current->iter);
    *p++ = ' ';
    p = put_int(p, r);
    emit(buf, p);
  }
  return r;
}

static pid_t real_waitpid(pid_t pid, int* status, int options) {
  return static_cast<pid_t>(::syscall(SYS_wait4, pid, status, options, nullptr));
}

// 0: running, 1: zombie (not yet reaped), 2: reaped / not our child
static int child_state(const pid_t pid) {
  siginfo_t info;
  info.si_pid = 0;
  const int r = ::waitid(P_PID, static_cast<id_t>(pid), &info, WEXITED | WNOHANG | WNOWAIT);
  if (r == -1) return 2;
  return info.si_pid == pid ? 1 : 0;
}

// For the non-blocking waitpid of the handler, the kernel's answer and its log line are made one atomic section (spin lock taken with every
// signal blocked, so that the handler never runs in a thread that holds it): the log order of the
// waitpid events of a child is then the order in which the kernel served them.
static std::atomic_flag log_lock = ATOMIC_FLAG_INIT;
struct LogSection {
  sigset_t old;
  LogSection() {
    sigset_t all;
    sigfillset(&all);
    pthread_sigmask(SIG_BLOCK, &all, &old);
    while (log_lock.test_and_set(std::memory_order_acquire)) ::sched_yield();
  }
  ~LogSection() {
    log_lock.clear(std::memory_order_release);
    pthread_sigmask(SIG_SETMASK, &old, nullptr);
  }
};

extern "C" pid_t waitpid(pid_t pid, int* status, int options) {
  char buf[128];
  if ((options & WNOHANG) != 0) {
    LogSection ls;
    const pid_t r = real_waitpid(pid, status, options);
    const int e = errno;
    char* p = put_str(buf, "H ");
    p = put_int(p, pid);
    *p++ = ' ';
    *p++ = (r == pid) ? 'r' : (r == 0) ? 'n' : (e == ECHILD) ? 'c' : 'o';
    *p++ = ' ';
    p = put_int(p, (r == pid && status != nullptr) ? *status : 0);
    emit(buf, p);
    errno = e;
    return r;
  }
  Plan* const pl = current;
  if (pl == nullptr || in_handler) {
    return real_waitpid(pid, status, options);
  }
  // the blocking waitpid of ProcessManager::wait: we are between the running-state test and waitpid
  sigset_t chld, old;
  if (mode == 'C') {
    sigemptyset(&chld);
    sigaddset(&chld, SIGCHLD);
    pthread_sigmask(SIG_UNBLOCK, &chld, &old);
  }
  if (pl->poison && status != nullptr) {
    // `status` is an uninitialised local of wait(): any value is a possible content
    *status = pl->poison_value;
  }
  if (pl->dmode == 's') {
    ::usleep(pl->delay);
  } else if (pl->dmode == 'r' || pl->dmode == 'z') {
    const int want = pl->dmode == 'r' ? 2 : 1;
    for (unsigned t = 0; t < pl->delay && child_state(pid) < want; t += 100) ::usleep(100);
  }
  // The blocking call itself cannot be made atomic with its log line.  A successful reap by this
  // call may therefore be logged after a handler's `H <pid> c` (ECHILD) that the kernel served
  // later; the check moves such a `W .. r` line before the first ECHILD line of the same pid (an
  // ECHILD answer is only possible after the reap).  ECHILD / EINTR answers of this call need no
  // correction: the handler's reap is logged atomically, hence before them.
  const pid_t r = real_waitpid(pid, status, options);
  int e = errno;
  {
    // taken after the call: an ECHILD answer means that the reaping waitpid(WNOHANG) has returned,
    // i.e. the handler is inside (or past) its own log section; waiting for it orders the lines
    LogSection ls;
    char* p = put_str(buf, "W ");
    p = put_int(p, pl->thread);
    *p++ = ' ';
    p = put_int(p, pl->iter);
    *p++ = ' ';
    p = put_int(p, pid);
    *p++ = ' ';
    *p++ = (r == pid) ? 'r' : (e == ECHILD) ? 'c' : (e == EINTR) ? 'i' : 'o';
    *p++ = ' ';
    // the content of the caller's variable after the call: what wait() goes on with
    p = put_int(p, status != nullptr ? *status : 0);
    emit(buf, p);
  }
  if (mode == 'C') pthread_sigmask(SIG_SETMASK, &old, nullptr);
  errno = e;
  return r;
}

// ---- the child command ----------------------------------------------------------------------------
static int child_main(int argc, char** argv) {
  if (argc < 5) return 98;
  const int n = std::atoi(argv[3]);
  const unsigned us = static_cast<unsigned>(std::atoi(argv[4]));
  if (us != 0) ::usleep(us);
  if (argv[2][0] == 's') {
    ::signal(n, SIG_DFL);
    sigset_t all;
    sigemptyset(&all);
    sigprocmask(SIG_SETMASK, &all, nullptr);
    ::raise(n);
    ::pause();
  }
  ::_exit(n);
}

static std::atomic<bool> quiesce_sigthread{false};
static std::atomic<bool> sigthread_quiet{false};

static void worker(const std::string self, std::vector<Plan> plans, pthread_barrier_t* bar) {
  if (mode != 'B') {
    sigset_t chld;
    sigemptyset(&chld);
    sigaddset(&chld, SIGCHLD);
    pthread_sigmask(SIG_BLOCK, &chld, nullptr);
  }
  {
    tfel::system::ProcessManager manager;
    manager.stopOnSignals(false);
    pthread_barrier_wait(bar);
    for (auto& pl : plans) {
      std::ostringstream cmd;
      cmd << self << " child " << pl.kind << ' ' << pl.n << ' ' << pl.child_sleep;
      std::string out = "err";
      current = &pl;
      try {
        manager.execute(cmd.str());
        out = "ok";
      } catch (tfel::system::SystemError& e) {
        const std::string m = e.what();
        const auto pa = m.find("exited abnormally with value ");
        if (m.find("exited du to a signal") != std::string::npos) {
          out = "sig";
        } else if (pa != std::string::npos) {
          out = "abn:" + std::to_string(std::atoi(m.c_str() + pa + 29));
        } else {
          out = "err";
        }
      } catch (std::exception&) {
        out = "err";
      }
      current = nullptr;
      char buf[96];
      char* p = put_str(buf, "D ");
      p = put_int(p, pl.thread);
      *p++ = ' ';
      p = put_int(p, pl.iter);
      *p++ = ' ';
      p = put_str(p, out.c_str());
      emit(buf, p);
      ++progress;
    }
    pthread_barrier_wait(bar);
    // managers are destroyed only when every command of every thread is over and, in mode A, once
    // the dedicated thread has stopped taking SIGCHLD: a late SIGCHLD handled while the managers are
    // being destroyed makes SignalManager::treatAction call a handler that removeHandler has just
    // deleted (use-after-free of the code under test at tear-down, not a question of exit status)
    if (mode == 'A') {
      quiesce_sigthread = true;
      while (!sigthread_quiet.load()) ::usleep(200);
    }
  }
}

int main(int argc, char** argv) {
  if (argc >= 2 && std::strcmp(argv[1], "child") == 0) return child_main(argc, argv);
  if (argc < 6 || std::strcmp(argv[1], "run") != 0) {
    std::fprintf(stderr, "usage: %s run <log> <mode> <threads> <seed>\n", argv[0]);
    return 2;
  }
  log_fd = ::open(argv[2], O_WRONLY | O_CREAT | O_TRUNC | O_APPEND, 0600);
  if (log_fd == -1) return 3;
  mode = argv[3][0];
  const int nthreads = std::atoi(argv[4]);
  std::vector<std::vector<Plan>> plans(static_cast<size_t>(nthreads));
  {
    std::string line;
    while (std::getline(std::cin, line)) {
      std::istringstream is(line);
      Plan p;
      std::string poison;
      if (!(is >> p.thread >> p.iter >> p.kind >> p.n >> p.child_sleep >> p.dmode >> p.delay >> poison)) continue;
      if (poison != "-") {
        p.poison = true;
        p.poison_value = std::atoi(poison.c_str());
      }
      if (p.thread >= 0 && p.thread < nthreads) plans[static_cast<size_t>(p.thread)].push_back(p);
    }
  }
  long total = 0;
  for (const auto& v : plans) total += static_cast<long>(v.size());
  // the signal manager is instantiated before any thread exists
  (void)tfel::system::SignalManager::getSignalManager();
  std::atomic<bool> stop_sig{false};
  std::thread sigthread;
  hook_rng = static_cast<unsigned long long>(std::atoll(argv[5])) * 2654435761ULL + 12345ULL;
  if (mode == 'A') {
    sigthread = std::thread([&stop_sig] {
      while (!stop_sig.load()) {
        ::usleep(2000);  // SIGCHLD is delivered here
        if (quiesce_sigthread.load() && !sigthread_quiet.load()) {
          // every command is over: no handler is running in this thread at this point, none will
          sigset_t chld;
          sigemptyset(&chld);
          sigaddset(&chld, SIGCHLD);
          pthread_sigmask(SIG_BLOCK, &chld, nullptr);
          sigthread_quiet = true;
        }
      }
    });
  }
  if (mode != 'B') {
    // A: only the dedicated thread takes SIGCHLD; C: only threads inside the interposed waitpid do
    sigset_t chld;
    sigemptyset(&chld);
    sigaddset(&chld, SIGCHLD);
    pthread_sigmask(SIG_BLOCK, &chld, nullptr);
  }
  pthread_barrier_t bar;
  pthread_barrier_init(&bar, nullptr, static_cast<unsigned>(nthreads));
  std::vector<std::thread> ws;
  if (mode == 'B') {
    // single thread: the main thread is the worker (no other thread can take the signal)
    worker(argv[0], plans[0], &bar);
  } else {
    for (int k = 0; k < nthreads; ++k) ws.emplace_back(worker, std::string(argv[0]), plans[static_cast<size_t>(k)], &bar);
    // watchdog: the code under test is not async-signal-safe (mutexes taken in the handler); a hang
    // is reported as such, it is not a verdict about the exit status
    long last = -1;
    int idle = 0;
    while (progress.load() < total) {
      ::usleep(50000);
      if (progress.load() == last) {
        if (++idle > 400) {
          static const char m[] = "HANG\n";
          (void)!::write(log_fd, m, sizeof(m) - 1);
          ::_exit(7);
        }
      } else {
        idle = 0;
        last = progress.load();
      }
    }
    for (auto& w : ws) w.join();
  }
  if (mode == 'A') {
    stop_sig = true;
    sigthread.join();
  }
  ::close(log_fd);
  return 0;
}
