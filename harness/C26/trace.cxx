// T1 tracer for C26: approximations of the inverse Langevin function (InverseLangevinFunction.ixx).
//
// Every function is traced in concolic mode once per sign region of its argument (and, for the
// piecewise Bergström–Boyce approximation, once per piece), at the shadow point given below:
//   pos: 0 < y < 1 (y = 0.5)      neg: -1 < y < 0 (y = -0.5)
//   lopos / loneg: |y| < c0 (y = ±0.5)     hipos / hineg: c0 <= |y| < 1 (y = ±0.9)
// A branch-free implementation gives the same trace in all regions and no path condition; a
// sign-dependent one (e.g. through abs) gives one trace per region with its path condition, which
// checks/C26.py validates against the region. Double literals are recorded as exact rationals.
#include "tracehelp.hxx"
#include <utility>
#include "TFEL/Material/InverseLangevinFunction.hxx"

using namespace tfel::material;
using verif::Sym;
using verif::Unit;
using A = InverseLangevinFunctionApproximations;

template <A approx>
void trace_approx(const std::string& name) {
  for (const auto& r : {std::pair<std::string, double>{"pos", 0.5}, {"neg", -0.5}}) {
    {
      Unit u(name + "_value_" + r.first);
      const Sym y = verif::scalar_input("y", r.second);
      verif::ctx().concolic = true;
      const Sym f = computeApproximateInverseLangevinFunction<approx, Sym>(y);
      verif::ctx().concolic = false;
      verif::output("f", f);
    }
    {
      Unit u(name + "_deriv_" + r.first);
      const Sym y = verif::scalar_input("y", r.second);
      verif::ctx().concolic = true;
      const auto p = computeApproximateInverseLangevinFunctionAndDerivative<approx, Sym>(y);
      verif::ctx().concolic = false;
      verif::output("f", p.first);
      verif::output("df", p.second);
    }
  }
}

void trace_bb() {
  for (const auto& r : {std::pair<std::string, double>{"lopos", 0.5},
                        {"loneg", -0.5},
                        {"hipos", 0.9},
                        {"hineg", -0.9}}) {
    {
      Unit u("bb_value_" + r.first);
      const Sym y = verif::scalar_input("y", r.second);
      verif::ctx().concolic = true;
      const Sym f = computeBergstromBoyce1998ApproximateInverseLangevinFunction<Sym>(y);
      verif::ctx().concolic = false;
      verif::output("f", f);
    }
    {
      Unit u("bb_deriv_" + r.first);
      const Sym y = verif::scalar_input("y", r.second);
      verif::ctx().concolic = true;
      const auto p = computeBergstromBoyce1998ApproximateInverseLangevinFunctionAndDerivative<Sym>(y);
      verif::ctx().concolic = false;
      verif::output("f", p.first);
      verif::output("df", p.second);
    }
  }
}

int main() {
  trace_approx<A::COHEN_1991>("cohen");
  trace_approx<A::JEDYNAK_2015>("jedynak");
  trace_approx<A::MORCH_2022>("morch");
  trace_approx<A::KUHN_GRUN_1942>("kuhngrun");
  trace_bb();
  return 0;
}
