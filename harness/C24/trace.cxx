// T1 tracer for C24: tfel::material::LogarithmicStrainHandler<N,Sym>, N = 1,2,3.
// See common.hxx for the eigen-solver oracle and the access to private members.
#include "C24/common.hxx"
#include "TFEL/Math/stensor.hxx"
#include "TFEL/Math/tensor.hxx"
#include "TFEL/Math/st2tost2.hxx"
#include "TFEL/Math/TinyMatrixInvert.hxx"

namespace c24 {
  //! oracle for the inverse computed by tfel::math::invert(st2tost2): when `on`, the LU based
  //! TinyMatrixInvert<n,Sym>::exe returns the symbols `ip*_*` (hypothesis in Lean: ip * p = 1)
  struct InvOracle {
    bool on = false;
    int calls = 0;
  };
  inline InvOracle& inv_oracle() {
    static InvOracle o;
    return o;
  }
  template <unsigned short n>
  void inv_exe(tfel::math::tmatrix<n, n, verif::Sym>& m) {
    auto& o = inv_oracle();
    if (!o.on) {
      std::fprintf(stderr, "C24 tracer: unexpected call of TinyMatrixInvert\n");
      std::abort();
    }
    ++o.calls;
    for (unsigned short i = 0; i != n; ++i)
      for (unsigned short j = 0; j != n; ++j)
        m(i, j) = in("ip" + std::to_string(i) + "_" + std::to_string(j),
                     verif::shadow_value("ip" + std::to_string(i), j));
  }
}  // namespace c24
namespace tfel::math {
  template <>
  inline void TinyMatrixInvert<6u, verif::Sym>::exe(
      tmatrix<6u, 6u, verif::Sym>& m, const verif::Sym) {
    c24::inv_exe<6u>(m);
  }
  template <>
  inline void TinyMatrixInvert<4u, verif::Sym>::exe(
      tmatrix<4u, 4u, verif::Sym>& m, const verif::Sym) {
    c24::inv_exe<4u>(m);
  }
}  // namespace tfel::math

#include "TFEL/Material/LogarithmicStrainHandler.hxx"

using namespace tfel::math;
using tfel::material::LogarithmicStrainHandler;
using tfel::material::LogarithmicStrainHandlerBase;
using verif::Sym;
using verif::Unit;
using Setting = LogarithmicStrainHandlerBase::Setting;
constexpr auto LAG = LogarithmicStrainHandlerBase::LAGRANGIAN;
constexpr auto EUL = LogarithmicStrainHandlerBase::EULERIAN;

// default shadow values (they only decide the eps-branches in concolic mode)
static const double M_SH[9] = {2. / 3, -1. / 3, 2. / 3, 2. / 3, 2. / 3,
                               -1. / 3, -1. / 3, 2. / 3, 2. / 3};
static const double M2_SH[9] = {0.6, -0.8, 0, 0.8, 0.6, 0, 0, 0, 1};
static const double F_SH[9] = {1.1, 0.9, 1.2, 0.1, -0.05, 0.07, 0.02, -0.04, 0.03};

//! eigenvalue patterns: which eps-branch a unit explores
struct Pattern {
  const char* tag;
  double vp[3];
};
static const Pattern GENERIC = {"", {1.3, 0.7, 2.1}};
static const Pattern EQ01 = {"_eq01", {1.3, 1.3, 2.1}};
static const Pattern EQ02 = {"_eq02", {1.3, 0.7, 1.3}};
static const Pattern EQ12 = {"_eq12", {1.3, 0.7, 0.7}};
static const Pattern EQALL = {"_eqall", {1.3, 1.3, 1.3}};

template <unsigned short N>
struct Dim {
  static constexpr int S = StensorDimeToSize<N>::value;
  static constexpr int T = TensorDimeToSize<N>::value;
  using H = LogarithmicStrainHandler<N, Sym>;

  static void set_oracle(const Pattern& pt) {
    auto& o = c24::oracle();
    c24::fill(o.vp, "vp", 3, pt.vp);
    if constexpr (N == 3) {
      c24::fill2(o.m, "m", 3, 3, M_SH);
    } else {
      // 2D: only the in-plane block is asked to the oracle
      for (int i = 0; i != 3; ++i)
        for (int j = 0; j != 3; ++j) o.m(i, j) = Sym(i == j ? 1 : 0);
      for (int i = 0; i != 2; ++i)
        for (int j = 0; j != 2; ++j)
          o.m(i, j) = c24::in("m" + std::to_string(i) + std::to_string(j),
                              M2_SH[3 * i + j]);
    }
  }
  static tensor<N, Sym> inputF() {
    tensor<N, Sym> F;
    c24::fill(F, "F", T, F_SH);
    return F;
  }
  /*! a handler all of whose data members are input symbols: the Builder is run on constants
   * (F = 1, oracle = (1,1,1), 1) to obtain an object, then every member is overwritten. */
  static H symbolic_handler(const Setting s, const Pattern& pt, const bool with_p = true) {
    auto& o = c24::oracle();
    for (int i = 0; i != 3; ++i) {
      o.vp[i] = Sym(1);
      for (int j = 0; j != 3; ++j) o.m(i, j) = Sym(i == j ? 1 : 0);
    }
    const auto Fid = tensor<N, Sym>::Id();
    auto b = [&] {
      if constexpr (N == 2) {
        return typename H::Builder(s, Fid, true);
      } else {
        return typename H::Builder(s, Fid);
      }
    }();
    verif::ctx().path.clear();
    set_oracle(pt);
    b.vp = o.vp;
    if constexpr (N == 2) {
      // the real 2D wrapper passes C_zz through as third eigenvalue: here a free symbol vp2
      b.vp[2] = o.vp[2];
    }
    b.m = o.m;
    for (int i = 0; i != 3; ++i)
      b.e[i] = c24::in("e" + std::to_string(i), std::log(pt.vp[i]) / 2);
    if (with_p) c24::fillg2(b.p, "p", S, S);
    const auto F = inputF();
    return H(std::move(b), s, F);
  }


  /*! cut points (see checks/c24emit.py): the tracer recomputes intermediate quantities of
   * convertTangentModuli with the real static helpers (getNTensors, getEulerianMTensors,
   * areEigenValuesEqual, findSingleEigenValue) and with a verbatim copy of the `xsi`, `eta`, `dzeta`
   * lambdas; the CSE of symtrace maps them onto the nodes computed inside the traced call, and the
   * emitter turns these nodes into parameters of the outputs. A marker that does not coincide with a
   * node of the traced call is an unused parameter (soundness never depends on the markers). */
  static void mark_NM(const H& h, const Setting s) {
    const auto Nn = H::getNTensors(h.m);
    if constexpr (N == 3) {
      for (int i = 0; i != 3; ++i)
        for (int j = 0; j != 3; ++j)
          for (int k = 0; k != S; ++k)
            verif::output("cut_N" + std::to_string(i) + std::to_string(j) + "_" + std::to_string(k),
                          Sym(Nn(i, j)[k]));
    } else {
      for (int i = 0; i != 4; ++i)
        for (int k = 0; k != S; ++k)
          verif::output("cut_N" + std::to_string(i) + "_" + std::to_string(k), Sym(Nn(i)[k]));
    }
    if (s == EUL) {
      const auto Mm = H::getEulerianMTensors(h.m, h.F);
      if constexpr (N == 3) {
        for (int i = 0; i != 3; ++i)
          for (int j = 0; j != 3; ++j)
            for (int k = 0; k != S; ++k)
              verif::output("cut_M" + std::to_string(i) + std::to_string(j) + "_" + std::to_string(k),
                            Sym(Mm(i, j)[k]));
      } else {
        for (int i = 0; i != 4; ++i)
          for (int k = 0; k != S; ++k)
            verif::output("cut_M" + std::to_string(i) + "_" + std::to_string(k), Sym(Mm(i)[k]));
      }
    }
  }
  static void mark_tangent(const H& h, const Setting s, const stensor<N, Sym>& T) {
    using real = Sym;
    using size_type = unsigned short;
    mark_NM(h, s);
    const auto Nn = H::getNTensors(h.m);
    const auto d = map([](const real x) { return 1 / (2 * x); }, h.vp);
    const auto f = map([](const real x) { return -2 / (x * x); }, h.vp);
    for (int i = 0; i != 3; ++i) verif::output("cut_f" + std::to_string(i), f[i]);
    if constexpr (N == 3) {
      const auto lk = [](const size_type i, const size_type j) -> size_type {
        if (i == 0) {
          return (j == 1) ? 2 : 1;
        }
        if (i == 1) {
          return (j == 0) ? 2 : 0;
        }
        return (j == 0) ? 1 : 0;
      };
      // verbatim copy of the lambdas of convertTangentModuli (3D)
      const auto xsi = [&h, &d, &f]() -> tmatrix<3u, 3u, real> {
        if (H::areEigenValuesEqual(h.vp)) {
          constexpr auto zero = real{0};
          const auto rv = (f[0] + f[1] + f[2]) / 24;
          return {zero, rv, rv, rv, zero, rv, rv, rv, zero};
        }
        auto r = tmatrix<3u, 3u, real>{};
        const auto k = H::findSingleEigenValue(h.vp);
        if (k != 3) {
          for (size_type i = 0; i != 3; ++i) {
            for (size_type j = 0; j != 3; ++j) {
              if (i == j) {
                r(i, j) = real{};
              } else if ((i == k) || (j == k)) {
                const auto idvp = 1 / (h.vp[i] - h.vp[j]);
                r(i, j) = ((h.e[i] - h.e[j]) * idvp - d[j]) * idvp;
              } else {
                r(i, j) = (f[i] + f[j]) / 16;
              }
            }
          }
          return r;
        }
        for (size_type i = 0; i != 3; ++i) {
          for (size_type j = 0; j != 3; ++j) {
            if (i == j) {
              r(i, j) = real{};
            } else {
              const auto idvp = 1 / (h.vp[i] - h.vp[j]);
              r(i, j) = ((h.e[i] - h.e[j]) * idvp - d[j]) * idvp;
            }
          }
        }
        return r;
      }();
      const auto eta = [&h, &lk, &f, &d] {
        if (H::areEigenValuesEqual(h.vp)) {
          return (f[0] + f[1] + f[2]) / 24;
        }
        const auto u = H::findSingleEigenValue(h.vp);
        if (u != 3) {
          const auto i = (u == 2) ? 0 : 2;
          const auto idvp = 1 / (h.vp[u] - h.vp[i]);
          return ((h.e[u] - h.e[i]) * idvp - d[i]) * idvp;
        }
        auto r = real{};
        for (size_type i = 0; i != 3; ++i) {
          for (size_type j = 0; j != 3; ++j) {
            if (i == j) {
              continue;
            }
            const auto k = lk(i, j);
            r += h.e[i] / (2 * (h.vp[i] - h.vp[j]) * (h.vp[i] - h.vp[k]));
          }
        }
        return r;
      }();
      for (int i = 0; i != 3; ++i)
        for (int j = 0; j != 3; ++j) {
          if (i != j) verif::output("cut_xi" + std::to_string(i) + std::to_string(j), xsi(i, j));
          verif::output("cut_z" + std::to_string(i) + std::to_string(j), Sym((T | Nn(i, j)) / 2));
        }
      verif::output("cut_eta", eta);
    } else {
      const auto xsi = [&h, &d, &f]() -> tvector<2u, real> {
        if (tfel::math::abs(h.vp[0] - h.vp[1]) < H::eps) {
          const auto rv = (f[0] + f[1]) / 16;
          return {rv, rv};
        }
        const auto idvp = 1 / (h.vp[0] - h.vp[1]);
        return {((h.e[0] - h.e[1]) * idvp - d[1]) * idvp,
                -((h.e[0] - h.e[1]) * idvp - d[0]) * idvp};
      }();
      verif::output("cut_xi0", xsi[0]);
      verif::output("cut_xi1", xsi[1]);
      verif::output("cut_z0", Sym((T | Nn(0)) / 2));
      verif::output("cut_z1", Sym((T | Nn(1)) / 2));
      verif::output("cut_z3", Sym((T | Nn(3)) / 2));
    }
    // the markers evaluate eps-branches themselves: do not record them twice
  }

  static void builder(const Setting s, const Pattern& pt) {
    Unit u(std::string("N") + std::to_string(N) + (s == LAG ? "_L" : "_E") +
           "_builder" + pt.tag);
    set_oracle(pt);
    const auto F = inputF();
    const H h(s, F);
    if (s == EUL) mark_NM(h, s);
    verif::outputs("e", h.e, 3);
    verif::outputs("vpo", h.vp, 3);
    verif::outputs2("p", h.p, S, S);
    if (s == LAG && std::string(pt.tag).empty()) {
      const stensor<N, Sym> el = h.getHenckyLogarithmicStrain();
      verif::outputs("el", el, S);
      // Abaqus/Standard convention overload
      Sym ea[6];
      h.getHenckyLogarithmicStrain(ea);
      for (int i = 0; i != S; ++i) verif::output("ea" + std::to_string(i), ea[i]);
      const stensor<N, Sym> C = computeRightCauchyGreenTensor(F);
      verif::outputs("C", C, S);
    }
  }

  static void stresses() {
    const std::string d = "N" + std::to_string(N);
    {
      Unit u(d + "_L_toPK2");
      const H h = symbolic_handler(LAG, GENERIC);
      stensor<N, Sym> Ts;
      c24::fillg(Ts, "T", S);
      const stensor<N, Sym> r = h.convertToSecondPiolaKirchhoffStress(Ts);
      verif::outputs("S", r, S);
    }
    {
      Unit u(d + "_L_fromPK2");
      const H h = symbolic_handler(LAG, GENERIC);
      stensor<N, Sym> Ss;
      c24::fillg(Ss, "S", S);
      c24::inv_oracle().on = true;
      const stensor<N, Sym> r = h.convertFromSecondPiolaKirchhoffStress(Ss);
      c24::inv_oracle().on = false;
      verif::outputs("T", r, S);
    }
    {
      Unit u(d + "_L_toCauchy");
      const H h = symbolic_handler(LAG, GENERIC);
      stensor<N, Sym> Ts;
      c24::fillg(Ts, "T", S);
      const stensor<N, Sym> r = h.convertToCauchyStress(Ts);
      verif::outputs("s", r, S);
    }
    {
      Unit u(d + "_E_toCauchy");
      const H h = symbolic_handler(EUL, GENERIC);
      stensor<N, Sym> Ts;
      c24::fillg(Ts, "T", S);
      const stensor<N, Sym> r = h.convertToCauchyStress(Ts);
      verif::outputs("s", r, S);
    }
    {
      Unit u(d + "_E_fromCauchy");
      const H h = symbolic_handler(EUL, GENERIC);
      stensor<N, Sym> ss;
      c24::fillg(ss, "s", S);
      c24::inv_oracle().on = true;
      const stensor<N, Sym> r = h.convertFromCauchyStress(ss);
      c24::inv_oracle().on = false;
      verif::outputs("T", r, S);
    }
  }

  static void tangent(const Setting s, const Pattern& pt) {
    const std::string d = "N" + std::to_string(N);
    Unit u(d + (s == LAG ? "_L_material" : "_E_spatial") + pt.tag);
    const H h = symbolic_handler(s, pt);
    stensor<N, Sym> Ts;
    c24::fillg(Ts, "T", S);
    st2tost2<N, Sym> Ks;
    c24::fillg2(Ks, "K", S, S);
    {
      const auto npath = verif::ctx().path.size();
      mark_tangent(h, s, Ts);
      verif::ctx().path.resize(npath);
    }
    const st2tost2<N, Sym> r = (s == LAG) ? h.convertToMaterialTangentModuli(Ks, Ts)
                                          : h.convertToSpatialTangentModuli(Ks, Ts);
    verif::outputs2("Kr", r, S, S);
  }
  static void truesdell() {
    Unit u("N" + std::to_string(N) + "_E_truesdell");
    const H h = symbolic_handler(EUL, GENERIC);
    stensor<N, Sym> Ts;
    c24::fillg(Ts, "T", S);
    st2tost2<N, Sym> Ks;
    c24::fillg2(Ks, "K", S, S);
    {
      const auto npath = verif::ctx().path.size();
      mark_tangent(h, EUL, Ts);
      verif::ctx().path.resize(npath);
    }
    const st2tost2<N, Sym> r = h.convertToCauchyStressTruesdellRateTangentModuli(Ks, Ts);
    verif::outputs2("Kr", r, S, S);
  }
};

static void trace_1d() {
  using H = LogarithmicStrainHandler<1u, Sym>;
  auto mk = [](const Setting s) {
    tensor<1u, Sym> F;
    c24::fill(F, "F", 3, F_SH);
    return H(s, F);
  };
  for (const auto s : {LAG, EUL}) {
    const std::string d = std::string("N1_") + (s == LAG ? "L" : "E");
    {
      Unit u(d + "_hencky");
      const H h = mk(s);
      const stensor<1u, Sym> el = h.getHenckyLogarithmicStrain();
      verif::outputs("el", el, 3);
      Sym ea[3];
      h.getHenckyLogarithmicStrain(ea);
      for (int i = 0; i != 3; ++i) verif::output("ea" + std::to_string(i), ea[i]);
    }
    {
      Unit u(d + "_stresses");
      const H h = mk(s);
      stensor<1u, Sym> Ts;
      c24::fillg(Ts, "T", 3);
      const stensor<1u, Sym> S = h.convertToSecondPiolaKirchhoffStress(Ts);
      verif::outputs("S", S, 3);
      const stensor<1u, Sym> Tb = h.convertFromSecondPiolaKirchhoffStress(Ts);
      verif::outputs("Tb", Tb, 3);
      const stensor<1u, Sym> sg = h.convertToCauchyStress(Ts);
      verif::outputs("s", sg, 3);
      const stensor<1u, Sym> Tc = h.convertFromCauchyStress(Ts);
      verif::outputs("Tc", Tc, 3);
      Sym a[3] = {Ts[0], Ts[1], Ts[2]};
      h.convertToSecondPiolaKirchhoffStress(a);
      for (int i = 0; i != 3; ++i) verif::output("Sa" + std::to_string(i), a[i]);
    }
    {
      Unit u(d + "_tangent");
      const H h = mk(s);
      stensor<1u, Sym> Ts;
      c24::fillg(Ts, "T", 3);
      st2tost2<1u, Sym> Ks;
      c24::fillg2(Ks, "K", 3, 3);
      const st2tost2<1u, Sym> Km = h.convertToMaterialTangentModuli(Ks, Ts);
      verif::outputs2("Km", Km, 3, 3);
      const st2tost2<1u, Sym> Ksp = h.convertToSpatialTangentModuli(Ks, Ts);
      verif::outputs2("Ks", Ksp, 3, 3);
      const st2tost2<1u, Sym> Kt = h.convertToCauchyStressTruesdellRateTangentModuli(Ks, Ts);
      verif::outputs2("Kt", Kt, 3, 3);
    }
  }
}

template <unsigned short N>
static void trace_dim() {
  using D = Dim<N>;
  D::builder(LAG, GENERIC);
  D::builder(EUL, GENERIC);
  D::stresses();
  D::tangent(LAG, GENERIC);
  D::tangent(EUL, GENERIC);
  D::truesdell();
  // coalescing eigenvalue (eps) branches
  D::builder(LAG, EQ01);
  D::builder(EUL, EQ01);
  D::tangent(LAG, EQ01);
  if constexpr (N == 3) {
    for (const auto* p : {&EQ02, &EQ12, &EQALL}) {
      D::builder(LAG, *p);
      D::builder(EUL, *p);
      D::tangent(LAG, *p);
    }
  }
}

int main() {
  verif::ctx().concolic = true;
  trace_1d();
  trace_dim<2u>();
  trace_dim<3u>();
  return 0;
}
