// T1 tracer for C24: tfel::material::LogarithmicStrainHandler<N,Sym>, N = 1,2,3.
// See common.hxx for the eigen-solver oracle and the access to private members.
#include "C24/common.hxx"
#include "TFEL/Math/stensor.hxx"
#include "TFEL/Math/tensor.hxx"
#include "TFEL/Math/st2tost2.hxx"
#include "TFEL/Math/TinyMatrixInvert.hxx"

namespace c24 {
  //! oracle for the inverse computed by tfel::math::invert(st2tost2): when `on`, the LU based
  //! TinyMatrixInvert<n,Sym>::exe returns the symbols `ip*_*` (hypothesis in Lean: ip * p = 1)
  struct InvOracle {
    bool on = false;
    int calls = 0;
  };
  inline InvOracle& inv_oracle() {
    static InvOracle o;
    return o;
  }
  template <unsigned short n>
  void inv_exe(tfel::math::tmatrix<n, n, verif::Sym>& m) {
    auto& o = inv_oracle();
    if (!o.on) {
      std::fprintf(stderr, "C24 tracer: unexpected call of TinyMatrixInvert\n");
      std::abort();
    }
    ++o.calls;
    for (unsigned short i = 0; i != n; ++i)
      for (unsigned short j = 0; j != n; ++j)
        m(i, j) = in("ip" + std::to_string(i) + "_" + std::to_string(j),
                     verif::shadow_value("ip" + std::to_string(i), j));
  }
}  // namespace c24
namespace tfel::math {
  template <>
  inline void TinyMatrixInvert<6u, verif::Sym>::exe(
      tmatrix<6u, 6u, verif::Sym>& m, const verif::Sym) {
    c24::inv_exe<6u>(m);
  }
  template <>
  inline void TinyMatrixInvert<4u, verif::Sym>::exe(
      tmatrix<4u, 4u, verif::Sym>& m, const verif::Sym) {
    c24::inv_exe<4u>(m);
  }
}  // namespace tfel::math

#include "TFEL/Material/LogarithmicStrainHandler.hxx"
#include "TFEL/Material/FiniteStrainBehaviourTangentOperator.hxx"

using namespace tfel::math;
using tfel::material::LogarithmicStrainHandler;
using tfel::material::LogarithmicStrainHandlerBase;
using verif::Sym;
using verif::Unit;
using Setting = LogarithmicStrainHandlerBase::Setting;
constexpr auto LAG = LogarithmicStrainHandlerBase::LAGRANGIAN;
constexpr auto EUL = LogarithmicStrainHandlerBase::EULERIAN;

// default shadow values (they only decide the eps-branches in concolic mode)
static const double M_SH[9] = {2. / 3, -1. / 3, 2. / 3, 2. / 3, 2. / 3,
                               -1. / 3, -1. / 3, 2. / 3, 2. / 3};
static const double M2_SH[9] = {0.6, -0.8, 0, 0.8, 0.6, 0, 0, 0, 1};
static const double F_SH[9] = {1.1, 0.9, 1.2, 0.1, -0.05, 0.07, 0.02, -0.04, 0.03};

//! eigenvalue patterns: which eps-branch a unit explores
struct Pattern {
  const char* tag;
  double vp[3];
};
static const Pattern GENERIC = {"", {1.3, 0.7, 2.1}};
static const Pattern EQ01 = {"_eq01", {1.3, 1.3, 2.1}};
static const Pattern EQ02 = {"_eq02", {1.3, 0.7, 1.3}};
static const Pattern EQ12 = {"_eq12", {1.3, 0.7, 0.7}};
static const Pattern EQALL = {"_eqall", {1.3, 1.3, 1.3}};

template <unsigned short N>
struct Dim {
  static constexpr int S = StensorDimeToSize<N>::value;
  static constexpr int T = TensorDimeToSize<N>::value;
  using H = LogarithmicStrainHandler<N, Sym>;

  static void set_oracle(const Pattern& pt) {
    auto& o = c24::oracle();
    c24::fill(o.vp, "vp", 3, pt.vp);
    if constexpr (N == 3) {
      c24::fill2(o.m, "m", 3, 3, M_SH);
    } else {
      // 2D: only the in-plane block is asked to the oracle
      for (int i = 0; i != 3; ++i)
        for (int j = 0; j != 3; ++j) o.m(i, j) = Sym(i == j ? 1 : 0);
      for (int i = 0; i != 2; ++i)
        for (int j = 0; j != 2; ++j)
          o.m(i, j) = c24::in("m" + std::to_string(i) + std::to_string(j),
                              M2_SH[3 * i + j]);
    }
  }
  static tensor<N, Sym> inputF() {
    tensor<N, Sym> F;
    c24::fill(F, "F", T, F_SH);
    return F;
  }
  /*! a handler all of whose data members are input symbols: the Builder is run on constants
   * (F = 1, oracle = (1,1,1), 1) to obtain an object, then every member is overwritten. */
  static H symbolic_handler(const Setting s, const Pattern& pt, const bool with_p = true) {
    auto& o = c24::oracle();
    for (int i = 0; i != 3; ++i) {
      o.vp[i] = Sym(1);
      for (int j = 0; j != 3; ++j) o.m(i, j) = Sym(i == j ? 1 : 0);
    }
    const auto Fid = tensor<N, Sym>::Id();
    auto b = [&] {
      if constexpr (N == 2) {
        return typename H::Builder(s, Fid, true);
      } else {
        return typename H::Builder(s, Fid);
      }
    }();
    verif::ctx().path.clear();
    set_oracle(pt);
    b.vp = o.vp;
    if constexpr (N == 2) {
      // the real 2D wrapper passes C_zz through as third eigenvalue: here a free symbol vp2
      b.vp[2] = o.vp[2];
    }
    b.m = o.m;
    for (int i = 0; i != 3; ++i)
      b.e[i] = c24::in("e" + std::to_string(i), std::log(pt.vp[i]) / 2);
    if (with_p) c24::fillg2(b.p, "p", S, S);
    const auto F = inputF();
    return H(std::move(b), s, F);
  }


  /*! cut points (see checks/c24emit.py): the tracer recomputes intermediate quantities of
   * convertTangentModuli with the real static helpers (getNTensors, getEulerianMTensors,
   * areEigenValuesEqual, findSingleEigenValue) and with a verbatim copy of the `xsi`, `eta`, `dzeta`
   * lambdas; the CSE of symtrace maps them onto the nodes computed inside the traced call, and the
   * emitter turns these nodes into parameters of the outputs. A marker that does not coincide with a
   * node of the traced call is an unused parameter (soundness never depends on the markers). */
  static void mark_NM(const H& h, const Setting s) {
    const auto Nn = H::getNTensors(h.m);
    if constexpr (N == 3) {
      for (int i = 0; i != 3; ++i)
        for (int j = 0; j != 3; ++j)
          for (int k = 0; k != S; ++k)
            verif::output("cut_N" + std::to_string(i) + std::to_string(j) + "_" + std::to_string(k),
                          Sym(Nn(i, j)[k]));
    } else {
      for (int i = 0; i != 4; ++i)
        for (int k = 0; k != S; ++k)
          verif::output("cut_N" + std::to_string(i) + "_" + std::to_string(k), Sym(Nn(i)[k]));
    }
    if (s == EUL) {
      const auto Mm = H::getEulerianMTensors(h.m, h.F);
      if constexpr (N == 3) {
        for (int i = 0; i != 3; ++i)
          for (int j = 0; j != 3; ++j)
            for (int k = 0; k != S; ++k)
              verif::output("cut_M" + std::to_string(i) + std::to_string(j) + "_" + std::to_string(k),
                            Sym(Mm(i, j)[k]));
      } else {
        for (int i = 0; i != 4; ++i)
          for (int k = 0; k != S; ++k)
            verif::output("cut_M" + std::to_string(i) + "_" + std::to_string(k), Sym(Mm(i)[k]));
      }
    }
  }
  static void mark_tangent(const H& h, const Setting s, const stensor<N, Sym>& T) {
    using real = Sym;
    using size_type = unsigned short;
    mark_NM(h, s);
    const auto Nn = H::getNTensors(h.m);
    const auto d = map([](const real x) { return 1 / (2 * x); }, h.vp);
    const auto f = map([](const real x) { return -2 / (x * x); }, h.vp);
    for (int i = 0; i != 3; ++i) verif::output("cut_f" + std::to_string(i), f[i]);
    if constexpr (N == 3) {
      const auto lk = [](const size_type i, const size_type j) -> size_type {
        if (i == 0) {
          return (j == 1) ? 2 : 1;
        }
        if (i == 1) {
          return (j == 0) ? 2 : 0;
        }
        return (j == 0) ? 1 : 0;
      };
      // verbatim copy of the lambdas of convertTangentModuli (3D)
      const auto xsi = [&h, &d, &f]() -> tmatrix<3u, 3u, real> {
        if (H::areEigenValuesEqual(h.vp)) {
          constexpr auto zero = real{0};
          const auto rv = (f[0] + f[1] + f[2]) / 24;
          return {zero, rv, rv, rv, zero, rv, rv, rv, zero};
        }
        auto r = tmatrix<3u, 3u, real>{};
        const auto k = H::findSingleEigenValue(h.vp);
        if (k != 3) {
          for (size_type i = 0; i != 3; ++i) {
            for (size_type j = 0; j != 3; ++j) {
              if (i == j) {
                r(i, j) = real{};
              } else if ((i == k) || (j == k)) {
                const auto idvp = 1 / (h.vp[i] - h.vp[j]);
                r(i, j) = ((h.e[i] - h.e[j]) * idvp - d[j]) * idvp;
              } else {
                r(i, j) = (f[i] + f[j]) / 16;
              }
            }
          }
          return r;
        }
        for (size_type i = 0; i != 3; ++i) {
          for (size_type j = 0; j != 3; ++j) {
            if (i == j) {
              r(i, j) = real{};
            } else {
              const auto idvp = 1 / (h.vp[i] - h.vp[j]);
              r(i, j) = ((h.e[i] - h.e[j]) * idvp - d[j]) * idvp;
            }
          }
        }
        return r;
      }();
      const auto eta = [&h, &lk, &f, &d] {
        if (H::areEigenValuesEqual(h.vp)) {
          return (f[0] + f[1] + f[2]) / 24;
        }
        const auto u = H::findSingleEigenValue(h.vp);
        if (u != 3) {
          const auto i = (u == 2) ? 0 : 2;
          const auto idvp = 1 / (h.vp[u] - h.vp[i]);
          return ((h.e[u] - h.e[i]) * idvp - d[i]) * idvp;
        }
        auto r = real{};
        for (size_type i = 0; i != 3; ++i) {
          for (size_type j = 0; j != 3; ++j) {
            if (i == j) {
              continue;
            }
            const auto k = lk(i, j);
            r += h.e[i] / (2 * (h.vp[i] - h.vp[j]) * (h.vp[i] - h.vp[k]));
          }
        }
        return r;
      }();
      for (int i = 0; i != 3; ++i)
        for (int j = 0; j != 3; ++j) {
          if (i != j) verif::output("cut_xi" + std::to_string(i) + std::to_string(j), xsi(i, j));
          verif::output("cut_z" + std::to_string(i) + std::to_string(j), Sym((T | Nn(i, j)) / 2));
        }
      verif::output("cut_eta", eta);
    } else {
      const auto xsi = [&h, &d, &f]() -> tvector<2u, real> {
        if (tfel::math::abs(h.vp[0] - h.vp[1]) < H::eps) {
          const auto rv = (f[0] + f[1]) / 16;
          return {rv, rv};
        }
        const auto idvp = 1 / (h.vp[0] - h.vp[1]);
        return {((h.e[0] - h.e[1]) * idvp - d[1]) * idvp,
                -((h.e[0] - h.e[1]) * idvp - d[0]) * idvp};
      }();
      verif::output("cut_xi0", xsi[0]);
      verif::output("cut_xi1", xsi[1]);
      verif::output("cut_z0", Sym((T | Nn(0)) / 2));
      verif::output("cut_z1", Sym((T | Nn(1)) / 2));
      verif::output("cut_z3", Sym((T | Nn(3)) / 2));
    }
    // the markers evaluate eps-branches themselves: do not record them twice
  }

  static void builder(const Setting s, const Pattern& pt) {
    Unit u(std::string("N") + std::to_string(N) + (s == LAG ? "_L" : "_E") +
           "_builder" + pt.tag);
    set_oracle(pt);
    const auto F = inputF();
    const H h(s, F);
    if (s == EUL) mark_NM(h, s);
    verif::outputs("e", h.e, 3);
    verif::outputs("vpo", h.vp, 3);
    verif::outputs2("p", h.p, S, S);
    if (s == LAG && std::string(pt.tag).empty()) {
      const stensor<N, Sym> el = h.getHenckyLogarithmicStrain();
      verif::outputs("el", el, S);
      // Abaqus/Standard convention overload
      Sym ea[6];
      h.getHenckyLogarithmicStrain(ea);
      for (int i = 0; i != S; ++i) verif::output("ea" + std::to_string(i), ea[i]);
      const stensor<N, Sym> C = computeRightCauchyGreenTensor(F);
      verif::outputs("C", C, S);
    }
  }

  static void stresses() {
    const std::string d = "N" + std::to_string(N);
    {
      Unit u(d + "_L_toPK2");
      const H h = symbolic_handler(LAG, GENERIC);
      stensor<N, Sym> Ts;
      c24::fillg(Ts, "T", S);
      const stensor<N, Sym> r = h.convertToSecondPiolaKirchhoffStress(Ts);
      verif::outputs("S", r, S);
    }
    {
      Unit u(d + "_L_fromPK2");
      const H h = symbolic_handler(LAG, GENERIC);
      stensor<N, Sym> Ss;
      c24::fillg(Ss, "S", S);
      c24::inv_oracle().on = true;
      const stensor<N, Sym> r = h.convertFromSecondPiolaKirchhoffStress(Ss);
      c24::inv_oracle().on = false;
      verif::outputs("T", r, S);
    }
    {
      Unit u(d + "_L_toCauchy");
      const H h = symbolic_handler(LAG, GENERIC);
      stensor<N, Sym> Ts;
      c24::fillg(Ts, "T", S);
      const stensor<N, Sym> r = h.convertToCauchyStress(Ts);
      verif::outputs("s", r, S);
    }
    {
      Unit u(d + "_E_toCauchy");
      const H h = symbolic_handler(EUL, GENERIC);
      stensor<N, Sym> Ts;
      c24::fillg(Ts, "T", S);
      const stensor<N, Sym> r = h.convertToCauchyStress(Ts);
      verif::outputs("s", r, S);
    }
    {
      Unit u(d + "_E_fromCauchy");
      const H h = symbolic_handler(EUL, GENERIC);
      stensor<N, Sym> ss;
      c24::fillg(ss, "s", S);
      c24::inv_oracle().on = true;
      const stensor<N, Sym> r = h.convertFromCauchyStress(ss);
      c24::inv_oracle().on = false;
      verif::outputs("T", r, S);
    }
  }

  static void tangent(const Setting s, const Pattern& pt) {
    const std::string d = "N" + std::to_string(N);
    Unit u(d + (s == LAG ? "_L_material" : "_E_spatial") + pt.tag);
    const H h = symbolic_handler(s, pt);
    stensor<N, Sym> Ts;
    c24::fillg(Ts, "T", S);
    st2tost2<N, Sym> Ks;
    c24::fillg2(Ks, "K", S, S);
    {
      const auto npath = verif::ctx().path.size();
      mark_tangent(h, s, Ts);
      verif::ctx().path.resize(npath);
    }
    const st2tost2<N, Sym> r = (s == LAG) ? h.convertToMaterialTangentModuli(Ks, Ts)
                                          : h.convertToSpatialTangentModuli(Ks, Ts);
    verif::outputs2("Kr", r, S, S);
  }
  static void truesdell() {
    Unit u("N" + std::to_string(N) + "_E_truesdell");
    const H h = symbolic_handler(EUL, GENERIC);
    stensor<N, Sym> Ts;
    c24::fillg(Ts, "T", S);
    st2tost2<N, Sym> Ks;
    c24::fillg2(Ks, "K", S, S);
    {
      const auto npath = verif::ctx().path.size();
      mark_tangent(h, EUL, Ts);
      verif::ctx().path.resize(npath);
    }
    const st2tost2<N, Sym> r = h.convertToCauchyStressTruesdellRateTangentModuli(Ks, Ts);
    verif::outputs2("Kr", r, S, S);
  }

  // ------------------------------------------------------------------------------------------------
  // "X" units (mutation audit 2026-09-22): functions of the handler that have no theorem and no closed
  // reference of their own. Each unit emits pairs (got<k>, exp<k>): got = what the function under test
  // returns, exp = the same quantity composed HERE from handler functions covered by the other units
  // (tensor overloads, material moduli, convertToCauchyStress) and from convert<> (property C23), with the
  // storage conventions (Abaqus/`tab` storage, column major tangent) written generically. checks/c24ref.py
  // evaluates both exactly at random inputs and requires got<k> = exp<k>. They are not emitted to Lean.
  static void pair(int& k, const Sym& got, const Sym& exp) {
    verif::output("got" + std::to_string(k), got);
    verif::output("exp" + std::to_string(k), exp);
    ++k;
  }
  //! scaling between TFEL (Mandel) and tab/Abaqus storage of component i
  static Sym fac(const int i) { return i < 3 ? Sym(1) : Cste<Sym>::sqrt2; }
  static std::string xname(const Setting s, const char* const what) {
    return "X" + std::to_string(N) + (s == LAG ? "_L_" : "_E_") + what;
  }
  static void x_stress_pointers(const Setting s) {
    Unit u(xname(s, "stress_ptr"));
    const H h = symbolic_handler(s, GENERIC);
    stensor<N, Sym> Xs;
    c24::fillg(Xs, "T", S);
    int k = 0;
    auto to_tab = [](Sym* const t, const stensor<N, Sym>& x) {
      for (int i = 0; i != S; ++i) t[i] = x[i] / fac(i);
    };
    auto cmp = [&k](const Sym* const t, const stensor<N, Sym>& x) {
      for (int i = 0; i != S; ++i) pair(k, t[i], x[i] / fac(i));
    };
    Sym t[6];
    c24::inv_oracle().on = true;
    if (s == LAG) {
      to_tab(t, Xs);
      h.convertToSecondPiolaKirchhoffStress(t);
      cmp(t, h.convertToSecondPiolaKirchhoffStress(Xs));
      to_tab(t, Xs);
      h.convertFromSecondPiolaKirchhoffStress(t);
      cmp(t, h.convertFromSecondPiolaKirchhoffStress(Xs));
      // Lagrangian convertFromCauchyStress = pull back to S, then the inverse of T -> S
      const stensor<N, Sym> Sb = convertCauchyStressToSecondPiolaKirchhoffStress(Xs, h.F);
      const stensor<N, Sym> Tb = h.convertFromSecondPiolaKirchhoffStress(Sb);
      const stensor<N, Sym> Tg = h.convertFromCauchyStress(Xs);
      for (int i = 0; i != S; ++i) pair(k, Tg[i], Tb[i]);
    }
    to_tab(t, Xs);
    h.convertToCauchyStress(t);
    cmp(t, h.convertToCauchyStress(Xs));
    to_tab(t, Xs);
    h.convertFromCauchyStress(t);
    cmp(t, h.convertFromCauchyStress(Xs));
    c24::inv_oracle().on = false;
  }
  static void x_moduli(const Setting s) {
    using FSTOBase = tfel::material::FiniteStrainBehaviourTangentOperatorBase;
    using tfel::material::convert;
    Unit u(xname(s, "moduli"));
    const H h = symbolic_handler(s, GENERIC);
    stensor<N, Sym> Ts;
    c24::fillg(Ts, "T", S);
    st2tost2<N, Sym> Ks;
    c24::fillg2(Ks, "K", S, S);
    int k = 0;
    auto cmp = [&k](const st2tost2<N, Sym>& g, const st2tost2<N, Sym>& e) {
      for (int i = 0; i != S; ++i)
        for (int j = 0; j != S; ++j) pair(k, g(i, j), e(i, j));
    };
    const auto F0 = tensor<N, Sym>::Id();
    const Sym J = det(h.F);
    const stensor<N, Sym> sig = h.convertToCauchyStress(Ts);
    st2tost2<N, Sym> e_sp, e_ab;
    if (s == LAG) {
      const st2tost2<N, Sym> Cse = h.convertToMaterialTangentModuli(Ks, Ts);
      e_sp = convert<FSTOBase::SPATIAL_MODULI, FSTOBase::DS_DEGL>(Cse, F0, h.F, sig);
      e_ab = convert<FSTOBase::ABAQUS, FSTOBase::DS_DEGL>(Cse, F0, h.F, sig);
      e_ab /= J;
      const st2tost2<N, Sym> g_sp = h.convertToSpatialTangentModuli(Ks, Ts);
      cmp(g_sp, e_sp);
    } else {
      e_sp = h.convertToSpatialTangentModuli(Ks, Ts);
      e_ab = convert<FSTOBase::ABAQUS, FSTOBase::SPATIAL_MODULI>(e_sp, F0, h.F, sig);
    }
    st2tost2<N, Sym> e_tr = e_sp;
    e_tr /= J;
    if (s == LAG) {
      const st2tost2<N, Sym> g_tr = h.convertToCauchyStressTruesdellRateTangentModuli(Ks, Ts);
      cmp(g_tr, e_tr);
    }
    const st2tost2<N, Sym> g_ab = h.convertToAbaqusTangentModuli(Ks, Ts);
    cmp(g_ab, e_ab);
    // pointer variants: Abaqus storage (column major, engineering shear scaling) in and out
    Sym t[6];
    for (int i = 0; i != S; ++i) t[i] = Ts[i] / fac(i);
    for (int v = 0; v != 2; ++v) {
      Sym kk[36];
      for (int i = 0; i != S; ++i)
        for (int j = 0; j != S; ++j) kk[i + S * j] = Ks(i, j) / (fac(i) * fac(j));
      if (v == 0) {
        h.convertToCauchyStressTruesdellRateTangentModuli(kk, t);
      } else {
        h.convertToAbaqusTangentModuli(kk, t);
      }
      const st2tost2<N, Sym>& e = (v == 0) ? e_tr : e_ab;
      for (int i = 0; i != S; ++i)
        for (int j = 0; j != S; ++j) pair(k, kk[i + S * j], e(i, j) / (fac(i) * fac(j)));
    }
  }
  static void x_misc(const Setting s) {
    {
      Unit u(xname(s, "axial"));
      H h = symbolic_handler(s, GENERIC);
      const auto F = h.getDeformationGradient();
      const Sym Fzz = c24::in("Fzz", 1.37);
      h.updateAxialDeformationGradient(Fzz);
      const auto& F2 = h.getDeformationGradient();
      int k = 0;
      // 2D: the axial component is F[2]; (3D has no such method)
      for (int i = 0; i != T; ++i) pair(k, F2[i], i == 2 ? Fzz : F[i]);
    }
    if (s == EUL) {
      Unit u(xname(s, "throw"));
      const H h = symbolic_handler(s, GENERIC);
      stensor<N, Sym> Ts;
      c24::fillg(Ts, "T", S);
      st2tost2<N, Sym> Ks;
      c24::fillg2(Ks, "K", S, S);
      int thrown = 0;
      c24::inv_oracle().on = true;
      try { h.convertToSecondPiolaKirchhoffStress(Ts); } catch (std::exception&) { thrown += 1; }
      try { h.convertFromSecondPiolaKirchhoffStress(Ts); } catch (std::exception&) { thrown += 2; }
      try { h.convertToMaterialTangentModuli(Ks, Ts); } catch (std::exception&) { thrown += 4; }
      Sym t[6];
      for (int i = 0; i != S; ++i) t[i] = Ts[i];
      try { h.convertToSecondPiolaKirchhoffStress(t); } catch (std::exception&) { thrown += 8; }
      try { h.convertFromSecondPiolaKirchhoffStress(t); } catch (std::exception&) { thrown += 16; }
      c24::inv_oracle().on = false;
      int k = 0;
      // the Lagrangian-only conversions must refuse an Eulerian handler (its p is the push-forward)
      pair(k, Sym(thrown), Sym(31));
    }
  }
  static void x_plane_stress(const Setting s) {
    Unit u(xname(s, "builder_ps"));
    set_oracle(GENERIC);
    const auto F = inputF();
    const H h1(s, F, true);
    const H h0(s, F, false);
    int k = 0;
    pair(k, h0.e[0], h1.e[0]);
    pair(k, h0.e[1], h1.e[1]);
    pair(k, h0.e[2], Sym(0));
    for (int i = 0; i != 3; ++i) pair(k, h0.vp[i], h1.vp[i]);
    for (int i = 0; i != S; ++i)
      for (int j = 0; j != S; ++j) pair(k, h0.p(i, j), h1.p(i, j));
  }
  //! Eulerian spatial moduli on the coalescing-eigenvalue branches (reference: checks/c24ref.py ref_tangent)
  static void x_spatial_eq(const Pattern& pt) {
    Unit u(xname(EUL, "spatial") + pt.tag);
    const H h = symbolic_handler(EUL, pt);
    stensor<N, Sym> Ts;
    c24::fillg(Ts, "T", S);
    st2tost2<N, Sym> Ks;
    c24::fillg2(Ks, "K", S, S);
    const st2tost2<N, Sym> r = h.convertToSpatialTangentModuli(Ks, Ts);
    verif::outputs2("Kr", r, S, S);
  }
  static void extra() {
    for (const auto s : {LAG, EUL}) {
      x_stress_pointers(s);
      x_moduli(s);
      if constexpr (N == 2) {
        x_misc(s);
        x_plane_stress(s);
      }
    }
    if constexpr (N == 3) {
      {
        Unit u(xname(EUL, "throw"));
        const H h = symbolic_handler(EUL, GENERIC);
        stensor<N, Sym> Ts;
        c24::fillg(Ts, "T", S);
        int thrown = 0;
        try { h.convertToSecondPiolaKirchhoffStress(Ts); } catch (std::exception&) { thrown += 1; }
        int k = 0;
        pair(k, Sym(thrown), Sym(1));
      }
      for (const auto* p : {&EQ01, &EQ02, &EQ12, &EQALL}) x_spatial_eq(*p);
    } else {
      x_spatial_eq(EQ01);
    }
  }
};

static void trace_1d() {
  using H = LogarithmicStrainHandler<1u, Sym>;
  auto mk = [](const Setting s) {
    tensor<1u, Sym> F;
    c24::fill(F, "F", 3, F_SH);
    return H(s, F);
  };
  for (const auto s : {LAG, EUL}) {
    const std::string d = std::string("N1_") + (s == LAG ? "L" : "E");
    {
      Unit u(d + "_hencky");
      const H h = mk(s);
      const stensor<1u, Sym> el = h.getHenckyLogarithmicStrain();
      verif::outputs("el", el, 3);
      Sym ea[3];
      h.getHenckyLogarithmicStrain(ea);
      for (int i = 0; i != 3; ++i) verif::output("ea" + std::to_string(i), ea[i]);
    }
    {
      Unit u(d + "_stresses");
      const H h = mk(s);
      stensor<1u, Sym> Ts;
      c24::fillg(Ts, "T", 3);
      const stensor<1u, Sym> S = h.convertToSecondPiolaKirchhoffStress(Ts);
      verif::outputs("S", S, 3);
      const stensor<1u, Sym> Tb = h.convertFromSecondPiolaKirchhoffStress(Ts);
      verif::outputs("Tb", Tb, 3);
      const stensor<1u, Sym> sg = h.convertToCauchyStress(Ts);
      verif::outputs("s", sg, 3);
      const stensor<1u, Sym> Tc = h.convertFromCauchyStress(Ts);
      verif::outputs("Tc", Tc, 3);
      Sym a[3] = {Ts[0], Ts[1], Ts[2]};
      h.convertToSecondPiolaKirchhoffStress(a);
      for (int i = 0; i != 3; ++i) verif::output("Sa" + std::to_string(i), a[i]);
    }
    {
      Unit u(d + "_tangent");
      const H h = mk(s);
      stensor<1u, Sym> Ts;
      c24::fillg(Ts, "T", 3);
      st2tost2<1u, Sym> Ks;
      c24::fillg2(Ks, "K", 3, 3);
      const st2tost2<1u, Sym> Km = h.convertToMaterialTangentModuli(Ks, Ts);
      verif::outputs2("Km", Km, 3, 3);
      const st2tost2<1u, Sym> Ksp = h.convertToSpatialTangentModuli(Ks, Ts);
      verif::outputs2("Ks", Ksp, 3, 3);
      const st2tost2<1u, Sym> Kt = h.convertToCauchyStressTruesdellRateTangentModuli(Ks, Ts);
      verif::outputs2("Kt", Kt, 3, 3);
    }
    {
      // pointer overloads and updateAxialDeformationGradient (see the "X" units of Dim<N>)
      Unit u(std::string("X1_") + (s == LAG ? "L" : "E") + "_ptr");
      H h = mk(s);
      stensor<1u, Sym> Ts;
      c24::fillg(Ts, "T", 3);
      st2tost2<1u, Sym> Ks;
      c24::fillg2(Ks, "K", 3, 3);
      int k = 0;
      auto pair = [&k](const Sym& got, const Sym& exp) {
        verif::output("got" + std::to_string(k), got);
        verif::output("exp" + std::to_string(k), exp);
        ++k;
      };
      auto cmp = [&pair](const Sym* const t, const stensor<1u, Sym>& x) {
        for (int i = 0; i != 3; ++i) pair(t[i], x[i]);
      };
      Sym t[3];
      auto load = [&t, &Ts] {
        for (int i = 0; i != 3; ++i) t[i] = Ts[i];
      };
      load();
      h.convertFromSecondPiolaKirchhoffStress(t);
      cmp(t, h.convertFromSecondPiolaKirchhoffStress(Ts));
      load();
      h.convertToCauchyStress(t);
      cmp(t, h.convertToCauchyStress(Ts));
      load();
      h.convertFromCauchyStress(t);
      cmp(t, h.convertFromCauchyStress(Ts));
      // Truesdell moduli, pointer variant: column major storage in and out
      Sym kk[9];
      for (int i = 0; i != 3; ++i)
        for (int j = 0; j != 3; ++j) kk[i + 3 * j] = Ks(i, j);
      load();
      h.convertToCauchyStressTruesdellRateTangentModuli(kk, t);
      const st2tost2<1u, Sym> Kt = h.convertToCauchyStressTruesdellRateTangentModuli(Ks, Ts);
      for (int i = 0; i != 3; ++i)
        for (int j = 0; j != 3; ++j) pair(kk[i + 3 * j], Kt(i, j));
      // axial deformation gradient: component 1 (zz) in 1D
      const auto F = h.getDeformationGradient();
      const Sym Fzz = c24::in("Fzz", 1.37);
      h.updateAxialDeformationGradient(Fzz);
      const auto& F2 = h.getDeformationGradient();
      for (int i = 0; i != 3; ++i) pair(F2[i], i == 1 ? Fzz : F[i]);
    }
  }
}

template <unsigned short N>
static void trace_dim() {
  using D = Dim<N>;
  D::builder(LAG, GENERIC);
  D::builder(EUL, GENERIC);
  D::stresses();
  D::tangent(LAG, GENERIC);
  D::tangent(EUL, GENERIC);
  D::truesdell();
  // coalescing eigenvalue (eps) branches
  D::builder(LAG, EQ01);
  D::builder(EUL, EQ01);
  D::tangent(LAG, EQ01);
  if constexpr (N == 3) {
    for (const auto* p : {&EQ02, &EQ12, &EQALL}) {
      D::builder(LAG, *p);
      D::builder(EUL, *p);
      D::tangent(LAG, *p);
    }
  }
  D::extra();
}

int main() {
  verif::ctx().concolic = true;
  trace_1d();
  trace_dim<2u>();
  trace_dim<3u>();
  return 0;
}
