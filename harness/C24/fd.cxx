// C24 replay helper (double precision, the shipped code): at a deformation gradient F = M diag(sqrt vp) M^T
// and a dual stress T, compare the directional derivative of S = convertToSecondPiolaKirchhoffStress(T)
// (central finite difference along a fixed direction G, T held fixed, Ks = 0) with
// convertToMaterialTangentModuli(0, T) : dE_GL. stdin: vp0 vp1 vp2 m00..m22 T0..T5 (Mandel).
#include <cmath>
#include <cstdio>
#include <iostream>
#include "TFEL/Math/stensor.hxx"
#include "TFEL/Math/tensor.hxx"
#include "TFEL/Math/st2tost2.hxx"
#include "TFEL/Material/LogarithmicStrainHandler.hxx"
using namespace tfel::math;
using H = tfel::material::LogarithmicStrainHandler<3u, double>;
int main() {
  double vp[3], m[3][3], Tv[6];
  for (auto& x : vp) std::cin >> x;
  for (auto& r : m)
    for (auto& x : r) std::cin >> x;
  for (auto& x : Tv) std::cin >> x;
  if (!std::cin) return 2;
  double U[3][3];
  for (int i = 0; i != 3; ++i)
    for (int j = 0; j != 3; ++j) {
      U[i][j] = 0;
      for (int k = 0; k != 3; ++k) U[i][j] += m[i][k] * std::sqrt(vp[k]) * m[j][k];
    }
  const tensor<3u, double> F = {U[0][0], U[1][1], U[2][2], U[0][1], U[1][0], U[0][2], U[2][0], U[1][2], U[2][1]};
  const stensor<3u, double> T = {Tv[0], Tv[1], Tv[2], Tv[3], Tv[4], Tv[5]};
  const st2tost2<3u, double> Ks(0.);
  const H h(H::LAGRANGIAN, F);
  const auto Kr = h.convertToMaterialTangentModuli(Ks, T);
  const tensor<3u, double> G = {0.3, -0.2, 0.5, 0.4, -0.1, 0.25, 0.35, -0.3, 0.15};
  const double eps = 1e-6;
  auto S_of = [&](const double t) {
    const tensor<3u, double> Ft = F + t * G;
    const H ht(H::LAGRANGIAN, Ft);
    return ht.convertToSecondPiolaKirchhoffStress(T);
  };
  auto E_of = [&](const double t) {
    const tensor<3u, double> Ft = F + t * G;
    return computeGreenLagrangeTensor(Ft);
  };
  const stensor<3u, double> dS = (S_of(eps) - S_of(-eps)) / (2 * eps);
  const stensor<3u, double> dE = (E_of(eps) - E_of(-eps)) / (2 * eps);
  const stensor<3u, double> dS2 = Kr * dE;
  double worst = 0;
  for (int i = 0; i != 6; ++i) {
    std::printf("dS[%d] finite_difference=%.10g Kr:dE=%.10g diff=%.3e\n", i, dS[i], dS2[i], dS[i] - dS2[i]);
    worst = std::max(worst, std::abs(dS[i] - dS2[i]));
  }
  std::printf("max_abs_diff=%.3e\n", worst);
  return 0;
}
