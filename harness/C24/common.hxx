/*!
 * \file harness/C24/common.hxx
 * \brief T1 tracing support shared by the C24 and C55 tracers:
 *  - `std::log1p` for Sym (uninterpreted call `log1p`);
 *  - the **eigen-solver oracle**: the two numerical kernels used by
 *    `stensor<N,T>::computeEigenVectors<FSESJACOBIEIGENSOLVER>` (3D:
 *    `fses::syevj3`, 2D: `FSESAnalyticalSymmetricEigensolver2x2::
 *    computeEigenVectors`) are explicitly specialised for Sym and return the
 *    eigenvalues / eigenvectors stored in `c24::oracle()` (fresh input symbols
 *    `vp*`, `m**`). Everything around them (Mandel <-> matrix conversion, the 2D
 *    wrapper which passes C_zz through and fills the third row/column, the
 *    std::tie in the Builder) is the real code.
 *  Compile with -fno-access-control (the tracers read the private members
 *  `p`, `e`, `vp`, `m` and call the private Builder / convertTangentModuli).
 */
#ifndef VERIF_C24_COMMON_HXX
#define VERIF_C24_COMMON_HXX

#include <cmath>
#include <utility>
#include <vector>
#include "sym.hxx"

namespace verif {
  inline Sym log1p(const Sym& x) {
    return make_call("log1p", {x}, std::log1p(x.shadow()));
  }
}  // namespace verif
namespace std {
  using verif::log1p;
}

#include "tracehelp.hxx"
#include "TFEL/Math/tvector.hxx"
#include "TFEL/Math/tmatrix.hxx"
#include "FSES/syevj3.hxx"
#include "TFEL/Math/Stensor/Internals/FSESSymmetricEigenSolver.hxx"

namespace c24 {
  struct Oracle {
    tfel::math::tvector<3u, verif::Sym> vp;
    tfel::math::tmatrix<3u, 3u, verif::Sym> m;
    //! answers for successive calls (C55: one decomposition per handler); when empty, (vp, m) is answered
    std::vector<std::pair<tfel::math::tvector<3u, verif::Sym>, tfel::math::tmatrix<3u, 3u, verif::Sym>>> queue;
    int calls = 0;
    void next() {
      if (!queue.empty()) {
        vp = queue.front().first;
        m = queue.front().second;
        queue.erase(queue.begin());
      }
      ++calls;
    }
  };
  inline Oracle& oracle() {
    static Oracle o;
    return o;
  }
}  // namespace c24

// 3D kernel: Jacobi solver -> oracle
template <>
inline int fses::syevj3<tfel::math::tmatrix<3u, 3u, verif::Sym>,
                        tfel::math::tvector<3u, verif::Sym>,
                        tfel::math::tmatrix<3u, 3u, verif::Sym>>(
    tfel::math::tmatrix<3u, 3u, verif::Sym>& Q,
    tfel::math::tvector<3u, verif::Sym>& w,
    tfel::math::tmatrix<3u, 3u, verif::Sym>&) {
  auto& o = c24::oracle();
  o.next();
  Q = o.m;
  w = o.vp;
  return 0;
}

namespace tfel::math::internals {
  // 2D kernel: analytical 2x2 solver -> oracle (only the in-plane block, as the
  // real kernel; it also nullifies the unused terms like the real kernel)
  template <>
  inline void
  FSESAnalyticalSymmetricEigensolver2x2<verif::Sym>::computeEigenVectors(
      tvector<3u, verif::Sym>& vp,
      tmatrix<3u, 3u, verif::Sym>& m,
      const verif::Sym,
      const verif::Sym,
      const verif::Sym) {
    auto& o = c24::oracle();
    o.next();
    m(0, 2) = m(1, 2) = m(2, 2) = m(2, 0) = m(2, 1) = verif::Sym(0);
    vp(0) = o.vp(0);
    vp(1) = o.vp(1);
    m(0, 0) = o.m(0, 0);
    m(0, 1) = o.m(0, 1);
    m(1, 0) = o.m(1, 0);
    m(1, 1) = o.m(1, 1);
  }
}  // namespace tfel::math::internals

namespace c24 {
  using verif::Sym;
  //! input symbol with a chosen default shadow (overridable by VERIF_SHADOW)
  inline Sym in(const std::string& name, const double dflt) {
    return verif::scalar_input(name, dflt);
  }
  template <typename T>
  void fill(T& t, const std::string& p, const int n, const double* const v) {
    for (int i = 0; i != n; ++i) t[i] = in(p + std::to_string(i), v[i]);
  }
  template <typename T>
  void fill2(T& t, const std::string& p, const int n, const int m,
             const double* const v) {
    for (int i = 0; i != n; ++i)
      for (int j = 0; j != m; ++j)
        t(i, j) = in(p + std::to_string(i) + std::to_string(j), v[i * m + j]);
  }
  //! generic (hash based) shadows
  template <typename T>
  void fillg(T& t, const std::string& p, const int n) {
    for (int i = 0; i != n; ++i)
      t[i] = in(p + std::to_string(i), verif::shadow_value(p, i));
  }
  template <typename T>
  void fillg2(T& t, const std::string& p, const int n, const int m) {
    for (int i = 0; i != n; ++i)
      for (int j = 0; j != m; ++j)
        t(i, j) = in(p + std::to_string(i) + "_" + std::to_string(j),
                     verif::shadow_value(p + std::to_string(i), j));
  }
}  // namespace c24

#endif
