// C31 correspondence harness: runs the real CxxTokenizer (compiled from the tree into this binary,
// sanitizers on) on hex-encoded inputs.
// stdin : "<options> <hex bytes>"    options = "-" or letters toggling CxxTokenizerOptions fields
// stdout: "ok c=<0|1> r=<0|1> d=<hex>|<tokens>|<tokens after stripComments>|<comments map>|<numbers>"
//         or "err <hex of what()> e=<empty><c><r>"; token = flag,line,offset,hex(value),hex(comment)
// A CPU-time watchdog (2 s per input) prints "HANG" and exits with status 3.
#include <csignal>
#include <cstdint>
#include <cstring>
#include <iostream>
#include <sstream>
#include <string>
#include <sys/time.h>
#include <unistd.h>
#include "TFEL/Utilities/CxxTokenizer.hxx"

using namespace tfel::utilities;

struct Tk : public CxxTokenizer {
  explicit Tk(const CxxTokenizerOptions& o) : CxxTokenizer(o) {}
  const std::map<Token::size_type, std::string>& getComments() const { return this->comments; }
};

static std::string hex(const std::string& s) {
  static const char* d = "0123456789abcdef";
  if (s.empty()) return "-";
  std::string r;
  for (const unsigned char c : s) {
    r += d[c >> 4];
    r += d[c & 15];
  }
  return r;
}

static int hv(const char c) {
  if (c >= '0' && c <= '9') return c - '0';
  if (c >= 'a' && c <= 'f') return c - 'a' + 10;
  return -1;
}

static bool unhex(const std::string& h, std::string& out) {
  out.clear();
  if (h == "-") return true;
  if (h.size() % 2) return false;
  for (std::size_t i = 0; i < h.size(); i += 2) {
    const int a = hv(h[i]), b = hv(h[i + 1]);
    if (a < 0 || b < 0) return false;
    out += static_cast<char>(a * 16 + b);
  }
  return true;
}

static void arm(const int);
// AddressSanitizer calls this hook when it detects an error: its report must not be cut by the watchdog
extern "C" void __asan_on_error() { arm(0); }

static void on_alarm(int) {
  const char m[] = "HANG\n";
  if (write(1, m, sizeof(m) - 1) < 0) {
  }
  _exit(3);
}

static void arm(const int s) {
  struct itimerval t;
  std::memset(&t, 0, sizeof(t));
  t.it_value.tv_sec = s;
  setitimer(ITIMER_PROF, &t, nullptr);
}

static bool options(const std::string& s, CxxTokenizerOptions& o) {
  if (s == "-") return true;
  for (const char c : s) {
    switch (c) {
      case 'k': o.bKeepCommentBoundaries = true; break;
      case 'm': o.shallMergeStrings = true; break;
      case 'h': o.allowStrayHashCharacter = true; break;
      case 'H': o.treatHashCharacterAsCommentDelimiter = true; break;
      case 'b': o.allowStrayBackSlash = true; break;
      case 'p': o.treatPreprocessorDirectives = false; break;
      case 's': o.treatStrings = false; break;
      case 'n': o.treatNumbers = false; break;
      case 'c': o.treatCComments = false; break;
      case 'x': o.treatCxxComments = false; break;
      case 'j': o.joinCxxTwoCharactersSeparators = false; break;
      case 'g': o.graveAccentAsSeparator = false; break;
      case 'q': o.charAsString = true; break;
      case 'd': o.dotAsSeparator = false; break;
      case 'P': o.plusAsSeparator = false; break;
      case 'M': o.minusAsSeparator = false; break;
      case 'B': o.addCurlyBraces = true; break;
      default: return false;
    }
  }
  return true;
}

static void tokens(std::ostream& os, const CxxTokenizer& t) {
  bool first = true;
  for (const auto& k : t) {
    if (!first) os << ';';
    first = false;
    os << static_cast<int>(k.flag) << ',' << k.line << ',' << k.offset << ',' << hex(k.value) << ','
       << hex(k.comment);
  }
}

int main() {
  std::signal(SIGPROF, on_alarm);
  std::ios::sync_with_stdio(false);
  std::string line;
  while (std::getline(std::cin, line)) {
    std::istringstream is(line);
    std::string so, sh, in;
    is >> so >> sh;
    CxxTokenizerOptions o;
    if (!options(so, o) || !unhex(sh, in)) {
      std::cout << "bad-request" << std::endl;
      continue;
    }
    arm(2);
    std::ostringstream os;
    Tk t(o);
    try {
      t.parseString(in);
    } catch (std::exception& e) {
      arm(0);
      std::cout << "err " << hex(e.what()) << " e=" << (t.empty() ? 1 : 0)
                << (t.isCStyleCommentOpened() ? 1 : 0) << (t.isRawStringOpened() ? 1 : 0) << std::endl;
      continue;
    }
    os << "ok c=" << (t.isCStyleCommentOpened() ? 1 : 0) << " r=" << (t.isRawStringOpened() ? 1 : 0)
       << " d=" << hex(t.getCurrentRawStringDelimiter()) << '|';
    tokens(os, t);
    os << '|';
    // number extraction on the unstripped token list
    std::ostringstream ns;
    {
      bool first = true;
      std::size_t i = 0;
      for (auto p = t.begin(); p != t.end(); ++p, ++i) {
        if (p->flag != Token::Number) continue;
        if (!first) ns << ';';
        first = false;
        ns << i << ',';
        try {
          auto q = p;
          const double v = CxxTokenizer::readDouble(q, t.end());
          std::uint64_t b;
          std::memcpy(&b, &v, sizeof(b));
          ns << std::hex << b << std::dec << (q == std::next(p) ? "" : "!");
        } catch (std::exception&) {
          ns << 'x';
        }
        ns << ',';
        try {
          auto q = p;
          const int v = CxxTokenizer::readInt(q, t.end());
          ns << v;
        } catch (std::exception&) {
          ns << 'x';
        }
        ns << ',';
        try {
          auto q = p;
          const unsigned int v = CxxTokenizer::readUnsignedInt(q, t.end());
          ns << v;
        } catch (std::exception&) {
          ns << 'x';
        }
      }
    }
    t.stripComments();
    tokens(os, t);
    os << '|';
    {
      bool first = true;
      for (const auto& c : t.getComments()) {
        if (!first) os << ';';
        first = false;
        os << c.first << ',' << hex(c.second);
      }
    }
    os << '|' << ns.str();
    arm(0);
    std::cout << os.str() << std::endl;
  }
  return 0;
}
