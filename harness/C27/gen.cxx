// C27 generator side: the wrappers of mfront/src/BehaviourCodeGeneratorBase.cxx that decide WHICH bounds
// checks a generated behaviour contains: writeBoundsChecks / writePhysicalBoundsChecks (one statement per
// element of an array variable, "N", "policy", this->), writeBehaviourCheckBounds (the generated checkBounds
// method: physical bounds always, standard bounds unless the policy is fixed to None) and the end of
// writeBehaviourIntegrator (persistent variables after integration).
// BehaviourCodeGeneratorBase.cxx and CodeGeneratorUtilities.cxx of the tree under test are compiled INTO
// this binary; BehaviourDescription, VariableDescription ... come from libTFELMFront.
//   in : gen<TAB><default policy None|Warning|Strict><TAB><runtime modification 0|1><TAB><runtime checks disabled 0|1><TAB>v;v;...
//        v = <category mp|sv|asv|esv|loc>:<type>:<name>:<array size>:<physical bounds>:<standard bounds>
//        bounds = - | lower,<lo> | upper,<up> | both,<lo>,<up>
//   out: <checkBounds text, newlines escaped><TAB><BoundsCheck statements of integrate(), newlines escaped>
#include <cstdlib>
#include <functional>
#include <iostream>
#include <sstream>
#include <string>
#include <vector>
#include "MFront/SupportedTypes.hxx"
#include "MFront/FileDescription.hxx"
#include "MFront/BehaviourDescription.hxx"
#include "MFront/VariableDescription.hxx"
#include "MFront/VariableBoundsDescription.hxx"
#include "MFront/MaterialKnowledgeDescription.hxx"
#include "MFront/BehaviourCodeGeneratorBase.hxx"

// not exported by libTFELMFront (hidden visibility) although BehaviourCodeGeneratorBase.cxx refers to it:
// same one-line definition as in mfront/src/SupportedTypes.cxx; not reached by the bounds-check emitters
namespace mfront {
  std::ostream& operator<<(std::ostream& os, const SupportedTypes::TypeSize& s) {
    os << s.asString();
    return os;
  }
}  // namespace mfront

namespace {

  struct Probe final : mfront::BehaviourCodeGeneratorBase {
    using mfront::BehaviourCodeGeneratorBase::BehaviourCodeGeneratorBase;
    void writeMaterialPropertyEvaluation(
        std::ostream&,
        const mfront::BehaviourDescription::MaterialProperty&,
        std::function<std::string(const MaterialPropertyInput&)>&) const override {}
    void checkBounds(std::ostream& os, const Hypothesis h) const { this->writeBehaviourCheckBounds(os, h); }
    void integrator(std::ostream& os, const Hypothesis h) const { this->writeBehaviourIntegrator(os, h); }
  };

  std::vector<std::string> split(const std::string& s, const char sep) {
    std::vector<std::string> r;
    std::string cur;
    for (const char c : s) {
      if (c == sep) {
        r.push_back(cur);
        cur.clear();
      } else {
        cur += c;
      }
    }
    r.push_back(cur);
    return r;
  }

  std::string esc(const std::string& s) {
    std::string r;
    for (const char c : s) {
      if (c == '\n') r += "\\n";
      else if (c == '\t') r += " ";
      else r += c;
    }
    return r;
  }

  bool bounds(const std::string& s, mfront::VariableBoundsDescription& b) {
    if (s == "-") return false;
    const auto f = split(s, ',');
    if (f[0] == "lower" && f.size() == 2) {
      b.boundsType = mfront::VariableBoundsDescription::LOWER;
      b.lowerBound = std::strtold(f[1].c_str(), nullptr);
    } else if (f[0] == "upper" && f.size() == 2) {
      b.boundsType = mfront::VariableBoundsDescription::UPPER;
      b.upperBound = std::strtold(f[1].c_str(), nullptr);
    } else if (f[0] == "both" && f.size() == 3) {
      b.boundsType = mfront::VariableBoundsDescription::LOWERANDUPPER;
      b.lowerBound = std::strtold(f[1].c_str(), nullptr);
      b.upperBound = std::strtold(f[2].c_str(), nullptr);
    } else {
      throw std::runtime_error("bad bounds '" + s + "'");
    }
    return true;
  }

}  // namespace

int main() {
  using Hypothesis = tfel::material::ModellingHypothesis;
  std::string line;
  while (std::getline(std::cin, line)) {
    const auto f = split(line, '\t');
    if (f.size() != 5 || f[0] != "gen") {
      std::cout << "bad-op\n";
      continue;
    }
    try {
      const auto h = Hypothesis::UNDEFINEDHYPOTHESIS;
      mfront::FileDescription fd;
      mfront::BehaviourDescription bd;
      bd.declareAsASmallStrainStandardBehaviour();
      bd.setBehaviourName("VerifBounds");
      mfront::setDefaultOutOfBoundsPolicy(bd, f[1]);
      bd.setAttribute(mfront::MaterialKnowledgeDescription::runtimeModificationOfTheOutOfBoundsPolicy, f[2] == "1",
                      false);
      if (f[3] == "1") {
        bd.setAttribute(mfront::MaterialKnowledgeDescription::disableRuntimeChecks, true, false);
      }
      if (!f[4].empty()) {
        for (const auto& vs : split(f[4], ';')) {
          const auto g = split(vs, ':');
          if (g.size() != 6) throw std::runtime_error("bad variable '" + vs + "'");
          mfront::VariableDescription v(g[1], g[2], static_cast<unsigned short>(std::atoi(g[3].c_str())), 0u);
          mfront::VariableBoundsDescription pb, sb;
          if (bounds(g[4], pb)) v.setPhysicalBounds(pb);
          if (bounds(g[5], sb)) v.setBounds(sb);
          if (g[0] == "mp") bd.addMaterialProperty(h, v);
          else if (g[0] == "sv") bd.addStateVariable(h, v);
          else if (g[0] == "asv") bd.addAuxiliaryStateVariable(h, v);
          else if (g[0] == "esv") bd.addExternalStateVariable(h, v);
          else if (g[0] == "loc") bd.addLocalVariable(h, v);
          else throw std::runtime_error("bad category '" + g[0] + "'");
        }
      }
      const Probe p(fd, bd, {});
      std::ostringstream cb;
      cb.precision(14);
      p.checkBounds(cb, h);
      std::string integ;
      try {
        std::ostringstream is;
        is.precision(14);
        p.integrator(is, h);
        std::istringstream lines(is.str());
        std::string l;
        while (std::getline(lines, l)) {
          if (l.find("BoundsCheck<") != std::string::npos) integ += l + "\n";
        }
        if (integ.empty()) integ = "none";
      } catch (std::exception& e) {
        integ = std::string("exception ") + e.what();
      }
      std::cout << esc(cb.str()) << "\t" << esc(integ) << "\n";
    } catch (std::exception& e) {
      std::cout << "exception\t" << esc(e.what()) << "\n";
    }
  }
  return 0;
}
