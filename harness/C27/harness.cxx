// C27 runtime side: calls the REAL tfel::material::BoundsCheck<N> templates (BoundsCheck.hxx +
// src/Material/BoundsCheck.cxx compiled into this binary) and reports what a caller observes:
// the exception that escaped (kind of message, component named) and the warnings printed on std::cerr.
//   in : rt <form> <N> <kind> <policy> <lb> <ub> <v…>      (integers, decoded to values of the tested type
//        by a strictly increasing map that also produces floating-point neighbours of the grid points)
//   out: thrown=<kind@comp|-> warned=<kind@comp,…|->
#include <cmath>
#include <cstdlib>
#include <iostream>
#include <sstream>
#include <string>
#include <vector>
#include "TFEL/Math/qt.hxx"
#include "TFEL/Math/stensor.hxx"
#include "TFEL/Material/BoundsCheck.hxx"
#include "TFEL/Material/MaterialException.hxx"

using namespace tfel::material;
using stress = tfel::math::qt<tfel::math::unit::Stress, double>;

// strictly increasing decoding Z -> T: n = 3q + r; r = 0: q/4 (exact), r = 1: next value above q/4,
// r = 2: next value below (q+1)/4
template <typename T>
static T decode(const long n) {
  long q = n / 3, r = n % 3;
  if (r < 0) {
    r += 3;
    q -= 1;
  }
  if constexpr (std::is_integral_v<T>) {
    return static_cast<T>(n);
  } else {
    const T a = static_cast<T>(q) / 4, b = static_cast<T>(q + 1) / 4;
    if (r == 0) return a;
    if (r == 1) return std::nextafter(a, b);
    return std::nextafter(b, a);
  }
}

enum class K { lower, upper, both };
enum class P { warning, strict, none, dflt };

static OutOfBoundsPolicy pol(const P p) {
  return p == P::warning ? Warning : (p == P::strict ? Strict : None);
}

template <unsigned short N, typename V, typename B>
static void call(const K k, const P p, const V& v, const B lb, const B ub) {
  using BC = BoundsCheck<N>;
  const std::string name = "x";
  if (k == K::lower) {
    if (p == P::dflt) BC::lowerBoundCheck(name, v, lb);
    else BC::lowerBoundCheck(name, v, lb, pol(p));
  } else if (k == K::upper) {
    if (p == P::dflt) BC::upperBoundCheck(name, v, ub);
    else BC::upperBoundCheck(name, v, ub, pol(p));
  } else {
    if (p == P::dflt) BC::lowerAndUpperBoundsChecks(name, v, lb, ub);
    else BC::lowerAndUpperBoundsChecks(name, v, lb, ub, pol(p));
  }
}

static std::string event_of(const std::string& msg) {
  std::string kind = "?";
  if (msg.find("is below its lower bound") != std::string::npos) kind = "lower";
  else if (msg.find("is above its upper bound") != std::string::npos) kind = "upper";
  else if (msg.find("is out of its bounds") != std::string::npos) kind = "both";
  const auto b = msg.find("variable '");
  std::string comp = "?";
  if (b != std::string::npos) {
    const auto e = msg.find('\'', b + 10);
    const auto n = msg.substr(b + 10, e - b - 10);
    if (n == "x") comp = "-";
    else if (n.size() == 4 && n.substr(0, 2) == "x(" && n[3] == ')') comp = std::string(1, n[2]);
  }
  return kind + "@" + comp;
}

template <typename F>
static std::string observe(F&& f) {
  std::ostringstream err;
  auto* old = std::cerr.rdbuf(err.rdbuf());
  std::string thrown = "-";
  try {
    f();
  } catch (OutOfBoundsException& e) {
    thrown = event_of(e.what());
  } catch (std::exception& e) {
    thrown = std::string("other-exception:") + e.what();
  }
  std::cerr.rdbuf(old);
  std::string w;
  std::istringstream lines(err.str());
  std::string l;
  while (std::getline(lines, l)) {
    if (!w.empty()) w += ",";
    w += event_of(l);
  }
  return "thrown=" + thrown + " warned=" + (w.empty() ? "-" : w);
}

template <unsigned short N, typename T>
static tfel::math::stensor<N, T> tensor(const std::vector<long>& v) {
  tfel::math::stensor<N, T> s;
  for (unsigned short i = 0; i != s.size(); ++i) s(i) = T(decode<double>(v[i]));
  return s;
}

template <unsigned short N>
static std::string run(const std::string& form, const K k, const P p, const long lb, const long ub, const std::vector<long>& v) {
  constexpr std::size_t ts = N == 1 ? 3 : (N == 2 ? 4 : 6);
  if (form == "s" || form == "sf" || form == "si" || form == "sl" || form == "q" || form == "qq") {
    if (v.size() != 1) return "bad-op";
    if (form == "s") return observe([&] { call<N>(k, p, decode<double>(v[0]), decode<double>(lb), decode<double>(ub)); });
    if (form == "sf") return observe([&] { call<N>(k, p, decode<float>(v[0]), decode<float>(lb), decode<float>(ub)); });
    if (form == "sl") return observe([&] { call<N>(k, p, decode<long double>(v[0]), decode<long double>(lb), decode<long double>(ub)); });
    if (form == "si") return observe([&] { call<N>(k, p, decode<int>(v[0]), decode<int>(lb), decode<int>(ub)); });
    if (form == "q") return observe([&] { call<N>(k, p, stress(decode<double>(v[0])), decode<double>(lb), decode<double>(ub)); });
    return observe([&] { call<N>(k, p, stress(decode<double>(v[0])), stress(decode<double>(lb)), stress(decode<double>(ub))); });
  }
  if (v.size() != ts) return "bad-op";
  if (form == "t") return observe([&] { call<N>(k, p, tensor<N, double>(v), decode<double>(lb), decode<double>(ub)); });
  if (form == "tq") return observe([&] { call<N>(k, p, tensor<N, stress>(v), decode<double>(lb), decode<double>(ub)); });
  if (form == "tqq") return observe([&] { call<N>(k, p, tensor<N, stress>(v), stress(decode<double>(lb)), stress(decode<double>(ub))); });
  return "bad-op";
}

int main() {
  std::string line;
  while (std::getline(std::cin, line)) {
    std::istringstream is(line);
    std::string rt, form, ks, ps;
    unsigned n;
    long lb, ub, x;
    if (!(is >> rt >> form >> n >> ks >> ps >> lb >> ub) || rt != "rt") {
      if (rt == "nan") {  // observation only: a NaN value under the Strict policy
        const double nan = std::nan("");
        std::cout << observe([&] { call<3u>(K::both, P::strict, nan, 0., 1.); }) << "\n";
        continue;
      }
      std::cout << "bad-op\n";
      continue;
    }
    std::vector<long> v;
    while (is >> x) v.push_back(x);
    const K k = ks == "lower" ? K::lower : (ks == "upper" ? K::upper : K::both);
    const P p = ps == "warning" ? P::warning : (ps == "strict" ? P::strict : (ps == "none" ? P::none : P::dflt));
    if ((ks != "lower" && ks != "upper" && ks != "both") || (ps != "warning" && ps != "strict" && ps != "none" && ps != "dflt")) {
      std::cout << "bad-op\n";
      continue;
    }
    std::string r = "bad-op";
    if (n == 1) r = run<1u>(form, k, p, lb, ub, v);
    if (n == 2) r = run<2u>(form, k, p, lb, ub, v);
    if (n == 3) r = run<3u>(form, k, p, lb, ub, v);
    std::cout << r << "\n";
  }
  return 0;
}
