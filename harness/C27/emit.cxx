// C27 emission side: calls the REAL mfront::writeBoundsChecks / mfront::writePhysicalBoundsChecks
// (mfront/src/CodeGeneratorUtilities.cxx of the current tree is compiled INTO this binary; the rest of
// MFront — VariableDescription, SupportedTypes — comes from libTFELMFront).
//   in : em<TAB>name<TAB>type<TAB>has<TAB>kind<TAB>lower<TAB>upper<TAB>dim<TAB>policy<TAB>addThis<TAB>checkEnd<TAB>physical
//   out: <isScalar><TAB><lower as printed><TAB><upper as printed><TAB><emitted text, newlines escaped>
#include <cstdlib>
#include <iostream>
#include <sstream>
#include <string>
#include <vector>
#include "MFront/VariableDescription.hxx"
#include "MFront/VariableBoundsDescription.hxx"
#include "MFront/CodeGeneratorUtilities.hxx"

static std::vector<std::string> split(const std::string& s) {
  std::vector<std::string> r;
  std::string cur;
  for (const char c : s) {
    if (c == '\t') {
      r.push_back(cur);
      cur.clear();
    } else {
      cur += c;
    }
  }
  r.push_back(cur);
  return r;
}

static std::string esc(const std::string& s) {
  std::string r;
  for (const char c : s) {
    if (c == '\n') r += "\\n";
    else r += c;
  }
  return r;
}

static std::string printed(const long double x) {
  std::ostringstream os;
  os.precision(14);  // as set by the behaviour code generators on their output files
  os << x;
  return os.str();
}

int main() {
  std::string line;
  while (std::getline(std::cin, line)) {
    const auto f = split(line);
    if (f.size() != 12 || f[0] != "em") {
      std::cout << "bad-op\n";
      continue;
    }
    try {
      mfront::VariableDescription v(f[2], f[1], 1u, 0u);
      // the name handed to writeBoundsChecks may designate an array element (see
      // BehaviourCodeGeneratorBase::writeBoundsChecks): it is an argument, not v.name
      const auto n = f[1];
      const bool has = f[3] == "1", physical = f[11] == "1";
      mfront::VariableBoundsDescription b;
      b.boundsType = f[4] == "lower" ? mfront::VariableBoundsDescription::LOWER
                                     : (f[4] == "upper" ? mfront::VariableBoundsDescription::UPPER
                                                        : mfront::VariableBoundsDescription::LOWERANDUPPER);
      if (f[4] != "upper") b.lowerBound = std::strtold(f[5].c_str(), nullptr);
      if (f[4] != "lower") b.upperBound = std::strtold(f[6].c_str(), nullptr);
      // name of the description: strip a possible [i]
      if (has) {
        if (physical) v.setPhysicalBounds(b);
        else v.setBounds(b);
      }
      std::ostringstream os;
      os.precision(14);
      if (physical) mfront::writePhysicalBoundsChecks(os, v, n, f[7], f[9] == "1", f[10] == "1");
      else mfront::writeBoundsChecks(os, v, n, f[7], f[8], f[9] == "1", f[10] == "1");
      std::cout << (v.isScalar() ? "1" : "0") << "\t" << printed(b.lowerBound) << "\t" << printed(b.upperBound) << "\t"
                << esc(os.str()) << "\n";
    } catch (std::exception& e) {
      std::cout << "exception\t" << esc(e.what()) << "\n";
    }
  }
  return 0;
}
