// C07 correspondence harness: calls the real dense solvers in-process on `double`.
// stdin : one request per line, floating-point data as the 16 hex digits of the IEEE-754 bits
//   lu|lut n eps A            -> ok d p(n) m(n*n) | fail     (lu: matrix<double>+Permutation, lut: tmatrix+TinyPermutation)
//   lusolve n eps A b         -> ok x(n)          | fail     (LUSolve::exe, default eps: the eps field is ignored)
//   tsolve|tsolvex n eps A b  -> ok x(n)          | fail     (TinyMatrixSolve<N,double,false|true>::exe)
//   tsolvem n mc eps A B      -> ok X(n*mc)       | fail
//   tinv n eps eps0 A         -> ok Ainv(n*n)     | fail     (TinyMatrixInvert<N,double>::exe(m, eps); eps0 ignored = default)
//   qr n e A b                -> ok x(n) rdiag(n) beta(n) a(n*n) | fail rdiag beta a
// stdout: same format as lean/TfelVerif/C07/Driver.lean
// Variants of the same entry points (same request/answer format as the base op given in parentheses; the
// check sends the base op to the model):
//   tsolvemx (tsolvem)  TinyMatrixSolve<N,double,true>::exe(m, tmatrix<N,M>)   (exceptions, matrix rhs)
//   tsolved|tsolvexd (tsolve), tsolvemd (tsolvem), qrd (qr)  : the DEFAULT eps argument (eps field ignored)
//   tsolvec|tsolvecx (tsolve), tsolvemc (tsolvem), lutc (lut): perform_runtime_checks = true  (N <= C07_NCHK)
//   luc|lux|luxc (lu)   LUDecomp<false,true> | LUDecomp<true,false> | LUDecomp<true,true> on matrix+Permutation
//   lur (lu)            Permutation of another size, swapped, then resize(n)
//   lusolve4 (lusolve)  LUSolve::exe(m,b,x,p) with a permutation left dirty by a previous use
//   lubs (lusolve)      LUDecomp<true>::exe(m,p,eps) + LUSolve::back_substitute(m,b,x,p)   (eps honoured)
//   tperm n k i1 j1..ik jk v(n) -> ok isIdentity p(n) v(n)   TinyPermutation<N>: k swaps then exe(v)
#include <cmath>
#include <cstdint>
#include <cstring>
#include <iostream>
#include <sstream>
#include <string>
#include <vector>
#include "TFEL/Math/vector.hxx"
#include "TFEL/Math/matrix.hxx"
#include "TFEL/Math/tvector.hxx"
#include "TFEL/Math/tmatrix.hxx"
#include "TFEL/Math/LUSolve.hxx"
#include "TFEL/Math/TinyMatrixSolve.hxx"
#include "TFEL/Math/TinyMatrixInvert.hxx"
#include "TFEL/Math/QR/QRDecomp.hxx"

using namespace tfel::math;
// the harness is compiled in several parts (in parallel): a part serves the fixed sizes
// C07_NLO..C07_NHI, and the runtime-sized entry points (lu, lusolve, qr) when C07_DYNAMIC is defined
#ifndef C07_NLO
#define C07_NLO 1
#define C07_NHI 12
#define C07_DYNAMIC
#endif
constexpr unsigned short NMIN = C07_NLO;
constexpr unsigned short NMAX = C07_NHI;

static bool parse_hex(const std::string& s, double& x) {
  if (s.size() != 16) return false;
  std::uint64_t v = 0;
  for (const char c : s) {
    v <<= 4;
    if (c >= '0' && c <= '9') {
      v |= static_cast<std::uint64_t>(c - '0');
    } else if (c >= 'a' && c <= 'f') {
      v |= static_cast<std::uint64_t>(c - 'a' + 10);
    } else {
      return false;
    }
  }
  std::memcpy(&x, &v, sizeof(double));
  return true;
}

static std::string show_hex(const double x) {
  if (std::isnan(x)) return "nan";
  std::uint64_t v;
  std::memcpy(&v, &x, sizeof(double));
  static const char* digits = "0123456789abcdef";
  std::string r(16, '0');
  for (int i = 0; i != 16; ++i) r[i] = digits[(v >> (4 * (15 - i))) & 15u];
  return r;
}

struct Request {
  std::string op;
  unsigned n = 0;
  unsigned mc = 0;
  std::vector<double> d;
};

template <unsigned short N>
static std::string lut(const Request& r) {
  tmatrix<N, N, double> m;
  for (unsigned short i = 0; i != N; ++i)
    for (unsigned short j = 0; j != N; ++j) m(i, j) = r.d[1 + i * N + j];
  TinyPermutation<N> p;
  const auto res = LUDecomp<false>::exe(m, p, r.d[0]);
  if (!res.first) return "fail";
  std::ostringstream os;
  os << "ok " << res.second;
  for (unsigned short i = 0; i != N; ++i) os << " " << p(i);
  for (unsigned short i = 0; i != N; ++i)
    for (unsigned short j = 0; j != N; ++j) os << " " << show_hex(m(i, j));
  return os.str();
}

#ifndef C07_NCHK
#define C07_NCHK 5
#endif
template <unsigned short N, bool use_exceptions, bool checks = false, bool default_eps = false>
static std::string tsolve(const Request& r) {
  tmatrix<N, N, double> m;
  tvector<N, double> b;
  for (unsigned short i = 0; i != N; ++i) {
    for (unsigned short j = 0; j != N; ++j) m(i, j) = r.d[1 + i * N + j];
    b(i) = r.d[1 + N * N + i];
  }
  try {
    if constexpr (default_eps) {
      if (!TinyMatrixSolve<N, double, use_exceptions, checks>::exe(m, b)) return "fail";
    } else {
      if (!TinyMatrixSolve<N, double, use_exceptions, checks>::exe(m, b, r.d[0])) return "fail";
    }
  } catch (LUException&) {
    return "fail";
  }
  std::ostringstream os;
  os << "ok";
  for (unsigned short i = 0; i != N; ++i) os << " " << show_hex(b(i));
  return os.str();
}

template <unsigned short N, unsigned short M, bool use_exceptions = false, bool checks = false, bool default_eps = false>
static std::string tsolvem(const Request& r) {
  tmatrix<N, N, double> m;
  tmatrix<N, M, double> b;
  for (unsigned short i = 0; i != N; ++i) {
    for (unsigned short j = 0; j != N; ++j) m(i, j) = r.d[1 + i * N + j];
    for (unsigned short k = 0; k != M; ++k) b(i, k) = r.d[1 + N * N + i * M + k];
  }
  try {
    if constexpr (default_eps) {
      if (!TinyMatrixSolve<N, double, use_exceptions, checks>::exe(m, b)) return "fail";
    } else {
      if (!TinyMatrixSolve<N, double, use_exceptions, checks>::exe(m, b, r.d[0])) return "fail";
    }
  } catch (LUException&) {
    return "fail";
  }
  std::ostringstream os;
  os << "ok";
  for (unsigned short i = 0; i != N; ++i)
    for (unsigned short k = 0; k != M; ++k) os << " " << show_hex(b(i, k));
  return os.str();
}

template <unsigned short N, bool use_exceptions = false, bool checks = false, bool default_eps = false>
static std::string tsolvem_dispatch(const Request& r) {
  switch (r.mc) {
    case 1: return tsolvem<N, 1, use_exceptions, checks, default_eps>(r);
    case 2: return tsolvem<N, 2, use_exceptions, checks, default_eps>(r);
    case 3: return tsolvem<N, 3, use_exceptions, checks, default_eps>(r);
    default: return "bad-op";
  }
}

// LUDecomp with perform_runtime_checks = true on tmatrix + TinyPermutation
template <unsigned short N>
static std::string lutc(const Request& r) {
  tmatrix<N, N, double> m;
  for (unsigned short i = 0; i != N; ++i)
    for (unsigned short j = 0; j != N; ++j) m(i, j) = r.d[1 + i * N + j];
  TinyPermutation<N> p;
  const auto res = LUDecomp<false, true>::exe(m, p, r.d[0]);
  if (!res.first) return "fail";
  std::ostringstream os;
  os << "ok " << res.second;
  for (unsigned short i = 0; i != N; ++i) os << " " << p(i);
  for (unsigned short i = 0; i != N; ++i)
    for (unsigned short j = 0; j != N; ++j) os << " " << show_hex(m(i, j));
  return os.str();
}

// TinyPermutation<N>: k swaps, then exe(v)
template <unsigned short N>
static std::string tperm(const Request& r) {
  TinyPermutation<N> p;
  const auto k = static_cast<unsigned>(r.d[0]);
  if (r.d.size() != 1 + 2 * k + N) return "bad-op";
  for (unsigned s = 0; s != k; ++s) {
    const auto i = static_cast<unsigned short>(r.d[1 + 2 * s]);
    const auto j = static_cast<unsigned short>(r.d[2 + 2 * s]);
    if (i >= N || j >= N) return "bad-op";
    p.swap(i, j);
  }
  tvector<N, double> v;
  for (unsigned short i = 0; i != N; ++i) v(i) = r.d[1 + 2 * k + i];
  p.exe(v);
  std::ostringstream os;
  os << "ok " << (p.isIdentity() ? 1 : 0);
  for (unsigned short i = 0; i != N; ++i) os << " " << p(i);
  for (unsigned short i = 0; i != N; ++i) os << " " << show_hex(v(i));
  return os.str();
}

template <unsigned short N>
static std::string tinv(const Request& r) {
  tmatrix<N, N, double> m;
  for (unsigned short i = 0; i != N; ++i)
    for (unsigned short j = 0; j != N; ++j) m(i, j) = r.d[2 + i * N + j];
  try {
    TinyMatrixInvert<N, double>::exe(m, r.d[0]);
  } catch (LUException&) {
    return "fail";
  }
  std::ostringstream os;
  os << "ok";
  for (unsigned short i = 0; i != N; ++i)
    for (unsigned short j = 0; j != N; ++j) os << " " << show_hex(m(i, j));
  return os.str();
}

template <unsigned short N>
static std::string tiny_dispatch(const Request& r) {
  if (r.n == N) {
    if (r.op == "lut") return lut<N>(r);
    if (r.op == "tsolve") return tsolve<N, false>(r);
    if (r.op == "tsolvex") return tsolve<N, true>(r);
    if (r.op == "tsolvem") return tsolvem_dispatch<N>(r);
    if (r.op == "tinv") return tinv<N>(r);
    if (r.op == "tsolvemx") return tsolvem_dispatch<N, true>(r);
    if (r.op == "tsolved") return tsolve<N, false, false, true>(r);
    if (r.op == "tsolvexd") return tsolve<N, true, false, true>(r);
    if (r.op == "tsolvemd") return tsolvem_dispatch<N, false, false, true>(r);
    if (r.op == "tperm") return tperm<N>(r);
    if constexpr (N <= C07_NCHK) {
      if (r.op == "tsolvec") return tsolve<N, false, true>(r);
      if (r.op == "tsolvecx") return tsolve<N, true, true>(r);
      if (r.op == "tsolvemc") return tsolvem_dispatch<N, false, true>(r);
      if (r.op == "lutc") return lutc<N>(r);
    }
    return "bad-op";
  }
  if constexpr (N < NMAX) {
    return tiny_dispatch<N + 1>(r);
  } else {
    return "bad-op";
  }
}

#ifdef C07_DYNAMIC
static std::string lu(const Request& r) {
  const auto n = r.n;
  matrix<double> m(n, n);
  for (unsigned i = 0; i != n; ++i)
    for (unsigned j = 0; j != n; ++j) m(i, j) = r.d[1 + i * n + j];
  Permutation<index_type<matrix<double>>> p(n);
  const auto res = LUDecomp<false>::exe(m, p, r.d[0]);
  if (!res.first) return "fail";
  std::ostringstream os;
  os << "ok " << res.second;
  for (unsigned i = 0; i != n; ++i) os << " " << p(i);
  for (unsigned i = 0; i != n; ++i)
    for (unsigned j = 0; j != n; ++j) os << " " << show_hex(m(i, j));
  return os.str();
}

// variants of LUDecomp on matrix + Permutation: template flags, or a permutation prepared through resize()
template <bool use_exceptions, bool checks, bool resized>
static std::string lu_variant(const Request& r) {
  const auto n = r.n;
  matrix<double> m(n, n);
  for (unsigned i = 0; i != n; ++i)
    for (unsigned j = 0; j != n; ++j) m(i, j) = r.d[1 + i * n + j];
  using P = Permutation<index_type<matrix<double>>>;
  P p(resized ? (n > 1 ? n - 1 : 1) : n);
  if constexpr (resized) {
    if (n > 2) p.swap(0, n - 2);
    p.resize(n);
  }
  std::pair<bool, int> res;
  try {
    res = LUDecomp<use_exceptions, checks>::exe(m, p, r.d[0]);
  } catch (LUException&) {
    return "fail";
  }
  if (!res.first) return "fail";
  std::ostringstream os;
  os << "ok " << res.second;
  for (unsigned i = 0; i != n; ++i) os << " " << p(i);
  for (unsigned i = 0; i != n; ++i)
    for (unsigned j = 0; j != n; ++j) os << " " << show_hex(m(i, j));
  return os.str();
}

// LUSolve::exe(m,b,x,p) with a permutation left non-identical by a previous use (mode 0), or
// LUDecomp<true>::exe(m,p,eps) followed by LUSolve::back_substitute (mode 1, eps honoured)
template <int mode>
static std::string lusolve_variant(const Request& r) {
  const auto n = r.n;
  matrix<double> m(n, n);
  vector<double> b(n), x(n);
  for (unsigned i = 0; i != n; ++i) {
    for (unsigned j = 0; j != n; ++j) m(i, j) = r.d[1 + i * n + j];
    b(i) = r.d[1 + n * n + i];
  }
  Permutation<index_type<matrix<double>>> p(n);
  try {
    if constexpr (mode == 0) {
      if (n > 1) p.swap(0, n - 1);
      LUSolve::exe(m, b, x, p);
    } else {
      LUDecomp<true>::exe(m, p, r.d[0]);
      LUSolve::back_substitute(m, b, x, p);
    }
  } catch (LUException&) {
    return "fail";
  }
  std::ostringstream os;
  os << "ok";
  for (unsigned i = 0; i != n; ++i) os << " " << show_hex(b(i));
  return os.str();
}

static std::string lusolve(const Request& r) {
  const auto n = r.n;
  matrix<double> m(n, n);
  vector<double> b(n);
  for (unsigned i = 0; i != n; ++i) {
    for (unsigned j = 0; j != n; ++j) m(i, j) = r.d[1 + i * n + j];
    b(i) = r.d[1 + n * n + i];
  }
  try {
    LUSolve::exe(m, b);
  } catch (LUException&) {
    return "fail";
  }
  std::ostringstream os;
  os << "ok";
  for (unsigned i = 0; i != n; ++i) os << " " << show_hex(b(i));
  return os.str();
}

template <bool default_eps = false>
static std::string qr(const Request& r) {
  const auto n = r.n;
  matrix<double> m(n, n);
  vector<double> b(n), rdiag(n), beta(n);
  for (unsigned i = 0; i != n; ++i) {
    for (unsigned j = 0; j != n; ++j) m(i, j) = r.d[1 + i * n + j];
    b(i) = r.d[1 + n * n + i];
  }
  bool ok = true;
  QRDecomp::exe(m, rdiag, beta);
  QRDecomp::tq_product(b, m, beta);
  try {
    if constexpr (default_eps) {
      QRDecomp::back_substitute(b, m, rdiag);
    } else {
      QRDecomp::back_substitute(b, m, rdiag, r.d[0]);
    }
  } catch (QRException&) {
    ok = false;
  }
  std::ostringstream os;
  os << (ok ? "ok" : "fail");
  if (ok)
    for (unsigned i = 0; i != n; ++i) os << " " << show_hex(b(i));
  for (unsigned i = 0; i != n; ++i) os << " " << show_hex(rdiag(i));
  for (unsigned i = 0; i != n; ++i) os << " " << show_hex(beta(i));
  for (unsigned i = 0; i != n; ++i)
    for (unsigned j = 0; j != n; ++j) os << " " << show_hex(m(i, j));
  return os.str();
}

#endif /* C07_DYNAMIC */

int main() {
  std::string line;
  while (std::getline(std::cin, line)) {
    std::istringstream is(line);
    Request r;
    if (!(is >> r.op >> r.n) || r.n == 0 || r.n > 64) {
      std::cout << "bad-op\n";
      continue;
    }
    if (r.op.rfind("tsolvem", 0) == 0 && !(is >> r.mc)) {
      std::cout << "bad-op\n";
      continue;
    }
    std::string tok;
    bool good = true;
    while (is >> tok) {
      double x;
      if (!parse_hex(tok, x)) {
        good = false;
        break;
      }
      r.d.push_back(x);
    }
    const std::size_t n = r.n;
    std::size_t expected = 0;
    const auto isop = [&r](std::initializer_list<const char*> l) {
      for (const auto* o : l)
        if (r.op == o) return true;
      return false;
    };
    if (isop({"lu", "lut", "lutc", "luc", "lux", "luxc", "lur"})) expected = 1 + n * n;
    if (isop({"lusolve", "tsolve", "tsolvex", "qr", "tsolved", "tsolvexd", "tsolvec", "tsolvecx", "qrd", "lusolve4", "lubs"}))
      expected = 1 + n * n + n;
    if (isop({"tsolvem", "tsolvemx", "tsolvemd", "tsolvemc"})) expected = 1 + n * n + n * r.mc;
    if (r.op == "tperm") expected = r.d.size();
    if (r.op == "tinv") expected = 2 + n * n;
    if (!good || expected == 0 || r.d.size() != expected) {
      std::cout << "bad-op\n";
      continue;
    }
    std::string a = "bad-op";
#ifdef C07_DYNAMIC
    if (r.op == "lu") {
      a = lu(r);
    } else if (r.op == "lusolve") {
      a = lusolve(r);
    } else if (r.op == "qr") {
      a = qr<false>(r);
    } else if (r.op == "qrd") {
      a = qr<true>(r);
    } else if (r.op == "luc") {
      a = lu_variant<false, true, false>(r);
    } else if (r.op == "lux") {
      a = lu_variant<true, false, false>(r);
    } else if (r.op == "luxc") {
      a = lu_variant<true, true, false>(r);
    } else if (r.op == "lur") {
      a = lu_variant<false, false, true>(r);
    } else if (r.op == "lusolve4") {
      a = lusolve_variant<0>(r);
    } else if (r.op == "lubs") {
      a = lusolve_variant<1>(r);
    } else
#endif /* C07_DYNAMIC */
    if (r.n >= NMIN && r.n <= NMAX) {
      a = tiny_dispatch<NMIN>(r);
    }
    std::cout << a << "\n";
  }
  return 0;
}
