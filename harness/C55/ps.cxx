// C55 replay helper for the plane stress hypotheses (double precision, shipped glue and Types.h): calls
// <strategy>::integrate on the mock plane-stress elastic behaviour twice (Cauchy, then PK2 requested) and
// checks that the two returned stresses are related by  J sigma = F S F^T  with the END-of-step axial
// stretch (Green-Lagrange: F_zz(given) + sqrt(1 + 2 ezz1); Hencky: exp(ezz1)), ezz1 = axial strain
// returned by the behaviour. stdin: strategy(0 GL,1 HK) N(2 plane stress | 1 axisym. gen. plane stress)
//   la mu ezz0  F0[T] F1[T]
#include <cmath>
#include <cstdio>
#include <iostream>
#include "MFront/GenericBehaviour/Integrate.hxx"
#include "MFront/GenericBehaviour/GreenLagrangeStrainIntegrate.hxx"
#include "MFront/GenericBehaviour/LogarithmicStrainIntegrate.hxx"
#include "C55/mock.hxx"

template <ModellingHypothesis::Hypothesis H>
struct Run {
  using B = c55::Elasticity<H, double>;
  static constexpr unsigned short N = B::N;
  static constexpr int S = tfel::math::StensorDimeToSize<N>::value;
  static constexpr int T = tfel::math::TensorDimeToSize<N>::value;
  static int call(const int strat, const int sm, const double la, const double mu, const double ezz0,
                  const double* F0, const double* F1, double* s1, double& ezz1) {
    double s0[9] = {0}, mp[2] = {la, mu}, isv0[1] = {ezz0}, isv1[1] = {0}, esv[1] = {0}, rdt = 1, rho = 1, K[81];
    for (auto& k : K) k = 0;
    K[0] = 0;  // integration only
    K[1] = sm;
    K[2] = 1;
    mfront_gb_BehaviourData d;
    d.error_message = nullptr;
    d.dt = 1;
    d.K = K;
    d.rdt = &rdt;
    d.speed_of_sound = nullptr;
    d.s0 = {F0, s0, &rho, mp, isv0, nullptr, nullptr, esv};
    d.s1 = {F1, s1, &rho, mp, isv1, nullptr, nullptr, esv};
    const int r = strat ? mfront::gb::logarithmic_strain::integrate<B>(d, tfel::material::None)
                        : mfront::gb::green_lagrange_strain::integrate<B>(d, tfel::material::None);
    ezz1 = isv1[0];
    return r;
  }
  static int run(const int strat, const double la, const double mu, const double ezz0, const double* F0,
                 const double* F1) {
    using namespace tfel::math;
    double sg[9], S2[9], e1, e2;
    if (call(strat, 0, la, mu, ezz0, F0, F1, sg, e1) != 1) return 3;
    if (call(strat, 1, la, mu, ezz0, F0, F1, S2, e2) != 1) return 3;
    tensor<N, double> F;
    for (int i = 0; i != T; ++i) F[i] = F1[i];
    F[B::axial] = strat ? std::exp(e1) : F1[B::axial] + std::sqrt(1 + 2 * e1);
    stensor<N, double> Sm, sig;
    for (int i = 0; i != S; ++i) {
      Sm[i] = S2[i];
      sig[i] = sg[i];
    }
    const stensor<N, double> ref = convertSecondPiolaKirchhoffStressToCauchyStress(Sm, F);
    std::printf("axial strain returned by the behaviour: %.10g, end-of-step axial stretch %.10g\n", e1, F[B::axial]);
    double worst = 0;
    for (int i = 0; i != S; ++i) {
      std::printf("sigma[%d]: returned (Cauchy requested)=%.10g   F S F^T/J from the returned PK2=%.10g\n", i, sig[i], ref[i]);
      worst = std::max(worst, std::abs(sig[i] - ref[i]));
    }
    std::printf("max_abs_diff=%.3e\n", worst);
    return 0;
  }
};

int main() {
  int strat, N;
  double la, mu, ezz0, F0[9] = {0}, F1[9] = {0};
  std::cin >> strat >> N >> la >> mu >> ezz0;
  const int T = (N == 2) ? 5 : 3;
  for (int i = 0; i != T; ++i) std::cin >> F0[i];
  for (int i = 0; i != T; ++i) std::cin >> F1[i];
  if (!std::cin) return 2;
  if (N == 2) return Run<ModellingHypothesis::PLANESTRESS>::run(strat, la, mu, ezz0, F0, F1);
  return Run<ModellingHypothesis::AXISYMMETRICALGENERALISEDPLANESTRESS>::run(strat, la, mu, ezz0, F0, F1);
}
