/*! mock of a generated small-strain isotropic linear elastic behaviour: the part of the interface of an
 * mfront behaviour class used by MFront/GenericBehaviour/Integrate.hxx. `Real` is mfront_gb_real
 * (verif::Sym in the tracer, double in the replay harness). */
#ifndef VERIF_C55_MOCK_HXX
#define VERIF_C55_MOCK_HXX
#include <vector>
#include "TFEL/Math/stensor.hxx"
#include "TFEL/Math/st2tost2.hxx"
#include "TFEL/Material/ModellingHypothesis.hxx"
#include "TFEL/Material/MechanicalBehaviourTraits.hxx"
#include "TFEL/Material/OutOfBoundsPolicy.hxx"
#include "MFront/GenericBehaviour/GenericBehaviourTraits.hxx"
#include "MFront/GenericBehaviour/BehaviourData.h"
using tfel::material::ModellingHypothesis;

namespace c55 {
  //! what the mock behaviour received (the strain measure computed by the pre-processing)
  template <typename Real>
  struct Seen {
    std::vector<Real> eto0, eto1, sig0;
    int constructions = 0;
  };
  template <typename Real>
  inline Seen<Real>& seen() {
    static Seen<Real> s;
    return s;
  }

  /*! mock of a generated small-strain behaviour (the part of its interface used by Integrate.hxx) */
  template <ModellingHypothesis::Hypothesis H, typename Real>
  struct Elasticity {
    static constexpr unsigned short N =
        tfel::material::ModellingHypothesisToSpaceDimension<H>::value;
    static constexpr int S = tfel::math::StensorDimeToSize<N>::value;
    //! plane stress hypotheses: the axial strain is the internal state variable 0 (as in generated behaviours:
    //! `etozz` / `etozz` of AxisymmetricalGeneralisedPlaneStress), eliminated from sigma_zz = 0
    static constexpr bool plane_stress =
        (H == ModellingHypothesis::PLANESTRESS) || (H == ModellingHypothesis::AXISYMMETRICALGENERALISEDPLANESTRESS);
    //! index of the axial component in the stensor storage (2D: zz = 2; 1D axisymmetric (rr, zz, tt): zz = 1)
    static constexpr int axial = (H == ModellingHypothesis::PLANESTRESS) ? 2 : 1;
    using real = Real;
    using stress = Real;
    using speed = Real;
    using massdensity = Real;
    using BehaviourData = Elasticity;
    enum SMFlag { STANDARDTANGENTOPERATOR };
    enum SMType { ELASTIC, SECANTOPERATOR, TANGENTOPERATOR, CONSISTENTTANGENTOPERATOR, NOSTIFFNESSREQUESTED };
    enum IntegrationResult { SUCCESS, FAILURE, UNRELIABLE_RESULTS };
    explicit Elasticity(const mfront_gb_BehaviourData& d) {
      auto& sn = seen<Real>();
      ++sn.constructions;
      sn.eto0.clear();
      sn.eto1.clear();
      sn.sig0.clear();
      for (int i = 0; i != S; ++i) {
        eto[i] = d.s0.gradients[i];
        deto[i] = d.s1.gradients[i] - d.s0.gradients[i];
        sig[i] = d.s0.thermodynamic_forces[i];
        sn.eto0.push_back(d.s0.gradients[i]);
        sn.eto1.push_back(d.s1.gradients[i]);
        sn.sig0.push_back(d.s0.thermodynamic_forces[i]);
      }
      lambda = d.s1.material_properties[0];
      mu = d.s1.material_properties[1];
      if constexpr (plane_stress) {
        etozz = d.s0.internal_state_variables[0];
      }
    }
    void setOutOfBoundsPolicy(const tfel::material::OutOfBoundsPolicy) {}
    bool initialize() { return true; }
    void checkBounds() const {}
    std::pair<bool, real> computeAPrioriTimeStepScalingFactor(const real r) const { return {true, r}; }
    std::pair<bool, real> computeAPosterioriTimeStepScalingFactor(const real r) const { return {true, r}; }
    real getMinimalTimeStepScalingFactor() const { return real(1) / 10; }
    IntegrationResult integrate(const SMFlag, const SMType smt) {
      using namespace tfel::math;
      stensor<N, Real> e = eto + deto;
      if constexpr (plane_stress) {
        // the axial component of the strain handed by the interface is meaningless in plane stress: the axial
        // strain is the unknown eliminated from sigma_zz = 0
        e[axial] = Real(0);
        etozz = -(lambda / (lambda + 2 * mu)) * trace(e);
        e[axial] = etozz;
      }
      sig = lambda * trace(e) * stensor<N, Real>::Id() + 2 * mu * e;
      if (smt != NOSTIFFNESSREQUESTED) {
        if constexpr (plane_stress) {
          const Real ls = 2 * mu * lambda / (lambda + 2 * mu);
          Dt = ls * st2tost2<N, Real>::IxI() + 2 * mu * st2tost2<N, Real>::Id();
          for (int i = 0; i != S; ++i) {
            Dt(axial, i) = Real(0);
            Dt(i, axial) = Real(0);
          }
        } else {
          Dt = lambda * st2tost2<N, Real>::IxI() + 2 * mu * st2tost2<N, Real>::Id();
        }
      }
      return SUCCESS;
    }
    void exportStateData(mfront_gb_State& s) const {
      for (int i = 0; i != S; ++i) s.thermodynamic_forces[i] = sig[i];
      if constexpr (plane_stress) {
        s.internal_state_variables[0] = etozz;
      }
    }
    const tfel::math::st2tost2<N, Real>& getTangentOperator() const { return Dt; }
    bool computePredictionOperator(const SMFlag, const SMType) { return false; }
    speed computeSpeedOfSound(const massdensity&) const { return speed(0); }
    tfel::math::stensor<N, Real> eto, deto, sig;
    tfel::math::st2tost2<N, Real> Dt;
    Real lambda, mu;
    Real etozz = Real(0);
  };
}  // namespace c55

namespace tfel::material {
  template <ModellingHypothesis::Hypothesis H, typename Real>
  struct MechanicalBehaviourTraits<c55::Elasticity<H, Real>> {
    static constexpr bool is_defined = true;
    static constexpr bool hasConsistentTangentOperator = true;
    static constexpr bool isConsistentTangentOperatorSymmetric = true;
    static constexpr bool hasPredictionOperator = false;
    static constexpr bool hasComputeInternalEnergy = false;
    static constexpr bool hasComputeDissipatedEnergy = false;
    static constexpr bool hasTimeStepScalingFactor = false;
  };
}  // namespace tfel::material
namespace mfront::gb {
  template <ModellingHypothesis::Hypothesis H, typename Real>
  struct GenericBehaviourTraits<c55::Elasticity<H, Real>> {
    static constexpr auto hypothesis = H;
    static constexpr bool has_axial_strain_offset = c55::Elasticity<H, Real>::plane_stress;
    static constexpr std::size_t axial_strain_offset = 0;
  };
}  // namespace mfront::gb

#endif
