// C55 replay helper (double precision, the shipped generic-interface glue with the shipped Types.h):
// calls <strategy>::integrate on the mock linear elastic behaviour at (F0, F1), for the stress measure sm
// and the tangent flavour `to`, and compares every column of the returned operator with a central finite
// difference of the returned-stress family (stress measure matching the flavour: sigma for DSIG_DF, S for
// DS_DEGL (w.r.t. E_GL: skipped), P for DPK1_DF, tau = J sigma for DTAU_DDF w.r.t. DF = F1 F0^-1).
// stdin: strategy(0 GL,1 HK) N to  la mu  F0[T] F1[T]
#include <cmath>
#include <cstdio>
#include <iostream>
#include <vector>
#include "MFront/GenericBehaviour/Integrate.hxx"
#include "MFront/GenericBehaviour/GreenLagrangeStrainIntegrate.hxx"
#include "MFront/GenericBehaviour/LogarithmicStrainIntegrate.hxx"
#include "C55/mock.hxx"

template <ModellingHypothesis::Hypothesis H>
struct Run {
  using B = c55::Elasticity<H, double>;
  static constexpr unsigned short N = B::N;
  static constexpr int S = tfel::math::StensorDimeToSize<N>::value;
  static constexpr int T = tfel::math::TensorDimeToSize<N>::value;
  static int call(const int strat, const int sm, const int to, const double la, const double mu,
                  const double* F0, const double* F1, double* s1, double* K) {
    double s0[9] = {0}, mp[2] = {la, mu}, isv[1] = {0}, esv[1] = {0}, rdt = 1, rho = 1;
    for (int i = 0; i != 81; ++i) K[i] = 0;
    K[0] = 4;
    K[1] = sm;
    K[2] = to;
    mfront_gb_BehaviourData d;
    d.error_message = nullptr;
    d.dt = 1;
    d.K = K;
    d.rdt = &rdt;
    d.speed_of_sound = nullptr;
    d.s0.gradients = F0;
    d.s0.thermodynamic_forces = s0;
    d.s0.mass_density = &rho;
    d.s0.material_properties = mp;
    d.s0.internal_state_variables = isv;
    d.s0.stored_energy = nullptr;
    d.s0.dissipated_energy = nullptr;
    d.s0.external_state_variables = esv;
    d.s1.gradients = F1;
    d.s1.thermodynamic_forces = s1;
    d.s1.mass_density = &rho;
    d.s1.material_properties = mp;
    d.s1.internal_state_variables = isv;
    d.s1.stored_energy = nullptr;
    d.s1.dissipated_energy = nullptr;
    d.s1.external_state_variables = esv;
    return strat ? mfront::gb::logarithmic_strain::integrate<B>(d, tfel::material::None)
                 : mfront::gb::green_lagrange_strain::integrate<B>(d, tfel::material::None);
  }
  static int run(const int strat, const int to, const double la, const double mu, const double* F0,
                 const double* F1) {
    using namespace tfel::math;
    if (to == 1) {
      std::printf("flavour DS_DEGL: not replayed by this helper\n");
      return 0;
    }
    const int sm = (to == 2) ? 2 : 0;  // PK1 for DPK1_DF, Cauchy otherwise
    const int rows = (to == 2) ? T : S;
    double s1[9], K[81];
    if (call(strat, sm, to, la, mu, F0, F1, s1, K) != 1) return 3;
    tensor<N, double> f0, f1;
    for (int i = 0; i != T; ++i) {
      f0[i] = F0[i];
      f1[i] = F1[i];
    }
    const tensor<N, double> DF = f1 * invert(f0);
    const double h = 1e-6;
    double worst = 0;
    for (int j = 0; j != T; ++j) {
      double sp[9], sm_[9], Kd[81];
      tensor<N, double> fp = f1, fm = f1;
      if (to == 3) {
        tensor<N, double> dp = DF, dm = DF;
        dp[j] += h;
        dm[j] -= h;
        fp = dp * f0;
        fm = dm * f0;
      } else {
        fp[j] += h;
        fm[j] -= h;
      }
      call(strat, sm, to, la, mu, F0, fp.begin(), sp, Kd);
      call(strat, sm, to, la, mu, F0, fm.begin(), sm_, Kd);
      const double Jp = det(fp), Jm = det(fm);
      for (int i = 0; i != rows; ++i) {
        const double a = (to == 3) ? Jp * sp[i] : sp[i];
        const double b = (to == 3) ? Jm * sm_[i] : sm_[i];
        const double fd = (a - b) / (2 * h);
        const double k = K[i * T + j];
        const double e = std::abs(fd - k);
        if (e > worst) worst = e;
        if (e > 1e-4 * (1 + std::abs(fd)))
          std::printf("K(%d,%d): returned=%.10g finite_difference_of_returned_stress=%.10g\n", i, j, k, fd);
      }
    }
    std::printf("max_abs_diff=%.3e\n", worst);
    return 0;
  }
};

int main() {
  int strat, N, to;
  double la, mu, F0[9] = {0}, F1[9] = {0};
  std::cin >> strat >> N >> to >> la >> mu;
  const int T = (N == 3) ? 9 : (N == 2 ? 5 : 3);
  for (int i = 0; i != T; ++i) std::cin >> F0[i];
  for (int i = 0; i != T; ++i) std::cin >> F1[i];
  if (!std::cin) return 2;
  if (N == 3) return Run<ModellingHypothesis::TRIDIMENSIONAL>::run(strat, to, la, mu, F0, F1);
  if (N == 2) return Run<ModellingHypothesis::PLANESTRAIN>::run(strat, to, la, mu, F0, F1);
  return Run<ModellingHypothesis::AXISYMMETRICALGENERALISEDPLANESTRAIN>::run(strat, to, la, mu, F0, F1);
}
