// T1 tracer for C55: the strain-measure strategies of the generic interface
//   mfront::gb::green_lagrange_strain::integrate<B>, mfront::gb::logarithmic_strain::integrate<B>
// instantiated with `mfront_gb_real = verif::Sym` (the include guard of MFront/GenericBehaviour/Types.h is
// taken and the two typedefs of that header are given here: every other line of BehaviourData.h, State.h,
// Integrate.hxx, GreenLagrangeStrainIntegrate.hxx, LogarithmicStrainIntegrate.hxx is the shipped code) on a
// mock small-strain isotropic linear elastic behaviour (sig = lambda tr(eto+deto) 1 + 2 mu (eto+deto),
// consistent tangent = lambda 1x1 + 2 mu I). K[0], K[1], K[2] are constants, so getStressMeasure /
// getTangentOperator and every test on K[0] are decided exactly by the real code.
#include "C24/common.hxx"
#include <cstddef>
#define LIB_MFRONT_GENERICBEHAVIOUR_TYPES_H
typedef verif::Sym mfront_gb_real;
typedef size_t mfront_gb_size_type;

#include "TFEL/Math/stensor.hxx"
#include "TFEL/Math/tensor.hxx"
#include "TFEL/Math/st2tost2.hxx"
#include "TFEL/Material/ModellingHypothesis.hxx"
#include "TFEL/Material/MechanicalBehaviourTraits.hxx"
#include "TFEL/Material/OutOfBoundsPolicy.hxx"
#include "MFront/GenericBehaviour/GenericBehaviourTraits.hxx"
#include "MFront/GenericBehaviour/Integrate.hxx"
#include "MFront/GenericBehaviour/GreenLagrangeStrainIntegrate.hxx"
#include "MFront/GenericBehaviour/LogarithmicStrainIntegrate.hxx"

using verif::Sym;
using verif::Unit;
#include "C55/mock.hxx"

static const double F0_SH[9] = {1.05, 0.95, 1.1, 0.02, -0.03, 0.04, 0.01, -0.02, 0.05};
static const double F1_SH[9] = {1.1, 0.9, 1.2, 0.1, -0.05, 0.07, 0.02, -0.04, 0.03};
static const double M_SH[9] = {2. / 3, -1. / 3, 2. / 3, 2. / 3, 2. / 3, -1. / 3, -1. / 3, 2. / 3, 2. / 3};
static const double M2_SH[4] = {0.6, -0.8, 0.8, 0.6};
static const double VP_SH[3] = {1.3, 0.7, 2.1};

template <ModellingHypothesis::Hypothesis H>
struct Run {
  using B = c55::Elasticity<H, Sym>;
  static constexpr unsigned short N = B::N;
  static constexpr int S = tfel::math::StensorDimeToSize<N>::value;
  static constexpr int T = tfel::math::TensorDimeToSize<N>::value;

  //! \param logarithmic: strategy; sm = K[1]; to = K[2]
  static void unit(const bool logarithmic, const int sm, const int to) {
    using namespace tfel::math;
    Unit u(std::string(logarithmic ? "HK" : "GL") + "_N" + std::to_string(N) + (B::plane_stress ? "p" : "") + "_sm" +
           std::to_string(sm) + "_to" + std::to_string(to));
    Sym F0[9], F1[9], s0[9], s1[9], mp[2], isv0[1], isv1[1], esv[1], K[81], rdt = Sym(1), rho = Sym(1);
    c24::fill(F0, "Fa", T, F0_SH);
    c24::fill(F1, "F", T, F1_SH);
    // plane stress hypotheses: the axial strain at the beginning of the step is the internal state variable 0
    // (at the end of the step it is an output of the behaviour); in the Green-Lagrange strategy the axial
    // component of the deformation gradient handed by the caller is an offset to which sqrt(1 + 2 ezz) is
    // ADDED by the interface (callers pass 0: it is the constant 0 here); in the Hencky strategy it is
    // overwritten by exp(ezz) and stays a free symbol
    isv0[0] = Sym(0);
    isv1[0] = Sym(0);
    if constexpr (B::plane_stress) {
      isv0[0] = c24::in("ezza", 0.04);
      if (!logarithmic) {
        F0[B::axial] = Sym(0);
        F1[B::axial] = Sym(0);
      }
    }
    // stress at the beginning of the time step in the requested measure (unused by the elastic law)
    for (int i = 0; i != (sm == 2 ? T : S); ++i) s0[i] = c24::in("sa" + std::to_string(i), 0.1 * (i + 1));
    mp[0] = c24::in("la", 1.5);
    mp[1] = c24::in("mu", 0.75);
    for (auto& k : K) k = Sym(0);
    K[0] = Sym(4);  // integration + consistent tangent operator
    K[1] = Sym(sm);
    K[2] = Sym(to);
    if (logarithmic) {
      // two handlers are built, lgh0(F0) then lgh1(F1): the oracle answers a different set of symbols for each
      // (`vpa*`, `ma**` for C0 = F0^T F0; `vp*`, `m**` for C1 = F1^T F1)
      auto& o = c24::oracle();
      o.queue.clear();
      for (const char* tag : {"a", ""}) {
        tvector<3u, Sym> vp;
        tmatrix<3u, 3u, Sym> m;
        const std::string t(tag);
        for (int i = 0; i != 3; ++i) vp[i] = c24::in("vp" + t + std::to_string(i), VP_SH[i] + (t.empty() ? 0. : 0.11 * (i + 1)));
        for (int i = 0; i != 3; ++i)
          for (int j = 0; j != 3; ++j) m(i, j) = Sym(i == j ? 1 : 0);
        const int n = (N == 3) ? 3 : 2;
        for (int i = 0; i != n; ++i)
          for (int j = 0; j != n; ++j)
            m(i, j) = c24::in("m" + t + std::to_string(i) + std::to_string(j),
                              N == 3 ? M_SH[3 * (t.empty() ? i : j) + (t.empty() ? j : i)] : M2_SH[2 * i + j]);
        o.queue.push_back({vp, m});
      }
    }
    mfront_gb_BehaviourData d;
    d.error_message = nullptr;
    d.dt = Sym(1);
    d.K = K;
    d.rdt = &rdt;
    d.speed_of_sound = nullptr;
    d.s0.gradients = F0;
    d.s0.thermodynamic_forces = s0;
    d.s0.mass_density = &rho;
    d.s0.material_properties = mp;
    d.s0.internal_state_variables = isv0;
    d.s0.stored_energy = nullptr;
    d.s0.dissipated_energy = nullptr;
    d.s0.external_state_variables = esv;
    d.s1.gradients = F1;
    d.s1.thermodynamic_forces = s1;
    d.s1.mass_density = &rho;
    d.s1.material_properties = mp;
    d.s1.internal_state_variables = isv1;
    d.s1.stored_energy = nullptr;
    d.s1.dissipated_energy = nullptr;
    d.s1.external_state_variables = esv;
    c55::seen<Sym>().constructions = 0;
    const auto policy = tfel::material::None;
    const int r = logarithmic ? mfront::gb::logarithmic_strain::integrate<B>(d, policy)
                              : mfront::gb::green_lagrange_strain::integrate<B>(d, policy);
    if (r != 1 || c55::seen<Sym>().constructions != 1) {
      std::fprintf(stderr, "C55 tracer: integrate returned %d (%d behaviour constructions)\n", r,
                   c55::seen<Sym>().constructions);
      std::abort();
    }
    // what the behaviour saw: the strain measure at the end of the time step
    for (int i = 0; i != S; ++i) verif::output("e" + std::to_string(i), c55::seen<Sym>().eto1[i]);
    if constexpr (B::plane_stress) verif::output("ezz", isv1[0]);
    const int ns = (sm == 2) ? T : S;
    for (int i = 0; i != ns; ++i) verif::output("s" + std::to_string(i), s1[i]);
    const int rows = (to == 2) ? T : S;
    const int cols = (to == 1) ? S : T;
    for (int i = 0; i != rows; ++i)
      for (int j = 0; j != cols; ++j)
        verif::output("K" + std::to_string(i) + "_" + std::to_string(j), K[i * cols + j]);
  }
  static void all() {
    for (const bool lg : {false, true})
      for (int sm = 0; sm != 3; ++sm)
        for (int to = 0; to != 4; ++to) unit(lg, sm, to);
  }
};

int main() {
  verif::ctx().concolic = true;
  Run<ModellingHypothesis::TRIDIMENSIONAL>::all();
  Run<ModellingHypothesis::PLANESTRAIN>::all();
  Run<ModellingHypothesis::AXISYMMETRICALGENERALISEDPLANESTRAIN>::all();
  Run<ModellingHypothesis::PLANESTRESS>::all();
  Run<ModellingHypothesis::AXISYMMETRICALGENERALISEDPLANESTRESS>::all();
  return 0;
}
