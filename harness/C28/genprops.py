"""Writes lean/TfelVerif/C28/PropsAxes.lean (run once by hand; the result is a fixed, committed file).
The statements are component-wise so that they can be read without any helper definition."""
H = {"AGPE": 1, "AGPS": 1, "AXI": 2, "PS": 2, "PE": 2, "GPE": 2, "TRI": 3}
S = {1: 3, 2: 4, 3: 6}
FULL = {"AGPE": "AxisymmetricalGeneralisedPlaneStrain", "AGPS": "AxisymmetricalGeneralisedPlaneStress", "AXI": "Axisymmetrical",
        "PS": "PlaneStress", "PE": "PlaneStrain", "GPE": "GeneralisedPlaneStrain", "TRI": "Tridimensional"}
PLANE = ("PS", "PE", "GPE")


def perm(h, c):
    """Mandel index of the 3D object read by component k of the reduced object"""
    if c == "PIPE" and h in PLANE:
        return [0, 2, 1, 4]          # axes 2 and 3 exchanged: (11,22,33,12) <- (11,33,22,13)
    return list(range(S[H[h]]))


files = {}
o = []
w = lambda x: o.append(x)
HEADER_MARK = "@@HEADER_END@@"
w('''/- C28 (part 2) — orthotropic axes conventions and reduced hypotheses, on the definitions traced (T1) from the real
   templates by harness/C28/trace.cxx:  sfe_* = convertStressFreeExpansionStrain<H,C>, hill_* = computeHillTensor<H,C>,
   stiff_*_{U,A}_* = computeOrthotropicStiffnessTensor<H,{UNALTERED,ALTERED},C>, j2o*/j3o* = computeJ2O/computeJ3O and
   derivatives (OrthotropicPlasticity.ixx).  H: AGPE, AGPS (1D axisymmetrical generalised plane strain / stress), AXI, PS, PE,
   GPE (2D), TRI (3D).

   Storage (Mandel): index 0,1,2 = 11,22,33; 3 = 12; 4 = 13; 5 = 23. Documented conventions
   (OrthotropicAxesConvention.hxx): material properties are always given in the 3D material frame;
   PIPE: in plane stress / plane strain / generalised plane strain the second and third material axes are exchanged
   with respect to 3D (so reduced index 1 <-> 3D index 2, reduced 12 <-> 3D 13); identical axes in 1D, axisymmetrical, 3D;
   PLATE and DEFAULT: identical axes everywhere.
   Every theorem: the reduced-hypothesis object is, component by component, the 3D object read through that
   permutation — for all material coefficients (file generated once by harness/C28/genprops.py, then fixed). -/
import TfelVerif.C28.Lemmas
import TfelVerif.C28.Gen

namespace TfelVerif.C28.PropsAxes
open TfelVerif TfelVerif.C28 TfelVerif.C28.Gen
set_option linter.unusedVariables false
set_option linter.unusedSectionVars false

variable {K : Type} [Field K] (c c3 : K) (fn : Fns K)
''')
header = list(o)


def start(name):
    global o
    o = [h.replace("namespace TfelVerif.C28.PropsAxes", "namespace TfelVerif.C28." + name) for h in header]
    files[name] = o


start("PropsAxes")

# ---------------------------------------------------------------- stress-free expansion
w("/-! ## convertStressFreeExpansionStrain: 3D-frame diagonal tensor -> frame of the hypothesis -/\n")
for h in H:
    for c in ("DEFAULT", "PIPE", "PLATE"):
        n = S[H[h]]
        args = " ".join("s%d" % i for i in range(n))
        p = perm(h, c)
        rhs = ["s%d" % (p[i] if p[i] < 3 else i) for i in range(n)]   # only the diagonal is permuted; shear untouched
        if c == "PIPE" and h in PLANE:
            rhs = ["s0", "s2", "s1", "s3"]
        w("theorem sfe_%s_%s (%s : K) :\n    sfe_%s_%s_all c c3 fn %s = [%s] := by\n  simp only [gen_simp]\n" %
          (h, c, args, h, c, args, ", ".join(rhs)))

# ---------------------------------------------------------------- Hill
HA = "hF hG hH hL hM hN"
w("/-! ## Hill tensors -/\n")
w('''/-- 3D, as documented in Hill.hxx: σ:H:σ = F(σ11-σ22)² + G(σ22-σ33)² + H(σ33-σ11)² + 2Lσ12² + 2Mσ13² + 2Nσ23²
    (Mandel storage: the shear components carry a factor c = √2) -/
theorem hill_TRI_quadratic_form (hc : c * c = 2) (%s x11 x22 x33 x12 x13 x23 : K) :
    quad6 (hill_TRI_DEFAULT_all c c3 fn %s) [x11, x22, x33, c * x12, c * x13, c * x23] =
      hF * (x11 - x22) ^ 2 + hG * (x22 - x33) ^ 2 + hH * (x33 - x11) ^ 2 +
        2 * hL * x12 ^ 2 + 2 * hM * x13 ^ 2 + 2 * hN * x23 ^ 2 := by
  simp only [gen_simp, quad6]
  have h2 : c ^ 2 = 2 := by rw [pow_two, hc]
  ring_nf
  simp only [h2]
  ring
''' % (HA, HA))
w("/-- in 3D the three conventions coincide -/\ntheorem hill_TRI_conventions (%s : K) :\n    hill_TRI_PIPE_all c c3 fn %s = hill_TRI_DEFAULT_all c c3 fn %s ∧\n    hill_TRI_PLATE_all c c3 fn %s = hill_TRI_DEFAULT_all c c3 fn %s := by\n  constructor <;> simp only [gen_simp]\n" % (HA, HA, HA, HA, HA))
for h in H:
    if h == "TRI":
        continue
    for c in ("DEFAULT", "PIPE", "PLATE"):
        if c == "PLATE" and h not in PLANE:
            continue
        n = S[H[h]]
        p = perm(h, c)
        conj = " ∧\n    ".join("hill_%s_%s_r%d_%d c c3 fn %s = hill_TRI_DEFAULT_r%d_%d c c3 fn %s" % (h, c, i, j, HA, p[i], p[j], HA)
                               for i in range(n) for j in range(n))
        w("/-- %s, %s: component (i,j) is component (π i, π j) of the 3D Hill tensor, π = %s -/\ntheorem hill_%s_%s (%s : K) :\n    %s := by\n  axes_eq\n" %
          (FULL[h], c, p, h, c, HA, conj))
# in-plane response: quadratic form of the reduced tensor = 3D quadratic form on the embedded stress
w('''/-- PIPE, plane hypotheses: the Hill stress of a 2D stress state (x11, x22, x33, x12) equals the 3D Hill stress of the
    same state expressed in the 3D material frame (second and third axes exchanged) -/''')
for h in PLANE:
    w('''theorem hill_%s_PIPE_same_response (hc : c * c = 2) (%s x11 x22 x33 x12 : K) :
    quad4 (hill_%s_PIPE_all c c3 fn %s) [x11, x22, x33, c * x12] =
      quad6 (hill_TRI_DEFAULT_all c c3 fn %s) [x11, x33, x22, 0, c * x12, 0] := by
  simp only [gen_simp, quad4, quad6]
  ring
''' % (h, HA, h, HA, HA))

# ---------------------------------------------------------------- stiffness
SA = "E1 E2 E3 nu12 nu23 nu13 G12 G23 G13"
start("PropsStiff3D")
w("/-! ## orthotropic stiffness tensors -/\n")
C3 = lambda i, j: "stiff_TRI_U_DEFAULT_r%d_%d c c3 fn %s" % (i, j, SA)
Sm = [["1 / E1", "-nu12 / E1", "-nu13 / E1"], ["-nu12 / E1", "1 / E2", "-nu23 / E2"], ["-nu13 / E1", "-nu23 / E2", "1 / E3"]]
eqs = []
for i in range(3):
    for j in range(3):
        eqs.append("%s = %d" % (" + ".join("%s * (%s)" % (C3(i, k), Sm[k][j]) for k in range(3)), 1 if i == j else 0))
eqs += ["%s = 2 * G12" % C3(3, 3), "%s = 2 * G13" % C3(4, 4), "%s = 2 * G23" % C3(5, 5)]
w("""/-- 3D, documented meaning: the normal block is the inverse of the compliance matrix
    S = [[1/E1, -ν12/E1, -ν13/E1], [-ν12/E1, 1/E2, -ν23/E2], [-ν13/E1, -ν23/E2, 1/E3]]  (C·S = 1, nine equations),
    the shear block is diag(2 G12, 2 G13, 2 G23) in Mandel storage. `hd`: the determinant formed by the code is not 0. -/
theorem stiff_TRI_inverse_of_compliance (%s : K)
    (hd : stiff_TRI_U_DEFAULT_den3 c c3 fn %s ≠ 0) :
    %s := by
  stiff3d hd
""" % (SA, SA, " ∧\n    ".join(eqs)))
for a in ("U", "A"):
  for c in ("DEFAULT", "PIPE"):
    start("PropsStiff" + a + c.capitalize())
    w("/-! ## orthotropic stiffness tensors, %s, %s convention -/\n" % ("UNALTERED" if a == "U" else "ALTERED", c))
    for h in H:
        if True:
            if h == "TRI" and a == "U" and c == "DEFAULT":
                continue
            n = S[H[h]]
            p = perm(h, c)
            pipe_plane = c == "PIPE" and h in PLANE
            hyp = " (hE2 : E2 ≠ 0) (hE3 : E3 ≠ 0)" if pipe_plane else ""
            tac = "stiff_eq hE2 hE3" if pipe_plane else "axes_eq"
            if a == "U" or h not in ("PS", "AGPS"):
                conj = " ∧\n    ".join("stiff_%s_%s_%s_r%d_%d c c3 fn %s = stiff_TRI_U_DEFAULT_r%d_%d c c3 fn %s" % (h, a, c, i, j, SA, p[i], p[j], SA)
                                       for i in range(n) for j in range(n))
                doc = "%s, %s, %s: component (i,j) = component (π i, π j) of the 3D stiffness tensor, π = %s" % (
                    FULL[h], "UNALTERED" if a == "U" else "ALTERED (no alteration for this hypothesis)", c, p)
            else:
                # altered: the stress component normal to the plane vanishes: static condensation of the 3D tensor on
                # that 3D axis k, expressed on the in-plane components; the normal row/column is zero
                if h == "PS":
                    k3 = p[2]                    # out-of-plane axis = reduced index 2
                    inpl = [0, 1]
                    zero = 2
                else:                            # AGPS: the AXIAL stress (zz, index 1 of (rr,zz,tt)) is the prescribed one
                    k3 = 1
                    inpl = [0, 2]
                    zero = 1
                parts = []
                for i in range(n):
                    for j in range(n):
                        lhs = "stiff_%s_%s_%s_r%d_%d c c3 fn %s" % (h, a, c, i, j, SA)
                        if i in inpl and j in inpl:
                            T = lambda x, y: "stiff_TRI_U_DEFAULT_r%d_%d c c3 fn %s" % (x, y, SA)
                            parts.append("%s = %s - %s * (%s / %s)" % (lhs, T(p[i], p[j]), T(p[i], k3), T(k3, p[j]), T(k3, k3)))
                        elif i == 3 and j == 3:
                            parts.append("%s = stiff_TRI_U_DEFAULT_r%d_%d c c3 fn %s" % (lhs, p[3], p[3], SA))
                        else:
                            parts.append("%s = 0" % lhs)
                conj = " ∧\n    ".join(parts)
                doc = ("%s, ALTERED, %s: in-plane components = static condensation of the 3D stiffness tensor on the stress-free "
                       "3D axis %d (C_ij − C_ik C_kj / C_kk read through π = %s), zero row and column for that axis" % (FULL[h], c, k3, p))
            w("/-- %s -/\ntheorem stiff_%s_%s_%s (%s : K)%s :\n    %s := by\n  %s\n" % (doc, h, a, c, SA, hyp, conj, tac))

# ---------------------------------------------------------------- plasticity
# ---------------------------------------------------------------- PLATE stiffness (traced by a separate program)
start("PropsPlate")
o[:] = [h.replace("import TfelVerif.C28.Gen\n", "import TfelVerif.C28.Gen\nimport TfelVerif.C28.GenPlate\n")
          .replace("open TfelVerif TfelVerif.C28 TfelVerif.C28.Gen", "open TfelVerif TfelVerif.C28 TfelVerif.C28.Gen TfelVerif.C28.GenPlate") for h in o]
w("/-! ## orthotropic stiffness tensors, PLATE convention (same axes in 3D and in the plane hypotheses) -/\n")
for h in ("PS", "PE", "GPE", "TRI"):
    for a in ("U", "A"):
        n = S[H[h]]
        T = lambda x, y: "stiff_TRI_U_DEFAULT_r%d_%d c c3 fn %s" % (x, y, SA)
        parts = []
        for i in range(n):
            for j in range(n):
                lhs = "stiff_%s_%s_PLATE_r%d_%d c c3 fn %s" % (h, a, i, j, SA)
                if a == "A" and h == "PS":
                    if i < 2 and j < 2:
                        parts.append("%s = %s - %s * (%s / %s)" % (lhs, T(i, j), T(i, 2), T(2, j), T(2, 2)))
                    elif i == 3 and j == 3:
                        parts.append("%s = %s" % (lhs, T(3, 3)))
                    else:
                        parts.append("%s = 0" % lhs)
                else:
                    parts.append("%s = %s" % (lhs, T(i, j)))
        w("/-- %s, %s, PLATE: the 3D stiffness tensor read through the identity%s -/\ntheorem stiff_%s_%s_PLATE (%s : K) :\n    %s := by\n  axes_eq\n" %
          (FULL[h], "UNALTERED" if a == "U" else "ALTERED", " (plane stress: condensed on the third axis)" if (a == "A" and h == "PS") else "",
           h, a, SA, " ∧\n    ".join(parts)))

start("PropsPlasticity")
w("/-! ## orthotropic plasticity helpers: the 1D / 2D overloads are the 3D ones with vanishing out-of-plane shear -/\n")
A6 = "a1 a2 a3 a4 a5 a6"
B11 = " ".join("b%d" % i for i in range(1, 12))
for f, co in (("j2o", A6), ("j3o", B11)):
    for d in (1, 2):
        n = S[d]
        sv = " ".join("s%d" % i for i in range(n))
        s3 = " ".join(["s%d" % i for i in range(n)] + ["0"] * (6 - n))
        w("theorem %s_N%d_is_3D (%s %s : K) :\n    %s_N%d_r c c3 fn %s %s = %s_N3_r c c3 fn %s %s := by\n  axes_eq\n" %
          (f, d, sv, co, f, d, sv, co, f, s3, co))
        conj = " ∧\n    ".join(["%s_d_N%d_r%d c c3 fn %s %s = %s_d_N3_r%d c c3 fn %s %s" % (f, d, i, sv, co, f, i, s3, co) for i in range(n)] +
                               ["%s_d_N3_r%d c c3 fn %s %s = 0" % (f, i, s3, co) for i in range(n, 6)])
        w("/-- first derivative: same in-plane components, and the 3D out-of-plane components vanish -/\ntheorem %s_d_N%d_is_3D (%s %s : K) :\n    %s := by\n  axes_eq\n" % (f, d, sv, co, conj))
        conj = " ∧\n    ".join("%s_d2_N%d_r%d_%d c c3 fn %s %s = %s_d2_N3_r%d_%d c c3 fn %s %s" % (f, d, i, j, sv, co, f, i, j, s3, co)
                               for i in range(n) for j in range(n))
        w("theorem %s_d2_N%d_is_3D (%s %s : K) :\n    %s := by\n  axes_eq\n" % (f, d, sv, co, conj))

for name, lines in files.items():
    lines.append("end TfelVerif.C28." + name)
    open("/verif/lean/TfelVerif/C28/%s.lean" % name, "w").write("\n".join(lines) + "\n")
    print(name, sum(1 for l in lines if l.startswith("theorem")))
