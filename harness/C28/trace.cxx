// T1 tracer for C28: orthotropic axes conventions and reduced-hypothesis helpers on symbols.
//   sfe_<H>_<C>        convertStressFreeExpansionStrain<H,C>      (7 hypotheses x DEFAULT/PIPE/PLATE)
//   hill_<H>_<C>       computeHillTensor<H,C>                      (every combination the library defines)
//   stiff_<H>_<A>_<C>  computeOrthotropicStiffnessTensor<H,A,C>    (A = U(naltered)/A(ltered), C = DEFAULT/PIPE)
//   j2o*/j3o*_N<d>     computeJ2O / computeJ3O and first / second derivatives, d = 1,2,3
#include "tracehelp.hxx"
#include "TFEL/Math/stensor.hxx"
#include "TFEL/Math/st2tost2.hxx"
#include "TFEL/Material/ModellingHypothesis.hxx"
#include "TFEL/Material/OrthotropicAxesConvention.hxx"
#include "TFEL/Material/Hill.hxx"
#include "TFEL/Material/StiffnessTensor.hxx"
#include "TFEL/Material/OrthotropicPlasticity.hxx"

using namespace tfel::math;
using namespace tfel::material;
using verif::Sym;
using verif::Unit;
using MH = ModellingHypothesis;
using OAC = OrthotropicAxesConvention;

template <MH::Hypothesis H>
constexpr const char* hname() {
  if constexpr (H == MH::AXISYMMETRICALGENERALISEDPLANESTRAIN) return "AGPE";
  else if constexpr (H == MH::AXISYMMETRICALGENERALISEDPLANESTRESS) return "AGPS";
  else if constexpr (H == MH::AXISYMMETRICAL) return "AXI";
  else if constexpr (H == MH::PLANESTRESS) return "PS";
  else if constexpr (H == MH::PLANESTRAIN) return "PE";
  else if constexpr (H == MH::GENERALISEDPLANESTRAIN) return "GPE";
  else return "TRI";
}
template <OAC C>
constexpr const char* cname() {
  if constexpr (C == OAC::DEFAULT) return "DEFAULT";
  else if constexpr (C == OAC::PIPE) return "PIPE";
  else return "PLATE";
}

template <MH::Hypothesis H, OAC C>
void trace_sfe() {
  constexpr auto N = ModellingHypothesisToSpaceDimension<H>::value;
  constexpr int S = StensorDimeToSize<N>::value;
  Unit u(std::string("sfe_") + hname<H>() + "_" + cname<C>());
  stensor<N, Sym> s;
  verif::fill_inputs(s, "s", S);
  convertStressFreeExpansionStrain<H, C>(s);
  verif::outputs("r", s, S);
}

template <MH::Hypothesis H, OAC C>
void trace_hill() {
  constexpr auto N = ModellingHypothesisToSpaceDimension<H>::value;
  constexpr int S = StensorDimeToSize<N>::value;
  Unit u(std::string("hill_") + hname<H>() + "_" + cname<C>());
  const Sym F = verif::scalar_input("hF", 0.371), G = verif::scalar_input("hG", 0.433), Hh = verif::scalar_input("hH", 0.629),
            L = verif::scalar_input("hL", 1.31), M = verif::scalar_input("hM", 1.57), Nn = verif::scalar_input("hN", 1.73);
  const st2tost2<N, Sym> r = computeHillTensor<H, C, Sym>(F, G, Hh, L, M, Nn);
  verif::outputs2("r", r, S, S);
}

template <MH::Hypothesis H, StiffnessTensorAlterationCharacteristic A, OAC C>
void trace_stiff() {
  constexpr auto N = ModellingHypothesisToSpaceDimension<H>::value;
  constexpr int S = StensorDimeToSize<N>::value;
  Unit u(std::string("stiff_") + hname<H>() + "_" + (A == StiffnessTensorAlterationCharacteristic::ALTERED ? "A" : "U") + "_" +
         cname<C>());
  const Sym E1 = verif::scalar_input("E1", 150.), E2 = verif::scalar_input("E2", 70.), E3 = verif::scalar_input("E3", 40.),
            n12 = verif::scalar_input("nu12", 0.31), n23 = verif::scalar_input("nu23", 0.23), n13 = verif::scalar_input("nu13", 0.17),
            G12 = verif::scalar_input("G12", 30.), G23 = verif::scalar_input("G23", 20.), G13 = verif::scalar_input("G13", 10.);
  st2tost2<N, Sym> Cm;
  computeOrthotropicStiffnessTensor<H, A, C>(Cm, E1, E2, E3, n12, n23, n13, G12, G23, G13);
  verif::outputs2("r", Cm, S, S);
}

template <MH::Hypothesis H>
void trace_hyp() {
  constexpr auto U = StiffnessTensorAlterationCharacteristic::UNALTERED;
  constexpr auto A = StiffnessTensorAlterationCharacteristic::ALTERED;
  trace_sfe<H, OAC::DEFAULT>();
  trace_sfe<H, OAC::PIPE>();
  trace_sfe<H, OAC::PLATE>();
  trace_hill<H, OAC::DEFAULT>();
  trace_hill<H, OAC::PIPE>();
  if constexpr (H == MH::TRIDIMENSIONAL || H == MH::PLANESTRESS || H == MH::PLANESTRAIN || H == MH::GENERALISEDPLANESTRAIN) {
    trace_hill<H, OAC::PLATE>();
  }
  trace_stiff<H, U, OAC::DEFAULT>();
  trace_stiff<H, U, OAC::PIPE>();
  trace_stiff<H, A, OAC::DEFAULT>();
  trace_stiff<H, A, OAC::PIPE>();
}

template <unsigned short N>
void trace_plasticity() {
  constexpr int S = StensorDimeToSize<N>::value;
  const std::string d = "_N" + std::to_string(N);
  auto coefs = [](const char* p, const int n) {
    std::vector<Sym> a;
    for (int i = 0; i != n; ++i) a.push_back(verif::scalar_input(p + std::to_string(i + 1), 0.5 + 0.13 * i));
    return a;
  };
  {
    Unit u("j2o" + d);
    stensor<N, Sym> s;
    verif::fill_inputs(s, "s", S);
    const auto a = coefs("a", 6);
    verif::output("r", computeJ2O(s, a[0], a[1], a[2], a[3], a[4], a[5]));
  }
  {
    Unit u("j2o_d" + d);
    stensor<N, Sym> s;
    verif::fill_inputs(s, "s", S);
    const auto a = coefs("a", 6);
    const stensor<N, Sym> r = computeJ2ODerivative(s, a[0], a[1], a[2], a[3], a[4], a[5]);
    verif::outputs("r", r, S);
  }
  {
    Unit u("j2o_d2" + d);
    stensor<N, Sym> s;
    verif::fill_inputs(s, "s", S);
    const auto a = coefs("a", 6);
    const st2tost2<N, Sym> r = computeJ2OSecondDerivative(s, a[0], a[1], a[2], a[3], a[4], a[5]);
    verif::outputs2("r", r, S, S);
  }
  {
    Unit u("j3o" + d);
    stensor<N, Sym> s;
    verif::fill_inputs(s, "s", S);
    const auto b = coefs("b", 11);
    verif::output("r", computeJ3O(s, b[0], b[1], b[2], b[3], b[4], b[5], b[6], b[7], b[8], b[9], b[10]));
  }
  {
    Unit u("j3o_d" + d);
    stensor<N, Sym> s;
    verif::fill_inputs(s, "s", S);
    const auto b = coefs("b", 11);
    const stensor<N, Sym> r = computeJ3ODerivative(s, b[0], b[1], b[2], b[3], b[4], b[5], b[6], b[7], b[8], b[9], b[10]);
    verif::outputs("r", r, S);
  }
  {
    Unit u("j3o_d2" + d);
    stensor<N, Sym> s;
    verif::fill_inputs(s, "s", S);
    const auto b = coefs("b", 11);
    const st2tost2<N, Sym> r =
        computeJ3OSecondDerivative(s, b[0], b[1], b[2], b[3], b[4], b[5], b[6], b[7], b[8], b[9], b[10]);
    verif::outputs2("r", r, S, S);
  }
}

#ifdef C28_PLATE_STIFFNESS
// separate program: the PLATE specialisation of the stiffness computation (hypotheses for which the PLATE
// convention is documented). Kept apart so that its absence does not hide everything else.
template <MH::Hypothesis H>
void trace_plate() {
  trace_stiff<H, StiffnessTensorAlterationCharacteristic::UNALTERED, OAC::PLATE>();
  trace_stiff<H, StiffnessTensorAlterationCharacteristic::ALTERED, OAC::PLATE>();
}
int main() {
  trace_plate<MH::PLANESTRESS>();
  trace_plate<MH::PLANESTRAIN>();
  trace_plate<MH::GENERALISEDPLANESTRAIN>();
  trace_plate<MH::TRIDIMENSIONAL>();
  return 0;
}
#else
int main() {
  trace_hyp<MH::AXISYMMETRICALGENERALISEDPLANESTRAIN>();
  trace_hyp<MH::AXISYMMETRICALGENERALISEDPLANESTRESS>();
  trace_hyp<MH::AXISYMMETRICAL>();
  trace_hyp<MH::PLANESTRESS>();
  trace_hyp<MH::PLANESTRAIN>();
  trace_hyp<MH::GENERALISEDPLANESTRAIN>();
  trace_hyp<MH::TRIDIMENSIONAL>();
  trace_plasticity<1u>();
  trace_plasticity<2u>();
  trace_plasticity<3u>();
  return 0;
}
#endif
