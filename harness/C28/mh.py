"""C28 — generators of lean/TfelVerif/C28/GenTable.lean.

Two independent sources, both from the tree under test:
  * T3-lite: the bodies of ModellingHypothesis::{getModellingHypotheses,isModellingHypothesis,toString,
    toUpperCaseString,fromString} and getSpaceDimension/getStensorSize/getTensorSize in
    src/Material/ModellingHypothesis.cxx are parsed (shape: chain of `if (x == LIT || ...) { return V; } else if ...`
    ended by `raise(...)`, or `return ((h == "A") || ...);`, or a static vector initialiser) into Lean functions
    defined on ALL strings / enum values. Anything of another shape raises `Unsupported` (= broken tie).
  * T2: the dump program harness/C28/dump.cxx (real accessors called over the enum + probe strings) becomes
    Lean tables; Props.lean proves (by evaluation, in the kernel) that the parsed functions reproduce the dump.
"""
import re


class Unsupported(Exception):
    pass


def strip_comments(t):
    t = re.sub(r"/\*.*?\*/", lambda m: "\n" * m.group(0).count("\n"), t, flags=re.S)
    return re.sub(r"//[^\n]*", "", t)


TOK = re.compile(r'\s*(?:(?P<str>"(?:[^"\\]|\\.)*")|(?P<num>\d+)[uU]?|(?P<id>[A-Za-z_][\w]*(?:::[A-Za-z_]\w*)*)|(?P<op>==|\|\||[(){};,+]))')


def tokens(text):
    out, i = [], 0
    text = text.rstrip()
    while i < len(text):
        m = TOK.match(text, i)
        if not m:
            raise Unsupported("unexpected text in function body: %r" % text[i:i + 40])
        i = m.end()
        for k in ("str", "num", "id", "op"):
            if m.group(k) is not None:
                out.append((k, m.group(k)))
                break
    return out


def body_of(src, signature_re):
    m = re.search(signature_re, src)
    if not m:
        raise Unsupported("function not found: %s" % signature_re)
    i = src.index("{", m.end() - 1)
    depth, j = 0, i
    while True:
        if src[j] == "{":
            depth += 1
        elif src[j] == "}":
            depth -= 1
            if depth == 0:
                break
        j += 1
    return src[i + 1:j]


class P:
    def __init__(self, toks, param, enums):
        self.t, self.i, self.param, self.enums = toks, 0, param, enums

    def peek(self):
        return self.t[self.i] if self.i < len(self.t) else ("eof", "")

    def eat(self, kind, val=None):
        k, v = self.peek()
        if k != kind or (val is not None and v != val):
            raise Unsupported("expected %s %s, found %s %r" % (kind, val or "", k, v))
        self.i += 1
        return v

    def operand(self):
        k, v = self.peek()
        self.i += 1
        if k == "str":
            return ("str", strlit(v))
        if k == "id":
            if v == self.param:
                return ("param",)
            e = v.split("::")[-1]
            if e in self.enums:
                return ("enum", e)
        raise Unsupported("operand %r outside the supported shape" % v)

    def atom(self):
        if self.peek() == ("op", "("):
            self.i += 1
            c = self.cond()
            self.eat("op", ")")
            return c
        a = self.operand()
        self.eat("op", "==")
        b = self.operand()
        if a[0] == "param":
            return [b]
        if b[0] == "param":
            return [a]
        raise Unsupported("comparison that does not involve the parameter")

    def cond(self):
        lits = self.atom()
        while self.peek() == ("op", "||"):
            self.i += 1
            lits = lits + self.atom()
        return lits

    def value(self):
        k, v = self.peek()
        self.i += 1
        if k == "str":
            return ("str", strlit(v))
        if k == "num":
            return ("num", int(v))
        if k == "id" and v.split("::")[-1] in self.enums:
            return ("enum", v.split("::")[-1])
        raise Unsupported("return value %r outside the supported shape" % v)

    def chain(self):
        """[(literals, value)] then a raise"""
        rows = []
        while True:
            self.eat("id", "if")
            self.eat("op", "(")
            c = self.cond()
            self.eat("op", ")")
            self.eat("op", "{")
            self.eat("id", "return")
            v = self.value()
            self.eat("op", ";")
            self.eat("op", "}")
            rows.append((c, v))
            if self.peek() == ("id", "else"):
                self.i += 1
                continue
            break
        k, v = self.peek()
        if k != "id" or v.split("::")[-1] != "raise":
            raise Unsupported("the if-chain is not followed by raise(...)")
        return rows


def strlit(v):
    s = v[1:-1]
    if "\\" in s:
        raise Unsupported("escape sequence in string literal %s" % v)
    return s


def parse_enum(hxx):
    m = re.search(r"enum\s+Hypothesis\s*\{(.*?)\}", strip_comments(hxx), re.S)
    if not m:
        raise Unsupported("enum Hypothesis not found")
    names = [x.strip() for x in m.group(1).split(",") if x.strip()]
    for n in names:
        if not re.fullmatch(r"[A-Z_][A-Z0-9_]*", n):
            raise Unsupported("enumerator %r (explicit values are outside the supported shape)" % n)
    return names


def parse_source(cxx, hxx):
    enums = parse_enum(hxx)
    src = strip_comments(cxx)
    res = {"enum": enums}
    b = body_of(src, r"ModellingHypothesis::getModellingHypotheses\s*\(\s*\)\s*\{")
    m = re.fullmatch(r"\s*static\s+std::vector<\s*ModellingHypothesis::Hypothesis\s*>\s+(\w+)\s*\{(.*?)\}\s*;\s*return\s+(\w+)\s*;\s*", b, re.S)
    if not m or m.group(1) != m.group(3):
        raise Unsupported("getModellingHypotheses is not `static std::vector<...> h{...}; return h;`")
    lst = [x.strip().split("::")[-1] for x in m.group(2).split(",") if x.strip()]
    if any(x not in enums for x in lst):
        raise Unsupported("unknown enumerator in getModellingHypotheses")
    res["list"] = lst
    b = body_of(src, r"ModellingHypothesis::isModellingHypothesis\s*\(\s*const\s+std::string\s*&\s*(\w+)\s*\)\s*\{")
    param = re.search(r"isModellingHypothesis\s*\(\s*const\s+std::string\s*&\s*(\w+)", src).group(1)
    p = P(tokens(b), param, enums)
    p.eat("id", "return")
    lits = p.cond()
    p.eat("op", ";")
    if p.peek()[0] != "eof" or any(l[0] != "str" for l in lits):
        raise Unsupported("isModellingHypothesis is not a single disjunction of string comparisons")
    res["is"] = [l[1] for l in lits]
    for key, sig, kind in (("toString", r"ModellingHypothesis::toString\s*\(\s*const\s+Hypothesis\s+(\w+)\s*\)\s*\{", "enum"),
                           ("toUpper", r"ModellingHypothesis::toUpperCaseString\s*\(\s*const\s+Hypothesis\s+(\w+)\s*\)\s*\{", "enum"),
                           ("fromString", r"ModellingHypothesis::fromString\s*\(\s*const\s+std::string\s*&\s*(\w+)\s*\)\s*\{", "str"),
                           ("dim", r"unsigned\s+short\s+getSpaceDimension\s*\(\s*const\s+ModellingHypothesis::Hypothesis\s+(\w+)\s*\)\s*\{", "enum"),
                           ("stensor", r"unsigned\s+short\s+getStensorSize\s*\(\s*const\s+ModellingHypothesis::Hypothesis\s+(\w+)\s*\)\s*\{", "enum"),
                           ("tensor", r"unsigned\s+short\s+getTensorSize\s*\(\s*const\s+ModellingHypothesis::Hypothesis\s+(\w+)\s*\)\s*\{", "enum")):
        param = re.search(sig, src)
        if not param:
            raise Unsupported("function not found: %s" % key)
        b = body_of(src, sig)
        rows = P(tokens(b), param.group(1), enums).chain()
        for lits, v in rows:
            if any(l[0] != kind for l in lits):
                raise Unsupported("%s: comparison with a %s expected" % (key, kind))
        res[key] = rows
    return res


def parse_dump(text):
    d = {"hyps": [], "enum": [], "h": [], "t": [], "s": []}
    for line in text.splitlines():
        if line.startswith("hyps"):
            d["hyps"] = [int(x) for x in line.split()[1:]]
        elif line.startswith("enum "):
            _, v, n = line.split()
            d["enum"].append((int(v), n))
        elif line.startswith("h "):
            f = line.split()
            kv = dict(x.split("=", 1) for x in f[2:])
            d["h"].append((int(f[1]), kv["toString"], kv["upper"], kv["dim"], kv["stensor"], kv["tensor"]))
        elif line.startswith("t "):
            f = line.split()
            kv = dict(x.split("=", 1) for x in f[2:])
            d["t"].append((int(f[1]), int(kv["dim"]), int(kv["stensor"]), int(kv["tensor"])))
        elif line.startswith("s "):
            m = re.fullmatch(r's "(.*)" is=([01]) from=(\d+|!)', line)
            if not m:
                raise Unsupported("dump line %r" % line)
            d["s"].append((m.group(1), m.group(2) == "1", None if m.group(3) == "!" else int(m.group(3))))
    return d


def lstr(s):
    return '"' + s.replace("\\", "\\\\").replace('"', '\\"') + '"'


def lopt(v, f=str):
    return "none" if v is None or v == "!" else "some " + f(v)


def to_lean(src, dump, header=""):
    E = src["enum"]
    o = ["/- GENERATED on every run by harness/C28/mh.py from src/Material/ModellingHypothesis.cxx,",
         "   include/TFEL/Material/ModellingHypothesis.hxx (parsed) and harness/C28/dump.cxx (executed). Do not edit.",
         "   " + header + " -/",
         "namespace TfelVerif.C28.Gen", "",
         "/-- `ModellingHypothesis::Hypothesis`, enumerators in declaration order (value = position) -/",
         "inductive Hyp where"]
    o += ["  | %s" % e for e in E]
    o += ["  deriving DecidableEq, Repr", "",
          "def Hyp.all : List Hyp := [%s]" % ", ".join("." + e for e in E), "",
          "def Hyp.name : Hyp → String\n" + "\n".join("  | .%s => %s" % (e, lstr(e)) for e in E), "",
          "/-- integer value of the enumerator (no explicit values in the enum: value = position) -/",
          "def Hyp.val : Hyp → Nat\n" + "\n".join("  | .%s => %d" % (e, i) for i, e in enumerate(E)), "",
          "/-! ### parsed from the function bodies (defined on every string / every enumerator) -/", "",
          "def getModellingHypotheses : List Hyp := [%s]" % ", ".join("." + e for e in src["list"]), "",
          "def isModellingHypothesis (h : String) : Bool :=\n  " + " || ".join("(h == %s)" % lstr(s) for s in src["is"]), ""]

    def cond(lits, kind):
        if kind == "str":
            return " ∨ ".join("h = %s" % lstr(l[1]) for l in lits)
        return " ∨ ".join("h = .%s" % l[1] for l in lits)

    def val(v):
        return {"str": lambda x: "some " + lstr(x), "num": lambda x: "some %d" % x, "enum": lambda x: "some .%s" % x}[v[0]](v[1])
    for key, name, arg, ret, kind in (("toString", "toString", "Hyp", "String", "enum"), ("toUpper", "toUpperCaseString", "Hyp", "String", "enum"),
                                      ("fromString", "fromString", "String", "Hyp", "str"), ("dim", "getSpaceDimension", "Hyp", "Nat", "enum"),
                                      ("stensor", "getStensorSize", "Hyp", "Nat", "enum"), ("tensor", "getTensorSize", "Hyp", "Nat", "enum")):
        o.append("/-- `none` = the function raises -/")
        o.append("def %s (h : %s) : Option %s :=" % (name, arg, ret))
        for lits, v in src[key]:
            o.append("  if %s then %s else" % (cond(lits, kind), val(v)))
        o.append("  none")
        o.append("")
    o += ["/-! ### dumped by running the real accessors (enum values as integers) -/", "",
          "def dumpHyps : List Nat := %s" % dump["hyps"],
          "def dumpEnum : List (Nat × String) := [%s]" % ", ".join("(%d, %s)" % (v, lstr(n)) for v, n in dump["enum"]),
          "/-- (value, toString, toUpperCaseString, getSpaceDimension, getStensorSize, getTensorSize) -/",
          "def dumpH : List (Nat × Option String × Option String × Option Nat × Option Nat × Option Nat) := [",
          ",\n".join("  (%d, %s, %s, %s, %s, %s)" % (v, lopt(a, lstr), lopt(b, lstr), lopt(c), lopt(d), lopt(e)) for v, a, b, c, d, e in dump["h"]) + "]",
          "/-- (value, ModellingHypothesisToSpaceDimension, …ToStensorSize, …ToTensorSize) -/",
          "def dumpT : List (Nat × Nat × Nat × Nat) := [%s]" % ", ".join("(%d, %d, %d, %d)" % r for r in dump["t"]),
          "/-- (probe string, isModellingHypothesis, fromString) -/",
          "def dumpS : List (String × Bool × Option Nat) := [",
          ",\n".join("  (%s, %s, %s)" % (lstr(s), "true" if b else "false", lopt(f)) for s, b, f in dump["s"]) + "]",
          "", "end TfelVerif.C28.Gen", ""]
    return "\n".join(o)


if __name__ == "__main__":
    import sys
    s = parse_source(open(sys.argv[1]).read(), open(sys.argv[2]).read())
    print(to_lean(s, parse_dump(open(sys.argv[3]).read())))
