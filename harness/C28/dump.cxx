// T2 dump for C28: calls the real accessors of src/Material/ModellingHypothesis.cxx (compiled into this
// program from the tree under test) over the whole enum and over probe strings read from stdin.
//   out: hyps <v0> <v1> ...                       getModellingHypotheses() as enum integer values
//        enum <v> <name>                           enumerators (compile-time, from the header)
//        h <v> toString=<s|!> upper=<s|!> dim=<n|!> stensor=<n|!> tensor=<n|!>
//        t <v> dim=<n> stensor=<n> tensor=<n>      ModellingHypothesisTo{SpaceDimension,StensorSize,TensorSize}<v>::value
//        s <quoted string> is=<0|1> from=<v|!>
#include <iostream>
#include <sstream>
#include <string>
#include "TFEL/Material/ModellingHypothesis.hxx"

using namespace tfel::material;
using MH = ModellingHypothesis;

template <typename F>
static std::string guarded(F&& f) {
  try {
    std::ostringstream os;
    os << f();
    return os.str();
  } catch (std::exception&) {
    return "!";
  }
}

template <MH::Hypothesis H>
static void templ() {
  std::cout << "t " << int(H) << " dim=" << ModellingHypothesisToSpaceDimension<H>::value
            << " stensor=" << ModellingHypothesisToStensorSize<H>::value
            << " tensor=" << ModellingHypothesisToTensorSize<H>::value << "\n";
}

int main() {
  std::cout << "hyps";
  for (const auto h : MH::getModellingHypotheses()) std::cout << " " << int(h);
  std::cout << "\n";
#define ENUM(X) std::cout << "enum " << int(MH::X) << " " #X "\n"
  ENUM(AXISYMMETRICALGENERALISEDPLANESTRAIN);
  ENUM(AXISYMMETRICALGENERALISEDPLANESTRESS);
  ENUM(AXISYMMETRICAL);
  ENUM(PLANESTRESS);
  ENUM(PLANESTRAIN);
  ENUM(GENERALISEDPLANESTRAIN);
  ENUM(TRIDIMENSIONAL);
  ENUM(UNDEFINEDHYPOTHESIS);
  for (int v = 0; v <= int(MH::UNDEFINEDHYPOTHESIS); ++v) {
    const auto h = static_cast<MH::Hypothesis>(v);
    std::cout << "h " << v << " toString=" << guarded([&] { return MH::toString(h); })
              << " upper=" << guarded([&] { return MH::toUpperCaseString(h); })
              << " dim=" << guarded([&] { return getSpaceDimension(h); })
              << " stensor=" << guarded([&] { return getStensorSize(h); })
              << " tensor=" << guarded([&] { return getTensorSize(h); }) << "\n";
  }
  templ<MH::AXISYMMETRICALGENERALISEDPLANESTRAIN>();
  templ<MH::AXISYMMETRICALGENERALISEDPLANESTRESS>();
  templ<MH::AXISYMMETRICAL>();
  templ<MH::PLANESTRESS>();
  templ<MH::PLANESTRAIN>();
  templ<MH::GENERALISEDPLANESTRAIN>();
  templ<MH::TRIDIMENSIONAL>();
  std::string s;
  while (std::getline(std::cin, s)) {
    std::cout << "s \"" << s << "\" is=" << (MH::isModellingHypothesis(s) ? 1 : 0)
              << " from=" << guarded([&] { return int(MH::fromString(s)); }) << "\n";
  }
  return 0;
}
