/*! LU oracle for the C42 tracers.
 * TinyMatrixSolveBase<N, Sym, false, false>::decomp / back_substitute (the kernels the generated
 * computeConsistentTangentOperator / computePartialJacobianInvert call; their correctness is property C07) are
 * specialised: while the oracle is armed, decomp accepts the matrix unchanged and back_substitute(m, p, b)
 * returns iJ . b where iJ is a matrix of input symbols iJ<i>_<j> (the inverse of the jacobian, characterised in
 * the Lean theorems by the hypothesis J . iJ = 1); otherwise both forward to the shipped implementation
 * (the primary template with perform_runtime_checks = true, which only adds three size tests). */
#ifndef VERIF_C41_LU_ORACLE_HXX
#define VERIF_C41_LU_ORACLE_HXX
#include <vector>
#include "TFEL/Math/TinyMatrixSolve.hxx"
namespace c41 {
  struct LUOracle {
    bool armed = false;
    int n = 0, decomps = 0, solves = 0;
    std::vector<verif::Sym> iJ;
    void arm(const int n_) {
      armed = true;
      n = n_;
      decomps = solves = 0;
      iJ.resize(n * n);
      for (int i = 0; i != n; ++i)
        for (int j = 0; j != n; ++j)
          iJ[i * n + j] = verif::make_input("iJ" + std::to_string(i) + "_" + std::to_string(j), i == j ? 1. : 0.02 * (i - j));
    }
    void disarm() { armed = false; }
  };
  inline LUOracle& lu_oracle() {
    static LUOracle o;
    return o;
  }
}  // namespace c41
namespace tfel::math {
  template <unsigned short N>
  struct TinyMatrixSolveBase<N, verif::Sym, false, false> {
    using T = verif::Sym;
    using Real = TinyMatrixSolveBase<N, verif::Sym, false, true>;
    template <MatrixConcept M>
    static bool decomp(M& m, TinyPermutation<N>& p, const T eps = 100 * std::numeric_limits<T>::min()) noexcept {
      auto& o = c41::lu_oracle();
      if (!o.armed) return Real::decomp(m, p, eps);
      ++o.decomps;
      return true;
    }
    template <MatrixConcept M, VectorConcept V>
    static bool back_substitute(const M& m, const TinyPermutation<N>& p, V& b, const T eps = 100 * std::numeric_limits<T>::min()) noexcept {
      auto& o = c41::lu_oracle();
      if (!o.armed) return Real::back_substitute(m, p, b, eps);
      ++o.solves;
      tvector<N, T> x;
      for (unsigned short i = 0; i != N; ++i) {
        T v = T(0);
        for (unsigned short j = 0; j != N; ++j) v += o.iJ[i * N + j] * b(j);
        x(i) = v;
      }
      for (unsigned short i = 0; i != N; ++i) b(i) = x(i);
      return true;
    }
    template <unsigned short Mc>
    static bool back_substitute(const tmatrix<N, N, T>& m, const TinyPermutation<N>& p, tmatrix<N, Mc, T>& b,
                                const T eps = 100 * std::numeric_limits<T>::min()) noexcept {
      return Real::back_substitute(m, p, b, eps);
    }
  };
}  // namespace tfel::math
#endif
