/*! symbolic mfront_gb_BehaviourData for the C41..C44 tracers (mfront_gb_real = verif::Sym) */
#ifndef VERIF_C41_GBDATA_HXX
#define VERIF_C41_GBDATA_HXX
#include <string>
#include <vector>
#include "MFront/GenericBehaviour/BehaviourData.h"
namespace c41 {
  using verif::Sym;
  /*! buffers + the C structure handed to the generic interface. Every output buffer (s1 forces, s1 internal
   * state variables, K beyond the flags) is pre-filled with "garbage" input symbols g*: a component that the
   * code forgets to write shows up as a g symbol in the generated definitions and breaks the theorems. */
  struct Data {
    std::vector<Sym> e0, e1, s0, s1, mp, isv0, isv1, esv0, esv1, K;
    Sym rdt = Sym(1), rho = Sym(1), sos = Sym(0), se0 = Sym(0), se1 = Sym(0), de0 = Sym(0), de1 = Sym(0);
    mfront_gb_BehaviourData d;
    /*! \param ng: number of gradient/flux components; nmp, nisv, nesv: sizes */
    Data(const int ng, const int nmp, const int nisv, const int nesv)
        : e0(ng), e1(ng), s0(ng), s1(ng), mp(nmp), isv0(nisv + 1), isv1(nisv + 1), esv0(nesv + 1), esv1(nesv + 1), K(ng * ng + 4) {
      for (int i = 0; i != ng; ++i) {
        e0[i] = verif::make_input("eto" + std::to_string(i), 0.011 * (i + 1) * (i % 2 ? -1 : 1));
        e1[i] = e0[i] + verif::make_input("deto" + std::to_string(i), 0.003 * (i + 2) * (i % 3 ? 1 : -1));
        s0[i] = verif::make_input("sig0_" + std::to_string(i), 3.5 * (i + 1));
        s1[i] = verif::make_input("gs" + std::to_string(i), 1.e3 + i);
      }
      for (int i = 0; i != nisv; ++i) isv1[i] = verif::make_input("gv" + std::to_string(i), 2.e3 + i);
      for (auto& k : K) k = verif::make_input("gK", 3.e3);
      d.error_message = nullptr;
      d.dt = verif::scalar_input("dt", 0.5);
      d.K = K.data();
      d.rdt = &rdt;
      d.speed_of_sound = &sos;
      d.s0.gradients = e0.data();
      d.s1.gradients = e1.data();
      d.s0.thermodynamic_forces = s0.data();
      d.s1.thermodynamic_forces = s1.data();
      d.s0.mass_density = &rho;
      d.s1.mass_density = &rho;
      d.s0.material_properties = mp.data();
      d.s1.material_properties = mp.data();
      d.s0.internal_state_variables = isv0.data();
      d.s1.internal_state_variables = isv1.data();
      d.s0.stored_energy = &se0;
      d.s1.stored_energy = &se1;
      d.s0.dissipated_energy = &de0;
      d.s1.dissipated_energy = &de1;
      d.s0.external_state_variables = esv0.data();
      d.s1.external_state_variables = esv1.data();
    }
  };
}  // namespace c41
#endif
