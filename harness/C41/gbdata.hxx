/*! symbolic mfront_gb_BehaviourData for the C41..C44 tracers (mfront_gb_real = verif::Sym) */
#ifndef VERIF_C41_GBDATA_HXX
#define VERIF_C41_GBDATA_HXX
#include <string>
#include <vector>
#include "MFront/GenericBehaviour/BehaviourData.h"
namespace c41 {
  using verif::Sym;
  /*! buffers + the C structure handed to the generic interface. Every output buffer (s1 forces, s1 internal
   * state variables, K beyond the flags) is pre-filled with "garbage" input symbols g*: a component that the
   * code forgets to write shows up as a g symbol in the generated definitions and breaks the theorems. */
  struct Data {
    std::vector<Sym> e0, e1, s0, s1, mp, isv0, isv1, esv0, esv1, K;
    Sym rdt = Sym(1), rho = Sym(1), sos = Sym(0), se0 = Sym(0), se1 = Sym(0), de0 = Sym(0), de1 = Sym(0);
    mfront_gb_BehaviourData d;
    //! default shadow values of the gradient/flux inputs (family "eto", "deto", "sig0")
    static double default_shadow(const std::string& f, const int i) {
      if (f == "eto") return 0.011 * (i + 1) * (i % 2 ? -1 : 1);
      if (f == "deto") return 0.003 * (i + 2) * (i % 3 ? 1 : -1);
      if (f == "dt") return 0.5;
      return 3.5 * (i + 1);
    }
    static Sym in(const std::string& f, const int i, double (*sh)(const std::string&, int)) {
      return verif::scalar_input(f + std::to_string(i), sh(f, i));
    }
    /*! \param ng: number of gradient/flux components; nmp, nisv, nesv: sizes; sh: shadow values */
    Data(const int ng, const int nmp, const int nisv, const int nesv, double (*sh)(const std::string&, int) = default_shadow)
        : e0(ng), e1(ng), s0(ng), s1(ng), mp(nmp), isv0(nisv + 1), isv1(nisv + 1), esv0(nesv + 1), esv1(nesv + 1), K(ng * ng + 4) {
      for (int i = 0; i != ng; ++i) {
        e0[i] = in("eto", i, sh);
        e1[i] = e0[i] + in("deto", i, sh);
        s0[i] = in("sa", i, sh);
        s1[i] = verif::make_input("gs" + std::to_string(i), 1.e3 + i);
      }
      for (int i = 0; i != nisv; ++i) isv1[i] = verif::make_input("gv" + std::to_string(i), 2.e3 + i);
      const Sym gK = verif::make_input("gK", 3.e3);
      for (auto& k : K) k = gK;
      d.error_message = nullptr;
      d.dt = verif::scalar_input("dt", sh("dt", 0));
      d.K = K.data();
      d.rdt = &rdt;
      d.speed_of_sound = &sos;
      d.s0.gradients = e0.data();
      d.s1.gradients = e1.data();
      d.s0.thermodynamic_forces = s0.data();
      d.s1.thermodynamic_forces = s1.data();
      d.s0.mass_density = &rho;
      d.s1.mass_density = &rho;
      d.s0.material_properties = mp.data();
      d.s1.material_properties = mp.data();
      d.s0.internal_state_variables = isv0.data();
      d.s1.internal_state_variables = isv1.data();
      d.s0.stored_energy = &se0;
      d.s1.stored_energy = &se1;
      d.s0.dissipated_energy = &de0;
      d.s1.dissipated_energy = &de1;
      d.s0.external_state_variables = esv0.data();
      d.s1.external_state_variables = esv1.data();
    }
  };
}  // namespace c41
#endif
