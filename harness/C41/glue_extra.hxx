/*! extra glue for tracing mfront-generated behaviours with NumericType = verif::Sym.
 * Included first by the C41..C44 tracers: takes the include guard of MFront/GenericBehaviour/Types.h and
 * supplies its two typedefs with mfront_gb_real = verif::Sym (as harness/C55 does); every other line of the
 * generic-interface headers is the shipped code. */
#ifndef VERIF_C41_GLUE_EXTRA_HXX
#define VERIF_C41_GLUE_EXTRA_HXX
#include "tracehelp.hxx"
#include <cstddef>
#define LIB_MFRONT_GENERICBEHAVIOUR_TYPES_H
typedef verif::Sym mfront_gb_real;
typedef size_t mfront_gb_size_type;
#endif
