// T1 tracer for C18: the arithmetic fsalgo templates instantiated with the recording scalar verif::Sym
// on distinct input symbols, user operations uninterpreted (`fn.call "op" [a, b]`): the trace shows which
// cell every result reads and in which order the operands are combined, for all values at once.
#include "tracehelp.hxx"
#include <array>
#include <string>
#include "TFEL/FSAlgorithm/FSAlgorithm.hxx"

using verif::Sym;
using verif::Unit;
using namespace tfel::fsalgo;

template <unsigned N>
void trace_size() {
  const std::string n = "_" + std::to_string(N);
  auto op = [](const Sym& a, const Sym& b) { return verif::make_call("op", {a, b}); };
  auto op1 = [](const Sym& a, const Sym& b) { return verif::make_call("op1", {a, b}); };
  auto op2 = [](const Sym& a, const Sym& b) { return verif::make_call("op2", {a, b}); };
  auto f1 = [](const Sym& a) { return verif::make_call("f", {a}); };
  {
    Unit u("acc" + n);
    std::array<Sym, N + 1> x;
    verif::fill_inputs(x, "x", N);
    const Sym init = verif::scalar_input("init", 0.7);
    verif::output("r", accumulate<N>::exe(x.begin(), init));
  }
  {
    Unit u("accop" + n);
    std::array<Sym, N + 1> x;
    verif::fill_inputs(x, "x", N);
    const Sym init = verif::scalar_input("init", 0.7);
    verif::output("r", accumulate<N>::exe(x.begin(), init, op));
  }
  {
    Unit u("ip" + n);
    std::array<Sym, N + 1> x, y;
    verif::fill_inputs(x, "x", N);
    verif::fill_inputs(y, "y", N);
    const Sym init = verif::scalar_input("init", 0.7);
    verif::output("r", inner_product<N>::exe(x.begin(), y.begin(), init));
  }
  {
    Unit u("ip0" + n);
    std::array<Sym, N + 1> x, y;
    verif::fill_inputs(x, "x", N);
    verif::fill_inputs(y, "y", N);
    verif::output("r", inner_product<N>::template exe<Sym>(x.begin(), y.begin()));
  }
  {
    Unit u("ipop" + n);
    std::array<Sym, N + 1> x, y;
    verif::fill_inputs(x, "x", N);
    verif::fill_inputs(y, "y", N);
    const Sym init = verif::scalar_input("init", 0.7);
    verif::output("r", inner_product<N>::exe(x.begin(), y.begin(), init, op1, op2));
  }
  {
    Unit u("tr1" + n);
    std::array<Sym, N + 1> x, o;
    verif::fill_inputs(x, "x", N);
    transform<N>::exe(x.begin(), o.begin(), f1);
    verif::outputs("o", o, N);
  }
  {
    Unit u("tr2" + n);
    std::array<Sym, N + 1> x, y, o;
    verif::fill_inputs(x, "x", N);
    verif::fill_inputs(y, "y", N);
    transform<N>::exe(x.begin(), y.begin(), o.begin(), op);
    verif::outputs("o", o, N);
  }
  {
    Unit u("copy" + n);
    std::array<Sym, N + 1> x, o;
    verif::fill_inputs(x, "x", N);
    copy<N>::exe(x.begin(), o.begin());
    verif::outputs("o", o, N);
  }
  {
    Unit u("swap" + n);
    std::array<Sym, N + 1> x, y;
    verif::fill_inputs(x, "x", N);
    verif::fill_inputs(y, "y", N);
    swap_ranges<N>::exe(x.begin(), y.begin());
    verif::outputs("x", x, N);
    verif::outputs("y", y, N);
  }
}

int main() {
  trace_size<0>();
  trace_size<1>();
  trace_size<2>();
  trace_size<3>();
  trace_size<5>();
  trace_size<12>();
  return 0;
}
