// C18 correspondence harness: runs the real tfel::fsalgo templates (mode "impl") or the std::
// algorithms on the first N elements (mode "std") in-process, N = 0..64, on integer ranges, with
// logging / state-carrying functors.
//   stdin : "<algo> <ra|fw> <N> <args...> | <cell0> <cell1> ..."      (see checks/C18.py)
//   stdout: same format as lean/TfelVerif/C18/Driver.lean
// "ra": plain pointers (random access: selects the unrolled copy<2..10> specialisations);
// "fw": a minimal forward iterator (generic templates everywhere).
#include <algorithm>
#include <cstdlib>
#include <iostream>
#include <iterator>
#include <numeric>
#include <sstream>
#include <string>
#include <utility>
#include <vector>
#include "TFEL/FSAlgorithm/FSAlgorithm.hxx"

// build-time pruning (compile time of 65 sizes x 22 algorithms x 2 iterator kinds x 2 modes):
//   -DC18_MODE=1 only the fsalgo templates ("impl"), =2 only std::, 0/undefined both (argv[1] selects)
//   -DC18_KIND=1 only "ra" requests, =2 only "fw" requests (the others answer "skip")
#ifndef C18_MODE
#define C18_MODE 0
#endif
#ifndef C18_KIND
#define C18_KIND 0
#endif
//   -DC18_PART=1 only the writing algorithms (copy fill transform generate iota swap_ranges), =2 the others
#ifndef C18_PART
#define C18_PART 0
#endif

using ll = long long;
constexpr ll P = 1000003;

struct Fwd {
  using iterator_category = std::forward_iterator_tag;
  using value_type = ll;
  using difference_type = std::ptrdiff_t;
  using pointer = ll*;
  using reference = ll&;
  ll* p = nullptr;
  reference operator*() const { return *p; }
  Fwd& operator++() {
    ++p;
    return *this;
  }
  Fwd operator++(int) {
    Fwd t = *this;
    ++p;
    return t;
  }
  bool operator==(const Fwd& o) const { return p == o.p; }
  bool operator!=(const Fwd& o) const { return p != o.p; }
};
static_assert(!tfel::typetraits::IsRandomAccessIterator<Fwd>::cond);
static_assert(tfel::typetraits::IsRandomAccessIterator<ll*>::cond);

template <typename It>
It mk(ll* p) {
  if constexpr (std::is_same_v<It, Fwd>) {
    return Fwd{p};
  } else {
    return p;
  }
}
inline ll* raw(ll* p) { return p; }
inline ll* raw(const Fwd& f) { return f.p; }
template <typename It>
It adv(It it, const unsigned n) {
  for (unsigned i = 0; i != n; ++i) ++it;
  return it;
}

// call log shared by all copies of a functor
static std::vector<std::string> calllog;
static void logcall(const std::string& s) { calllog.push_back(s); }
static std::string showlog() {
  std::string r = " log ";
  for (std::size_t i = 0; i != calllog.size(); ++i) r += (i ? ";" : "") + calllog[i];
  return r;
}
static std::string s2(const ll x, const ll y) { return std::to_string(x) + "," + std::to_string(y); }

struct Op1 {  // unary, by-value call counter
  ll a, b, k = 0;
  ll operator()(const ll x) {
    logcall(std::to_string(x));
    return (a * x + b + (k++)) % P;
  }
};
struct Op2 {
  ll a, b, k = 0;
  ll operator()(const ll x, const ll y) {
    logcall(s2(x, y));
    return (a * x - b * y + (k++)) % P;
  }
};
struct AccOp {
  ll a, b, k = 0;
  ll operator()(const ll x, const ll y) {
    logcall(s2(x, y));
    return (a * x + b * y + (k++)) % P;
  }
};
struct IpMul {
  ll operator()(const ll x, const ll y) const {
    logcall("m" + s2(x, y));
    return x - 2 * y;
  }
};
struct IpAdd {
  ll a, b;
  ll operator()(const ll x, const ll y) const {
    logcall("a" + s2(x, y));
    return (a * x + b * y) % P;
  }
};
struct Near {
  ll d;
  bool operator()(const ll x, const ll y) const {
    logcall(s2(x, y));
    return std::llabs(x - y) <= d;
  }
};
struct Each {
  ll h = 0;
  void operator()(const ll x) {
    logcall(std::to_string(x));
    h = (3 * h + x) % P;
  }
};
struct Gen {
  ll g;
  ll operator()() {
    const ll r = g;
    g = (5 * g + 3) % P;
    return r;
  }
};
struct KeyLess {
  bool operator()(const ll x, const ll y) const {
    logcall(s2(x, y));
    return x / 4 < y / 4;
  }
};

template <typename F, std::size_t... I>
void with_N_impl(const unsigned N, F&& f, std::index_sequence<I...>) {
  ((N == I ? (f(std::integral_constant<unsigned, I>{}), 0) : 0), ...);
}
template <typename F>
void with_N(const unsigned N, F&& f) {
  with_N_impl(N, f, std::make_index_sequence<65>{});
}

static std::string showmem(const std::vector<ll>& m) {
  std::string r = " mem";
  for (const ll x : m) r += " " + std::to_string(x);
  return r;
}

template <typename It>
std::string run(const bool impl_, const std::string& algo, const unsigned N, const std::vector<ll>& a,
                std::vector<ll>& m) {
  using namespace tfel::fsalgo;
  ll* const b = m.data();
  auto at = [&](const std::size_t i) { return mk<It>(b + a.at(i)); };
  auto pos = [&](const It& it) { return std::to_string(raw(it) - b); };
  std::string out = "bad-op";
  calllog.clear();
#if C18_MODE == 1
  constexpr bool impl = true;
  static_cast<void>(impl_);
#elif C18_MODE == 2
  constexpr bool impl = false;
  static_cast<void>(impl_);
#else
  const bool impl = impl_;
#endif
  with_N(N, [&](auto n) {
    constexpr unsigned K = decltype(n)::value;
#if C18_PART == 0 || C18_PART == 1
    if (algo == "copy") {
      const It r = impl ? It(copy<K>::exe(at(0), at(1))) : std::copy(at(0), adv(at(0), K), at(1));
      out = "ret " + pos(r) + showmem(m);
    }
#endif
#if C18_PART == 0 || C18_PART == 1
    if (algo == "fill") {
      if (impl) {
        fill<K>::exe(at(0), a.at(1));
      } else {
        std::fill(at(0), adv(at(0), K), a.at(1));
      }
      out = "ok" + showmem(m);
    }
#endif
#if C18_PART == 0 || C18_PART == 1
    if (algo == "tr1") {
      const Op1 op{a.at(2), a.at(3)};
      const It r = impl ? transform<K>::exe(at(0), at(1), op) : std::transform(at(0), adv(at(0), K), at(1), op);
      out = "ret " + pos(r) + showlog() + showmem(m);
    }
#endif
#if C18_PART == 0 || C18_PART == 1
    if (algo == "tr2") {
      const Op2 op{a.at(3), a.at(4)};
      const It r = impl ? transform<K>::exe(at(0), at(1), at(2), op)
                        : std::transform(at(0), adv(at(0), K), at(1), at(2), op);
      out = "ret " + pos(r) + showlog() + showmem(m);
    }
#endif
#if C18_PART == 0 || C18_PART == 2
    if (algo == "acc") {
      const ll r = impl ? accumulate<K>::exe(at(0), a.at(1)) : std::accumulate(at(0), adv(at(0), K), a.at(1));
      out = "val " + std::to_string(r);
    }
#endif
#if C18_PART == 0 || C18_PART == 2
    if (algo == "accs") {
      // a value type whose `+` is not commutative: std::string (cells -> one letter each)
      std::vector<std::string> s;
      for (const ll v : m) s.push_back(std::string(1, static_cast<char>('a' + ((v % 26) + 26) % 26)));
      const auto sb = s.begin() + a.at(0);
      out = "val " + (impl ? accumulate<K>::exe(sb, std::string("I")) : std::accumulate(sb, sb + K, std::string("I")));
    }
#endif
#if C18_PART == 0 || C18_PART == 2
    if (algo == "accop") {
      const AccOp op{a.at(2), a.at(3)};
      const ll r =
          impl ? accumulate<K>::exe(at(0), a.at(1), op) : std::accumulate(at(0), adv(at(0), K), a.at(1), op);
      out = "val " + std::to_string(r) + showlog();
    }
#endif
#if C18_PART == 0 || C18_PART == 2
    if (algo == "ip") {
      const ll r = impl ? inner_product<K>::exe(at(0), at(1), a.at(2))
                        : std::inner_product(at(0), adv(at(0), K), at(1), a.at(2));
      out = "val " + std::to_string(r);
    }
#endif
#if C18_PART == 0 || C18_PART == 2
    if (algo == "ipop") {
      const IpAdd o1{a.at(3), a.at(4)};
      const IpMul o2{};
      const ll r = impl ? inner_product<K>::exe(at(0), at(1), a.at(2), o1, o2)
                        : std::inner_product(at(0), adv(at(0), K), at(1), a.at(2), o1, o2);
      out = "val " + std::to_string(r) + showlog();
    }
#endif
#if C18_PART == 0 || C18_PART == 2
    if (algo == "ip0") {
      const ll r = impl ? inner_product<K>::template exe<ll>(at(0), at(1))
                        : std::inner_product(at(0), adv(at(0), K), at(1), ll{});
      out = "val " + std::to_string(r);
    }
#endif
#if C18_PART == 0 || C18_PART == 2
    if (algo == "eq") {
      const bool r = impl ? equal<K>::exe(at(0), at(1)) : std::equal(at(0), adv(at(0), K), at(1));
      out = std::string("val ") + (r ? "1" : "0");
    }
#endif
#if C18_PART == 0 || C18_PART == 2
    if (algo == "eqp") {
      const Near pr{a.at(2)};
      const bool r = impl ? equal<K>::exe(at(0), at(1), pr) : std::equal(at(0), adv(at(0), K), at(1), pr);
      out = std::string("val ") + (r ? "1" : "0") + showlog();
    }
#endif
#if C18_PART == 0 || C18_PART == 2
    if (algo == "foreach") {
      Each f;
      ll h;
      if (impl) {
        for_each<K>::exe(at(0), f);
        h = f.h;
      } else {
        h = std::for_each(at(0), adv(at(0), K), f).h;
      }
      out = "st " + std::to_string(h) + showlog();
    }
#endif
#if C18_PART == 0 || C18_PART == 1
    if (algo == "gen") {
      const Gen g{a.at(1)};
      if (impl) {
        generate<K>::exe(at(0), g);
      } else {
        std::generate(at(0), adv(at(0), K), g);
      }
      out = "ok" + showmem(m);
    }
#endif
#if C18_PART == 0 || C18_PART == 1
    if (algo == "iota") {
      if (impl) {
        iota<K>::exe(at(0), a.at(1));
      } else {
        std::iota(at(0), adv(at(0), K), a.at(1));
      }
      out = "ok" + showmem(m);
    }
#endif
#if C18_PART == 0 || C18_PART == 2
    if (algo == "min") {
      const It r = impl ? min_element<K>::exe(at(0)) : std::min_element(at(0), adv(at(0), K));
      out = "ret " + pos(r);
    }
#endif
#if C18_PART == 0 || C18_PART == 2
    if (algo == "max") {
      const It r = impl ? max_element<K>::exe(at(0)) : std::max_element(at(0), adv(at(0), K));
      out = "ret " + pos(r);
    }
#endif
#if C18_PART == 0 || C18_PART == 2
    if (algo == "minc") {
      const It r = impl ? min_element<K>::exe(at(0), KeyLess{}) : std::min_element(at(0), adv(at(0), K), KeyLess{});
      out = "ret " + pos(r) + showlog();
    }
#endif
#if C18_PART == 0 || C18_PART == 2
    if (algo == "maxc") {
      const It r = impl ? max_element<K>::exe(at(0), KeyLess{}) : std::max_element(at(0), adv(at(0), K), KeyLess{});
      out = "ret " + pos(r) + showlog();
    }
#endif
#if C18_PART == 0 || C18_PART == 1
    if (algo == "swap") {
      const It r = impl ? swap_ranges<K>::exe(at(0), at(1)) : std::swap_ranges(at(0), adv(at(0), K), at(1));
      out = "ret " + pos(r) + showmem(m);
    }
#endif
  });
  return out;
}

int main(int argc, char** argv) {
  const bool impl = !(argc > 1 && std::string(argv[1]) == "std");
  std::string line;
  while (std::getline(std::cin, line)) {
    const auto bar = line.find(" | ");
    if (bar == std::string::npos) {
      std::cout << "bad-op\n";
      continue;
    }
    std::istringstream rq(line.substr(0, bar)), cs(line.substr(bar + 3));
    std::string algo, kind;
    unsigned N = 0;
    if (!(rq >> algo >> kind >> N) || N > 64) {
      std::cout << "bad-op\n";
      continue;
    }
    std::vector<ll> a, m;
    for (ll v; rq >> v;) a.push_back(v);
    for (ll v; cs >> v;) m.push_back(v);
    try {
#if C18_KIND == 1
      std::cout << (kind == "ra" ? run<ll*>(impl, algo, N, a, m) : std::string("skip")) << "\n";
#elif C18_KIND == 2
      std::cout << (kind == "fw" ? run<Fwd>(impl, algo, N, a, m) : std::string("skip")) << "\n";
#else
      std::cout << (kind == "ra" ? run<ll*>(impl, algo, N, a, m) : run<Fwd>(impl, algo, N, a, m)) << "\n";
#endif
    } catch (const std::exception& e) {
      std::cout << "bad-op\n";
    }
  }
  return 0;
}
