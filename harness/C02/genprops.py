#!/usr/bin/env python3
"""Development aid for C02: writes the *text* of lean/TfelVerif/C02/Props*.lean (the statements are
uniform over the dimension N and the storage kinds, so they are produced from templates once and then
kept as fixed, reviewed files). NOT run by the check: bin/check C02 only re-checks the committed
Props*.lean against the regenerated Gen*.lean.   usage: python3 harness/C02/genprops.py"""
import os

OUT = os.path.join(os.path.dirname(os.path.abspath(__file__)), "..", "..", "lean", "TfelVerif", "C02")

HDR = '''/-
  C02 — {title}

  Property theorems only (generated once from harness/C02/genprops.py, then fixed). `Gen.*` are the
  definitions regenerated on every run by tracing the real TFEL templates (harness/C02/trace.cxx).
  Vocabulary: C02/Spec.lean. Conventions: `c` is any element with `c * c = 2` in a field with `2 ≠ 0`;
  a stored vector / matrix is a function on the full 3D row set (`Fin 6` symmetric, `Fin 9` general);
  in 2D / 1D the generated code only receives the rows that exist (`gen% f | a 4 4` passes
  `a 0 0 … a 3 3`), the specification sees the other rows as zero (`rv`, `rm` with the masks
  `mS2 mS1 mT2 mT1`), and `padN_*` embeds the 2D / 1D result into the 3D storage with zeros — so
  each theorem also says that the result has no component outside the dimension.
{extra}-/
{imports}

namespace TfelVerif.C02.Props
open TfelVerif TfelVerif.Mandel TfelVerif.C02
set_option linter.all false
set_option maxRecDepth 100000
set_option maxHeartbeats 1600000

variable {{K : Type}} [Field K] (c c3 : K) (fn : Fns K)
'''
FTR = "\nend TfelVerif.C02.Props\n"

HYP = "(hc : c * c = 2) (h2 : (2:K) ≠ 0)"


class Dim:
    def __init__(s, N):
        s.N = N
        s.S = {1: 3, 2: 4, 3: 6}[N]
        s.T = {1: 3, 2: 5, 3: 9}[N]

    # ---- inputs as seen by the specification
    def vS(s, x): return x if s.N == 3 else "(rv mS%d %s)" % (s.N, x)
    def vT(s, x): return x if s.N == 3 else "(rv mT%d %s)" % (s.N, x)
    def St(s, x): return "(T2.ofSt c %s)" % s.vS(x)
    def Te(s, x): return "(T2.ofTens %s)" % s.vT(x)
    def m(s, a, r, c_): return a if s.N == 3 else "(rm m%s%d m%s%d %s)" % (r, s.N, c_, s.N, a)
    def ST(s, a): return "(T4.ofST c %s)" % s.m(a, "S", "S")
    def TT(s, a): return "(T4.ofTT %s)" % s.m(a, "T", "T")
    def TS(s, a): return "(T4.ofTS c %s)" % s.m(a, "S", "T")
    def S2T(s, a): return "(T4.ofS2T c %s)" % s.m(a, "T", "S")
    def R(s): return "r" if s.N == 3 else "(T2.plane r)"

    # ---- outputs
    def _o4(s, lhs, e, rows, sto, r, c_, masked):
        if s.N == 3:
            return "%s\n      = %s (%s %s)" % (lhs, rows, sto, e)
        body = "(%s %s)" % (sto, e)
        if masked:
            body = "(rm m%s%d m%s%d %s)" % (r, s.N, c_, s.N, body)
        return "pad%d_%s (%s)\n      = %s %s" % (s.N, rows[4:], lhs, rows, body)

    def OST(s, lhs, e, masked=False): return s._o4(lhs, e, "rows66", "T4.stoST c", "S", "S", masked)
    def OTT(s, lhs, e, masked=False): return s._o4(lhs, e, "rows99", "T4.stoTT", "T", "T", masked)
    def OTS(s, lhs, e, masked=False): return s._o4(lhs, e, "rows69", "T4.stoTS c", "S", "T", masked)
    def OS2T(s, lhs, e, masked=False): return s._o4(lhs, e, "rows96", "T4.stoS2T c", "T", "S", masked)

    def Ost(s, lhs, e):
        return ("%s\n      = T2.st c %s" % (lhs, e)) if s.N == 3 else ("pad%d_6 (%s)\n      = T2.st c %s" % (s.N, lhs, e))

    def Ote(s, lhs, e):
        return ("%s\n      = T2.tens %s" % (lhs, e)) if s.N == 3 else ("pad%d_9 (%s)\n      = T2.tens %s" % (s.N, lhs, e))

    def gen(s, unit, args, out="all"):
        return "gen%% (Gen.N%d_%s_%s c c3 fn)%s" % (s.N, unit, out, "".join(" | " + a for a in args))

    def a(s, nm, kind):
        S, T = s.S, s.T
        return {"ST": "%s %d %d" % (nm, S, S), "TT": "%s %d %d" % (nm, T, T), "TS": "%s %d %d" % (nm, S, T),
                "S2T": "%s %d %d" % (nm, T, S), "s": "%s %d" % (nm, S), "t": "%s %d" % (nm, T), "r": "%s 3 3" % nm}[kind]


BND = {"ST": "Fin 6 → Fin 6 → K", "TT": "Fin 9 → Fin 9 → K", "TS": "Fin 6 → Fin 9 → K", "S2T": "Fin 9 → Fin 6 → K",
       "s": "Fin 6 → K", "t": "Fin 9 → K", "r": "Fin 3 → Fin 3 → K"}


def thm(name, binders, stmt, proof="t4_eq hc", hyps=HYP, doc=None, post=""):
    b = " ".join("(%s : %s)" % (n, BND.get(k, k)) for n, k in binders)
    d = ("/-- %s -/\n" % doc) if doc else ""
    return "%stheorem %s %s %s%s :\n    %s := by\n  %s\n" % (d, name, hyps, b, post, stmt, proof)


# ---------------------------------------------------------------- fourth-order families
def fourth_order(D, fam):
    N = D.N
    n = "N%d_" % N
    o = []
    A = lambda nm, k: D.a(nm, k)
    H3 = HYP + " (h3 : (3:K) ≠ 0)"
    if fam == "st":
        o.append("\n/-! ## st2tost2<%d>: action, composition, transposition, dyadic product -/\n" % N)
        o.append(thm(n + "st_apply", [("a", "ST"), ("s", "s")],
                     D.Ost(D.gen("st_apply", [A("a", "ST"), A("s", "s")]), "(T4.app %s %s)" % (D.ST("a"), D.St("s"))),
                     doc="`C * s` is `(C : s)_ij = C_ijkl s_kl`",
                     proof="rw [st_app_ST hc h2]; t4_eq hc"))
        o.append(thm(n + "st_applyL", [("s", "s"), ("a", "ST")],
                     D.Ost(D.gen("st_applyL", [A("s", "s"), A("a", "ST")]), "(T4.appL %s %s)" % (D.St("s"), D.ST("a"))),
                     doc="`s * C` is `(s : C)_kl = s_ij C_ijkl`",
                     proof="rw [st_appL_ST hc h2]; t4_eq hc"))
        o.append(thm(n + "st_comp", [("a", "ST"), ("b", "ST")],
                     D.OST(D.gen("st_comp", [A("a", "ST"), A("b", "ST")]), "(T4.comp %s %s)" % (D.ST("a"), D.ST("b"))),
                     doc="`C * D` (expression template product) is `C_ijmn D_mnkl`",
                     proof="rw [stoST_comp_ST_ST hc h2]; t4_eq hc"))
        o.append(thm(n + "st_transpose", [("a", "ST")],
                     D.OST(D.gen("st_transpose", [A("a", "ST")]), "(T4.transpose %s)" % D.ST("a")),
                     doc="`transpose(C)_ijkl = C_klij`",
                     proof="rw [stoST_transpose hc h2]; t4_eq hc"))
        o.append(thm(n + "st_dyad", [("s", "s"), ("t", "s")],
                     D.OST(D.gen("st_dyad", [A("s", "s"), A("t", "s")]), "(T2.dyad %s %s)" % (D.St("s"), D.St("t"))),
                     doc="`s ^ t` is `s_ij t_kl`",
                     proof="rw [stoST_dyad hc h2]; t4_eq hc"))
        o.append(thm(n + "st_add_scale", [("a", "ST"), ("b", "ST"), ("k", "K")],
                     D.OST(D.gen("st_add_scale", [A("a", "ST"), A("b", "ST"), "k"]), "(T4.lin k %s %s)" % (D.ST("a"), D.ST("b"))),
                     post=" (hk : k ≠ 0)", doc="`k*C + D - C/k` through expression templates"))
        o.append("\n/-! ## the projectors `Id, IxI, J, K, M` (in 2D / 1D: their rows that exist) -/\n")
        for (u, e, h) in [("st_Id", "T4.idS", HYP), ("st_IxI", "T4.IxI", HYP), ("st_J", "T4.J", H3), ("st_K", "T4.KS", H3),
                          ("st_M", "T4.M", H3)]:
            o.append(thm(n + u, [], D.OST(D.gen(u, []), e, masked=True), hyps=h))
        o.append("\n/-! ## rotations, change of basis, push-forward, components, conversion -/\n")
        if N > 1:
            o.append(thm(n + "st_fromRotationMatrix", [("r", "r")],
                         D.OST(D.gen("st_fromRotationMatrix", [A("r", "r")]), "(T4.symR (T4.rot %s))" % D.R(), masked=True),
                         doc="`fromRotationMatrix(R)` is the map `s ↦ Rᵀ s R` (`Lemmas.app_rot`): `(R_ki R_lj + R_li R_kj)/2`"))
        else:
            o.append(thm(n + "st_fromRotationMatrix", [("r", "r")],
                         D.OST(D.gen("st_fromRotationMatrix", [A("r", "r")]), "T4.idS", masked=True),
                         doc="1D: tensors are not rotated (`change_basis` is the identity), whatever `R`"))
        o.append(thm(n + "st_getComponent", [("a", "ST")],
                     "%s\n      = T4.comps pairs%d %s" % (D.gen("st_getComponent", [A("a", "ST")]), N, D.ST("a")),
                     doc="`getComponent(C,i,j,k,l)` is `C_ijkl` for the fourth-order tensor `T4.ofST` reads from the storage"))
        o.append(thm(n + "st_comp_ts_s2t", [("a", "TS"), ("b", "S2T")],
                     D.OST(D.gen("st_comp_ts_s2t", [A("a", "TS"), A("b", "S2T")]), "(T4.comp %s %s)" % (D.TS("a"), D.S2T("b"))),
                     doc="`t2tost2 * st2tot2`",
                     proof="rw [stoST_comp_TS_S2T hc h2]; t4_eq hc"))
    if fam == "tt":
        o.append("\n/-! ## t2tot2<%d> -/\n" % N)
        o.append(thm(n + "tt_apply", [("a", "TT"), ("x", "t")],
                     D.Ote(D.gen("tt_apply", [A("a", "TT"), A("x", "t")]), "(T4.app %s %s)" % (D.TT("a"), D.Te("x"))),
                     proof="rw [tens_app_TT hc h2]; t4_eq hc"))
        o.append(thm(n + "tt_applyL", [("x", "t"), ("a", "TT")],
                     D.Ote(D.gen("tt_applyL", [A("x", "t"), A("a", "TT")]), "(T4.appL %s %s)" % (D.Te("x"), D.TT("a"))),
                     proof="rw [tens_appL_TT hc h2]; t4_eq hc"))
        o.append(thm(n + "tt_comp", [("a", "TT"), ("b", "TT")],
                     D.OTT(D.gen("tt_comp", [A("a", "TT"), A("b", "TT")]), "(T4.comp %s %s)" % (D.TT("a"), D.TT("b"))),
                     proof="rw [stoTT_comp_TT_TT hc h2]; t4_eq hc"))
        o.append(thm(n + "tt_dyad", [("x", "t"), ("y", "t")],
                     D.OTT(D.gen("tt_dyad", [A("x", "t"), A("y", "t")]), "(T2.dyad %s %s)" % (D.Te("x"), D.Te("y"))),
                     proof="rw [stoTT_dyad hc h2]; t4_eq hc"))
        for (u, e, h) in [("tt_Id", "T4.id", HYP), ("tt_IxI", "T4.IxI", HYP), ("tt_K", "T4.KT", H3),
                          ("tt_transpose_derivative", "T4.transp", HYP)]:
            o.append(thm(n + u, [], D.OTT(D.gen(u, []), e, masked=True), hyps=h))
        if N > 1:
            o.append(thm(n + "tt_fromRotationMatrix", [("r", "r")],
                         D.OTT(D.gen("tt_fromRotationMatrix", [A("r", "r")]), "(T4.rot %s)" % D.R(), masked=True),
                         doc="`A ↦ Rᵀ A R`: `R_ki R_lj`"))
        else:
            o.append(thm(n + "tt_fromRotationMatrix", [("r", "r")],
                         D.OTT(D.gen("tt_fromRotationMatrix", [A("r", "r")]), "T4.id", masked=True)))
        o.append(thm(n + "tt_tpld", [("b", "t")], D.OTT(D.gen("tt_tpld", [A("b", "t")]), "(T4.tpld %s)" % D.Te("b"), masked=True),
                     doc="`tpld(B) = ∂(A·B)/∂A = δ_ik B_lj` (`Lemmas.app_tpld`: it maps `X` to `X·B`)"))
        o.append(thm(n + "tt_tprd", [("x", "t")], D.OTT(D.gen("tt_tprd", [A("x", "t")]), "(T4.tprd %s)" % D.Te("x"), masked=True),
                     doc="`tprd(A) = ∂(A·B)/∂B = A_ik δ_jl` (`Lemmas.app_tprd`: it maps `X` to `A·X`)"))
        o.append(thm(n + "tt_tpld_comp", [("b", "t"), ("a", "TT")],
                     D.OTT(D.gen("tt_tpld_comp", [A("b", "t"), A("a", "TT")]), "(T4.comp (T4.tpld %s) %s)" % (D.Te("b"), D.TT("a")))))
        o.append(thm(n + "tt_tprd_comp", [("x", "t"), ("a", "TT")],
                     D.OTT(D.gen("tt_tprd_comp", [A("x", "t"), A("a", "TT")]), "(T4.comp (T4.tprd %s) %s)" % (D.Te("x"), D.TT("a")))))
        o.append(thm(n + "tt_convert_from_t2tost2", [("a", "TS")],
                     D.OTT(D.gen("tt_convert_from_t2tost2", [A("a", "TS")]), D.TS("a")),
                     doc="`t2tot2(D)`: the same fourth-order tensor in the 9×9 storage"))
        o.append(thm(n + "tt_comp_s2t_ts", [("a", "S2T"), ("b", "TS")],
                     D.OTT(D.gen("tt_comp_s2t_ts", [A("a", "S2T"), A("b", "TS")]), "(T4.comp %s %s)" % (D.S2T("a"), D.TS("b"))),
                     doc="`st2tot2 * t2tost2`",
                     proof="rw [stoTT_comp_S2T_TS hc h2]; t4_eq hc"))
    if fam == "ts":
        o.append("\n/-! ## t2tost2<%d> -/\n" % N)
        o.append(thm(n + "ts_apply", [("a", "TS"), ("x", "t")],
                     D.Ost(D.gen("ts_apply", [A("a", "TS"), A("x", "t")]), "(T4.app %s %s)" % (D.TS("a"), D.Te("x"))),
                     proof="rw [st_app_TS hc h2]; t4_eq hc"))
        o.append(thm(n + "ts_applyL", [("s", "s"), ("a", "TS")],
                     D.Ote(D.gen("ts_applyL", [A("s", "s"), A("a", "TS")]), "(T4.appL %s %s)" % (D.St("s"), D.TS("a"))),
                     proof="rw [tens_appL_TS hc h2]; t4_eq hc"))
        o.append(thm(n + "ts_comp_st_ts", [("a", "ST"), ("b", "TS")],
                     D.OTS(D.gen("ts_comp_st_ts", [A("a", "ST"), A("b", "TS")]), "(T4.comp %s %s)" % (D.ST("a"), D.TS("b"))),
                     proof="rw [stoTS_comp_ST_TS hc h2]; t4_eq hc"))
        o.append(thm(n + "ts_comp_ts_tt", [("a", "TS"), ("b", "TT")],
                     D.OTS(D.gen("ts_comp_ts_tt", [A("a", "TS"), A("b", "TT")]), "(T4.comp %s %s)" % (D.TS("a"), D.TT("b"))),
                     proof="rw [stoTS_comp_TS_TT hc h2]; t4_eq hc"))
        o.append(thm(n + "ts_dyad", [("s", "s"), ("x", "t")],
                     D.OTS(D.gen("ts_dyad", [A("s", "s"), A("x", "t")]), "(T2.dyad %s %s)" % (D.St("s"), D.Te("x"))),
                     proof="rw [stoTS_dyad hc h2]; t4_eq hc"))
        o.append(thm(n + "ts_convert_from_t2tot2", [("a", "TT")],
                     D.OTS(D.gen("ts_convert_from_t2tot2", [A("a", "TT")]), "(T4.symL %s)" % D.TT("a")),
                     doc="`convertToT2toST2(T)`: symmetric part of the result, `(T_ijkl + T_jikl)/2`"))
        o.append(thm(n + "ts_dCdF", [("f", "t")], D.OTS(D.gen("ts_dCdF", [A("f", "t")]), "(T4.dCdF %s)" % D.Te("f"), masked=True),
                     doc="`dCdF(F) = ∂(FᵀF)/∂F` (`Lemmas.app_dCdF`: it maps `X` to `XᵀF + FᵀX`)"))
        o.append(thm(n + "ts_dBdF", [("f", "t")], D.OTS(D.gen("ts_dBdF", [A("f", "t")]), "(T4.dBdF %s)" % D.Te("f"), masked=True),
                     doc="`dBdF(F) = ∂(FFᵀ)/∂F` (`Lemmas.app_dBdF`: it maps `X` to `XFᵀ + FXᵀ`)"))
    if fam == "s2t":
        o.append("\n/-! ## st2tot2<%d> -/\n" % N)
        o.append(thm(n + "s2t_apply", [("a", "S2T"), ("s", "s")],
                     D.Ote(D.gen("s2t_apply", [A("a", "S2T"), A("s", "s")]), "(T4.app %s %s)" % (D.S2T("a"), D.St("s"))),
                     proof="rw [tens_app_S2T hc h2]; t4_eq hc"))
        o.append(thm(n + "s2t_applyL", [("x", "t"), ("a", "S2T")],
                     D.Ost(D.gen("s2t_applyL", [A("x", "t"), A("a", "S2T")]), "(T4.appL %s %s)" % (D.Te("x"), D.S2T("a"))),
                     proof="rw [st_appL_S2T hc h2]; t4_eq hc"))
        o.append(thm(n + "s2t_comp_tt_s2t", [("a", "TT"), ("b", "S2T")],
                     D.OS2T(D.gen("s2t_comp_tt_s2t", [A("a", "TT"), A("b", "S2T")]), "(T4.comp %s %s)" % (D.TT("a"), D.S2T("b"))),
                     proof="rw [stoS2T_comp_TT_S2T hc h2]; t4_eq hc"))
        o.append(thm(n + "s2t_comp_s2t_st", [("a", "S2T"), ("b", "ST")],
                     D.OS2T(D.gen("s2t_comp_s2t_st", [A("a", "S2T"), A("b", "ST")]), "(T4.comp %s %s)" % (D.S2T("a"), D.ST("b"))),
                     proof="rw [stoS2T_comp_S2T_ST hc h2]; t4_eq hc"))
        o.append(thm(n + "s2t_dyad", [("x", "t"), ("s", "s")],
                     D.OS2T(D.gen("s2t_dyad", [A("x", "t"), A("s", "s")]), "(T2.dyad %s %s)" % (D.Te("x"), D.St("s"))),
                     proof="rw [stoS2T_dyad hc h2]; t4_eq hc"))
        o.append(thm(n + "s2t_tpld", [("s", "s")],
                     D.OS2T(D.gen("s2t_tpld", [A("s", "s")]), "(T4.symR (T4.tpld %s))" % D.St("s"), masked=True),
                     doc="`st2tot2::tpld(b)`: `∂(a·b)/∂a` for symmetric `a`, `(δ_ik b_lj + δ_il b_kj)/2`"))
        o.append(thm(n + "s2t_tprd", [("s", "s")],
                     D.OS2T(D.gen("s2t_tprd", [A("s", "s")]), "(T4.symR (T4.tprd %s))" % D.St("s"), masked=True),
                     doc="`st2tot2::tprd(a)`: `∂(a·b)/∂b` for symmetric `b`, `(a_ik δ_jl + a_il δ_jk)/2`"))
    return "".join(o)


# ---------------------------------------------------------------- second-order tensors (explicit matrices, as C01)
def tensor_part(N):
    n = "N%d_t_" % N
    T = {1: 3, 2: 5, 3: 9}[N]
    S = {1: 3, 2: 4, 3: 6}[N]
    comp = ["a00", "a11", "a22", "a01", "a10", "a02", "a20", "a12", "a21"]

    def targs(X): return " ".join("%s.%s" % (X, f) for f in comp[:T])
    def M(X): return {3: X, 2: "(M3.plane %s)" % X, 1: "(M3.diag %s.a00 %s.a11 %s.a22)" % (X, X, X)}[N]
    def sargs(p): return " ".join(["%s00" % p, "%s11" % p, "%s22" % p, "(c*%s01)" % p, "(c*%s02)" % p, "(c*%s12)" % p][:S])
    def Sm(p): return "(M3.sym %s00 %s11 %s22 %s)" % (p, p, p, {3: "%s01 %s02 %s12" % (p, p, p), 2: "%s01 0 0" % p, 1: "0 0 0"}[N])
    sb = "(s00 s11 s22 s01 s02 s12 : K)"
    def G(u, args, out="all"): return "Gen.%s%s_%s c c3 fn %s" % (n, u, out, args)
    def OT(l, e): return ("%s\n      = M3.tens3 %s" % (l, e)) if N == 3 else ("pad%d_9 (%s)\n      = M3.tens3 %s" % (N, l, e))
    def OS(l, e): return ("%s\n      = M3.mandel3 c %s" % (l, e)) if N == 3 else ("pad%d_6 (%s)\n      = M3.mandel3 c %s" % (N, l, e))
    def R(X): return {3: X, 2: "(M3.planeRot %s)" % X, 1: "(1 : M3 K)"}[N]
    rargs = "R.a00 R.a01 R.a02 R.a10 R.a11 R.a12 R.a20 R.a21 R.a22"
    o = ["\n/-! ## tensor<%d> -/\n" % N]

    def T_(name, binders, stmt, proof="t4_eq hc", hyps=HYP, doc=None, post=""):
        d = ("/-- %s -/\n" % doc) if doc else ""
        o.append("%stheorem %s%s %s %s%s :\n    %s := by\n  %s\n" % (d, n, name, hyps, binders, post, stmt, proof))
    T_("prod", "(A B : M3 K)", OT(G("prod", targs("A") + " " + targs("B")), "(%s * %s)" % (M("A"), M("B"))), doc="`A * B` is the matrix product")
    T_("prod_ts", "(A : M3 K) " + sb, OT(G("prod_ts", targs("A") + " " + sargs("s")), "(%s * %s)" % (M("A"), Sm("s"))))
    T_("prod_st", sb + " (A : M3 K)", OT(G("prod_st", sargs("s") + " " + targs("A")), "(%s * %s)" % (Sm("s"), M("A"))))
    T_("transpose", "(A : M3 K)", OT(G("transpose", targs("A")), "%s.transpose" % M("A")))
    T_("trace", "(A : M3 K)", "%s = %s.trace" % (G("trace", targs("A"), "r"), M("A")))
    T_("det", "(A : M3 K)", "%s = %s.det" % (G("det", targs("A"), "r"), M("A")))
    T_("ddet", "(A : M3 K)", "%s * (M3.ofTens (%s)).transpose = %s.det • (1 : M3 K)" % (M("A"), G("ddet", targs("A")), M("A")),
       doc="`computeDeterminantDerivative(A)` is the cofactor matrix: `A · (dJ)ᵀ = det A · 1`")
    T_("contract", "(A B : M3 K)", "%s = %s.frob %s" % (G("contract", targs("A") + " " + targs("B"), "r"), M("A"), M("B")),
       doc="`A | B = A_ij B_ij`")
    T_("add_scale", "(A B : M3 K) (k : K)", OT(G("add_scale", targs("A") + " " + targs("B") + " k"),
                                                "(k • %s + %s - (1/k) • %s)" % (M("A"), M("B"), M("A"))), post=" (hk : k ≠ 0)")
    cb = "(%s.transpose * %s * %s)" % (R("R"), M("A"), R("R"))
    T_("change_basis", "(A R : M3 K)", OT(G("change_basis", targs("A") + " " + rargs), cb),
       doc="`change_basis(A,R) = Rᵀ A R` for every matrix `R` (2D: in-plane block of `R`; 1D: unchanged)")
    T_("changeBasis_member", "(A R : M3 K)", OT(G("changeBasis_member", targs("A") + " " + rargs), cb))
    T_("syme", "(A : M3 K)", OS(G("syme", targs("A")), "((1/2 : K) • (%s + %s.transpose))" % (M("A"), M("A"))),
       doc="`syme(A) = (A + Aᵀ)/2` in symmetric storage")
    T_("unsyme", sb, OT(G("unsyme", sargs("s")), Sm("s")), doc="`unsyme(s)`: the same matrix in non-symmetric storage")
    T_("add_stensor", "(A : M3 K) " + sb, OT(G("add_stensor", targs("A") + " " + sargs("s")), "(%s + %s)" % (M("A"), Sm("s"))),
       doc="mixed `tensor + stensor` (through `TensorViewFromStensor`)")
    T_("rcg", "(A : M3 K)", OS(G("rcg", targs("A")), "(%s.transpose * %s)" % (M("A"), M("A"))), doc="`C = Fᵀ F`")
    T_("lcg", "(A : M3 K)", OS(G("lcg", targs("A")), "(%s * %s.transpose)" % (M("A"), M("A"))), doc="`B = F Fᵀ`")
    T_("gl", "(A : M3 K)", OS(G("gl", targs("A")), "((1/2 : K) • (%s.transpose * %s - 1))" % (M("A"), M("A"))), doc="`E = (FᵀF - 1)/2`")
    T_("push_forward", sb + " (A : M3 K)", OS(G("push_forward", sargs("s") + " " + targs("A")),
                                              "(%s * %s * %s.transpose)" % (M("A"), Sm("s"), M("A"))), doc="`push_forward(s,F) = F s Fᵀ`")
    T_("access", "(A : M3 K)", "%s\n      = M3.rowMajor %s" % (G("access", targs("A")), M("A")),
       doc="`A(i,j)` for the nine index pairs")
    vm = "(⟨v 0, v 3, v 6, v 1, v 4, v 7, v 2, v 5, v 8⟩ : M3 K)"
    T_("buildFromFortranMatrix", "(v : Fin 9 → K)", OT("gen% (Gen." + n + "buildFromFortranMatrix_all c c3 fn) | v 9", M(vm)),
       doc="column-major 3×3 array: `A_ij = v[i + 3 j]`")
    T_("Id", "", OT(G("Id", ""), "(1 : M3 K)"))
    return "".join(o)


INVERT_AND_POLAR = r'''
/-! ## inverse: `A · invert(A) = invert(A) · A = 1` whenever `det A ≠ 0` -/
theorem N3_t_invert_den (hc : c * c = 2) (h2 : (2:K) ≠ 0) (A : M3 K) :
    Gen.N3_t_invert_den0 c c3 fn A.a00 A.a11 A.a22 A.a01 A.a10 A.a02 A.a20 A.a12 A.a21 = A.det := by
  t4_eq hc
theorem N3_t_invert (hc : c * c = 2) (h2 : (2:K) ≠ 0) (A : M3 K) (hd : A.det ≠ 0) :
    A * M3.ofTens (Gen.N3_t_invert_all c c3 fn A.a00 A.a11 A.a22 A.a01 A.a10 A.a02 A.a20 A.a12 A.a21) = 1
    ∧ M3.ofTens (Gen.N3_t_invert_all c c3 fn A.a00 A.a11 A.a22 A.a01 A.a10 A.a02 A.a20 A.a12 A.a21) * A = 1 := by
  rw [← N3_t_invert_den c c3 fn hc h2] at hd
  constructor <;> m3_eq hc with hd
theorem N2_t_invert_den (hc : c * c = 2) (h2 : (2:K) ≠ 0) (A : M3 K) :
    Gen.N2_t_invert_den0 c c3 fn A.a00 A.a11 A.a22 A.a01 A.a10 * A.a22 = (M3.plane A).det := by
  t4_eq hc
theorem N2_t_invert (hc : c * c = 2) (h2 : (2:K) ≠ 0) (A : M3 K) (hd : (M3.plane A).det ≠ 0) :
    M3.plane A * M3.ofTens (pad2_9 (Gen.N2_t_invert_all c c3 fn A.a00 A.a11 A.a22 A.a01 A.a10)) = 1
    ∧ M3.ofTens (pad2_9 (Gen.N2_t_invert_all c c3 fn A.a00 A.a11 A.a22 A.a01 A.a10)) * M3.plane A = 1 := by
  rw [← N2_t_invert_den c c3 fn hc h2] at hd
  have h22 : A.a22 ≠ 0 := right_ne_zero_of_mul hd
  have hdd := left_ne_zero_of_mul hd
  simp only [gen_simp] at hdd
  t4_unfold
  generalize_ne hdd => e he
  refine ⟨⟨?_, ?_, ?_, ?_, ?_, ?_, ?_, ?_, ?_⟩, ⟨?_, ?_, ?_, ?_, ?_, ?_, ?_, ?_, ?_⟩⟩ <;> field_simp <;>
    (try simp only [← he]) <;> ring1
theorem N1_t_invert (hc : c * c = 2) (h2 : (2:K) ≠ 0) (A : M3 K) (hd : (M3.diag A.a00 A.a11 A.a22).det ≠ 0) :
    M3.diag A.a00 A.a11 A.a22 * M3.ofTens (pad1_9 (Gen.N1_t_invert_all c c3 fn A.a00 A.a11 A.a22)) = 1
    ∧ M3.ofTens (pad1_9 (Gen.N1_t_invert_all c c3 fn A.a00 A.a11 A.a22)) * M3.diag A.a00 A.a11 A.a22 = 1 := by
  have h00 : A.a00 ≠ 0 := by intro h; apply hd; simp only [M3.diag, M3.det, h]; ring
  have h11 : A.a11 ≠ 0 := by intro h; apply hd; simp only [M3.diag, M3.det, h]; ring
  have h22 : A.a22 ≠ 0 := by intro h; apply hd; simp only [M3.diag, M3.det, h]; ring
  t4_unfold
  refine ⟨⟨?_, ?_, ?_, ?_, ?_, ?_, ?_, ?_, ?_⟩, ⟨?_, ?_, ?_, ?_, ?_, ?_, ?_, ?_, ?_⟩⟩ <;> field_simp <;> ring1
/-- non-vacuity -/
example : (⟨2, 1, 0, 0, 3, 1, 1, 0, 5⟩ : M3 ℚ).det ≠ 0 := by simp only [M3.det]; norm_num

/-! ## polar decomposition — PARTIAL.
Full statement (not proved): for every `F` with `det F > 0`, `polar_decomposition(R,U,F)` returns `R`
orthogonal and `U` symmetric positive definite with `F = R·U`, in 1D/2D/3D.
Proved: the 1D case, where the code is closed form (`R = 1`, `U = diag F`). Missing: 2D and 3D, where `U` is
obtained from the eigenvalues of `FᵀF` (`stensor::computeEigenValues`: value-dependent branches, `acos`,
`cos`, `sqrt` — the eigen-solver is the object of C03) and the function cannot be instantiated on the
recording scalar (see the note in checks/C02.py). -/
theorem N1_t_polar_partial (hc : c * c = 2) (h2 : (2:K) ≠ 0) (A : M3 K) :
    (match Gen.N1_t_polar_all c c3 fn A.a00 A.a11 A.a22 with
     | [u0, u1, u2, r0, r1, r2] =>
         M3.diag r0 r1 r2 = 1 ∧ M3.diag r0 r1 r2 * M3.diag u0 u1 u2 = M3.diag A.a00 A.a11 A.a22
     | _ => False) := by
  t4_eq hc
'''


def write(fn, title, imports, body, extra=""):
    text = HDR.format(title=title, imports="\n".join("import " + i for i in imports), extra=extra) + body + FTR
    path = os.path.join(OUT, fn)
    if os.path.exists(path) and open(path).read() == text:
        print("unchanged", fn)   # keep the time stamp: the check compares it with the .olean
        return
    with open(path, "w") as f:
        f.write(text)
    print("wrote", fn)



def cb_module():
    """change_basis of the fourth-order tensors, all dimensions"""
    o = []
    for N in (3, 2):
        D = Dim(N)
        S, Tn = D.S, D.T
        for fam, (r, c_, q1, q2, c1, c2) in (("st", (S, S, "st", "st", "st_comp", "st_comp")),
                                              ("tt", (Tn, Tn, "tt", "tt", "tt_comp", "tt_comp")),
                                              ("ts", (S, Tn, "st", "tt", "ts_comp_st_ts", "ts_comp_ts_tt"))):
            R1 = {"st": S, "tt": Tn}[q1]
            R2 = {"st": S, "tt": Tn}[q2]
            full = {"st": (6, 6), "tt": (9, 9), "ts": (6, 9)}[fam]
            o.append("/-- `change_basis(C,R) = Q(R) * C * Q'(Rᵀ)` with `Q = %s::fromRotationMatrix`, `Q' = %s::fromRotationMatrix` -/\n"
                     % ({"st": "st2tost2", "tt": "t2tot2"}[q1], {"st": "st2tost2", "tt": "t2tot2"}[q2]))
            o.append("theorem N%d_%s_change_basis (a : Fin %d → Fin %d → K) (r : Fin 3 → Fin 3 → K) :\n" % (N, fam, full[0], full[1]))
            o.append("    let q : Fin %d → Fin %d → K := matOf %d (gen%% (Gen.N%d_%s_fromRotationMatrix_all c c3 fn) | r 3 3)\n"
                     % ({"st": 6, "tt": 9}[q1], R1, R1, N, q1))
            o.append("    let qt : Fin %d → Fin %d → K := matOf %d (gen%% (Gen.N%d_%s_fromRotationMatrix_all c c3 fn) | (T2.transpose r) 3 3)\n"
                     % ({"st": 6, "tt": 9}[q2], R2, R2, N, q2))
            o.append("    let qa : Fin %d → Fin %d → K := matOf %d (gen%% (Gen.N%d_%s_all c c3 fn) | q %d %d | a %d %d)\n"
                     % (full[0], c_, c_, N, c1, R1, R1, r, c_))
            o.append("    (gen%% (Gen.N%d_%s_change_basis_all c c3 fn) | a %d %d | r 3 3)\n      = gen%% (Gen.N%d_%s_all c c3 fn) | qa %d %d | qt %d %d := by\n  intro q qt qa\n  t4_same_zd\n\n"
                     % (N, fam, r, c_, N, c2, r, c_, R2, R2))
    D = Dim(1)
    A = lambda nm, k: D.a(nm, k)
    o.append("/-! 1D: tensors are not rotated -/\n")
    o.append(thm("N1_st_change_basis", [("a", "ST"), ("r", "r")], D.OST(D.gen("st_change_basis", [A("a", "ST"), A("r", "r")]), D.ST("a"))))
    o.append(thm("N1_tt_change_basis", [("a", "TT"), ("r", "r")], D.OTT(D.gen("tt_change_basis", [A("a", "TT"), A("r", "r")]), D.TT("a"))))
    o.append(thm("N1_ts_change_basis", [("a", "TS"), ("r", "r")], D.OTS(D.gen("ts_change_basis", [A("a", "TS"), A("r", "r")]), D.TS("a"))))
    return "".join(o)


def conv_module():
    o = []
    for N in (3, 2, 1):
        D = Dim(N)
        o.append(thm("N%d_st_convert_from_t2tost2" % N, [("a", "TS")],
                     D.OST(D.gen("st_convert_from_t2tost2", [D.a("a", "TS")]), "(T4.symR %s)" % D.TS("a")),
                     doc="`st2tost2::convert(D)`: restriction of `D` to symmetric arguments, `(D_ijkl + D_ijlk)/2`, i.e. "
                         "`convert(D) * s = D * unsyme(s)` for every symmetric `s`"))
    return "".join(o)


def pf_module():
    o = []
    for N in (3, 2, 1):
        D = Dim(N)
        A = lambda nm, k: D.a(nm, k)
        o.append(thm("N%d_st_push_forward" % N, [("a", "ST"), ("f", "t")],
                     D.OST(D.gen("st_push_forward", [A("a", "ST"), A("f", "t")]), "(T4.pushForward %s %s)" % (D.Te("f"), D.ST("a"))),
                     doc="`push_forward(C,F)_ijkl = F_im F_jn F_kp F_lq C_mnpq`, every stored component"))
        o.append("/-- `pull_back(C,F) = push_forward(C, invert(F))`: the traced `pull_back` performs exactly the operations of the\n"
                 "traced `invert` (`PropsT.N%d_t_invert`: `F · invert(F) = 1` when `det F ≠ 0`) followed by those of the traced\n"
                 "`push_forward` (theorem above). `vecOf l` reads a list as a stored vector. -/\n" % N)
        o.append("theorem N%d_st_pull_back (a : Fin 6 → Fin 6 → K) (f : Fin 9 → K) :\n" % N)
        o.append("    let g : Fin 9 → K := vecOf (gen%% (Gen.N%d_t_invert_all c c3 fn) | f %d)\n" % (N, D.T))
        o.append("    (gen%% (Gen.N%d_st_pull_back_all c c3 fn) | a %d %d | f %d)\n      = gen%% (Gen.N%d_st_push_forward_all c c3 fn) | a %d %d | g %d := by\n  intro g\n  t4_same_zd\n\n"
                 % (N, D.S, D.S, D.T, N, D.S, D.S, D.T))
    return "".join(o)


def main():
    L = ["TfelVerif.Common.M3", "TfelVerif.Common.Model", "TfelVerif.C02.Lemmas"]
    write("PropsT.lean", "second-order tensors `tensor<N>` (N = 1,2,3) against explicit 3×3 matrices.",
          L + ["TfelVerif.C02.GenT"], "".join(tensor_part(N) for N in (3, 2, 1)) + INVERT_AND_POLAR,
          extra="  Storage `(t00 t11 t22 t01 t10 t02 t20 t12 t21)` = `M3.tens3`; `M3.plane` / `M3.diag` are the 2D / 1D matrices.\n")
    names = {"st": "st2tost2", "tt": "t2tot2", "ts": "t2tost2", "s2t": "st2tot2"}
    for N in (3, 2):
        for fam in ("st", "tt", "ts", "s2t"):
            write("Props%d%s.lean" % (N, fam.upper()), "fourth-order tensors `%s<%d>` in index notation." % (names[fam], N),
                  L + ["TfelVerif.C02.Gen%d%s" % (N, fam.upper())], fourth_order(Dim(N), fam))
    write("PropsN1.lean", "fourth-order tensors in 1D in index notation.",
          L + ["TfelVerif.C02.GenN1"], "".join(fourth_order(Dim(1), fam) for fam in ("st", "tt", "ts", "s2t")))
    write("PropsCB.lean", "change of basis of the fourth-order tensors.",
          L + ["TfelVerif.C02.GenCB"] + ["TfelVerif.C02.Gen%d%s" % (N, f) for N in (2, 3) for f in ("ST", "TT", "TS")], cb_module(),
          extra="""  `change_basis(C, R)` is implemented as `Q(R) * C * Q'(Rᵀ)` with `Q`, `Q'` the `fromRotationMatrix` of the row and
  column kinds; each theorem states that the traced `change_basis` is exactly that composition of the traced products
  (same scalar operations), so that in index notation, by `N*_*_fromRotationMatrix`, the product theorems `N*_*_comp*`
  and `Lemmas.comp_rot_comp_rot`:   change_basis(C,R)_ijkl = R_mi R_nj C_mnpq R_pk R_ql .
  `matOf p l` reads a row-major list as a matrix (C02/Spec.lean).
""")
    write("PropsConv.lean", "conversion `st2tost2::convert(t2tost2)` (ConvertT2toST2ToST2toST2Expr.hxx).",
          L + ["TfelVerif.C02.GenN1", "TfelVerif.C02.Gen2ST", "TfelVerif.C02.Gen3ST"], conv_module(),
          extra="""  Kept in a module of its own: on the tree as first checked, the 2D and 3D statements FAIL (the shear/shear block of the
  result is multiplied by √2 instead of 1/√2, see patches/C02-ConvertT2toST2ToST2toST2Expr.diff); a failing module is never
  cached, so the other st2tost2 theorems live elsewhere.
""")
    write("PropsPF.lean", "push-forward and pull-back of `st2tost2` (ST2toST2ConceptPushForward.ixx).",
          L + ["TfelVerif.C02.GenPF", "TfelVerif.C02.GenT"], pf_module())


if __name__ == "__main__":
    main()
