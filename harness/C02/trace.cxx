// T1 tracer for C02: non-symmetric tensors and fourth-order tensors
// (tensor<N,Sym>, st2tost2, t2tot2, t2tost2, st2tot2; N = 1,2,3).
//
// Every unit instantiates the real TFEL template on fresh input symbols and dumps the DAG of scalar
// operations the shipped code performs. Naming: N<dim>_<family>_<operation>; inputs of a second
// order object are p0,p1,.. (storage order), of a fourth-order object p00,p01,.. (row, column of
// the stored matrix, row major).
#include "tracehelp.hxx"
// glue.hxx has no UnaryResultType<Sym, OpNeg> (needed by `-t` on tensors of Sym): local workaround
namespace tfel::math {
  template <>
  struct UnaryResultType<verif::Sym, OpNeg> {
    using type = verif::Sym;
  };
}  // namespace tfel::math
#include "TFEL/Math/stensor.hxx"
#include "TFEL/Math/tensor.hxx"
#include "TFEL/Math/tmatrix.hxx"
#include "TFEL/Math/tvector.hxx"
#include "TFEL/Math/st2tost2.hxx"
#include "TFEL/Math/t2tot2.hxx"
#include "TFEL/Math/t2tost2.hxx"
#include "TFEL/Math/st2tot2.hxx"

using namespace tfel::math;
using verif::Sym;
using verif::Unit;

template <unsigned short N>
void trace_tensor() {
  constexpr int S = StensorDimeToSize<N>::value;
  constexpr int T = TensorDimeToSize<N>::value;
  const std::string d = "N" + std::to_string(N) + "_t_";
  {
    Unit u(d + "prod");
    tensor<N, Sym> a, b;
    verif::fill_inputs(a, "a", T);
    verif::fill_inputs(b, "b", T);
    const tensor<N, Sym> r = a * b;
    verif::outputs("r", r, T);
  }
  {
    Unit u(d + "prod_ts");
    tensor<N, Sym> a;
    stensor<N, Sym> s;
    verif::fill_inputs(a, "a", T);
    verif::fill_inputs(s, "s", S);
    const tensor<N, Sym> r = a * s;
    verif::outputs("r", r, T);
  }
  {
    Unit u(d + "prod_st");
    stensor<N, Sym> s;
    tensor<N, Sym> a;
    verif::fill_inputs(s, "s", S);
    verif::fill_inputs(a, "a", T);
    const tensor<N, Sym> r = s * a;
    verif::outputs("r", r, T);
  }
  {
    Unit u(d + "transpose");
    tensor<N, Sym> a;
    verif::fill_inputs(a, "a", T);
    const tensor<N, Sym> r = transpose(a);
    verif::outputs("r", r, T);
  }
  {
    Unit u(d + "trace");
    tensor<N, Sym> a;
    verif::fill_inputs(a, "a", T);
    verif::output("r", Sym(trace(a)));
  }
  {
    Unit u(d + "det");
    tensor<N, Sym> a;
    verif::fill_inputs(a, "a", T);
    verif::output("r", Sym(det(a)));
  }
  {
    Unit u(d + "invert");
    tensor<N, Sym> a;
    verif::fill_inputs(a, "a", T);
    const tensor<N, Sym> r = invert(a);
    verif::outputs("r", r, T);
  }
  {
    Unit u(d + "ddet");
    tensor<N, Sym> a;
    verif::fill_inputs(a, "a", T);
    const tensor<N, Sym> r = computeDeterminantDerivative(a);
    verif::outputs("r", r, T);
  }
  {
    Unit u(d + "contract");
    tensor<N, Sym> a, b;
    verif::fill_inputs(a, "a", T);
    verif::fill_inputs(b, "b", T);
    verif::output("r", Sym(a | b));
  }
  {
    Unit u(d + "add_scale");
    tensor<N, Sym> a, b;
    verif::fill_inputs(a, "a", T);
    verif::fill_inputs(b, "b", T);
    const Sym k = verif::scalar_input("k", 1.7);
    const tensor<N, Sym> r = k * a + b - a / k;
    verif::outputs("r", r, T);
  }
  {
    Unit u(d + "change_basis");
    tensor<N, Sym> a;
    verif::fill_inputs(a, "a", T);
    rotation_matrix<Sym> R;
    verif::fill_inputs2(R, "r", 3, 3);
    const tensor<N, Sym> r = change_basis(a, R);
    verif::outputs("r", r, T);
  }
  {
    Unit u(d + "changeBasis_member");
    tensor<N, Sym> a;
    verif::fill_inputs(a, "a", T);
    rotation_matrix<Sym> R;
    verif::fill_inputs2(R, "r", 3, 3);
    a.changeBasis(R);
    verif::outputs("r", a, T);
  }
  {
    Unit u(d + "syme");
    tensor<N, Sym> a;
    verif::fill_inputs(a, "a", T);
    const stensor<N, Sym> r = syme(a);
    verif::outputs("r", r, S);
  }
  {
    Unit u(d + "unsyme");
    stensor<N, Sym> s;
    verif::fill_inputs(s, "s", S);
    const tensor<N, Sym> r = unsyme(s);
    verif::outputs("r", r, T);
  }
  {
    // mixed tensor/stensor arithmetic goes through TensorViewFromStensor
    Unit u(d + "add_stensor");
    tensor<N, Sym> a;
    stensor<N, Sym> s;
    verif::fill_inputs(a, "a", T);
    verif::fill_inputs(s, "s", S);
    const tensor<N, Sym> r = a + s;
    verif::outputs("r", r, T);
  }
  {
    Unit u(d + "rcg");
    tensor<N, Sym> a;
    verif::fill_inputs(a, "a", T);
    const stensor<N, Sym> r = computeRightCauchyGreenTensor(a);
    verif::outputs("r", r, S);
  }
  {
    Unit u(d + "lcg");
    tensor<N, Sym> a;
    verif::fill_inputs(a, "a", T);
    const stensor<N, Sym> r = computeLeftCauchyGreenTensor(a);
    verif::outputs("r", r, S);
  }
  {
    Unit u(d + "gl");
    tensor<N, Sym> a;
    verif::fill_inputs(a, "a", T);
    const stensor<N, Sym> r = computeGreenLagrangeTensor(a);
    verif::outputs("r", r, S);
  }
  {
    Unit u(d + "push_forward");
    stensor<N, Sym> s;
    tensor<N, Sym> a;
    verif::fill_inputs(s, "s", S);
    verif::fill_inputs(a, "a", T);
    const stensor<N, Sym> r = push_forward(s, a);
    verif::outputs("r", r, S);
  }
  {
    // matrix-like access operator t(i,j) for the nine pairs
    Unit u(d + "access");
    tensor<N, Sym> a;
    verif::fill_inputs(a, "a", T);
    for (unsigned short i = 0; i != 3; ++i) {
      for (unsigned short j = 0; j != 3; ++j) {
        verif::output("g" + std::to_string(i) + "_" + std::to_string(j),
                      Sym(a(i, j)));
      }
    }
  }
  {
    Unit u(d + "buildFromFortranMatrix");
    Sym v[9];
    verif::fill_inputs(v, "v", 9);
    const tensor<N, Sym> r = tensor<N, Sym>::buildFromFortranMatrix(v);
    verif::outputs("r", r, T);
  }
  {
    Unit u(d + "Id");
    const tensor<N, Sym> r = tensor<N, Sym>::Id();
    verif::outputs("r", r, T);
  }
  if constexpr (N == 1) {
    // polar_decomposition: closed form in 1D only. In 2D/3D it calls stensor::computeEigenValues (Cardano
    // formula with value dependent branches and acos/cos: the province of C03) and cannot be traced with
    // the shared symtrace headers as they stand (see checks/C02.py, "partial").
    Unit u(d + "polar");
    tensor<N, Sym> F;
    verif::fill_inputs(F, "f", T);
    tensor<N, Sym> R;
    stensor<N, Sym> U;
    polar_decomposition(R, U, F);
    verif::outputs("u", U, S);
    verif::outputs("r", R, T);
  }
}

// FAM selects the families traced by this instantiation (bit mask): the check compiles this file several
// times with different -DC02_PART=... so that the (slow, -O0) template instantiation runs in parallel.
constexpr int FAM_ST = 1, FAM_TT = 2, FAM_TS = 4, FAM_S2T = 8;

template <unsigned short N, int FAM>
void trace_fourth_order() {
  constexpr int S = StensorDimeToSize<N>::value;
  constexpr int T = TensorDimeToSize<N>::value;
  const std::string n = "N" + std::to_string(N) + "_";
  // ------------------------------------------------------------ st2tost2
  if constexpr ((FAM & FAM_ST) != 0) {
  {
    Unit u(n + "st_apply");
    st2tost2<N, Sym> C;
    stensor<N, Sym> s;
    verif::fill_inputs2(C, "a", S, S);
    verif::fill_inputs(s, "s", S);
    const stensor<N, Sym> r = C * s;
    verif::outputs("r", r, S);
  }
  {
    Unit u(n + "st_applyL");
    stensor<N, Sym> s;
    st2tost2<N, Sym> C;
    verif::fill_inputs(s, "s", S);
    verif::fill_inputs2(C, "a", S, S);
    const stensor<N, Sym> r = s * C;
    verif::outputs("r", r, S);
  }
  {
    Unit u(n + "st_comp");
    st2tost2<N, Sym> C, D;
    verif::fill_inputs2(C, "a", S, S);
    verif::fill_inputs2(D, "b", S, S);
    const st2tost2<N, Sym> r = C * D;
    verif::outputs2("r", r, S, S);
  }
  {
    Unit u(n + "st_transpose");
    st2tost2<N, Sym> C;
    verif::fill_inputs2(C, "a", S, S);
    const st2tost2<N, Sym> r = transpose(C);
    verif::outputs2("r", r, S, S);
  }
  {
    Unit u(n + "st_dyad");
    stensor<N, Sym> s, t;
    verif::fill_inputs(s, "s", S);
    verif::fill_inputs(t, "t", S);
    const st2tost2<N, Sym> r = s ^ t;
    verif::outputs2("r", r, S, S);
  }
  {
    Unit u(n + "st_add_scale");
    st2tost2<N, Sym> C, D;
    verif::fill_inputs2(C, "a", S, S);
    verif::fill_inputs2(D, "b", S, S);
    const Sym k = verif::scalar_input("k", 1.7);
    const st2tost2<N, Sym> r = k * C + D - C / k;
    verif::outputs2("r", r, S, S);
  }
  {
    Unit u(n + "st_Id");
    const st2tost2<N, Sym> r = st2tost2<N, Sym>::Id();
    verif::outputs2("r", r, S, S);
  }
  {
    Unit u(n + "st_IxI");
    const st2tost2<N, Sym> r = st2tost2<N, Sym>::IxI();
    verif::outputs2("r", r, S, S);
  }
  {
    Unit u(n + "st_J");
    const st2tost2<N, Sym> r = st2tost2<N, Sym>::J();
    verif::outputs2("r", r, S, S);
  }
  {
    Unit u(n + "st_K");
    const st2tost2<N, Sym> r = st2tost2<N, Sym>::K();
    verif::outputs2("r", r, S, S);
  }
  {
    Unit u(n + "st_M");
    const st2tost2<N, Sym> r = st2tost2<N, Sym>::M();
    verif::outputs2("r", r, S, S);
  }
  {
    Unit u(n + "st_fromRotationMatrix");
    rotation_matrix<Sym> R;
    verif::fill_inputs2(R, "r", 3, 3);
    const st2tost2<N, Sym> r = st2tost2<N, Sym>::fromRotationMatrix(R);
    verif::outputs2("r", r, S, S);
  }
  {
    Unit u(n + "st_change_basis");
    st2tost2<N, Sym> C;
    verif::fill_inputs2(C, "a", S, S);
    rotation_matrix<Sym> R;
    verif::fill_inputs2(R, "r", 3, 3);
    const st2tost2<N, Sym> r = change_basis(C, R);
    verif::outputs2("r", r, S, S);
  }
  {
    Unit u(n + "st_push_forward");
    st2tost2<N, Sym> C;
    tensor<N, Sym> F;
    verif::fill_inputs2(C, "a", S, S);
    verif::fill_inputs(F, "f", T);
    const st2tost2<N, Sym> r = push_forward(C, F);
    verif::outputs2("r", r, S, S);
  }
  {
    Unit u(n + "st_pull_back");
    st2tost2<N, Sym> C;
    tensor<N, Sym> F;
    verif::fill_inputs2(C, "a", S, S);
    verif::fill_inputs(F, "f", T);
    const st2tost2<N, Sym> r = pull_back(C, F);
    verif::outputs2("r", r, S, S);
  }
  {
    // getComponent(C,i,j,k,l) for the 81 index quadruples
    Unit u(n + "st_getComponent");
    st2tost2<N, Sym> C;
    verif::fill_inputs2(C, "a", S, S);
    for (unsigned short i = 0; i != 3; ++i) {
      for (unsigned short j = 0; j != 3; ++j) {
        for (unsigned short k = 0; k != 3; ++k) {
          for (unsigned short l = 0; l != 3; ++l) {
            const auto ok = [](unsigned short p, unsigned short q) {
              return (p == q) || (N == 3) || ((N == 2) && (p < 2) && (q < 2));
            };
            if (!(ok(i, j) && ok(k, l))) continue;
            verif::output("g" + std::to_string(i) + std::to_string(j) +
                              std::to_string(k) + std::to_string(l),
                          Sym(getComponent(C, i, j, k, l)));
          }
        }
      }
    }
  }
  {
    Unit u(n + "st_convert_from_t2tost2");
    t2tost2<N, Sym> D;
    verif::fill_inputs2(D, "a", S, T);
    const st2tost2<N, Sym> r = st2tost2<N, Sym>::convert(D);
    verif::outputs2("r", r, S, S);
  }
  {
    Unit u(n + "st_comp_ts_s2t");  // t2tost2 * st2tot2 -> st2tost2
    t2tost2<N, Sym> D;
    st2tot2<N, Sym> E;
    verif::fill_inputs2(D, "a", S, T);
    verif::fill_inputs2(E, "b", T, S);
    const st2tost2<N, Sym> r = D * E;
    verif::outputs2("r", r, S, S);
  }
  }
  // ------------------------------------------------------------ t2tot2
  if constexpr ((FAM & FAM_TT) != 0) {
  {
    Unit u(n + "tt_apply");
    t2tot2<N, Sym> C;
    tensor<N, Sym> x;
    verif::fill_inputs2(C, "a", T, T);
    verif::fill_inputs(x, "x", T);
    const tensor<N, Sym> r = C * x;
    verif::outputs("r", r, T);
  }
  {
    Unit u(n + "tt_applyL");
    tensor<N, Sym> x;
    t2tot2<N, Sym> C;
    verif::fill_inputs(x, "x", T);
    verif::fill_inputs2(C, "a", T, T);
    const tensor<N, Sym> r = x * C;
    verif::outputs("r", r, T);
  }
  {
    Unit u(n + "tt_comp");
    t2tot2<N, Sym> C, D;
    verif::fill_inputs2(C, "a", T, T);
    verif::fill_inputs2(D, "b", T, T);
    const t2tot2<N, Sym> r = C * D;
    verif::outputs2("r", r, T, T);
  }
  {
    Unit u(n + "tt_dyad");
    tensor<N, Sym> x, y;
    verif::fill_inputs(x, "x", T);
    verif::fill_inputs(y, "y", T);
    const t2tot2<N, Sym> r = x ^ y;
    verif::outputs2("r", r, T, T);
  }
  {
    Unit u(n + "tt_Id");
    const t2tot2<N, Sym> r = t2tot2<N, Sym>::Id();
    verif::outputs2("r", r, T, T);
  }
  {
    Unit u(n + "tt_IxI");
    const t2tot2<N, Sym> r = t2tot2<N, Sym>::IxI();
    verif::outputs2("r", r, T, T);
  }
  {
    Unit u(n + "tt_K");
    const t2tot2<N, Sym> r = t2tot2<N, Sym>::K();
    verif::outputs2("r", r, T, T);
  }
  {
    Unit u(n + "tt_transpose_derivative");
    const t2tot2<N, Sym> r = t2tot2<N, Sym>::transpose_derivative();
    verif::outputs2("r", r, T, T);
  }
  {
    Unit u(n + "tt_fromRotationMatrix");
    rotation_matrix<Sym> R;
    verif::fill_inputs2(R, "r", 3, 3);
    const t2tot2<N, Sym> r = t2tot2<N, Sym>::fromRotationMatrix(R);
    verif::outputs2("r", r, T, T);
  }
  {
    Unit u(n + "tt_change_basis");
    t2tot2<N, Sym> C;
    verif::fill_inputs2(C, "a", T, T);
    rotation_matrix<Sym> R;
    verif::fill_inputs2(R, "r", 3, 3);
    const t2tot2<N, Sym> r = change_basis(C, R);
    verif::outputs2("r", r, T, T);
  }
  {
    Unit u(n + "tt_tpld");
    tensor<N, Sym> b;
    verif::fill_inputs(b, "b", T);
    const t2tot2<N, Sym> r = t2tot2<N, Sym>::tpld(b);
    verif::outputs2("r", r, T, T);
  }
  {
    Unit u(n + "tt_tprd");
    tensor<N, Sym> a;
    verif::fill_inputs(a, "x", T);
    const t2tot2<N, Sym> r = t2tot2<N, Sym>::tprd(a);
    verif::outputs2("r", r, T, T);
  }
  {
    Unit u(n + "tt_tpld_comp");
    tensor<N, Sym> b;
    t2tot2<N, Sym> C;
    verif::fill_inputs(b, "b", T);
    verif::fill_inputs2(C, "a", T, T);
    const t2tot2<N, Sym> r = t2tot2<N, Sym>::tpld(b, C);
    verif::outputs2("r", r, T, T);
  }
  {
    Unit u(n + "tt_tprd_comp");
    tensor<N, Sym> a;
    t2tot2<N, Sym> C;
    verif::fill_inputs(a, "x", T);
    verif::fill_inputs2(C, "a", T, T);
    const t2tot2<N, Sym> r = t2tot2<N, Sym>::tprd(a, C);
    verif::outputs2("r", r, T, T);
  }
  {
    Unit u(n + "tt_convert_from_t2tost2");
    t2tost2<N, Sym> D;
    verif::fill_inputs2(D, "a", S, T);
    const t2tot2<N, Sym> r(D);
    verif::outputs2("r", r, T, T);
  }
  {
    Unit u(n + "tt_comp_s2t_ts");  // st2tot2 * t2tost2 -> t2tot2
    st2tot2<N, Sym> E;
    t2tost2<N, Sym> D;
    verif::fill_inputs2(E, "a", T, S);
    verif::fill_inputs2(D, "b", S, T);
    const t2tot2<N, Sym> r = E * D;
    verif::outputs2("r", r, T, T);
  }
  }
  // ------------------------------------------------------------ t2tost2
  if constexpr ((FAM & FAM_TS) != 0) {
  {
    Unit u(n + "ts_apply");
    t2tost2<N, Sym> D;
    tensor<N, Sym> x;
    verif::fill_inputs2(D, "a", S, T);
    verif::fill_inputs(x, "x", T);
    const stensor<N, Sym> r = D * x;
    verif::outputs("r", r, S);
  }
  {
    Unit u(n + "ts_applyL");
    stensor<N, Sym> s;
    t2tost2<N, Sym> D;
    verif::fill_inputs(s, "s", S);
    verif::fill_inputs2(D, "a", S, T);
    const tensor<N, Sym> r = s * D;
    verif::outputs("r", r, T);
  }
  {
    Unit u(n + "ts_comp_st_ts");  // st2tost2 * t2tost2
    st2tost2<N, Sym> C;
    t2tost2<N, Sym> D;
    verif::fill_inputs2(C, "a", S, S);
    verif::fill_inputs2(D, "b", S, T);
    const t2tost2<N, Sym> r = C * D;
    verif::outputs2("r", r, S, T);
  }
  {
    Unit u(n + "ts_comp_ts_tt");  // t2tost2 * t2tot2
    t2tost2<N, Sym> D;
    t2tot2<N, Sym> C;
    verif::fill_inputs2(D, "a", S, T);
    verif::fill_inputs2(C, "b", T, T);
    const t2tost2<N, Sym> r = D * C;
    verif::outputs2("r", r, S, T);
  }
  {
    Unit u(n + "ts_dyad");  // stensor ^ tensor
    stensor<N, Sym> s;
    tensor<N, Sym> x;
    verif::fill_inputs(s, "s", S);
    verif::fill_inputs(x, "x", T);
    const t2tost2<N, Sym> r = s ^ x;
    verif::outputs2("r", r, S, T);
  }
  {
    Unit u(n + "ts_change_basis");
    t2tost2<N, Sym> D;
    verif::fill_inputs2(D, "a", S, T);
    rotation_matrix<Sym> R;
    verif::fill_inputs2(R, "r", 3, 3);
    const t2tost2<N, Sym> r = change_basis(D, R);
    verif::outputs2("r", r, S, T);
  }
  {
    Unit u(n + "ts_convert_from_t2tot2");
    t2tot2<N, Sym> C;
    verif::fill_inputs2(C, "a", T, T);
    const t2tost2<N, Sym> r = convertToT2toST2(C);
    verif::outputs2("r", r, S, T);
  }
  {
    Unit u(n + "ts_dCdF");
    tensor<N, Sym> F;
    verif::fill_inputs(F, "f", T);
    const t2tost2<N, Sym> r = t2tost2<N, Sym>::dCdF(F);
    verif::outputs2("r", r, S, T);
  }
  {
    Unit u(n + "ts_dBdF");
    tensor<N, Sym> F;
    verif::fill_inputs(F, "f", T);
    const t2tost2<N, Sym> r = t2tost2<N, Sym>::dBdF(F);
    verif::outputs2("r", r, S, T);
  }
  }
  // ------------------------------------------------------------ st2tot2
  if constexpr ((FAM & FAM_S2T) != 0) {
  {
    Unit u(n + "s2t_apply");
    st2tot2<N, Sym> E;
    stensor<N, Sym> s;
    verif::fill_inputs2(E, "a", T, S);
    verif::fill_inputs(s, "s", S);
    const tensor<N, Sym> r = E * s;
    verif::outputs("r", r, T);
  }
  {
    Unit u(n + "s2t_applyL");
    tensor<N, Sym> x;
    st2tot2<N, Sym> E;
    verif::fill_inputs(x, "x", T);
    verif::fill_inputs2(E, "a", T, S);
    const stensor<N, Sym> r = x * E;
    verif::outputs("r", r, S);
  }
  {
    Unit u(n + "s2t_comp_tt_s2t");  // t2tot2 * st2tot2
    t2tot2<N, Sym> C;
    st2tot2<N, Sym> E;
    verif::fill_inputs2(C, "a", T, T);
    verif::fill_inputs2(E, "b", T, S);
    const st2tot2<N, Sym> r = C * E;
    verif::outputs2("r", r, T, S);
  }
  {
    Unit u(n + "s2t_comp_s2t_st");  // st2tot2 * st2tost2
    st2tot2<N, Sym> E;
    st2tost2<N, Sym> C;
    verif::fill_inputs2(E, "a", T, S);
    verif::fill_inputs2(C, "b", S, S);
    const st2tot2<N, Sym> r = E * C;
    verif::outputs2("r", r, T, S);
  }
  {
    Unit u(n + "s2t_dyad");  // tensor ^ stensor
    tensor<N, Sym> x;
    stensor<N, Sym> s;
    verif::fill_inputs(x, "x", T);
    verif::fill_inputs(s, "s", S);
    const st2tot2<N, Sym> r = x ^ s;
    verif::outputs2("r", r, T, S);
  }
  {
    Unit u(n + "s2t_tpld");
    stensor<N, Sym> b;
    verif::fill_inputs(b, "s", S);
    const st2tot2<N, Sym> r = st2tot2<N, Sym>::tpld(b);
    verif::outputs2("r", r, T, S);
  }
  {
    Unit u(n + "s2t_tprd");
    stensor<N, Sym> a;
    verif::fill_inputs(a, "s", S);
    const st2tot2<N, Sym> r = st2tot2<N, Sym>::tprd(a);
    verif::outputs2("r", r, T, S);
  }
  }
}

#include "C02/trace_extra.hxx"

#ifndef C02_PART
#define C02_PART 0
#endif

int main() {
  constexpr int ALL = FAM_ST | FAM_TT | FAM_TS | FAM_S2T;
  if constexpr (C02_PART == 0 || C02_PART == 1) {
    trace_tensor<1>();
    trace_tensor<2>();
    trace_tensor<3>();
  }
  if constexpr (C02_PART == 0 || C02_PART == 2) {
    trace_fourth_order<1, ALL>();
    trace_fourth_order<2, ALL>();
  }
  if constexpr (C02_PART == 0 || C02_PART == 3) {
    trace_fourth_order<3, FAM_ST>();
  }
  if constexpr (C02_PART == 0 || C02_PART == 4) {
    trace_fourth_order<3, FAM_TT>();
  }
  if constexpr (C02_PART == 0 || C02_PART == 5) {
    trace_fourth_order<3, FAM_TS | FAM_S2T>();
  }
  if constexpr (C02_PART == 0 || C02_PART == 6) {
    // second batch (trace_extra.hxx): functions of the anchored files that the units above do not call
    trace_tensor_extra<1>();
    trace_tensor_extra<2>();
    trace_tensor_extra<3>();
    trace_fourth_order_extra<1>();
    trace_fourth_order_extra<2>();
    trace_fourth_order_extra<3>();
  }
  return 0;
}
