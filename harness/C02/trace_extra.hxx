// C02 tracer, second batch of units (included by trace.cxx, traced by -DC02_PART=6): anchored functions
// that the first batch does not reach — matrix access of tensor *expressions*, the stress-measure
// conversions (push-forward / pull-back with the Jacobian), raw import/write/copy, the row-array
// constructors, setComponent, det/trace/quaddot of st2tost2 (closed forms), computePushForwardDerivative,
// velocity-gradient / spin-rate / second determinant derivatives.
#ifndef VERIF_C02_TRACE_EXTRA_HXX
#define VERIF_C02_TRACE_EXTRA_HXX

template <unsigned short N>
void trace_tensor_extra() {
  constexpr int S = StensorDimeToSize<N>::value;
  constexpr int T = TensorDimeToSize<N>::value;
  const std::string d = "N" + std::to_string(N) + "_t_";
  {
    // TensorConceptBase::operator()(i,j) (TensorConcept.ixx) is what an expression uses; tensor<N> has its own
    Unit u(d + "access_expr");
    tensor<N, Sym> a, b;
    verif::fill_inputs(a, "a", T);
    verif::fill_inputs(b, "b", T);
    const auto e = a + b;
    for (unsigned short i = 0; i != 3; ++i) {
      for (unsigned short j = 0; j != 3; ++j) {
        verif::output("g" + std::to_string(i) + "_" + std::to_string(j), Sym(e(i, j)));
      }
    }
  }
  {
    Unit u(d + "pushForward_alias");
    stensor<N, Sym> s;
    tensor<N, Sym> a;
    verif::fill_inputs(s, "s", S);
    verif::fill_inputs(a, "a", T);
    const stensor<N, Sym> r = pushForward(s, a);
    verif::outputs("r", r, S);
  }
  {
    // S = J F^-1 sigma F^-T
    Unit u(d + "cauchy_to_pk2");
    stensor<N, Sym> s;
    tensor<N, Sym> a;
    verif::fill_inputs(s, "s", S);
    verif::fill_inputs(a, "a", T);
    const stensor<N, Sym> r = convertCauchyStressToSecondPiolaKirchhoffStress(s, a);
    verif::outputs("r", r, S);
  }
  {
    // sigma = F S F^T / J
    Unit u(d + "pk2_to_cauchy");
    stensor<N, Sym> s;
    tensor<N, Sym> a;
    verif::fill_inputs(s, "s", S);
    verif::fill_inputs(a, "a", T);
    const stensor<N, Sym> r = convertSecondPiolaKirchhoffStressToCauchyStress(s, a);
    verif::outputs("r", r, S);
  }
  {
    // P = J sigma F^-T
    Unit u(d + "cauchy_to_pk1");
    stensor<N, Sym> s;
    tensor<N, Sym> a;
    verif::fill_inputs(s, "s", S);
    verif::fill_inputs(a, "a", T);
    const tensor<N, Sym> r = convertCauchyStressToFirstPiolaKirchhoffStress(s, a);
    verif::outputs("r", r, T);
  }
  {
    // sigma = P F^T / J
    Unit u(d + "pk1_to_cauchy");
    tensor<N, Sym> p, a;
    verif::fill_inputs(p, "p", T);
    verif::fill_inputs(a, "a", T);
    const stensor<N, Sym> r = convertFirstPiolaKirchhoffStressToCauchyStress(p, a);
    verif::outputs("r", r, S);
  }
  {
    Unit u(d + "ddet_inplace");
    tensor<N, Sym> a, r;
    verif::fill_inputs(a, "a", T);
    computeDeterminantDerivative(r, a);
    verif::outputs("r", r, T);
  }
  {
    // raw storage round trips: import / write / exportToBaseTypeArray keep the storage order
    // (tensor::copy cannot be instantiated: it passes *this instead of begin() to fsalgo::copy)
    Unit u(d + "import_write");
    Sym v[T], w1[T], w2[T];
    verif::fill_inputs(v, "v", T);
    tensor<N, Sym> a;
    a.import(v);
    a.write(w1);
    exportToBaseTypeArray(a, w2);
    verif::outputs("a", a, T);
    verif::outputs("w", w1, T);
    verif::outputs("x", w2, T);
  }
  {
    // d2J/dF2 (t2tot2.ixx): applied to H it is the bilinear part of the cofactor matrix
    Unit u(d + "d2det");
    tensor<N, Sym> a;
    verif::fill_inputs(a, "a", T);
    const t2tot2<N, Sym> r = computeDeterminantSecondDerivative(a);
    verif::outputs2("r", r, T, T);
  }
  {
    Unit u(d + "velocity_gradient_derivative");
    tensor<N, Sym> a;
    verif::fill_inputs(a, "f", T);
    const t2tot2<N, Sym> r = computeVelocityGradientDerivative(a);
    verif::outputs2("r", r, T, T);
  }
  {
    Unit u(d + "spin_rate_derivative");
    tensor<N, Sym> a;
    verif::fill_inputs(a, "f", T);
    const t2tot2<N, Sym> r = computeSpinRateDerivative(a);
    verif::outputs2("r", r, T, T);
  }
}

template <unsigned short N>
void trace_fourth_order_extra() {
  constexpr int S = StensorDimeToSize<N>::value;
  constexpr int T = TensorDimeToSize<N>::value;
  const std::string n = "N" + std::to_string(N) + "_";
  {
    // setComponent(C,i,j,k,l,v) for every index quadruple of the dimension; the value given for (i,j,k,l) is
    // the entry g(I,J) of a table indexed by the storage rows, so that the minor symmetries hold by construction
    Unit u(n + "st_setComponent");
    st2tost2<N, Sym> G, C;
    verif::fill_inputs2(G, "a", S, S);
    for (int I = 0; I != S; ++I) {
      for (int J = 0; J != S; ++J) {
        C(I, J) = Sym(0);
      }
    }
    const auto ok = [](unsigned short p, unsigned short q) {
      return (p == q) || (N == 3) || ((N == 2) && (p < 2) && (q < 2));
    };
    const auto row = [](unsigned short p, unsigned short q) -> int {
      if (p == q) return p;
      if (p + q == 1) return 3;
      if (p + q == 2) return 4;
      return 5;
    };
    for (unsigned short i = 0; i != 3; ++i) {
      for (unsigned short j = 0; j != 3; ++j) {
        for (unsigned short k = 0; k != 3; ++k) {
          for (unsigned short l = 0; l != 3; ++l) {
            if (!(ok(i, j) && ok(k, l))) continue;
            setComponent<Sym, Sym>(C, i, j, k, l, G(row(i, j), row(k, l)));
          }
        }
      }
    }
    verif::outputs2("r", C, S, S);
  }
  {
    Unit u(n + "st_trace");
    st2tost2<N, Sym> C;
    verif::fill_inputs2(C, "a", S, S);
    verif::output("r", Sym(trace(C)));
  }
  {
    Unit u(n + "st_quaddot");
    st2tost2<N, Sym> C, D;
    verif::fill_inputs2(C, "a", S, S);
    verif::fill_inputs2(D, "b", S, S);
    verif::output("r", Sym(quaddot(C, D)));
  }
  {
    // dtau/ds for tau = F s F^T
    Unit u(n + "st_push_forward_derivative");
    tensor<N, Sym> F;
    verif::fill_inputs(F, "f", T);
    st2tost2<N, Sym> r;
    computePushForwardDerivative(r, F);
    verif::outputs2("r", r, S, S);
  }
  if constexpr (N == 1) {
    // closed form (N > 1: pivoting LU, see the double precision harness numeric.cxx)
    Unit u(n + "st_det");
    st2tost2<N, Sym> C;
    verif::fill_inputs2(C, "a", S, S);
    verif::output("r", Sym(det(C)));
  }
  if constexpr (N != 3) {
    // constructors from rows (braces of arrays), import and copy keep the row-major storage
    Unit u(n + "st_from_rows");
    Sym v[S * S];
    verif::fill_inputs(v, "v", S * S);
    if constexpr (N == 1) {
      const Sym r0[3] = {v[0], v[1], v[2]}, r1[3] = {v[3], v[4], v[5]}, r2[3] = {v[6], v[7], v[8]};
      const st2tost2<1u, Sym> r(r0, r1, r2);
      verif::outputs2("r", r, S, S);
    } else {
      const Sym r0[4] = {v[0], v[1], v[2], v[3]}, r1[4] = {v[4], v[5], v[6], v[7]},
                r2[4] = {v[8], v[9], v[10], v[11]}, r3[4] = {v[12], v[13], v[14], v[15]};
      const st2tost2<2u, Sym> r(r0, r1, r2, r3);
      verif::outputs2("r", r, S, S);
    }
  }
  if constexpr (N != 3) {
    Unit u(n + "tt_from_rows");
    Sym v[T * T];
    verif::fill_inputs(v, "v", T * T);
    if constexpr (N == 1) {
      const Sym r0[3] = {v[0], v[1], v[2]}, r1[3] = {v[3], v[4], v[5]}, r2[3] = {v[6], v[7], v[8]};
      const t2tot2<1u, Sym> r(r0, r1, r2);
      verif::outputs2("r", r, T, T);
    } else {
      const Sym r0[5] = {v[0], v[1], v[2], v[3], v[4]}, r1[5] = {v[5], v[6], v[7], v[8], v[9]},
                r2[5] = {v[10], v[11], v[12], v[13], v[14]}, r3[5] = {v[15], v[16], v[17], v[18], v[19]},
                r4[5] = {v[20], v[21], v[22], v[23], v[24]};
      const t2tot2<2u, Sym> r(r0, r1, r2, r3, r4);
      verif::outputs2("r", r, T, T);
    }
  }
  {
    // (st2tost2::copy / t2tot2::copy cannot be instantiated at all: they pass *this instead of begin() to fsalgo::copy)
    Unit u(n + "st_import");
    Sym v[S * S];
    verif::fill_inputs(v, "v", S * S);
    st2tost2<N, Sym> a;
    a.import(v);
    verif::outputs2("a", a, S, S);
  }
  {
    Unit u(n + "tt_import");
    Sym v[T * T];
    verif::fill_inputs(v, "v", T * T);
    t2tot2<N, Sym> a;
    a.import(v);
    verif::outputs2("a", a, T, T);
  }
}
#endif
