// C02, double precision differential harness for the anchored functions that cannot be traced exactly:
//   polar_decomposition in 2D/3D (TensorConcept.ixx; goes through the eigen-solver of stensor),
//   invert(st2tost2) (st2tost2.ixx; pivoting LU), det(st2tost2) (ST2toST2Concept.ixx; closed form in 1D,
//   pivoting LU in 2D/3D).
// One request per line on stdin, one answer per line on stdout (%.17g: the doubles round-trip exactly);
// the check (checks/C02.py) evaluates the property's own predicate on the answers in exact rational
// arithmetic. The real templates run in-process, compiled from the current tree.
//   polar <N> f0 .. f(T-1)          ->  polar <N> r0 .. r(T-1) u0 .. u(S-1)
//   stinv <N> a00 a01 ..  (row major) ->  stinv <N> b00 b01 ..
//   stdet <N> a00 a01 ..              ->  stdet <N> d
// An exception of the library is reported as "<op> <N> exception <what>".
#include <cstdio>
#include <exception>
#include <iostream>
#include <sstream>
#include <string>
#include "TFEL/Math/stensor.hxx"
#include "TFEL/Math/tensor.hxx"
#include "TFEL/Math/st2tost2.hxx"

using namespace tfel::math;

template <unsigned short N>
static void polar(std::istream& in) {
  constexpr int S = StensorDimeToSize<N>::value;
  constexpr int T = TensorDimeToSize<N>::value;
  tensor<N, double> F, R;
  stensor<N, double> U;
  for (int i = 0; i != T; ++i) in >> F[i];
  polar_decomposition(R, U, F);
  std::printf("polar %d", int(N));
  for (int i = 0; i != T; ++i) std::printf(" %.17g", R[i]);
  for (int i = 0; i != S; ++i) std::printf(" %.17g", U[i]);
  std::printf("\n");
}

template <unsigned short N>
static void stinv(std::istream& in) {
  constexpr int S = StensorDimeToSize<N>::value;
  st2tost2<N, double> A;
  for (int i = 0; i != S; ++i)
    for (int j = 0; j != S; ++j) in >> A(i, j);
  const st2tost2<N, double> B = invert(A);
  std::printf("stinv %d", int(N));
  for (int i = 0; i != S; ++i)
    for (int j = 0; j != S; ++j) std::printf(" %.17g", B(i, j));
  std::printf("\n");
}

template <unsigned short N>
static void stdet(std::istream& in) {
  constexpr int S = StensorDimeToSize<N>::value;
  st2tost2<N, double> A;
  for (int i = 0; i != S; ++i)
    for (int j = 0; j != S; ++j) in >> A(i, j);
  const double d = det(A);
  std::printf("stdet %d %.17g\n", int(N), d);
}

int main() {
  std::string line;
  while (std::getline(std::cin, line)) {
    std::istringstream in(line);
    std::string op;
    int n = 0;
    in >> op >> n;
    try {
      if (op == "polar") {
        if (n == 1) polar<1>(in);
        else if (n == 2) polar<2>(in);
        else polar<3>(in);
      } else if (op == "stinv") {
        if (n == 1) stinv<1>(in);
        else if (n == 2) stinv<2>(in);
        else stinv<3>(in);
      } else if (op == "stdet") {
        if (n == 1) stdet<1>(in);
        else if (n == 2) stdet<2>(in);
        else stdet<3>(in);
      } else {
        std::printf("bad-op\n");
      }
    } catch (std::exception& e) {
      std::printf("%s %d exception %s\n", op.c_str(), n, e.what());
    }
  }
  return 0;
}
