// C04 correspondence harness: calls the real sorting routines in-process.
// stdin : "<fn> <asc|desc|uns> a b c" (integers)   stdout: same format as the Lean driver
#include <iostream>
#include <sstream>
#include <string>
#include "TFEL/Math/stensor.hxx"
#include "TFEL/Math/tmatrix.hxx"
#include "TFEL/Math/tvector.hxx"
#include "FSES/syevj3.hxx"
#include "FSES/Utilities.hxx"

using namespace tfel::math;
using O = stensor_common::EigenValuesOrdering;

static int column_of(const double x) { return static_cast<int>(x) % 10; }

template <typename M>
static std::string idx_of(const M& m) {
  // m(i,j) was 10*(i+1)+j before the call: read the permutation of columns row by row
  int idx[3] = {-1, -1, -1};
  for (int j = 0; j != 3; ++j) {
    for (int i = 0; i != 3; ++i) {
      const int c = column_of(m(i, j));
      const int row = static_cast<int>(m(i, j)) / 10 - 1;
      if (row != i) return "rows-mixed";
      if (i == 0) {
        idx[j] = c;
      } else if (idx[j] != c) {
        return "rows-inconsistent";
      }
    }
  }
  std::ostringstream os;
  os << idx[0] << " " << idx[1] << " " << idx[2];
  return os.str();
}

int main() {
  std::string line;
  while (std::getline(std::cin, line)) {
    std::istringstream is(line);
    std::string f, o;
    long a, b, c;
    if (!(is >> f >> o >> a >> b >> c)) {
      std::cout << "bad-op\n";
      continue;
    }
    const O ord = (o == "asc") ? O::ASCENDING
                               : ((o == "desc") ? O::DESCENDING : O::UNSORTED);
    tmatrix<3u, 3u, double> m;
    for (unsigned short i = 0; i != 3; ++i)
      for (unsigned short j = 0; j != 3; ++j) m(i, j) = 10 * (i + 1) + j;
    if (f == "sortEigenValues") {
      const tvector<3u, double> v = {double(a), double(b), double(c)};
      const auto r = sortEigenValues(v, ord);
      std::cout << "v " << long(r[0]) << " " << long(r[1]) << " " << long(r[2]) << "\n";
    } else if (f == "SortEigenValues2") {
      double x = a, y = b, z = c;
      internals::SortEigenValues<2u>::exe(x, y, z, ord);
      std::cout << "v " << long(x) << " " << long(y) << " " << long(z) << "\n";
    } else if (f == "SortEigenValues3") {
      double x = a, y = b, z = c;
      internals::SortEigenValues<3u>::exe(x, y, z, ord);
      std::cout << "v " << long(x) << " " << long(y) << " " << long(z) << "\n";
    } else if (f == "SortEigenVectors3") {
      tvector<3u, double> v = {double(a), double(b), double(c)};
      internals::SortEigenVectors<3u>::exe(v, m, ord);
      std::cout << "v " << long(v[0]) << " " << long(v[1]) << " " << long(v[2])
                << " idx " << idx_of(m) << "\n";
    } else if (f == "SortEigenVectors2") {
      tvector<3u, double> v = {double(a), double(b), double(c)};
      internals::SortEigenVectors<2u>::exe(v, m, ord);
      // 2D: only the in-plane 2x2 block of columns is exchanged
      const bool swapped = (column_of(m(0, 0)) == 1) && (column_of(m(0, 1)) == 0) &&
                           (column_of(m(1, 0)) == 1) && (column_of(m(1, 1)) == 0);
      const bool same = (column_of(m(0, 0)) == 0) && (column_of(m(0, 1)) == 1) &&
                        (column_of(m(1, 0)) == 0) && (column_of(m(1, 1)) == 1);
      std::cout << "v " << long(v[0]) << " " << long(v[1]) << " " << long(v[2])
                << " idx " << (swapped ? "1 0 2" : (same ? "0 1 2" : "block-inconsistent"))
                << "\n";
    } else if (f == "fsesSort") {
      tvector<3u, double> v = {double(a), double(b), double(c)};
      fses::sort(m, v, ord == O::ASCENDING
                           ? fses::EigenValuesOrdering::ASCENDING
                           : (ord == O::DESCENDING ? fses::EigenValuesOrdering::DESCENDING
                                                   : fses::EigenValuesOrdering::UNSORTED));
      std::cout << "v " << long(v[0]) << " " << long(v[1]) << " " << long(v[2])
                << " idx " << idx_of(m) << "\n";
    } else {
      std::cout << "bad-op\n";
    }
  }
  return 0;
}
