// C16 implementation-side support: the real tfel::math::ieee754 functions (compiled in THIS translation
// unit with the flags under test: -O2 or -Ofast) against the C library (ref.cxx, never fast-math).
//   c16h all32 <threads>                 every float bit pattern
//   c16h sample <seed> <nrand> <threads> stratified floats, doubles, long doubles
//   c16h list                            patterns on stdin ("f32 hex" | "f64 hex" | "x87 hex20"), one answer per line
#include <cstdint>
#include <cstdio>
#include <cstdlib>
#include <cstring>
#include <cfloat>
#include <string>
#include <thread>
#include <vector>
#include <mutex>
#include <iostream>
#include <bit>
#include "TFEL/Math/General/IEEE754.hxx"

extern "C" {
int c16_ref_fpclassify_f(float);
int c16_ref_fpclassify_d(double);
int c16_ref_fpclassify_l(const void*);
int c16_ref_isnan_f(float);
int c16_ref_isnan_d(double);
int c16_ref_isnan_l(const void*);
int c16_ref_finite_f(float);
int c16_ref_finite_d(double);
int c16_ref_finite_l(const void*);
int c16_ref_codes(int);
}

namespace ie = tfel::math::ieee754;

struct X87 {
  uint64_t m;
  uint16_t se;
};

static long double make_ld(const X87 b) {
  unsigned char buf[sizeof(long double)] = {0};
  std::memcpy(buf, &b.m, 8);
  std::memcpy(buf + 8, &b.se, 2);
  long double x;
  std::memcpy(&x, buf, sizeof(x));
  return x;
}

static bool class_finite(const int c) { return c == FP_ZERO || c == FP_SUBNORMAL || c == FP_NORMAL; }

static int code_index[8] = {0, 0, 0, 0, 0, 0, 0, 0};  // FP_* code -> 0..4 (nan, inf, zero, subnormal, normal)

struct Stats {
  unsigned long long n = 0, mism = 0, finite_obs = 0;
  unsigned long long cls[5] = {0, 0, 0, 0, 0};
  std::vector<std::string> first;
  void merge(const Stats& o) {
    n += o.n;
    mism += o.mism;
    finite_obs += o.finite_obs;
    for (int i = 0; i != 5; ++i) cls[i] += o.cls[i];
    for (const auto& s : o.first)
      if (first.size() < 20) first.push_back(s);
  }
  void bad(const char* ty, const std::string& bits, const char* fn, int got, int ref) {
    ++mism;
    if (first.size() < 20) {
      first.push_back(std::string("mismatch ") + ty + " " + bits + " fn=" + fn + " tfel=" + std::to_string(got) +
                      " ref=" + std::to_string(ref));
    }
  }
  void count(int refc) {
    ++n;
    ++cls[code_index[refc & 7]];
  }
};

static std::string hex(unsigned long long v, int digits) {
  char b[40];
  std::snprintf(b, sizeof(b), "%0*llx", digits, v);
  return b;
}

static inline void check32(Stats& s, const uint32_t i) {
  const float x = std::bit_cast<float>(i);
  const int c = ie::fpclassify(x), r = c16_ref_fpclassify_f(x);
  const bool n = ie::isnan(x), f = ie::isfinite(x);
  s.count(r);
  if (c != r) s.bad("f32", hex(i, 8), "fpclassify", c, r);
  if (n != (c16_ref_isnan_f(x) != 0)) s.bad("f32", hex(i, 8), "isnan", n, !n);
  if (f != class_finite(r)) s.bad("f32", hex(i, 8), "isfinite", f, !f);
  if (class_finite(r) != (c16_ref_finite_f(x) != 0)) ++s.finite_obs;
}

static inline void check64(Stats& s, const uint64_t i) {
  const double x = std::bit_cast<double>(i);
  const int c = ie::fpclassify(x), r = c16_ref_fpclassify_d(x);
  const bool n = ie::isnan(x), f = ie::isfinite(x);
  s.count(r);
  if (c != r) s.bad("f64", hex(i, 16), "fpclassify", c, r);
  if (n != (c16_ref_isnan_d(x) != 0)) s.bad("f64", hex(i, 16), "isnan", n, !n);
  if (f != class_finite(r)) s.bad("f64", hex(i, 16), "isfinite", f, !f);
  if (class_finite(r) != (c16_ref_finite_d(x) != 0)) ++s.finite_obs;
}

static inline void check80(Stats& s, const X87 b) {
  const long double x = make_ld(b);
  const int c = ie::fpclassify(x), r = c16_ref_fpclassify_l(&x);
  const bool n = ie::isnan(x), f = ie::isfinite(x);
  s.count(r);
  const auto bits = hex(b.se, 4) + hex(b.m, 16);
  if (c != r) s.bad("x87", bits, "fpclassify", c, r);
  if (n != (c16_ref_isnan_l(&x) != 0)) s.bad("x87", bits, "isnan", n, !n);
  if (f != class_finite(r)) s.bad("x87", bits, "isfinite", f, !f);
  // observation only: glibc's __finitel looks at the exponent alone (unnormals are "finite" for it)
  if (class_finite(r) != (c16_ref_finite_l(&x) != 0)) ++s.finite_obs;
}

static uint64_t splitmix(uint64_t& s) {
  uint64_t z = (s += 0x9e3779b97f4a7c15ull);
  z = (z ^ (z >> 30)) * 0xbf58476d1ce4e5b9ull;
  z = (z ^ (z >> 27)) * 0x94d049bb133111ebull;
  return z ^ (z >> 31);
}

// structured mantissas of `bits` bits: 0, 1, 2, 3, all ones, all ones - 1, each single bit, each low run of ones,
// each high run of ones
static std::vector<uint64_t> structured(const int bits) {
  const uint64_t all = bits == 64 ? ~0ull : ((1ull << bits) - 1);
  std::vector<uint64_t> v = {0, 1, 2, 3, all, all - 1};
  for (int k = 0; k != bits; ++k) {
    v.push_back(1ull << k);
    v.push_back(((1ull << k) - 1) & all);
    v.push_back(all & ~((1ull << k) - 1));
  }
  return v;
}

static void print(const char* ty, const Stats& s) {
  std::printf("total %s n=%llu mismatches=%llu nan=%llu inf=%llu zero=%llu subnormal=%llu normal=%llu finite_vs_libc_finite_differs=%llu\n",
              ty, s.n, s.mism, s.cls[0], s.cls[1], s.cls[2], s.cls[3], s.cls[4], s.finite_obs);
  for (const auto& l : s.first) std::printf("%s\n", l.c_str());
}

template <typename F>
static Stats parallel(const unsigned nth, const uint64_t n, F f) {
  std::vector<Stats> st(nth);
  std::vector<std::thread> th;
  for (unsigned t = 0; t != nth; ++t) {
    th.emplace_back([&, t] {
      const uint64_t b = n / nth * t, e = (t + 1 == nth) ? n : n / nth * (t + 1);
      for (uint64_t i = b; i != e; ++i) f(st[t], i);
    });
  }
  for (auto& t : th) t.join();
  Stats r;
  for (const auto& s : st) r.merge(s);
  return r;
}

int main(const int argc, const char* const* argv) {
  const std::string mode = argc > 1 ? argv[1] : "";
  for (int k = 0; k != 5; ++k) {
    if (c16_ref_codes(k) < 0 || c16_ref_codes(k) > 7) {
      std::fprintf(stderr, "unexpected FP_* codes\n");
      return 3;
    }
    code_index[c16_ref_codes(k)] = k;
  }
#ifdef __FAST_MATH__
  const int fm = 1;
#else
  const int fm = 0;
#endif
#ifdef __OPTIMIZE__
  const int op = 1;
#else
  const int op = 0;
#endif
  std::printf("flags fast_math=%d finite_math_only=%d optimize=%d ldbl_mant_dig=%d ldbl_max_exp=%d sizeof_ld=%zu\n", fm,
              int(__FINITE_MATH_ONLY__), op, int(LDBL_MANT_DIG), int(LDBL_MAX_EXP), sizeof(long double));
  if (mode == "all32") {
    const unsigned nth = argc > 2 ? std::atoi(argv[2]) : 4;
    const auto s = parallel(nth, 1ull << 32, [](Stats& st, uint64_t i) { check32(st, uint32_t(i)); });
    print("f32", s);
    return 0;
  }
  if (mode == "sample") {
    uint64_t seed = argc > 2 ? std::strtoull(argv[2], nullptr, 10) : 1;
    const unsigned nrand = argc > 3 ? std::atoi(argv[3]) : 100;
    const unsigned nth = argc > 4 ? std::atoi(argv[4]) : 4;
    {  // floats: every (sign, exponent) x structured + random mantissas
      const auto sm = structured(23);
      const auto s = parallel(nth, 512, [&](Stats& st, uint64_t se) {
        uint64_t rs = seed * 1000003ull + se;
        for (const auto m : sm) check32(st, uint32_t(se << 23 | m));
        for (unsigned k = 0; k != nrand; ++k) check32(st, uint32_t(se << 23 | (splitmix(rs) & 0x7fffff)));
      });
      print("f32", s);
    }
    {  // doubles: every (sign, exponent) x structured + random mantissas
      const auto sm = structured(52);
      const auto s = parallel(nth, 4096, [&](Stats& st, uint64_t se) {
        uint64_t rs = seed * 1000033ull + se;
        for (const auto m : sm) check64(st, se << 52 | m);
        for (unsigned k = 0; k != nrand; ++k) check64(st, se << 52 | (splitmix(rs) & 0xfffffffffffffull));
      });
      print("f64", s);
    }
    {  // x87: every (sign, exponent) x integer bit x structured + random fractions
      const auto sm = structured(63);
      const auto s = parallel(nth, 65536, [&](Stats& st, uint64_t se) {
        uint64_t rs = seed * 1000037ull + se;
        const bool edge = (se & 0x7fff) < 3 || (se & 0x7fff) > 0x7ffc || (se & 0x7fff) == 0x3fff;
        for (uint64_t j = 0; j != 2; ++j) {
          if (edge) {
            for (const auto m : sm) check80(st, X87{j << 63 | m, uint16_t(se)});
          } else {
            for (const uint64_t m : {0ull, 1ull, 0x7fffffffffffffffull, 0x4000000000000000ull})
              check80(st, X87{j << 63 | m, uint16_t(se)});
          }
          const unsigned nr = edge ? nrand : (nrand + 15) / 16;
          for (unsigned k = 0; k != nr; ++k) check80(st, X87{j << 63 | (splitmix(rs) >> 1), uint16_t(se)});
        }
      });
      print("x87", s);
    }
    return 0;
  }
  if (mode == "list") {
    std::string ty, h;
    while (std::cin >> ty >> h) {
      int c = -1, r = -1, n = -1, f = -1, rn = -1;
      if (ty == "f32") {
        const float x = std::bit_cast<float>(uint32_t(std::strtoul(h.c_str(), nullptr, 16)));
        c = ie::fpclassify(x), n = ie::isnan(x), f = ie::isfinite(x), r = c16_ref_fpclassify_f(x), rn = c16_ref_isnan_f(x);
      } else if (ty == "f64") {
        const double x = std::bit_cast<double>(uint64_t(std::strtoull(h.c_str(), nullptr, 16)));
        c = ie::fpclassify(x), n = ie::isnan(x), f = ie::isfinite(x), r = c16_ref_fpclassify_d(x), rn = c16_ref_isnan_d(x);
      } else if (ty == "x87" && h.size() == 20) {
        X87 b;
        b.se = uint16_t(std::strtoul(h.substr(0, 4).c_str(), nullptr, 16));
        b.m = std::strtoull(h.substr(4).c_str(), nullptr, 16);
        const long double x = make_ld(b);
        c = ie::fpclassify(x), n = ie::isnan(x), f = ie::isfinite(x), r = c16_ref_fpclassify_l(&x), rn = c16_ref_isnan_l(&x);
      }
      std::printf("%s %s %d %d %d ref %d %d\n", ty.c_str(), h.c_str(), c, n, f, r, rn);
    }
    return 0;
  }
  std::fprintf(stderr, "usage: c16h all32 <threads> | sample <seed> <nrand> <threads> | list\n");
  return 2;
}
