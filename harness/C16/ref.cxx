// C16 reference side: the platform C library's classification functions, called out of line.
// This translation unit is ALWAYS compiled without fast-math (see checks/C16.py), so that the
// reference does not depend on the configuration under test.
#include <math.h>
#include <cstring>
#if defined(__FAST_MATH__) || (defined(__FINITE_MATH_ONLY__) && __FINITE_MATH_ONLY__)
#error "ref.cxx must not be compiled with -ffast-math"
#endif
extern "C" {
int c16_ref_fpclassify_f(float x) { return __fpclassifyf(x); }
int c16_ref_fpclassify_d(double x) { return __fpclassify(x); }
int c16_ref_fpclassify_l(const void* p) {
  long double x;
  std::memcpy(&x, p, sizeof(x));
  return __fpclassifyl(x);
}
int c16_ref_isnan_f(float x) { return __isnanf(x) != 0; }
int c16_ref_isnan_d(double x) { return __isnan(x) != 0; }
int c16_ref_isnan_l(const void* p) {
  long double x;
  std::memcpy(&x, p, sizeof(x));
  return __isnanl(x) != 0;
}
int c16_ref_finite_f(float x) { return __finitef(x) != 0; }
int c16_ref_finite_d(double x) { return __finite(x) != 0; }
int c16_ref_finite_l(const void* p) {
  long double x;
  std::memcpy(&x, p, sizeof(x));
  return __finitel(x) != 0;
}
int c16_ref_codes(int k) {
  const int c[5] = {FP_NAN, FP_INFINITE, FP_ZERO, FP_SUBNORMAL, FP_NORMAL};
  return c[k];
}
}
