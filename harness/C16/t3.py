"""T3 — tiny C-subset translator for C16 (tfel::math::ieee754).

Input : the *preprocessed* text of TFEL/Math/General/IEEE754.hxx (g++ -E -P on the current tree, so the
        branch selected by the LDBL_* / __BYTE_ORDER macros of this platform is the one that is translated).
Output: Lean 4 definitions over `BitVec` (one per function overload), in source order.

Supported subset (anything else raises `Unsupported`, which the check reports as a broken tie):
  * function definitions  `[constexpr|inline|static]* (int|bool) name(const (float|double|long double) x) noexcept { ... }`
  * local `struct S { T f; T g[N]; };` with little-endian, naturally aligned layout (x86-64 SysV)
  * declarations `[const] (auto|int|bool|uintN_t|...) v = expr;`
  * `if (c) stmt [else stmt]`, `return expr;`, blocks, `tfel::reportContractViolation("...");`
  * expressions: integer literals, variables, `.field`, `[literal]`, calls to previously defined overloads,
    `std::bit_cast<To[,From]>(e)`, immediately invoked capture-less lambdas `[] { ... }()`,
    `! ~`, `<< >>` by literal counts on unsigned operands, `< > <= >= == !=`, `& ^ |`, `&& ||`, `?:`
  * C++ typing rules: integer promotion, usual arithmetic conversions, conversion to bool, narrowing/widening
    conversions on initialisation and return (two's complement, C++20).
Every integer value is a `BitVec w` (w = width of its C++ type), every bool a Lean `Bool`.
"""
import re


class Unsupported(Exception):
    pass


# ---------------------------------------------------------------------------------------------- types
class Ty:
    def __init__(self, kind, width=0, signed=False, name="", fields=None, size=0, align=0):
        self.kind = kind      # 'int' | 'bool' | 'fp' | 'struct' | 'array'
        self.width = width    # value bits
        self.signed = signed
        self.name = name
        self.fields = fields  # struct: list of (name, Ty, bit offset); array: (elem Ty, count)
        self.size = size      # sizeof in bytes
        self.align = align

    def __repr__(self):
        return self.name


def ity(name, width, signed):
    return Ty("int", width, signed, name, size=width // 8, align=width // 8)


INT = ity("int", 32, True)
UINT = ity("unsigned int", 32, False)
LONG = ity("long", 64, True)
ULONG = ity("unsigned long", 64, False)
BOOL = Ty("bool", 1, False, "bool", size=1, align=1)
TYPES = {
    "int": INT, "unsigned": UINT, "unsigned int": UINT, "long": LONG, "unsigned long": ULONG,
    "char": ity("char", 8, True), "signed char": ity("signed char", 8, True),
    "unsigned char": ity("unsigned char", 8, False),
    "short": ity("short", 16, True), "unsigned short": ity("unsigned short", 16, False),
    "uint8_t": ity("uint8_t", 8, False), "uint16_t": ity("uint16_t", 16, False),
    "uint32_t": ity("uint32_t", 32, False), "uint64_t": ity("uint64_t", 64, False),
    "int8_t": ity("int8_t", 8, True), "int16_t": ity("int16_t", 16, True),
    "int32_t": ity("int32_t", 32, True), "int64_t": ity("int64_t", 64, True),
    "bool": BOOL,
    # floating-point types: value bits / sizeof on x86-64 SysV (checked against the compiler by the check)
    "float": Ty("fp", 32, name="float", size=4, align=4),
    "double": Ty("fp", 64, name="double", size=8, align=8),
    "long double": Ty("fp", 80, name="long double", size=16, align=16),
}
FP_SUFFIX = {"float": "f32", "double": "f64", "long double": "x87"}


# ---------------------------------------------------------------------------------------------- lexer
TOKEN = re.compile(r"""
    (?P<ws>\s+)
  | (?P<num>0[xX][0-9a-fA-F]+|[0-9]+)(?P<suf>[uUlL]*)
  | (?P<id>[A-Za-z_][A-Za-z_0-9]*(?:::[A-Za-z_][A-Za-z_0-9]*)*)
  | (?P<str>"(?:[^"\\]|\\.)*")
  | (?P<op><<|>>|<=|>=|==|!=|&&|\|\||[{}()\[\];,<>&|^!~?:=.+\-*/%])
""", re.X)


def lex(text):
    out = []
    i = 0
    while i < len(text):
        m = TOKEN.match(text, i)
        if not m:
            raise Unsupported("lexer: unexpected character %r at ...%s" % (text[i], text[i:i + 30]))
        i = m.end()
        if m.group("ws"):
            continue
        if m.group("num"):
            out.append(("num", m.group("num"), m.group("suf")))
        elif m.group("id"):
            out.append(("id", m.group("id")))
        elif m.group("str"):
            out.append(("str", m.group("str")))
        else:
            out.append(("op", m.group("op")))
    out.append(("eof", ""))
    return out


# ---------------------------------------------------------------------------------------------- parser
class Parser:
    def __init__(self, toks):
        self.t = toks
        self.i = 0

    def peek(self, k=0):
        return self.t[min(self.i + k, len(self.t) - 1)]

    def next(self):
        tok = self.t[self.i]
        self.i += 1
        return tok

    def at(self, kind, val=None, k=0):
        tok = self.peek(k)
        return tok[0] == kind and (val is None or tok[1] == val)

    def accept(self, kind, val=None):
        if self.at(kind, val):
            return self.next()
        return None

    def expect(self, kind, val=None):
        if not self.at(kind, val):
            raise Unsupported("parser: expected %s %s, found %r (token %d)" % (kind, val or "", self.peek(), self.i))
        return self.next()

    # -- types
    def try_type(self, structs):
        """parse a type name if one starts here; returns Ty | 'auto' | None"""
        save = self.i
        if not self.at("id"):
            return None
        words = []
        while self.at("id") and self.peek()[1] in ("unsigned", "signed", "long", "int", "char", "short", "double"):
            words.append(self.next()[1])
        if words:
            name = " ".join(words)
            name = {"unsigned long int": "unsigned long", "long int": "long", "signed int": "int",
                    "signed": "int", "long unsigned int": "unsigned long"}.get(name, name)
            if name in TYPES:
                return TYPES[name]
            raise Unsupported("type '%s' outside the supported subset" % name)
        name = self.peek()[1]
        base = name[5:] if name.startswith("std::") else name
        if name == "auto":
            self.next()
            return "auto"
        if base in TYPES:
            self.next()
            return TYPES[base]
        if name in structs:
            self.next()
            return structs[name]
        self.i = save
        return None

    # -- functions
    def functions(self):
        funs = []
        while not self.at("eof"):
            while self.at("id") and self.peek()[1] in ("constexpr", "inline", "static"):
                self.next()
            rt = self.try_type({})
            if rt is None or rt == "auto" or rt.kind not in ("int", "bool"):
                raise Unsupported("function return type outside the subset at %r" % (self.peek(),))
            name = self.expect("id")[1]
            self.expect("op", "(")
            self.accept("id", "const")
            pt = self.try_type({})
            if pt is None or pt == "auto" or pt.kind != "fp":
                raise Unsupported("parameter type of %s outside the subset" % name)
            pname = self.expect("id")[1]
            self.expect("op", ")")
            self.accept("id", "noexcept")
            body = self.block()
            funs.append({"name": name, "ret": rt, "ptype": pt, "pname": pname, "body": body})
        return funs

    # -- statements (parsed to a small AST; struct definitions are resolved at translation time)
    def block(self):
        self.expect("op", "{")
        stmts = []
        while not self.at("op", "}"):
            stmts.append(self.stmt())
        self.expect("op", "}")
        return ("block", stmts)

    def stmt(self):
        if self.at("op", "{"):
            return self.block()
        if self.at("id", "struct"):
            self.next()
            name = self.expect("id")[1]
            self.expect("op", "{")
            fields = []
            while not self.at("op", "}"):
                tname_start = self.i
                ty = self.try_type({})
                if ty is None or ty == "auto":
                    raise Unsupported("struct %s: field type outside the subset at token %d" % (name, tname_start))
                fname = self.expect("id")[1]
                count = None
                if self.accept("op", "["):
                    count = int(self.expect("num")[1], 0)
                    self.expect("op", "]")
                self.expect("op", ";")
                fields.append((fname, ty, count))
            self.expect("op", "}")
            self.expect("op", ";")
            return ("struct", name, fields)
        if self.at("id", "if"):
            self.next()
            self.expect("op", "(")
            c = self.expr()
            self.expect("op", ")")
            a = self.stmt()
            b = None
            if self.accept("id", "else"):
                b = self.stmt()
            return ("if", c, a, b)
        if self.at("id", "return"):
            self.next()
            e = self.expr()
            self.expect("op", ";")
            return ("return", e)
        if self.at("id", "tfel::reportContractViolation"):
            self.next()
            self.expect("op", "(")
            n = 0
            while self.accept("str"):
                n += 1
            if n == 0:
                raise Unsupported("reportContractViolation: only string literal arguments are supported")
            self.expect("op", ")")
            self.expect("op", ";")
            return ("abort",)
        # declaration: [const] type name = expr ;
        save = self.i
        self.accept("id", "const")
        ty = self.try_type({})
        if ty is None and self.at("id") and self.at("id", None, 1) and self.at("op", "=", 2):
            ty = ("named", self.next()[1])     # local struct name: resolved by the translator
        if ty is not None and self.at("id") and self.at("op", "=", 1):
            vname = self.next()[1]
            self.next()
            if self.at("op", "{"):
                raise Unsupported("brace initialisation (union/aggregate) of '%s' is outside the supported subset" % vname)
            e = self.expr()
            self.expect("op", ";")
            return ("decl", ty, vname, e)
        self.i = save
        raise Unsupported("statement outside the supported subset at %r %r %r" % (self.peek(), self.peek(1), self.peek(2)))

    # -- expressions
    BIN = [["||"], ["&&"], ["|"], ["^"], ["&"], ["==", "!="], ["<", ">", "<=", ">="], ["<<", ">>"]]

    def expr(self):
        c = self.binary(0)
        if self.accept("op", "?"):
            a = self.expr()
            self.expect("op", ":")
            b = self.expr()
            return ("cond", c, a, b)
        if self.at("op", "="):
            raise Unsupported("assignment is outside the supported subset")
        return c

    def binary(self, level):
        if level == len(self.BIN):
            if self.at("op") and self.peek()[1] in "+-*/%":
                raise Unsupported("arithmetic operator '%s' is outside the supported subset" % self.peek()[1])
            e = self.unary()
            if self.at("op") and self.peek()[1] in "+-*/%":
                raise Unsupported("arithmetic operator '%s' is outside the supported subset" % self.peek()[1])
            return e
        e = self.binary(level + 1)
        while self.at("op") and self.peek()[1] in self.BIN[level]:
            op = self.next()[1]
            r = self.binary(level + 1)
            e = ("bin", op, e, r)
        return e

    def unary(self):
        if self.at("op", "!"):
            self.next()
            return ("not", self.unary())
        if self.at("op", "~"):
            self.next()
            return ("compl", self.unary())
        return self.postfix()

    def postfix(self):
        e = self.primary()
        while True:
            if self.accept("op", "."):
                e = ("member", e, self.expect("id")[1])
            elif self.accept("op", "["):
                idx = self.expect("num")
                self.expect("op", "]")
                e = ("index", e, int(idx[1], 0))
            else:
                return e

    def primary(self):
        if self.at("num"):
            _, v, suf = self.next()
            return ("lit", int(v, 0), v.lower().startswith("0x"), suf.lower())
        if self.accept("op", "("):
            e = self.expr()
            self.expect("op", ")")
            return e
        if self.at("op", "["):
            self.next()
            self.expect("op", "]")
            body = self.block()
            self.expect("op", "(")
            self.expect("op", ")")
            return ("lambda", body)
        if self.at("id"):
            name = self.next()[1]
            if name in ("std::bit_cast", "bit_cast"):
                self.expect("op", "<")
                targs = [self.type_arg()]
                if self.accept("op", ","):
                    targs.append(self.type_arg())
                self.expect("op", ">")
                self.expect("op", "(")
                a = self.expr()
                self.expect("op", ")")
                return ("bit_cast", targs, a)
            if name in ("true", "false"):
                return ("boollit", name == "true")
            if self.accept("op", "("):
                a = self.expr()
                self.expect("op", ")")
                return ("call", name, a)
            return ("var", name)
        raise Unsupported("expression outside the supported subset at %r" % (self.peek(),))

    def type_arg(self):
        ty = self.try_type({})
        if ty is None:
            return ("named", self.expect("id")[1])
        return ty


# ---------------------------------------------------------------------------------------------- translation
class Val:
    """a typed Lean term"""

    def __init__(self, ty, term=None, fields=None, lit=None):
        self.ty = ty
        self.term = term
        self.fields = fields   # struct/array: dict name -> Val / list of Val
        self.lit = lit         # integer literal value if the expression is a literal


def lit_type(v, is_hex, suf):
    if suf not in ("", "u", "l", "ul", "lu", "ull", "llu", "ll"):
        raise Unsupported("literal suffix '%s'" % suf)
    uns = "u" in suf
    lng = "l" in suf
    cands = []
    if not lng:
        cands += [INT] if not uns else []
        cands += [UINT] if (uns or is_hex) else []
    cands += [LONG] if not uns else []
    cands += [ULONG] if (uns or is_hex) else []
    for t in cands:
        lo, hi = (-(1 << (t.width - 1)), (1 << (t.width - 1)) - 1) if t.signed else (0, (1 << t.width) - 1)
        if lo <= v <= hi:
            return t
    raise Unsupported("literal %d does not fit" % v)


def bvlit(v, w):
    return "%s#%d" % (hex(v % (1 << w)) if v > 9 else str(v % (1 << w)), w)


class Translator:
    def __init__(self):
        self.funs = {}       # (name, ptype.name) -> (lean name, ret Ty)
        self.out = []
        self.stats = {"functions": 0, "statements": 0, "expressions": 0, "conversions": 0}

    # conversions ------------------------------------------------------------
    def to_bool(self, v):
        if v.ty.kind == "bool":
            return v
        if v.ty.kind == "int":
            return Val(BOOL, "(%s != %s)" % (v.term, bvlit(0, v.ty.width)))
        raise Unsupported("conversion of %s to bool" % v.ty)

    def convert(self, v, ty):
        self.stats["conversions"] += 1
        if ty.kind == "bool":
            return self.to_bool(v)
        if ty.kind != "int":
            raise Unsupported("conversion to %s" % ty)
        if v.ty.kind == "bool":
            return Val(ty, "(if %s then %s else %s)" % (v.term, bvlit(1, ty.width), bvlit(0, ty.width)))
        if v.ty.kind != "int":
            raise Unsupported("conversion of %s to %s" % (v.ty, ty))
        if v.lit is not None:
            return Val(ty, bvlit(v.lit, ty.width), lit=None)
        if v.ty.width == ty.width:
            return Val(ty, v.term)
        if v.ty.width > ty.width or not v.ty.signed:
            return Val(ty, "(%s).setWidth %d" % (v.term, ty.width))   # truncation / zero extension
        return Val(ty, "(%s).signExtend %d" % (v.term, ty.width))

    def promote(self, v):
        if v.ty.kind == "bool":
            return self.convert(v, INT)
        if v.ty.kind != "int":
            raise Unsupported("operand of type %s" % v.ty)
        if v.ty.width < 32:
            return self.convert(v, INT)   # int represents every value of the narrower types
        return v

    def usual(self, a, b):
        a, b = self.promote(a), self.promote(b)
        ta, tb = a.ty, b.ty
        if ta.width == tb.width and ta.signed == tb.signed:
            t = ta
        elif ta.signed == tb.signed:
            t = ta if ta.width > tb.width else tb
        else:
            u, s = (ta, tb) if not ta.signed else (tb, ta)
            t = u if u.width >= s.width else s
        # canonical names for the common type
        t = {(32, True): INT, (32, False): UINT, (64, True): LONG, (64, False): ULONG}[(t.width, t.signed)]
        return self.convert(a, t), self.convert(b, t), t

    # expressions --------------------------------------------------------------
    def expr(self, e, env, structs):
        self.stats["expressions"] += 1
        k = e[0]
        if k == "lit":
            t = lit_type(e[1], e[2], e[3])
            return Val(t, bvlit(e[1], t.width), lit=e[1])
        if k == "boollit":
            return Val(BOOL, "true" if e[1] else "false")
        if k == "var":
            if e[1] not in env:
                raise Unsupported("unknown identifier '%s'" % e[1])
            return env[e[1]]
        if k == "member":
            v = self.expr(e[1], env, structs)
            if v.ty.kind != "struct" or e[2] not in v.fields:
                raise Unsupported("member access .%s on %s" % (e[2], v.ty))
            return v.fields[e[2]]
        if k == "index":
            v = self.expr(e[1], env, structs)
            if v.ty.kind != "array" or not (0 <= e[2] < len(v.fields)):
                raise Unsupported("index [%d] on %s" % (e[2], v.ty))
            return v.fields[e[2]]
        if k == "not":
            return Val(BOOL, "(!%s)" % self.to_bool(self.expr(e[1], env, structs)).term)
        if k == "compl":
            v = self.promote(self.expr(e[1], env, structs))
            return Val(v.ty, "(~~~%s)" % v.term)
        if k == "cond":
            c = self.to_bool(self.expr(e[1], env, structs))
            a = self.expr(e[2], env, structs)
            b = self.expr(e[3], env, structs)
            if a.ty.kind == "bool" and b.ty.kind == "bool":
                t = BOOL
            else:
                a, b, t = self.usual(a, b)
            return Val(t, "(if %s then %s else %s)" % (c.term, a.term, b.term))
        if k == "bin":
            op = e[1]
            a = self.expr(e[2], env, structs)
            b = self.expr(e[3], env, structs)
            if op in ("&&", "||"):
                return Val(BOOL, "(%s %s %s)" % (self.to_bool(a).term, op, self.to_bool(b).term))
            if op in ("<<", ">>"):
                a = self.promote(a)
                if b.lit is None:
                    raise Unsupported("shift by a non-literal count")
                if not (0 <= b.lit < a.ty.width):
                    raise Unsupported("shift count %d out of range for %s (undefined behaviour)" % (b.lit, a.ty))
                if a.ty.signed:
                    raise Unsupported("shift of a signed operand (%s) is outside the supported subset" % a.ty)
                return Val(a.ty, "(%s %s %d)" % (a.term, "<<<" if op == "<<" else ">>>", b.lit))
            if op in ("&", "|", "^"):
                if a.ty.kind == "bool" and b.ty.kind == "bool":
                    a, b = self.convert(a, INT), self.convert(b, INT)
                a, b, t = self.usual(a, b)
                return Val(t, "(%s %s %s)" % (a.term, {"&": "&&&", "|": "|||", "^": "^^^"}[op], b.term))
            if op in ("==", "!="):
                if a.ty.kind == "bool" and b.ty.kind == "bool":
                    return Val(BOOL, "(%s %s %s)" % (a.term, op, b.term))
                a, b, t = self.usual(a, b)
                return Val(BOOL, "(%s %s %s)" % (a.term, op, b.term))
            if op in ("<", ">", "<=", ">="):
                a, b, t = self.usual(a, b)
                f = {"<": "lt", "<=": "le"}.get(op)
                if f is None:
                    a, b = b, a
                    f = {">": "lt", ">=": "le"}[op]
                return Val(BOOL, "(BitVec.%s%s %s %s)" % ("s" if t.signed else "u", f, a.term, b.term))
            raise Unsupported("operator %s" % op)
        if k == "call":
            a = self.expr(e[2], env, structs)
            key = (e[1], a.ty.name)
            if key not in self.funs:
                raise Unsupported("call to %s(%s): no such overload translated before this point" % key)
            lname, rt = self.funs[key]
            return Val(rt, "(%s %s)" % (lname, a.term))
        if k == "bit_cast":
            return self.bit_cast(e, env, structs)
        if k == "lambda":
            rt, term = self.body(e[1], {}, dict(structs), None)
            return Val(rt, "(%s)" % term)
        raise Unsupported("expression kind %s" % k)

    def resolve(self, t, structs):
        if isinstance(t, tuple):
            if t[1] not in structs:
                raise Unsupported("unknown type '%s'" % t[1])
            return structs[t[1]]
        return t

    def bit_cast(self, e, env, structs):
        to = self.resolve(e[1][0], structs)
        a = self.expr(e[2], env, structs)
        if len(e[1]) == 2:
            frm = self.resolve(e[1][1], structs)
            if frm.kind == "int":
                a = self.convert(a, frm)
            elif frm.name != a.ty.name:
                raise Unsupported("bit_cast<%s,%s> applied to a %s" % (to, frm, a.ty))
        if a.ty.kind not in ("int", "fp"):
            raise Unsupported("bit_cast from %s" % a.ty)
        if to == "auto" or to.size != a.ty.size:
            raise Unsupported("bit_cast<%s>(%s): sizes differ (%s vs %d bytes) — rejected by the compiler too" %
                              (to, a.ty, getattr(to, "size", "?"), a.ty.size))
        src, srcbits = a.term, a.ty.width
        if to.kind == "int":
            if to.width != srcbits:
                raise Unsupported("bit_cast<%s>(%s) reads padding bits" % (to, a.ty))
            return Val(to, src)
        if to.kind == "struct":
            self.pending_fields = []
            fields = {}
            for (fname, fty, off) in to.fields:
                fields[fname] = self.extract(src, srcbits, fty, off, fname)
            return Val(to, None, fields=fields)
        raise Unsupported("bit_cast to %s" % to)

    def extract(self, src, srcbits, ty, off, label):
        if ty.kind == "int":
            if off + ty.width > srcbits:
                raise Unsupported("field %s (bits %d..%d) lies outside the %d value bits of the source" %
                                  (label, off, off + ty.width, srcbits))
            return Val(ty, "((%s).extractLsb' %d %d)" % (src, off, ty.width))
        if ty.kind == "array":
            el, n = ty.fields
            return Val(ty, None, fields=[self.extract(src, srcbits, el, off + 8 * el.size * j, "%s[%d]" % (label, j))
                                         for j in range(n)])
        raise Unsupported("field %s of type %s" % (label, ty))

    def layout(self, name, fields):
        off = 0
        align = 1
        out = []
        for (fname, ty, count) in fields:
            if ty.kind not in ("int",):
                raise Unsupported("struct %s: field %s of type %s" % (name, fname, ty))
            fty = ty
            if count is not None:
                fty = Ty("array", name="%s[%d]" % (ty.name, count), fields=(ty, count), size=ty.size * count, align=ty.align)
            off = (off + fty.align - 1) // fty.align * fty.align
            out.append((fname, fty, off * 8))
            off += fty.size
            align = max(align, fty.align)
        size = (off + align - 1) // align * align
        return Ty("struct", name=name, fields=out, size=size, align=align)

    # statements ---------------------------------------------------------------
    def body(self, blk, env, structs, ret):
        """translate a block to one Lean term; returns (return type, term). ret=None: deduce (lambda)."""
        holder = {"ret": ret}
        term = self.stmts(list(blk[1]), dict(env), dict(structs), ret, holder)
        return holder["ret"], term

    def stmts(self, ss, env, structs, ret, holder):
        if not ss:
            raise Unsupported("control reaches the end of a value-returning body")
        s, rest = ss[0], ss[1:]
        self.stats["statements"] += 1
        k = s[0]
        if k == "block":
            if not self.terminates(s):
                raise Unsupported("nested block that falls through")
            return self.stmts(list(s[1]), dict(env), dict(structs), ret, holder)
        if k == "struct":
            structs = dict(structs)
            structs[s[1]] = self.layout(s[1], s[2])
            return self.stmts(rest, env, structs, ret, holder)
        if k == "return":
            v = self.expr(s[1], env, structs)
            if holder["ret"] is None:
                if v.ty.kind == "struct":
                    raise Unsupported("lambda returning a struct")
                holder["ret"] = v.ty
            return self.convert(v, holder["ret"]).term
        if k == "abort":
            if holder["ret"] is None or holder["ret"].kind != "int" or holder["ret"].width != 32:
                raise Unsupported("reportContractViolation in a body not returning int")
            return "ABORT"
        if k == "if":
            c = self.to_bool(self.expr(s[1], env, structs))
            if not self.terminates(s[2]):
                raise Unsupported("`if` whose then-branch falls through is outside the supported subset")
            a = self.stmts([s[2]] if s[2][0] != "block" else list(s[2][1]), dict(env), dict(structs), ret, holder)
            els = ([s[3]] if s[3] is not None else []) + rest
            b = self.stmts(els, env, structs, ret, holder)
            return "if %s then %s else\n  %s" % (c.term, a, b)
        if k == "decl":
            _, ty, name, e = s
            v = self.expr(e, env, structs)
            if ty != "auto":
                ty = self.resolve(ty, structs)
                if ty.kind == "struct":
                    if v.ty is not ty:
                        raise Unsupported("initialisation of %s %s from %s" % (ty, name, v.ty))
                else:
                    v = self.convert(v, ty)
            env = dict(env)
            if v.ty.kind == "struct":
                lets, bound = self.bind_struct(name, v)
                env[name] = bound
                return lets + self.stmts(rest, env, structs, ret, holder)
            lty = "Bool" if v.ty.kind == "bool" else "BitVec %d" % v.ty.width
            lname = self.fresh(name, env)
            env[name] = Val(v.ty, lname)
            return "let %s : %s := %s\n  " % (lname, lty, v.term) + self.stmts(rest, env, structs, ret, holder)
        raise Unsupported("statement kind %s" % k)

    def fresh(self, name, env):
        used = {v.term for v in env.values() if v.term}
        n = name
        while n in used or n in ("x", "if", "then", "else", "let", "fun", "at", "from", "open", "end"):
            n += "'"
        return n

    def bind_struct(self, name, v):
        lets = ""
        fields = {}
        for fname, fv in v.fields.items():
            if fv.ty.kind == "array":
                items = []
                for j, el in enumerate(fv.fields):
                    ln = "%s_%s_%d" % (name, fname, j)
                    lets += "let %s : BitVec %d := %s\n  " % (ln, el.ty.width, el.term)
                    items.append(Val(el.ty, ln))
                fields[fname] = Val(fv.ty, None, fields=items)
            else:
                ln = "%s_%s" % (name, fname)
                lets += "let %s : BitVec %d := %s\n  " % (ln, fv.ty.width, fv.term)
                fields[fname] = Val(fv.ty, ln)
        return lets, Val(v.ty, None, fields=fields)

    def terminates(self, s):
        k = s[0]
        if k in ("return", "abort"):
            return True
        if k == "block":
            return bool(s[1]) and self.terminates(s[1][-1])
        if k == "if":
            return s[3] is not None and self.terminates(s[2]) and self.terminates(s[3])
        return False

    # functions ----------------------------------------------------------------
    def function(self, f):
        suffix = FP_SUFFIX[f["ptype"].name]
        lname = "%s_%s" % (f["name"], suffix)
        if (f["name"], f["ptype"].name) in self.funs:
            raise Unsupported("duplicate definition of %s(%s)" % (f["name"], f["ptype"].name))
        pname = "x"
        env = {f["pname"]: Val(f["ptype"], pname)}
        # `abort` statements that do not terminate the function as written in C++ (call to a [[noreturn]]
        # function followed by more code) are handled by `if (c) { abort }` terminating its branch.
        rt, term = self.body(f["body"], env, {}, f["ret"])
        lret = "Bool" if f["ret"].kind == "bool" else "BitVec %d" % f["ret"].width
        self.out.append("def %s (%s : BitVec %d) : %s :=\n  %s\n" % (lname, pname, f["ptype"].width, lret, term))
        self.funs[(f["name"], f["ptype"].name)] = (lname, f["ret"])
        self.stats["functions"] += 1
        return lname


def extract_namespace(pre, ns="tfel::math::ieee754"):
    """the text inside the LAST `namespace <ns> { ... }` block that contains a function body"""
    blocks = []
    for m in re.finditer(r"namespace\s+" + re.escape(ns) + r"\s*\{", pre):
        depth = 1
        i = m.end()
        while depth and i < len(pre):
            if pre[i] == "{":
                depth += 1
            elif pre[i] == "}":
                depth -= 1
            i += 1
        if depth:
            raise Unsupported("unbalanced braces in namespace block")
        blocks.append(pre[m.end():i - 1])
    with_bodies = [b for b in blocks if "{" in b]
    if len(with_bodies) != 1:
        raise Unsupported("expected exactly one namespace %s block with definitions, found %d" % (ns, len(with_bodies)))
    return with_bodies[0]


def translate(pre_text, fp_macros, header_comment=""):
    """returns (lean source, info dict)"""
    text = extract_namespace(pre_text)
    funs = Parser(lex(text)).functions()
    tr = Translator()
    names = [tr.function(f) for f in funs]
    lines = ["/- GENERATED on every run by harness/C16/t3.py from the preprocessed text of",
             "   include/TFEL/Math/General/IEEE754.hxx (-> IEEE754.ixx) of the current tree. Do not edit.",
             "   " + header_comment + " -/",
             "namespace TfelVerif.C16.Gen",
             ""]
    for k in ("FP_NAN", "FP_INFINITE", "FP_ZERO", "FP_SUBNORMAL", "FP_NORMAL"):
        lines.append("def %s : BitVec 32 := %s" % (k, bvlit(fp_macros[k], 32)))
    lines.append("/-- value standing for `tfel::reportContractViolation` (never returns) -/")
    lines.append("def ABORT : BitVec 32 := 0xffffffff#32")
    lines.append("")
    lines += tr.out
    lines.append("end TfelVerif.C16.Gen")
    return "\n".join(lines) + "\n", {"functions": names, "stats": tr.stats, "source": text}


if __name__ == "__main__":
    import sys
    src = open(sys.argv[1]).read()
    lean, info = translate(src, {"FP_NAN": 0, "FP_INFINITE": 1, "FP_ZERO": 2, "FP_SUBNORMAL": 3, "FP_NORMAL": 4})
    sys.stdout.write(lean)
