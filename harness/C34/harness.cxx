// C34 — T2 dump + M correspondence harness for tfel::glossary::Glossary.
// Compiled together with the tree's src/Glossary/{Glossary,GlossaryEntry}.cxx and
// src/Utilities/StringAlgorithms.cxx (checks/C34.py), so the current working tree is what runs.
//
//   c34h dump      : every GlossaryEntry in container (std::set) iteration order, getKeys(), and every
//                    static member listed in c34_members.inc (generated from Glossary.hxx by the check)
//   c34h query     : line protocol on stdin, one answer per line
//        contains <hex>     -> "1" | "0"
//        get <hex>          -> "key <hex(key)>" | "raise"            (Glossary::getGlossaryEntry)
//        find <hex>         -> "pos <index in container order> <hex(key)>" | "end"   (findGlossaryEntry)
//        bounds L <k> (<hex system> <hex value>){k} U <k'> (<hex system> <hex value>){k'}
//                           -> "ok" | "bad"   (GlossaryEntry constructor + check() on the encoded maps
//                              "system:value@^separator^@system:value...")
// Strings travel hex-encoded (names contain blanks, '%', '>' ...).
#include <cstdio>
#include <iostream>
#include <iterator>
#include <sstream>
#include <string>
#include <vector>
#include <map>
#include <set>
#include "TFEL/Glossary/Glossary.hxx"
#include "TFEL/Glossary/GlossaryEntry.hxx"

using tfel::glossary::Glossary;
using tfel::glossary::GlossaryEntry;

// defined in probe.cxx: builds a GlossaryEntry with the given bound maps through the real constructor
bool c34_try_entry(const std::string& lower, const std::string& upper, std::string& err);

namespace {

  // access to the protected members through pointers to members named via a derived class
  struct Access : Glossary {
    using Glossary::entries;
    using Glossary::findGlossaryEntry;
  };

  const std::set<GlossaryEntry>& entries_of(const Glossary& g) {
    return g.*(&Access::entries);
  }

  std::set<GlossaryEntry>::const_iterator find_in(const Glossary& g, const std::string& n) {
    return (g.*(&Access::findGlossaryEntry))(n);
  }

  std::string hex(const std::string& s) {
    static const char* d = "0123456789abcdef";
    std::string r = "x";
    for (const unsigned char c : s) {
      r += d[c >> 4];
      r += d[c & 15];
    }
    return r;
  }

  bool unhex(const std::string& h, std::string& out) {
    out.clear();
    if (h.empty() || h[0] != 'x' || (h.size() % 2) != 1) return false;
    auto v = [](const char c) -> int {
      if (c >= '0' && c <= '9') return c - '0';
      if (c >= 'a' && c <= 'f') return c - 'a' + 10;
      return -1;
    };
    for (std::size_t i = 1; i + 1 < h.size(); i += 2) {
      const int a = v(h[i]), b = v(h[i + 1]);
      if (a < 0 || b < 0) return false;
      out += static_cast<char>(a * 16 + b);
    }
    return true;
  }

  // read access to the private bound maps (no enumeration API exists for the unit systems of the
  // bounds): pointers to private members may be named in an explicit instantiation [temp.spec]/6
  using BoundMap = const std::map<std::string, std::string, std::less<>>;
  template <typename Tag, typename Tag::type M>
  struct Rob {
    friend typename Tag::type c34_get(Tag) { return M; }
  };
  struct LowerTag {
    using type = BoundMap GlossaryEntry::*;
    friend type c34_get(LowerTag);
  };
  struct UpperTag {
    using type = BoundMap GlossaryEntry::*;
    friend type c34_get(UpperTag);
  };
  template struct Rob<LowerTag, &GlossaryEntry::lower_physical_bounds>;
  template struct Rob<UpperTag, &GlossaryEntry::upper_physical_bounds>;

  void dump_entry(const char* tag, const std::string& id, const GlossaryEntry& e) {
    std::cout << tag << " " << hex(id) << " " << hex(e.getKey());
    {
      // "the entry reports that key": the conversion to std::string and the comparison operators with
      // strings must agree with getKey()
      const std::string& k = e.getKey();
      const std::string& conv = e;
      const std::string other = k + "#";
      if (conv != k || !(e == k) || !(k == e) || (e != k) || (k != e) || (e == other) || (other == e) ||
          !(e != other) || !(other != e)) {
        std::cout << " KEY-REPORT-MISMATCH";
      }
    }
    std::cout << " names";
    for (const auto& n : e.getNames()) std::cout << " " << hex(n);
    std::cout << " units";
    for (const auto& u : e.getUnits()) std::cout << " " << hex(u.first) << " " << hex(u.second);
    std::cout << " type " << hex(e.getType());
    std::cout << " lower";
    for (const auto& b : e.*c34_get(LowerTag{})) {
      // the public accessors must agree with the stored map
      if (!e.hasLowerPhysicalBound(b.first) || e.getLowerPhysicalBound(b.first) != b.second) std::cout << " ACCESSOR-MISMATCH";
      std::cout << " " << hex(b.first) << " " << hex(b.second);
    }
    std::cout << " upper";
    for (const auto& b : e.*c34_get(UpperTag{})) {
      if (!e.hasUpperPhysicalBound(b.first) || e.getUpperPhysicalBound(b.first) != b.second) std::cout << " ACCESSOR-MISMATCH";
      std::cout << " " << hex(b.first) << " " << hex(b.second);
    }
    std::cout << " end\n";
  }

  int dump() {
    // the static members do not depend on the singleton
#define C34_MEMBER(X) dump_entry("member", #X, Glossary::X);
#include "c34_members.inc"
#undef C34_MEMBER
    try {
      const auto& g = Glossary::getGlossary();
      for (const auto& e : entries_of(g)) dump_entry("entry", e.getKey(), e);
      for (const auto& k : g.getKeys()) std::cout << "key " << hex(k) << "\n";
    } catch (std::exception& ex) {
      // Glossary::Glossary() raises when an insertion fails (key declared twice)
      std::cout << "glossary-raise " << hex(ex.what()) << "\n";
    }
    std::cout << "done\n";
    return 0;
  }

  // "system:value@^separator^@system:value" as written in Glossary.cxx
  bool read_map(std::istringstream& is, const std::string& tag, std::string& out) {
    std::string t, h1, h2, a, b;
    std::size_t k = 0;
    out.clear();
    if (!(is >> t >> k) || t != tag) return false;
    for (std::size_t i = 0; i != k; ++i) {
      if (!(is >> h1 >> h2) || !unhex(h1, a) || !unhex(h2, b)) return false;
      if (i != 0) out += GlossaryEntry::separator;
      out += a + ":" + b;
    }
    return true;
  }

  int query() {
    const auto& g = Glossary::getGlossary();
    const auto& es = entries_of(g);
    std::string line;
    while (std::getline(std::cin, line)) {
      std::istringstream is(line);
      std::string op, h, n;
      if (!(is >> op)) {
        std::cout << "bad-op\n";
        continue;
      }
      if (op == "bounds") {
        std::string lo, up, err;
        if (!read_map(is, "L", lo) || !read_map(is, "U", up)) {
          std::cout << "bad-op\n";
          continue;
        }
        std::cout << (c34_try_entry(lo, up, err) ? "ok" : "bad") << "\n";
        continue;
      }
      if (!(is >> h) || !unhex(h, n)) {
        std::cout << "bad-op\n";
        continue;
      }
      if (op == "contains") {
        std::cout << (g.contains(n) ? "1" : "0") << "\n";
      } else if (op == "get") {
        try {
          const auto& e = g.getGlossaryEntry(n);
          std::cout << "key " << hex(e.getKey()) << "\n";
        } catch (std::exception&) {
          std::cout << "raise\n";
        }
      } else if (op == "find") {
        const auto p = find_in(g, n);
        if (p == es.end()) {
          std::cout << "end\n";
        } else {
          std::cout << "pos " << std::distance(es.begin(), p) << " " << hex(p->getKey()) << "\n";
        }
      } else {
        std::cout << "bad-op\n";
      }
    }
    return 0;
  }

}  // namespace

int main(const int argc, const char* const* const argv) {
  const std::string mode = argc > 1 ? argv[1] : "";
  if (mode == "dump") return dump();
  if (mode == "query") return query();
  std::cerr << "usage: c34h dump|query\n";
  return 2;
}
