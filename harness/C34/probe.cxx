// C34 — builds a GlossaryEntry with arbitrary bound maps through the REAL (private) constructor, hence
// through the real map_from_string + GlossaryEntry::check() of the tree, for the correspondence of the
// numeric-grammar model. The constructor is private (friend struct Glossary): this translation unit sees
// the class with `private` spelt `public` (the standard headers are included before the switch).
#include <map>
#include <string>
#include <vector>
#include <string_view>
#include <exception>
#include "TFEL/Config/TFELConfig.hxx"
#define private public
#include "TFEL/Glossary/GlossaryEntry.hxx"
#undef private

bool c34_try_entry(const std::string& lower, const std::string& upper, std::string& err) {
  static const char* names[1] = {"C34Probe"};
  try {
    const tfel::glossary::GlossaryEntry e("C34Probe", names, names + 1, "", "scalar", "probe", "", "",
                                          lower.c_str(), upper.c_str());
    return true;
  } catch (std::exception& ex) {
    err = ex.what();
    return false;
  }
}
