// C01: value-dependent stensor code that the symbolic tracer cannot record as one expression:
//  * tresca(stensor<1u>) (max of the |s_i - s_j|, comparisons on values),
//  * the index map VoigtIndex<N>(i,j) / getComponent(i,j) including the rejected index pairs.
// Runs the real templates on double; one request per line, one answer per line.
#include <cstdio>
#include <iostream>
#include <sstream>
#include <string>
#include "TFEL/ContractViolation.hxx"
#include "TFEL/Math/stensor.hxx"

namespace {
  struct Violation {};
}  // namespace
// replaces src/Exception/ContractViolation.cxx (which aborts): make the rejection observable
void tfel::reportContractViolation(const char* const) { throw Violation(); }

using namespace tfel::math;

template <unsigned short N>
void voigt() {
  constexpr int S = StensorDimeToSize<N>::value;
  stensor<N, double> s;
  for (int k = 0; k != S; ++k) s[k] = 10. + k;
  for (unsigned short i = 0; i != 4; ++i) {
    for (unsigned short j = 0; j != 4; ++j) {
      std::printf("voigt %d %d %d ", static_cast<int>(N), static_cast<int>(i), static_cast<int>(j));
      try {
        const unsigned short I = VoigtIndex<N>(i, j);
        std::printf("%d ", static_cast<int>(I));
      } catch (Violation&) {
        std::printf("X ");
      }
      try {
        const double v = getComponent(s, i, j);
        std::printf("%.17g\n", v);
      } catch (Violation&) {
        std::printf("X\n");
      }
    }
  }
}

int main() {
  std::string line;
  while (std::getline(std::cin, line)) {
    std::istringstream is(line);
    std::string op;
    is >> op;
    if (op == "tresca") {
      double a, b, c;
      is >> a >> b >> c;
      const stensor<1u, double> s = {a, b, c};
      std::printf("tresca %.17g %.17g\n", tresca(s), tresca(s, true));
    } else if (op == "sigmaeq") {
      // the von Mises norm on double: accuracy on states dominated by their hydrostatic part
      int n;
      double a[6] = {0, 0, 0, 0, 0, 0};
      is >> n;
      for (int k = 0; k != (n == 1 ? 3 : (n == 2 ? 4 : 6)); ++k) is >> a[k];
      double r = 0;
      if (n == 1) {
        const stensor<1u, double> s = {a[0], a[1], a[2]};
        r = sigmaeq(s);
      } else if (n == 2) {
        const stensor<2u, double> s = {a[0], a[1], a[2], a[3]};
        r = sigmaeq(s);
      } else {
        const stensor<3u, double> s = {a[0], a[1], a[2], a[3], a[4], a[5]};
        r = sigmaeq(s);
      }
      std::printf("sigmaeq %.17g\n", r);
    } else if (op == "voigt") {
      voigt<1>();
      voigt<2>();
      voigt<3>();
    } else {
      std::printf("bad-op\n");
    }
  }
  return 0;
}
