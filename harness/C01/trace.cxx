// T1 tracer for C01: symmetric tensor algebra (stensor<N,Sym>, N = 1,2,3)
#include "tracehelp.hxx"
#include "TFEL/Math/stensor.hxx"
#include "TFEL/Math/tmatrix.hxx"
#include "TFEL/Math/tvector.hxx"

using namespace tfel::math;
using verif::Sym;
using verif::Unit;

template <unsigned short N>
void trace_dim() {
  constexpr int S = StensorDimeToSize<N>::value;
  const std::string d = "N" + std::to_string(N) + "_";
  {
    Unit u(d + "trace");
    stensor<N, Sym> s;
    verif::fill_inputs(s, "s", S);
    verif::output("r", trace(s));
  }
  {
    Unit u(d + "det");
    stensor<N, Sym> s;
    verif::fill_inputs(s, "s", S);
    verif::output("r", det(s));
  }
  {
    Unit u(d + "invert");
    stensor<N, Sym> s;
    verif::fill_inputs(s, "s", S);
    const stensor<N, Sym> r = invert(s);
    verif::outputs("r", r, S);
  }
  {
    Unit u(d + "square");
    stensor<N, Sym> s;
    verif::fill_inputs(s, "s", S);
    const stensor<N, Sym> r = square(s);
    verif::outputs("r", r, S);
  }
  {
    Unit u(d + "symmetric_product");
    stensor<N, Sym> s, t;
    verif::fill_inputs(s, "s", S);
    verif::fill_inputs(t, "t", S);
    const stensor<N, Sym> r = symmetric_product(s, t);
    verif::outputs("r", r, S);
  }
  {
    Unit u(d + "deviator");
    stensor<N, Sym> s;
    verif::fill_inputs(s, "s", S);
    const stensor<N, Sym> r = deviator(s);
    verif::outputs("r", r, S);
  }
  {
    Unit u(d + "sigmaeq");
    stensor<N, Sym> s;
    verif::fill_inputs(s, "s", S);
    verif::output("r", sigmaeq(s));
  }
  {
    Unit u(d + "contract");
    stensor<N, Sym> s, t;
    verif::fill_inputs(s, "s", S);
    verif::fill_inputs(t, "t", S);
    verif::output("r", Sym(s | t));
  }
  {
    Unit u(d + "add_scale");
    stensor<N, Sym> s, t;
    verif::fill_inputs(s, "s", S);
    verif::fill_inputs(t, "t", S);
    const Sym a = verif::scalar_input("a", 1.7);
    const stensor<N, Sym> r = a * s + t - s / a;
    verif::outputs("r", r, S);
  }
  {
    Unit u(d + "change_basis");
    stensor<N, Sym> s;
    verif::fill_inputs(s, "s", S);
    rotation_matrix<Sym> R;
    verif::fill_inputs2(R, "r", 3, 3);
    const stensor<N, Sym> r = change_basis(s, R);
    verif::outputs("r", r, S);
  }
  {
    Unit u(d + "changeBasis_member");
    stensor<N, Sym> s;
    verif::fill_inputs(s, "s", S);
    rotation_matrix<Sym> R;
    verif::fill_inputs2(R, "r", 3, 3);
    s.changeBasis(R);
    verif::outputs("r", s, S);
  }
  {
    Unit u(d + "buildFromMatrix");
    tmatrix<3u, 3u, Sym> m;
    verif::fill_inputs2(m, "m", 3, 3);
    const stensor<N, Sym> r = stensor<N, Sym>::buildFromMatrix(m);
    verif::outputs("r", r, S);
  }
  {
    Unit u(d + "buildFromVectorDiadicProduct");
    tvector<3u, Sym> v;
    verif::fill_inputs(v, "v", 3);
    const stensor<N, Sym> r = stensor<N, Sym>::buildFromVectorDiadicProduct(v);
    verif::outputs("r", r, S);
  }
  {
    Unit u(d + "buildFromVectorsSymmetricDiadicProduct");
    tvector<3u, Sym> v, w;
    verif::fill_inputs(v, "v", 3);
    verif::fill_inputs(w, "w", 3);
    const stensor<N, Sym> r =
        stensor<N, Sym>::buildFromVectorsSymmetricDiadicProduct(v, w);
    verif::outputs("r", r, S);
  }
  {
    Unit u(d + "buildFromEigenValuesAndVectors");
    rotation_matrix<Sym> m;
    verif::fill_inputs2(m, "m", 3, 3);
    tvector<3u, Sym> vp;
    verif::fill_inputs(vp, "l", 3);
    const stensor<N, Sym> r =
        stensor<N, Sym>::buildFromEigenValuesAndVectors(vp, m);
    verif::outputs("r", r, S);
  }
  {
    Unit u(d + "importTab");
    Sym tab[6];
    verif::fill_inputs(tab, "x", S);
    stensor<N, Sym> s;
    s.importTab(tab);
    verif::outputs("r", s, S);
  }
  {
    Unit u(d + "exportTab");
    stensor<N, Sym> s;
    verif::fill_inputs(s, "s", S);
    Sym tab[6];
    s.exportTab(tab);
    verif::outputs("r", tab, S);
  }
  {
    Unit u(d + "importVoigt");
    Sym tab[6];
    verif::fill_inputs(tab, "x", S);
    stensor<N, Sym> s;
    s.importVoigt(tab);
    verif::outputs("r", s, S);
  }
  {
    Unit u(d + "import_write");
    Sym tab[6], tab2[6];
    verif::fill_inputs(tab, "x", S);
    stensor<N, Sym> s;
    s.import(tab);
    s.write(tab2);
    verif::outputs("r", tab2, S);
  }
  {
    // getComponent for every (i,j) of the 3x3 matrix addressed by the dimension
    Unit u(d + "getComponent");
    stensor<N, Sym> s;
    verif::fill_inputs(s, "s", S);
    for (unsigned short i = 0; i != 3; ++i) {
      for (unsigned short j = 0; j != 3; ++j) {
        const bool diag = (i == j);
        const bool inplane = (i < 2) && (j < 2);
        if (diag || (N == 3) || (N == 2 && inplane)) {
          verif::output("g" + std::to_string(i) + "_" + std::to_string(j),
                        Sym(getComponent(s, i, j)));
        }
      }
    }
  }
  {
    // setComponent(i,j,v) then read the whole storage
    for (unsigned short i = 0; i != 3; ++i) {
      for (unsigned short j = 0; j != 3; ++j) {
        const bool diag = (i == j);
        const bool inplane = (i < 2) && (j < 2);
        if (!(diag || (N == 3) || (N == 2 && inplane))) continue;
        Unit u(d + "setComponent_" + std::to_string(i) + "_" + std::to_string(j));
        stensor<N, Sym> s;
        verif::fill_inputs(s, "s", S);
        const Sym v = verif::scalar_input("v", 0.77);
        setComponent<Sym>(s, i, j, v);
        verif::outputs("r", s, S);
      }
    }
  }
  {
    Unit u(d + "Id");
    const stensor<N, Sym> r = stensor<N, Sym>::Id();
    verif::outputs("r", r, S);
  }
}

int main() {
  trace_dim<1>();
  trace_dim<2>();
  trace_dim<3>();
  return 0;
}
