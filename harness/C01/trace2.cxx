// T1 tracer for C01, second part: stensor operations of the anchored files that trace.cxx does not reach
// (stress conversions, determinant derivatives, unary minus, product, abs, export, eigen builders,
// closed-form 1D isotropic functions). Same conventions as trace.cxx.
#include "tracehelp.hxx"
namespace std {
  // std::max/std::min called with explicit qualification on the recording scalar (stensor.ixx:
  // build{Positive,Negative}PartFromEigenValuesAndVectors, positive_part, negative_part): record a
  // min/max node instead of branching on a symbolic comparison (same value: (a<b)?b:a, (b<a)?b:a)
  inline verif::Sym max(const verif::Sym& a, const verif::Sym& b) { return verif::max(a, b); }
  inline verif::Sym min(const verif::Sym& a, const verif::Sym& b) { return verif::min(a, b); }
}  // namespace std
// glue.hxx (shared) has no result type for the unary minus of a Sym (needed by `-s`): same rule as
// for the built-in reals
namespace tfel::math {
  template <>
  struct ComputeUnaryOperationResult<ScalarTag, UnaryOperatorTag, verif::Sym, OpNeg> {
    using type = verif::Sym;
  };
  // tfel::math::abs(x) is `(x < 0) ? -x : x` (General/Abs.hxx, not anchored): record an abs node
  inline verif::Sym abs(const verif::Sym& x) { return verif::abs(x); }
}  // namespace tfel::math
#include "TFEL/Math/stensor.hxx"
#include "TFEL/Math/tensor.hxx"
#include "TFEL/Math/tmatrix.hxx"
#include "TFEL/Math/tvector.hxx"

using namespace tfel::math;
using verif::Sym;
using verif::Unit;

template <unsigned short N>
void trace_dim2() {
  constexpr int S = StensorDimeToSize<N>::value;
  constexpr int TS = TensorDimeToSize<N>::value;
  const std::string d = "N" + std::to_string(N) + "_";
  {
    Unit u(d + "convertCauchyToPK2");
    stensor<N, Sym> s, U;
    verif::fill_inputs(s, "s", S);
    verif::fill_inputs(U, "u", S);
    const stensor<N, Sym> r = convertCorotationnalCauchyStressToSecondPiolaKirchhoffStress(s, U);
    verif::outputs("r", r, S);
  }
  {
    Unit u(d + "convertPK2ToCauchy");
    stensor<N, Sym> s, U;
    verif::fill_inputs(s, "s", S);
    verif::fill_inputs(U, "u", S);
    const stensor<N, Sym> r = convertSecondPiolaKirchhoffStressToCorotationnalCauchyStress(s, U);
    verif::outputs("r", r, S);
  }
  {
    Unit u(d + "detDerivative");
    stensor<N, Sym> s;
    verif::fill_inputs(s, "s", S);
    const stensor<N, Sym> r = computeDeterminantDerivative(s);
    verif::outputs("r", r, S);
  }
  {
    Unit u(d + "devDetDerivative");
    stensor<N, Sym> s;
    verif::fill_inputs(s, "s", S);
    const stensor<N, Sym> r = computeDeviatorDeterminantDerivative(s);
    verif::outputs("r", r, S);
  }
  {
    Unit u(d + "negate");
    stensor<N, Sym> s;
    verif::fill_inputs(s, "s", S);
    const stensor<N, Sym> r = -s;
    verif::outputs("r", r, S);
  }
  {
    Unit u(d + "product");
    stensor<N, Sym> s, t;
    verif::fill_inputs(s, "s", S);
    verif::fill_inputs(t, "t", S);
    const tensor<N, Sym> r = s * t;
    verif::outputs("r", r, TS);
  }
  {
    Unit u(d + "abs");
    stensor<N, Sym> s;
    verif::fill_inputs(s, "s", S);
    verif::output("r", Sym(abs(s)));
  }
  {
    Unit u(d + "exportToBaseTypeArray");
    Sym tab[6], tab2[6];
    verif::fill_inputs(tab, "x", S);
    stensor<N, Sym> s;
    s.import(tab);
    exportToBaseTypeArray(s, tab2);
    verif::outputs("r", tab2, S);
  }
  {
    Unit u(d + "buildFromEigenValuesAndVectors3");
    rotation_matrix<Sym> m;
    verif::fill_inputs2(m, "m", 3, 3);
    tvector<3u, Sym> vp;
    verif::fill_inputs(vp, "l", 3);
    const stensor<N, Sym> r = stensor<N, Sym>::buildFromEigenValuesAndVectors(vp(0), vp(1), vp(2), m);
    verif::outputs("r", r, S);
  }
  {
    Unit u(d + "buildLogarithm");
    rotation_matrix<Sym> m;
    verif::fill_inputs2(m, "m", 3, 3);
    tvector<3u, Sym> vp;
    verif::fill_inputs(vp, "l", 3);
    const stensor<N, Sym> r = stensor<N, Sym>::buildLogarithmFromEigenValuesAndVectors(vp, m);
    verif::outputs("r", r, S);
    const stensor<N, Sym> r2 = stensor<N, Sym>::buildLogarithmFromEigenValuesAndVectors(vp(0), vp(1), vp(2), m);
    verif::outputs("q", r2, S);
  }
  {
    Unit u(d + "buildPositivePart");
    rotation_matrix<Sym> m;
    verif::fill_inputs2(m, "m", 3, 3);
    tvector<3u, Sym> vp;
    verif::fill_inputs(vp, "l", 3);
    const stensor<N, Sym> r = stensor<N, Sym>::buildPositivePartFromEigenValuesAndVectors(vp, m);
    verif::outputs("r", r, S);
    const stensor<N, Sym> r2 = stensor<N, Sym>::buildPositivePartFromEigenValuesAndVectors(vp(0), vp(1), vp(2), m);
    verif::outputs("q", r2, S);
  }
  {
    Unit u(d + "buildNegativePart");
    rotation_matrix<Sym> m;
    verif::fill_inputs2(m, "m", 3, 3);
    tvector<3u, Sym> vp;
    verif::fill_inputs(vp, "l", 3);
    const stensor<N, Sym> r = stensor<N, Sym>::buildNegativePartFromEigenValuesAndVectors(vp, m);
    verif::outputs("r", r, S);
    const stensor<N, Sym> r2 = stensor<N, Sym>::buildNegativePartFromEigenValuesAndVectors(vp(0), vp(1), vp(2), m);
    verif::outputs("q", r2, S);
  }
  {
    Unit u(d + "computeIsotropicFunction");
    rotation_matrix<Sym> m;
    verif::fill_inputs2(m, "m", 3, 3);
    tvector<3u, Sym> vp;
    verif::fill_inputs(vp, "l", 3);
    const auto f = [](const Sym& x) { return verif::make_call("f", {x}); };
    const stensor<N, Sym> r = stensor<N, Sym>::computeIsotropicFunction(f, vp, m);
    verif::outputs("r", r, S);
    const stensor<N, Sym> r2 = stensor<N, Sym>::computeIsotropicFunction(vp, m);
    verif::outputs("q", r2, S);
  }
}

void trace_1d() {
  // closed-form 1D specialisations of the isotropic functions (no eigen solver)
  {
    Unit u("N1_logarithm");
    stensor<1u, Sym> s;
    verif::fill_inputs(s, "s", 3);
    const stensor<1u, Sym> r = logarithm(s);
    verif::outputs("r", r, 3);
  }
  {
    Unit u("N1_absolute_value");
    stensor<1u, Sym> s;
    verif::fill_inputs(s, "s", 3);
    const stensor<1u, Sym> r = absolute_value(s);
    verif::outputs("r", r, 3);
  }
  {
    Unit u("N1_positive_part");
    stensor<1u, Sym> s;
    verif::fill_inputs(s, "s", 3);
    const stensor<1u, Sym> r = positive_part(s);
    verif::outputs("r", r, 3);
  }
  {
    Unit u("N1_negative_part");
    stensor<1u, Sym> s;
    verif::fill_inputs(s, "s", 3);
    const stensor<1u, Sym> r = negative_part(s);
    verif::outputs("r", r, 3);
  }
}

int main() {
  trace_dim2<1>();
  trace_dim2<2>();
  trace_dim2<3>();
  trace_1d();
  return 0;
}
