// C39/C40 correspondence harness: instantiates the REAL mfront::gb::integrate<Behaviour>
// (mfront/include/MFront/GenericBehaviour/Integrate.hxx of the current tree) with the scripted mock.
//
// stdin, one request per line (doubles as 16 hex digits of their bit pattern):
//   int <flags 0..15> <fs 0|1> <smflag int> <k0> <rdt0> <pol W|S|N> <msgbuf 0|1> <init> <oob> <cb> <ap> <apF>
//       <integ> <apo> <apoF> <minTsf> <gto> <toEmpty 0|1> <ie> <de> <sos> <pred>
//   sm <k1>                 -> getStressMeasure
//   to <k0> <k2>            -> getTangentOperator (finite strain choice)
// stdout: one canonical answer per line (same format as lean/TfelVerif/C39/Driver.lean)
#include <array>
#include <iostream>
#include <memory>
#include <sstream>
#include <string>
#include "C39/mock.hxx"
#include "MFront/GenericBehaviour/Integrate.hxx"

using namespace verif::c39;

// sentinels: bit patterns that no mock value and no script value uses
static double sentinel(const int buffer, const int i) { return -(77000. + 100 * buffer + i) - 0.125; }

struct Buffers {
  std::unique_ptr<double[]> tf{new double[6]}, isv{new double[3]}, se{new double[1]}, de{new double[1]},
      K{new double[9]}, rdt{new double[1]}, sos{new double[1]};
  std::unique_ptr<double[]> g0{new double[6]}, g1{new double[6]}, tf0{new double[6]}, isv0{new double[3]},
      se0{new double[1]}, de0{new double[1]}, rho0{new double[1]}, rho1{new double[1]}, mp{new double[1]},
      esv{new double[1]};
  std::unique_ptr<char[]> msg{new char[512]};
};

struct Request {
  unsigned flags;
  bool fs;
  int smflag;
  double k0, rdt0;
  char pol;
  bool msgbuf;
};

using Fn = int (*)(mfront_gb_BehaviourData&, const int, const tfel::material::OutOfBoundsPolicy);

// The 32 instantiations of mfront::gb::integrate<Mock<Flags, FS>> are compiled in two translation units
// (-DC39_PART=0: FS = false, -DC39_PART=1: FS = true) so that they can be built in parallel.
extern const std::array<Fn, 16> c39_table_0;
extern const std::array<Fn, 16> c39_table_1;

#ifdef C39_PART
template <unsigned Flags, bool FS>
static int call(mfront_gb_BehaviourData& d, const int smflag, const tfel::material::OutOfBoundsPolicy p) {
  using B = Mock<Flags, FS>;
  return mfront::gb::integrate<B>(d, static_cast<typename B::SMFlag>(smflag), p);
}
template <bool FS, std::size_t... I>
static std::array<Fn, 16> make_table(std::index_sequence<I...>) {
  return {{(&call<I, FS>)...}};
}
#if C39_PART == 0
const std::array<Fn, 16> c39_table_0 = make_table<false>(std::make_index_sequence<16>{});
#else
const std::array<Fn, 16> c39_table_1 = make_table<true>(std::make_index_sequence<16>{});
#endif
#else /* C39_PART */

static std::string canon_msg(const char* const m) {
  const std::string s(m);
  if (s.find("variable 'x'") != std::string::npos) {
    if (s.find("below its lower bound") != std::string::npos) return "oob-l";
    if (s.find("above its upper bound") != std::string::npos) return "oob-h";
    if (s.find("out of its bounds") != std::string::npos) return "oob-b";
    return "oob-?";
  }
  if (s.size() > 100) {
    for (const auto c : s)
      if (c != 'x') return "long-garbled";
    return "long" + std::to_string(s.size());
  }
  std::string r;
  for (const auto c : s) r += (c == ' ') ? '_' : c;
  return r.empty() ? "empty" : r;
}

static std::string integrate_request(std::istringstream& is) {
  Request rq;
  Script& s = script();
  s = Script{};
  std::string k0, rdt0, apF, apoF, minTsf;
  int fs, msgbuf, toEmpty;
  if (!(is >> rq.flags >> fs >> rq.smflag >> k0 >> rdt0 >> rq.pol >> msgbuf >> s.init >> s.oob >> s.cb >> s.ap >> apF >>
        s.integ >> s.apo >> apoF >> minTsf >> s.gto >> toEmpty >> s.ie >> s.de >> s.sos >> s.pred)) {
    return "bad-op";
  }
  if (rq.flags > 15) return "bad-op";
  rq.fs = fs != 0;
  rq.msgbuf = msgbuf != 0;
  s.toEmpty = toEmpty != 0;
  try {
    rq.k0 = from_bits(k0);
    rq.rdt0 = from_bits(rdt0);
    s.apF = from_bits(apF);
    s.apoF = from_bits(apoF);
    s.minTsf = from_bits(minTsf);
  } catch (...) {
    return "bad-op";
  }
  tfel::material::OutOfBoundsPolicy p;
  if (rq.pol == 'W') {
    p = tfel::material::Warning;
  } else if (rq.pol == 'S') {
    p = tfel::material::Strict;
  } else if (rq.pol == 'N') {
    p = tfel::material::None;
  } else {
    return "bad-op";
  }
  events().clear();
  value_errors().clear();
  Buffers b;
  for (int i = 0; i != 6; ++i) b.tf[i] = sentinel(0, i);
  for (int i = 0; i != 3; ++i) b.isv[i] = sentinel(1, i);
  b.se[0] = sentinel(2, 0);
  b.de[0] = sentinel(3, 0);
  for (int i = 0; i != 9; ++i) b.K[i] = sentinel(4, i);
  b.K[0] = rq.k0;
  b.rdt[0] = rq.rdt0;
  b.sos[0] = sentinel(6, 0);
  for (int i = 0; i != 6; ++i) b.g0[i] = b.g1[i] = b.tf0[i] = 0.25 * i;
  for (int i = 0; i != 3; ++i) b.isv0[i] = 0.5 * i;
  b.se0[0] = S0_SE;
  b.de0[0] = S0_DE;
  b.rho0[0] = S0_RHO;
  b.rho1[0] = S1_RHO;
  b.mp[0] = 1;
  b.esv[0] = 293.15;
  std::strcpy(b.msg.get(), "-");
  mfront_gb_BehaviourData d;
  d.error_message = rq.msgbuf ? b.msg.get() : nullptr;
  d.dt = 1;
  d.K = b.K.get();
  d.rdt = b.rdt.get();
  d.speed_of_sound = b.sos.get();
  d.s0.gradients = b.g0.get();
  d.s0.thermodynamic_forces = b.tf0.get();
  d.s0.mass_density = b.rho0.get();
  d.s0.material_properties = b.mp.get();
  d.s0.internal_state_variables = b.isv0.get();
  d.s0.stored_energy = b.se0.get();
  d.s0.dissipated_energy = b.de0.get();
  d.s0.external_state_variables = b.esv.get();
  d.s1.gradients = b.g1.get();
  d.s1.thermodynamic_forces = b.tf.get();
  d.s1.mass_density = b.rho1.get();
  d.s1.material_properties = b.mp.get();
  d.s1.internal_state_variables = b.isv.get();
  d.s1.stored_energy = b.se.get();
  d.s1.dissipated_energy = b.de.get();
  d.s1.external_state_variables = b.esv.get();
  // the warnings of the bounds check go to std::cerr: capture them
  std::ostringstream captured;
  auto* const old = std::cerr.rdbuf(captured.rdbuf());
  int ret = -99;
  std::string escaped;
  try {
    ret = (rq.fs ? c39_table_1 : c39_table_0)[rq.flags](d, rq.smflag, p);
  } catch (...) {
    escaped = "escaped-exception";
  }
  std::cerr.rdbuf(old);
  // written outputs: diff against the sentinels; written values against the mock's tags
  std::string wr, vals = value_errors();
  auto changed = [](const double* const v, const int buffer, const int n, const int first = 0) {
    for (int i = first; i != n; ++i) {
      const double sv = sentinel(buffer, i);
      if (std::memcmp(&v[i], &sv, sizeof(double)) != 0) return true;
    }
    return false;
  };
  auto add = [&wr](const char* const n) { wr += (wr.empty() ? "" : ",") + std::string(n); };
  if (changed(b.tf.get(), 0, 6)) {
    add("tf");
    for (int i = 0; i != 6; ++i)
      if (b.tf[i] != TF_TAG + i) vals += "tf;";
  }
  if (changed(b.isv.get(), 1, 3)) {
    add("isv");
    for (int i = 0; i != 3; ++i)
      if (b.isv[i] != ISV_TAG + i) vals += "isv;";
  }
  if (changed(b.se.get(), 2, 1)) {
    add("se");
    if (b.se[0] != S0_SE + IE_DELTA) vals += "se;";
  }
  if (changed(b.de.get(), 3, 1)) {
    add("de");
    if (b.de[0] != S0_DE + DE_DELTA) vals += "de;";
  }
  const bool k0_changed = std::memcmp(&b.K[0], &rq.k0, sizeof(double)) != 0;
  if (k0_changed || changed(b.K.get(), 4, 9, 1)) {
    // which operator was exported is read from the tag of the values
    if (b.K[0] == K_TAG) {
      add("K");
      for (int i = 0; i != 9; ++i)
        if (b.K[i] != K_TAG + i) vals += "K;";
    } else if (b.K[0] == KP_TAG) {
      add("Kpred");
      for (int i = 0; i != 9; ++i)
        if (b.K[i] != KP_TAG + i) vals += "Kpred;";
    } else {
      add("K?");
    }
  }
  if (changed(b.sos.get(), 6, 1)) {
    add("sos");
    if (b.sos[0] != SOS_VALUE) vals += "sos;";
  }
  std::string evs;
  for (const auto& e : events()) evs += (evs.empty() ? "" : ";") + e;
  int warnings = 0;
  {
    const auto c = captured.str();
    for (std::size_t pos = 0; (pos = c.find("Warning", pos)) != std::string::npos; ++pos) ++warnings;
  }
  std::ostringstream os;
  os << "ret=" << ret << " rdt=" << bits(b.rdt[0]) << " ev=" << evs << " wr=" << (wr.empty() ? "-" : wr)
     << " msg=" << (rq.msgbuf ? canon_msg(b.msg.get()) : std::string("nobuf")) << " warn=" << warnings
     << " vals=" << (vals.empty() ? "ok" : vals) << (escaped.empty() ? "" : " " + escaped);
  return os.str();
}

int main() {
  std::string line;
  while (std::getline(std::cin, line)) {
    std::istringstream is(line);
    std::string op;
    is >> op;
    if (op == "int") {
      std::cout << integrate_request(is) << "\n";
    } else if (op == "sm") {
      std::string k1;
      if (!(is >> k1)) {
        std::cout << "bad-op\n";
        continue;
      }
      double K[3] = {0, from_bits(k1), 0};
      const auto sm = mfront::gb::getStressMeasure(K);
      using SM = mfront::gb::StressMeasure;
      std::cout << "sm=" << (sm == SM::CAUCHY ? "CAUCHY" : (sm == SM::PK2 ? "PK2" : (sm == SM::PK1 ? "PK1" : "INVALID")))
                << "\n";
    } else if (op == "to") {
      std::string k0, k2;
      if (!(is >> k0 >> k2)) {
        std::cout << "bad-op\n";
        continue;
      }
      double K[3] = {from_bits(k0), 0, from_bits(k2)};
      const auto to = mfront::gb::getTangentOperator(K);
      using TO = mfront::gb::FiniteStrainTangentOperator;
      const char* n = "?";
      switch (to) {
        case TO::DSIG_DF: n = "DSIG_DF"; break;
        case TO::DS_DEGL: n = "DS_DEGL"; break;
        case TO::DPK1_DF: n = "DPK1_DF"; break;
        case TO::DTAU_DDF: n = "DTAU_DDF"; break;
        case TO::C_TRUESDELL: n = "C_TRUESDELL"; break;
        default: n = "other"; break;
      }
      std::cout << "to=" << n << "\n";
    } else {
      std::cout << "bad-op\n";
    }
  }
  return 0;
}
#endif /* C39_PART */
