// C39/C40 — second harness: the parts of Integrate.hxx that mfront::gb::integrate<Mock> does not reach.
//
//  * every overload of mfront::gb::exportTangentOperator (scalar, tvector, tmatrix, t2tost2, t2tot2,
//    st2tost2) and every alternative of the FiniteStrainBehaviourTangentOperator overload
//    (t2tot2, t2tot2*, t2tost2, t2tost2*, st2tost2, st2tost2*, empty), in 1D, 2D and 3D;
//  * mfront::gb::executeInitializeFunction and mfront::gb::executePostProcessing instantiated on a
//    scripted mock (policy handed over, return value, failure leaves s1 untouched, the pointers of
//    the caller's mfront_gb_BehaviourData swapped for the construction are restored).
//
// stdin : exp <kind> <N>
//         ini <pol W|S|N> <msgbuf 0|1> <ctor o|t> <init o|f|t|u|L> <fn o|t|u|L>
//         pp  <pol W|S|N> <msgbuf 0|1> <ctor o|t> <init o|f|t|u|L> <fn o|t|u|L> <ctor2 o|t>
// stdout: one canonical answer per line
#include <cstring>
#include <iostream>
#include <memory>
#include <sstream>
#include <stdexcept>
#include <string>
#include <vector>
#include "TFEL/Math/tvector.hxx"
#include "TFEL/Math/tmatrix.hxx"
#include "TFEL/Math/st2tost2.hxx"
#include "TFEL/Math/t2tost2.hxx"
#include "TFEL/Math/t2tot2.hxx"
#include "TFEL/Material/MechanicalBehaviour.hxx"
#include "TFEL/Material/MechanicalBehaviourTraits.hxx"
#include "TFEL/Material/FiniteStrainBehaviourTangentOperator.hxx"
#include "TFEL/Material/OutOfBoundsPolicy.hxx"
#include "MFront/GenericBehaviour/BehaviourData.h"
#include "MFront/GenericBehaviour/State.hxx"
#include "MFront/GenericBehaviour/Integrate.hxx"

namespace {

  constexpr double K_TAG = 3000.;
  constexpr double TF_TAG = 1000.;
  constexpr double ISV_TAG = 2000.;
  double sentinel(const int buffer, const int i) { return -(77000. + 100 * buffer + i) - 0.125; }

  // ------------------------------------------------------------------ exportTangentOperator
  template <typename Op>
  void fill(Op& k) {
    int i = 0;
    for (auto p = k.begin(); p != k.end(); ++p, ++i) *p = K_TAG + i;
  }

  //! calls the real exportTangentOperator and compares the buffer with the storage of the operator
  template <typename Arg>
  std::string export_and_check(const Arg& K, const std::size_t n) {
    constexpr std::size_t guard = 8;
    std::unique_ptr<double[]> v{new double[n + guard]};
    for (std::size_t i = 0; i != n + guard; ++i) v[i] = sentinel(4, static_cast<int>(i));
    try {
      mfront::gb::exportTangentOperator(v.get(), K);
    } catch (std::exception&) {
      for (std::size_t i = 0; i != n + guard; ++i) {
        const double s = sentinel(4, static_cast<int>(i));
        if (std::memcmp(&v[i], &s, sizeof(double)) != 0) return "raised-after-write@" + std::to_string(i);
      }
      return "raised";
    }
    for (std::size_t i = 0; i != n; ++i) {
      if (v[i] != K_TAG + static_cast<double>(i)) {
        std::ostringstream os;
        os << "bad@" << i << ":" << v[i];
        return os.str();
      }
    }
    for (std::size_t i = n; i != n + guard; ++i) {
      const double s = sentinel(4, static_cast<int>(i));
      if (std::memcmp(&v[i], &s, sizeof(double)) != 0) return "overrun@" + std::to_string(i);
    }
    return "ok:" + std::to_string(n);
  }

  template <unsigned short N>
  std::string export_request(const std::string& kind) {
    using namespace tfel::math;
    using FSTO = tfel::material::FiniteStrainBehaviourTangentOperator<N, double>;
    if (kind == "scalar") {
      return export_and_check(K_TAG, 1);
    } else if (kind == "tvector") {
      tvector<N, double> k;
      fill(k);
      return export_and_check(k, N);
    } else if (kind == "tmatrix") {
      tmatrix<N, N, double> k;
      fill(k);
      return export_and_check(k, N * N);
    } else if (kind == "t2tost2") {
      t2tost2<N, double> k;
      fill(k);
      return export_and_check(k, k.size());
    } else if (kind == "t2tot2") {
      t2tot2<N, double> k;
      fill(k);
      return export_and_check(k, k.size());
    } else if (kind == "st2tost2") {
      st2tost2<N, double> k;
      fill(k);
      return export_and_check(k, k.size());
    } else if (kind == "fs_t2tot2") {
      t2tot2<N, double> k;
      fill(k);
      FSTO K;
      K = k;
      return export_and_check(K, k.size());
    } else if (kind == "fs_t2tot2p") {
      t2tot2<N, double> k;
      fill(k);
      FSTO K;
      K = &k;
      return export_and_check(K, k.size());
    } else if (kind == "fs_t2tost2") {
      t2tost2<N, double> k;
      fill(k);
      FSTO K;
      K = k;
      return export_and_check(K, k.size());
    } else if (kind == "fs_t2tost2p") {
      t2tost2<N, double> k;
      fill(k);
      FSTO K;
      K = &k;
      return export_and_check(K, k.size());
    } else if (kind == "fs_st2tost2") {
      st2tost2<N, double> k;
      fill(k);
      FSTO K;
      K = k;
      return export_and_check(K, k.size());
    } else if (kind == "fs_st2tost2p") {
      st2tost2<N, double> k;
      fill(k);
      FSTO K;
      K = &k;
      return export_and_check(K, k.size());
    } else if (kind == "fs_empty") {
      FSTO K;
      return export_and_check(K, 0);
    }
    return "bad-op";
  }

  // ------------------------------------------------------------------ scripted mock for ini / pp
  struct Script2 {
    char ctor = 'o', init = 'o', fn = 'o', ctor2 = 'o';
  };
  Script2& script() {
    static Script2 s;
    return s;
  }
  std::vector<std::string>& events() {
    static std::vector<std::string> e;
    return e;
  }
  void ev(const std::string& s) { events().push_back(s); }
  int& ctor_count() {
    static int c = 0;
    return c;
  }
  //! addresses of the caller's buffers, to tell what the constructor is shown
  struct Layout {
    const double *g0, *g1, *mp0, *mp1, *esv0, *esv1, *tf0, *tf1, *isv0, *isv1;
    const double* values;
  };
  Layout& layout() {
    static Layout l;
    return l;
  }
  void maybe_throw(const char act, const char* const stage) {
    if (act == 't') throw std::runtime_error(stage);
    if (act == 'u') throw 42;
    if (act == 'L') throw std::runtime_error(std::string(600, 'x'));
  }

  struct Mock2Data {
    int serial = 0;
  };

  struct Mock2 : public Mock2Data, public tfel::material::MechanicalBehaviourBase {
    using real = double;
    using BehaviourData = Mock2Data;
    explicit Mock2(const mfront_gb_BehaviourData& d) {
      const auto& l = layout();
      this->serial = ++ctor_count();
      // which state does the constructor see through s1 (gradients, material properties, external
      // state variables) and through s0 (thermodynamic forces, internal state variables)?
      auto w = [](const double* const p, const double* const a0, const double* const a1) {
        return p == a0 ? '0' : (p == a1 ? '1' : '?');
      };
      std::string e = "ctor" + std::to_string(this->serial) + ":s1(g" + w(d.s1.gradients, l.g0, l.g1) + ",mp" +
                      w(d.s1.material_properties, l.mp0, l.mp1) + ",esv" + w(d.s1.external_state_variables, l.esv0, l.esv1) +
                      "),s0(tf" + w(d.s0.thermodynamic_forces, l.tf0, l.tf1) + ",isv" +
                      w(d.s0.internal_state_variables, l.isv0, l.isv1) + ")";
      ev(e);
      maybe_throw(this->serial == 1 ? script().ctor : script().ctor2, "ctor");
    }
    void setOutOfBoundsPolicy(const tfel::material::OutOfBoundsPolicy p) {
      ev(std::string("pol=") +
         (p == tfel::material::Strict ? "S" : (p == tfel::material::Warning ? "W" : (p == tfel::material::None ? "N" : "?"))));
    }
    void updateExternalStateVariables() { ev("upd"); }
    bool initialize() {
      ev("init");
      maybe_throw(script().init, "init");
      return script().init != 'f';
    }
    void initFn(const double* const v) {
      ev(std::string("fn(") + (v == layout().values ? "values" : "?") + ")");
      maybe_throw(script().fn, "fn");
    }
    void ppFn(double* const v, const Mock2Data& initial_state) {
      ev(std::string("pp(") + (v == layout().values ? "values" : "?") + ",initial_state=ctor" +
         std::to_string(initial_state.serial) + ")");
      maybe_throw(script().fn, "fn");
      v[0] = 4242.;
    }
    void exportStateData(mfront::gb::State& s) const {
      ev("exp");
      for (unsigned short i = 0; i != 6; ++i) s.thermodynamic_forces[i] = TF_TAG + i;
      for (unsigned short i = 0; i != 3; ++i) s.internal_state_variables[i] = ISV_TAG + i;
    }
  };

  std::string canon_msg(const char* const m) {
    const std::string s(m);
    if (s.size() > 100) {
      for (const auto c : s)
        if (c != 'x') return "long-garbled";
      return "long" + std::to_string(s.size());
    }
    std::string r;
    for (const auto c : s) r += (c == ' ') ? '_' : c;
    return r.empty() ? "empty" : r;
  }

  std::string state_request(const bool post, std::istringstream& is) {
    char pol;
    int msgbuf;
    Script2& s = script();
    s = Script2{};
    if (!(is >> pol >> msgbuf >> s.ctor >> s.init >> s.fn)) return "bad-op";
    if (post && !(is >> s.ctor2)) return "bad-op";
    tfel::material::OutOfBoundsPolicy p;
    if (pol == 'W') {
      p = tfel::material::Warning;
    } else if (pol == 'S') {
      p = tfel::material::Strict;
    } else if (pol == 'N') {
      p = tfel::material::None;
    } else {
      return "bad-op";
    }
    events().clear();
    ctor_count() = 0;
    double g0[6], g1[6], tf0[6], tf1[6], isv0[3], isv1[3], se0[1] = {11}, se1[1], de0[1] = {13}, de1[1], rho0[1] = {2},
                                                           rho1[1] = {3}, mp0[1] = {1}, mp1[1] = {1}, esv0[1] = {293.15},
                                                           esv1[1] = {300.}, K[9], rdt[1] = {1}, sos[1], values[4];
    char msg[512];
    for (int i = 0; i != 6; ++i) {
      g0[i] = 0.25 * i;
      g1[i] = 0.5 * i;
      tf0[i] = 10. + i;
      tf1[i] = sentinel(0, i);
    }
    for (int i = 0; i != 3; ++i) {
      isv0[i] = 0.5 * i;
      isv1[i] = sentinel(1, i);
    }
    se1[0] = sentinel(2, 0);
    de1[0] = sentinel(3, 0);
    for (int i = 0; i != 9; ++i) K[i] = sentinel(4, i);
    sos[0] = sentinel(6, 0);
    for (int i = 0; i != 4; ++i) values[i] = sentinel(7, i);
    std::strcpy(msg, "-");
    layout() = Layout{g0, g1, mp0, mp1, esv0, esv1, tf0, tf1, isv0, isv1, values};
    mfront_gb_BehaviourData d;
    d.error_message = msgbuf != 0 ? msg : nullptr;
    d.dt = 1;
    d.K = K;
    d.rdt = rdt;
    d.speed_of_sound = sos;
    d.s0.gradients = g0;
    d.s0.thermodynamic_forces = tf0;
    d.s0.mass_density = rho0;
    d.s0.material_properties = mp0;
    d.s0.internal_state_variables = isv0;
    d.s0.stored_energy = se0;
    d.s0.dissipated_energy = de0;
    d.s0.external_state_variables = esv0;
    d.s1.gradients = g1;
    d.s1.thermodynamic_forces = tf1;
    d.s1.mass_density = rho1;
    d.s1.material_properties = mp1;
    d.s1.internal_state_variables = isv1;
    d.s1.stored_energy = se1;
    d.s1.dissipated_energy = de1;
    d.s1.external_state_variables = esv1;
    const mfront_gb_BehaviourData before = d;
    int ret = -99;
    std::string escaped;
    try {
      if (post) {
        ret = mfront::gb::executePostProcessing<Mock2, &Mock2::ppFn, true>(values, d, p);
      } else {
        ret = mfront::gb::executeInitializeFunction<Mock2, &Mock2::initFn>(d, values, p);
      }
    } catch (...) {
      escaped = "escaped-exception";
    }
    std::string wr;
    auto add = [&wr](const char* const n) { wr += (wr.empty() ? "" : ",") + std::string(n); };
    auto changed = [](const double* const v, const int buffer, const int n) {
      for (int i = 0; i != n; ++i) {
        const double sv = sentinel(buffer, i);
        if (std::memcmp(&v[i], &sv, sizeof(double)) != 0) return true;
      }
      return false;
    };
    std::string vals;
    if (changed(tf1, 0, 6)) {
      add("tf");
      for (int i = 0; i != 6; ++i)
        if (tf1[i] != TF_TAG + i) vals += "tf;";
    }
    if (changed(isv1, 1, 3)) {
      add("isv");
      for (int i = 0; i != 3; ++i)
        if (isv1[i] != ISV_TAG + i) vals += "isv;";
    }
    if (changed(se1, 2, 1)) add("se");
    if (changed(de1, 3, 1)) add("de");
    if (changed(K, 4, 9)) add("K");
    if (changed(sos, 6, 1)) add("sos");
    if (changed(values, 7, 4)) {
      add("values");
      if (values[0] != 4242.) vals += "values;";
      for (int i = 1; i != 4; ++i) {
        const double sv = sentinel(7, i);
        if (std::memcmp(&values[i], &sv, sizeof(double)) != 0) vals += "values;";
      }
    }
    // initial-state buffers must never be written
    for (int i = 0; i != 6; ++i)
      if (g0[i] != 0.25 * i || g1[i] != 0.5 * i || tf0[i] != 10. + i) vals += "input-modified;";
    for (int i = 0; i != 3; ++i)
      if (isv0[i] != 0.5 * i) vals += "input-modified;";
    // the pointers of the caller's structure after the call
    std::string ptr;
    auto cmp = [&ptr](const char* const n, const void* const a, const void* const b) {
      if (a != b) ptr += (ptr.empty() ? "" : ",") + std::string(n);
    };
    cmp("s0.gradients", d.s0.gradients, before.s0.gradients);
    cmp("s0.thermodynamic_forces", d.s0.thermodynamic_forces, before.s0.thermodynamic_forces);
    cmp("s0.internal_state_variables", d.s0.internal_state_variables, before.s0.internal_state_variables);
    cmp("s0.material_properties", d.s0.material_properties, before.s0.material_properties);
    cmp("s0.external_state_variables", d.s0.external_state_variables, before.s0.external_state_variables);
    cmp("s1.gradients", d.s1.gradients, before.s1.gradients);
    cmp("s1.thermodynamic_forces", d.s1.thermodynamic_forces, before.s1.thermodynamic_forces);
    cmp("s1.internal_state_variables", d.s1.internal_state_variables, before.s1.internal_state_variables);
    cmp("s1.material_properties", d.s1.material_properties, before.s1.material_properties);
    cmp("s1.external_state_variables", d.s1.external_state_variables, before.s1.external_state_variables);
    std::string evs;
    for (const auto& e : events()) evs += (evs.empty() ? "" : ";") + e;
    std::ostringstream os;
    os << "ret=" << ret << " ev=" << evs << " wr=" << (wr.empty() ? "-" : wr)
       << " msg=" << (msgbuf != 0 ? canon_msg(msg) : std::string("nobuf")) << " ptr=" << (ptr.empty() ? "restored" : ptr)
       << " vals=" << (vals.empty() ? "ok" : vals) << (escaped.empty() ? "" : " " + escaped);
    return os.str();
  }

}  // namespace

int main() {
  std::string line;
  while (std::getline(std::cin, line)) {
    std::istringstream is(line);
    std::string op;
    is >> op;
    if (op == "exp") {
      std::string kind;
      int N = 0;
      if (!(is >> kind >> N)) {
        std::cout << "bad-op\n";
        continue;
      }
      std::string r;
      try {
        r = N == 1 ? export_request<1u>(kind) : (N == 2 ? export_request<2u>(kind) : (N == 3 ? export_request<3u>(kind) : "bad-op"));
      } catch (...) {
        r = "escaped-exception";
      }
      std::cout << "exp=" << r << "\n";
    } else if (op == "ini") {
      std::cout << state_request(false, is) << "\n";
    } else if (op == "pp") {
      std::cout << state_request(true, is) << "\n";
    } else {
      std::cout << "bad-op\n";
    }
  }
  return 0;
}
